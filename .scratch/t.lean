import KinModel.ConcCase
open KinModel.Conc
#eval outcome busyCase
def busyCase : CaseM :=
  { ops := [ { kind := .frg }, { kind := .frl },
             { kind := .vreq, patterns := [0, 1], arrays := true, defaultsOn := true },
             { kind := .vresp, patterns := [1], arrays := true },
             { kind := .visit, patterns := [2], defaultsOn := true },
             { kind := .gen, genType := 3 } ],
    g := 4, per := 2, sched := 7 }
#eval (caseTrace busyCase).length
#eval outcome busyCase
