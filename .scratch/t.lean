#check @Nat.iterate
#print Nat.iterate
example (f : Nat → Nat) : f^[2] 0 = f (f 0) := rfl
