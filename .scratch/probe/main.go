package main

import (
	"context"
	"fmt"
	"net/http"
	"net/url"

	"github.com/getkin/kin-openapi/openapi3"
	"github.com/getkin/kin-openapi/routers"
	"github.com/getkin/kin-openapi/routers/gorillamux"
	"github.com/getkin/kin-openapi/routers/legacy"
)

func op() *openapi3.Operation {
	return &openapi3.Operation{Responses: openapi3.NewResponses(openapi3.WithStatus(200, &openapi3.ResponseRef{Value: openapi3.NewResponse().WithDescription("ok")}))}
}

func srvIdx(doc *openapi3.T, pi *openapi3.PathItem, s *openapi3.Server) string {
	if s == nil {
		return "nil"
	}
	for i, x := range doc.Servers {
		if x == s {
			return fmt.Sprint("doc#", i)
		}
	}
	if pi != nil {
		for i, x := range pi.Servers {
			if x == s {
				return fmt.Sprint("path#", i)
			}
		}
	}
	return "foreign:" + s.URL
}

func try(name string, r routers.Router, doc *openapi3.T, method, u string) {
	pu, err := url.Parse(u)
	if err != nil {
		fmt.Println(name, method, u, "parse error", err)
		return
	}
	req := &http.Request{Method: method, URL: pu, Host: pu.Host, Header: http.Header{}}
	route, ps, err := r.FindRoute(req)
	if err != nil {
		fmt.Printf("%-8s %s %-40s -> err %v\n", name, method, u, err)
		return
	}
	fmt.Printf("%-8s %s %-40s -> %s params=%v server=%s\n", name, method, u, route.Path, ps, srvIdx(doc, route.PathItem, route.Server))
}

func main() {
	// 1. path-level servers
	doc := &openapi3.T{OpenAPI: "3.0.3", Info: &openapi3.Info{Title: "t", Version: "1"}, Paths: openapi3.NewPaths()}
	doc.Servers = openapi3.Servers{{URL: "/v1"}, {URL: "/v2"}}
	doc.Paths.Set("/a", &openapi3.PathItem{Get: op(), Servers: openapi3.Servers{{URL: "/p"}}})
	doc.Paths.Set("/b", &openapi3.PathItem{Get: op()})
	doc.Paths.Set("/0", &openapi3.PathItem{Get: op()})
	doc.Paths.Set("/z", &openapi3.PathItem{Get: op()})
	if err := doc.Validate(context.Background()); err != nil {
		fmt.Println("validate", err)
	}
	g, err := gorillamux.NewRouter(doc)
	fmt.Println("gorilla err", err)
	l, err := legacy.NewRouter(doc)
	fmt.Println("legacy err", err)
	for _, u := range []string{"/v1/a", "/v2/a", "/p/a", "/v1/b", "/v2/b", "/p/b", "/v1/z", "/p/z", "/v1/0", "/p/0", "/v2/0"} {
		try("gorilla", g, doc, "GET", u)
		try("legacy", l, doc, "GET", u)
	}
	// 2. /a and /a/
	for i := 0; i < 6; i++ {
		doc2 := &openapi3.T{OpenAPI: "3.0.3", Info: &openapi3.Info{Title: "t", Version: "1"}, Paths: openapi3.NewPaths()}
		doc2.Paths.Set("/a", &openapi3.PathItem{Get: op()})
		doc2.Paths.Set("/a/", &openapi3.PathItem{Get: op()})
		if err := doc2.Validate(context.Background()); err != nil {
			fmt.Println("validate2", err)
		}
		l2, _ := legacy.NewRouter(doc2)
		try("legacy", l2, doc2, "GET", "/a")
		try("legacy", l2, doc2, "GET", "/a/")
		g2, _ := gorillamux.NewRouter(doc2)
		try("gorilla", g2, doc2, "GET", "/a")
		try("gorilla", g2, doc2, "GET", "/a/")
	}
	// 3. /a/{x} /a/{y}
	doc3 := &openapi3.T{OpenAPI: "3.0.3", Info: &openapi3.Info{Title: "t", Version: "1"}, Paths: openapi3.NewPaths()}
	mk := func(n string) *openapi3.PathItem {
		o := op()
		o.Parameters = openapi3.Parameters{{Value: &openapi3.Parameter{Name: n, In: "path", Required: true, Schema: openapi3.NewStringSchema().NewRef()}}}
		return &openapi3.PathItem{Get: o}
	}
	doc3.Paths.Set("/a/{x}", mk("x"))
	doc3.Paths.Set("/a/{y}", mk("y"))
	fmt.Println("validate3", doc3.Validate(context.Background()))
	// 4. percent-encoding
	doc4 := &openapi3.T{OpenAPI: "3.0.3", Info: &openapi3.Info{Title: "t", Version: "1"}, Paths: openapi3.NewPaths()}
	doc4.Paths.Set("/a/{x}", mk("x"))
	doc4.Paths.Set("/a/b c", &openapi3.PathItem{Get: op()})
	fmt.Println("validate4", doc4.Validate(context.Background()))
	g4, err := gorillamux.NewRouter(doc4)
	fmt.Println(err)
	l4, _ := legacy.NewRouter(doc4)
	for _, u := range []string{"/a/b%2Fc", "/a/b%20c", "/a/%62", "/a/b%3Fc", "/a/%7Bx%7D"} {
		try("gorilla", g4, doc4, "GET", u)
		try("legacy", l4, doc4, "GET", u)
	}
}
