package openapi3filter_test

import (
	"context"
	"fmt"
	"io"
	"net/http"
	"strings"
	"testing"

	"github.com/getkin/kin-openapi/openapi3"
	"github.com/getkin/kin-openapi/openapi3filter"
	"github.com/getkin/kin-openapi/routers/gorillamux"
)

func probe(t *testing.T, spec string, method, url, ctype, body string, hdr map[string]string) {
	loader := openapi3.NewLoader()
	doc, err := loader.LoadFromData([]byte(spec))
	if err != nil {
		t.Fatal(err)
	}
	if err := doc.Validate(loader.Context); err != nil {
		fmt.Println("doc.Validate:", err)
	}
	router, err := gorillamux.NewRouter(doc)
	if err != nil {
		t.Fatal(err)
	}
	var rd io.Reader
	if body != "" {
		rd = strings.NewReader(body)
	}
	req, _ := http.NewRequest(method, url, rd)
	if ctype != "" {
		req.Header.Set("Content-Type", ctype)
	}
	for k, v := range hdr {
		req.Header.Set(k, v)
	}
	route, pp, err := router.FindRoute(req)
	if err != nil {
		t.Fatal(err)
	}
	for i := 1; i <= 2; i++ {
		in := &openapi3filter.RequestValidationInput{Request: req, PathParams: pp, Route: route}
		err = openapi3filter.ValidateRequest(context.Background(), in)
		var b []byte
		if req.Body != nil {
			b, _ = io.ReadAll(req.Body)
			req.Body = io.NopCloser(strings.NewReader(string(b)))
		}
		e := fmt.Sprint(err)
		if len(e) > 200 {
			e = e[:200]
		}
		fmt.Printf("  pass %d: err=%s | query=%q cookie=%q body=%q\n", i, strings.ReplaceAll(e, "\n", " "), req.URL.RawQuery, req.Header.Get("Cookie"), string(b))
	}
}

func TestProbeCookieContent(t *testing.T) {
	spec := `{"openapi":"3.0.0","info":{"title":"t","version":"1"},"paths":{"/x":{"get":{"parameters":[
	 {"name":"ck","in":"cookie","content":{"application/json":{"schema":{"type":"integer"}}}}],
	 "responses":{"200":{"description":"ok"}}}}}}`
	fmt.Println("optional content-described cookie parameter, absent:")
	probe(t, spec, "GET", "http://example.com/x", "", "", nil)
}

func TestProbeForm(t *testing.T) {
	spec := `{"openapi":"3.0.0","info":{"title":"t","version":"1"},"paths":{"/x":{"post":{"requestBody":{"required":true,"content":{
	 "application/x-www-form-urlencoded":{"schema":{"type":"object","properties":{"a":{"type":"string"},"d":{"type":"integer","default":7}}}},
	 "application/yaml":{"schema":{"type":"object","properties":{"a":{"type":"string"},"d":{"type":"integer","default":7}}}},
	 "multipart/form-data":{"schema":{"type":"object","properties":{"a":{"type":"string"},"d":{"type":"integer","default":7}}}}
	 }},"responses":{"200":{"description":"ok"}}}}}}`
	fmt.Println("urlencoded body a=x, property d has default 7:")
	probe(t, spec, "POST", "http://example.com/x", "application/x-www-form-urlencoded", "a=x", nil)
	fmt.Println("urlencoded body a=x&d=1 (nothing to default):")
	probe(t, spec, "POST", "http://example.com/x", "application/x-www-form-urlencoded", "a=x&d=1", nil)
	fmt.Println("yaml body 'a: x':")
	probe(t, spec, "POST", "http://example.com/x", "application/yaml", "a: x\n", nil)
	fmt.Println("multipart body with part a only:")
	probe(t, spec, "POST", "http://example.com/x", "multipart/form-data; boundary=XX", "--XX\r\nContent-Disposition: form-data; name=\"a\"\r\n\r\nx\r\n--XX--\r\n", nil)
}
