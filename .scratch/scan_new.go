// origin of a reference held by an expression, relative to the enclosing function
type swOrigin struct {
	kind   string // "param" | "global" | "call"
	param  int    // index into fnInfo.params (0 = receiver) when kind == "param"
	global *types.Var
}

type swCand struct {
	row     swRow
	fi      *fnInfo
	origins []swOrigin
}

type fnInfo struct {
	sf       *swFunc
	params   []types.Object // 0 = receiver (nil for plain functions), then the parameters in order
	lf       map[types.Object]bool
	orig     map[types.Object][]swOrigin
	docAlias map[types.Object]bool
}

type swCallSite struct {
	caller *fnInfo
	call   *ast.CallExpr
}

func (fi *fnInfo) paramIndex(o types.Object) int {
	for i, p := range fi.params {
		if p != nil && p == o {
			return i
		}
	}
	return -1
}

func addOrigin(l []swOrigin, o swOrigin) ([]swOrigin, bool) {
	for _, e := range l {
		if e == o {
			return l, false
		}
	}
	return append(l, o), true
}

func (x *swx) info(sf *swFunc) *fnInfo {
	if fi, ok := x.infos[sf.obj]; ok {
		return fi
	}
	p := sf.pkg
	info := p.TypesInfo
	fi := &fnInfo{sf: sf, orig: map[types.Object][]swOrigin{}, docAlias: map[types.Object]bool{}}
	x.infos[sf.obj] = fi
	fi.params = append(fi.params, nil)
	if sf.decl.Recv != nil && len(sf.decl.Recv.List) == 1 && len(sf.decl.Recv.List[0].Names) == 1 {
		fi.params[0] = info.Defs[sf.decl.Recv.List[0].Names[0]]
	}
	for _, fld := range sf.decl.Type.Params.List {
		if len(fld.Names) == 0 {
			fi.params = append(fi.params, nil)
		}
		for _, n := range fld.Names {
			fi.params = append(fi.params, info.Defs[n])
		}
	}
	fi.lf = x.localFresh(p, sf.decl.Body, sf.decl)
	// origins and document aliases of the non-fresh locals (flow-insensitive fixpoint)
	type asg struct {
		v   types.Object
		rhs ast.Expr
	}
	var asgs []asg
	objOf := func(id *ast.Ident) types.Object {
		if o := info.Defs[id]; o != nil {
			return o
		}
		return info.Uses[id]
	}
	ast.Inspect(sf.decl.Body, func(n ast.Node) bool {
		switch n := n.(type) {
		case *ast.AssignStmt:
			for i, l := range n.Lhs {
				id, ok := l.(*ast.Ident)
				if !ok || id.Name == "_" {
					continue
				}
				o := objOf(id)
				if o == nil || !isRefTypeDeep(o.Type()) {
					continue
				}
				if len(n.Rhs) == len(n.Lhs) {
					asgs = append(asgs, asg{o, n.Rhs[i]})
				} else if len(n.Rhs) == 1 && i == 0 {
					asgs = append(asgs, asg{o, n.Rhs[0]}) // v, ok := m[k] / x.(T) / f()
				} else {
					asgs = append(asgs, asg{o, nil})
				}
			}
		case *ast.ValueSpec:
			for i, id := range n.Names {
				if o := objOf(id); o != nil && isRefTypeDeep(o.Type()) && len(n.Values) == len(n.Names) {
					asgs = append(asgs, asg{o, n.Values[i]})
				}
			}
		case *ast.RangeStmt:
			for _, e := range []ast.Expr{n.Key, n.Value} {
				if id, ok := e.(*ast.Ident); ok && id.Name != "_" {
					if o := objOf(id); o != nil && isRefTypeDeep(o.Type()) {
						// an element of the container: same origin; reached through the container
						asgs = append(asgs, asg{o, &ast.IndexExpr{X: n.X, Index: &ast.BasicLit{Kind: token.INT, Value: "0"}}})
					}
				}
			}
		}
		return true
	})
	for changed := true; changed; {
		changed = false
		for _, a := range asgs {
			if fi.lf[a.v] {
				continue
			}
			var os []swOrigin
			doc := false
			if a.rhs == nil {
				os = []swOrigin{{kind: "call"}}
			} else {
				os, doc = x.originsOf(fi, a.rhs)
			}
			for _, o := range os {
				var ch bool
				if fi.orig[a.v], ch = addOrigin(fi.orig[a.v], o); ch {
					changed = true
				}
			}
			if (doc || x.isDocNamed(a.v.Type()) || x.isDocStruct(a.v.Type())) && !fi.docAlias[a.v] {
				fi.docAlias[a.v] = true
				changed = true
			}
		}
	}
	return fi
}

// originsOf: where can the reference held by e come from; doc = the expression passes through document state.
func (x *swx) originsOf(fi *fnInfo, e ast.Expr) ([]swOrigin, bool) {
	p := fi.sf.pkg
	if x.freshExpr(p, e, fi.lf) {
		return nil, false
	}
	if u, ok := e.(*ast.UnaryExpr); ok && u.Op == token.AND {
		e = u.X
	}
	w := x.walkLHS(p, e)
	if w.unread {
		return []swOrigin{{kind: "call"}}, false
	}
	switch r := w.root.(type) {
	case *ast.Ident:
		obj := p.TypesInfo.Uses[r]
		if obj == nil {
			obj = p.TypesInfo.Defs[r]
		}
		v, _ := obj.(*types.Var)
		if v == nil {
			return nil, false
		}
		if v.Pkg() != nil && v.Parent() == v.Pkg().Scope() {
			return []swOrigin{{kind: "global", global: v}}, w.docField
		}
		if i := fi.paramIndex(v); i >= 0 {
			return []swOrigin{{kind: "param", param: i}}, w.docField
		}
		if fi.lf[v] {
			return nil, false
		}
		if os := fi.orig[v]; len(os) > 0 {
			return os, w.docField || fi.docAlias[v]
		}
		return []swOrigin{{kind: "call"}}, w.docField || fi.docAlias[v]
	case *ast.CallExpr:
		if f := calleeOf(p, r); f != nil && x.fresh[f] {
			return nil, false
		}
		return []swOrigin{{kind: "call"}}, w.docField
	}
	return []swOrigin{{kind: "call"}}, false
}

func (x *swx) scan() {
	var fs []*swFunc
	for f := range x.reachable {
		if sf := x.funcs[f]; sf != nil {
			fs = append(fs, sf)
		}
	}
	sort.Slice(fs, func(i, j int) bool { return fs[i].decl.Pos() < fs[j].decl.Pos() })
	// call sites of every library function inside reachable functions
	x.sites = map[*types.Func][]swCallSite{}
	for _, sf := range fs {
		fi := x.info(sf)
		ast.Inspect(sf.decl.Body, func(n ast.Node) bool {
			call, ok := n.(*ast.CallExpr)
			if !ok {
				return true
			}
			for _, t := range x.callTargets(sf, call) {
				x.sites[t] = append(x.sites[t], swCallSite{fi, call})
			}
			return true
		})
	}
	var cands []swCand
	for _, sf := range fs {
		cands = append(cands, x.scanFunc(x.info(sf))...)
	}
	// propagate writes made through a parameter to the callers, up to the entry points
	isRoot := map[*types.Func]bool{}
	for _, r := range x.roots {
		isRoot[r] = true
	}
	type item struct {
		f   *types.Func
		idx int
		key string
	}
	seen := map[item]bool{}
	emitted := map[string]bool{}
	emit := func(row swRow) {
		k := fmt.Sprintf("%s:%d:%s:%s:%s", row.file, row.line, row.target, row.root, row.sync)
		if !emitted[k] {
			emitted[k] = true
			x.rows = append(x.rows, row)
		}
	}
	var prop func(fi *fnInfo, o swOrigin, row swRow)
	prop = func(fi *fnInfo, o swOrigin, row swRow) {
		switch o.kind {
		case "global":
			row.root, row.global = "viaGlobal", o.global.Name()
			emit(row)
			return
		case "call":
			row.root = "call"
			emit(row)
			return
		}
		it := item{fi.sf.obj, o.param, fmt.Sprintf("%s:%d:%s", row.file, row.line, row.target)}
		if seen[it] {
			return
		}
		seen[it] = true
		if isRoot[fi.sf.obj] {
			r := row
			r.root = "param"
			r.via = funcName(fi.sf.obj)
			emit(r)
		}
		sites := x.sites[fi.sf.obj]
		if len(sites) == 0 && !isRoot[fi.sf.obj] {
			r := row
			r.root = "call" // reachable only as a function value: the argument is unknown
			emit(r)
		}
		for _, s := range sites {
			var arg ast.Expr
			if o.param == 0 {
				if sel, ok := s.call.Fun.(*ast.SelectorExpr); ok {
					if _, isMethod := s.caller.sf.pkg.TypesInfo.Selections[sel]; isMethod {
						arg = sel.X
					}
				}
			} else if o.param-1 < len(s.call.Args) {
				arg = s.call.Args[o.param-1]
			}
			if arg == nil {
				r := row
				r.root = "call"
				emit(r)
				continue
			}
			os, _ := x.originsOf(s.caller, arg)
			for _, o2 := range os {
				prop(s.caller, o2, row)
			}
		}
	}
	for _, c := range cands {
		if c.row.root == "global" {
			emit(c.row)
			continue
		}
		for _, o := range c.origins {
			prop(c.fi, o, c.row)
		}
	}
}

// callTargets: library functions a call expression may invoke (static callee, implementations of an
// interface method, or every value-used function with the signature of a called function value).
func (x *swx) callTargets(sf *swFunc, n *ast.CallExpr) []*types.Func {
	info := sf.pkg.TypesInfo
	if f := calleeOf(sf.pkg, n); f != nil {
		return x.resolve(f)
	}
	tv, ok := info.Types[n.Fun]
	if !ok || tv.IsType() || tv.IsBuiltin() {
		return nil
	}
	if _, isLit := ast.Unparen(n.Fun).(*ast.FuncLit); isLit {
		return nil
	}
	sig, ok := tv.Type.Underlying().(*types.Signature)
	if !ok {
		return nil
	}
	var out []*types.Func
	for f := range x.valueUsed {
		if _, lib := x.funcs[f]; !lib {
			continue
		}
		fs := f.Type().(*types.Signature)
		if fs.Recv() != nil {
			continue // method values: receiver unknown at the call
		}
		if types.Identical(types.NewSignatureType(nil, nil, nil, fs.Params(), fs.Results(), fs.Variadic()),
			types.NewSignatureType(nil, nil, nil, sig.Params(), sig.Results(), sig.Variadic())) {
			out = append(out, f)
		}
	}
	sort.Slice(out, func(i, j int) bool { return funcName(out[i]) < funcName(out[j]) })
	return out
}

func (x *swx) scanFunc(fi *fnInfo) []swCand {
	sf := fi.sf
	p := sf.pkg
	info := p.TypesInfo
	var cands []swCand
	// mutex regions: positions of Lock / Unlock / defer Unlock calls on sync mutexes
	type lockEv struct {
		pos    token.Pos
		lock   bool
		defer_ bool
		name   string
	}
	var locks []lockEv
	var onceLits []*ast.FuncLit
	ast.Inspect(sf.decl.Body, func(n ast.Node) bool {
		isDefer := false
		var call *ast.CallExpr
		switch n := n.(type) {
		case *ast.DeferStmt:
			call, isDefer = n.Call, true
		case *ast.ExprStmt:
			call, _ = n.X.(*ast.CallExpr)
		}
		if call == nil {
			return true
		}
		sel, ok := call.Fun.(*ast.SelectorExpr)
		if !ok {
			return true
		}
		f, _ := info.Uses[sel.Sel].(*types.Func)
		if f == nil || f.Pkg() == nil || f.Pkg().Path() != "sync" {
			return true
		}
		switch f.Name() {
		case "Lock":
			locks = append(locks, lockEv{call.Pos(), true, false, x.text(sel.X)})
		case "Unlock":
			locks = append(locks, lockEv{call.Pos(), false, isDefer, x.text(sel.X)})
		case "Do":
			if len(call.Args) == 1 {
				if lit, ok := call.Args[0].(*ast.FuncLit); ok {
					onceLits = append(onceLits, lit)
				}
			}
		}
		return true
	})
	sort.Slice(locks, func(i, j int) bool { return locks[i].pos < locks[j].pos })
	underMutex := func(pos token.Pos) bool {
		held := map[string]bool{}
		deferred := map[string]bool{}
		for _, l := range locks {
			if l.pos > pos {
				break
			}
			if l.lock {
				held[l.name] = true
			} else if l.defer_ {
				deferred[l.name] = true
			} else {
				held[l.name] = false
			}
		}
		for n, h := range held {
			if !h {
				continue
			}
			if deferred[n] {
				return true
			}
			for _, l := range locks { // an Unlock must follow
				if l.pos > pos && !l.lock && l.name == n {
					return true
				}
			}
		}
		return false
	}
	inOnce := func(pos token.Pos) bool {
		for _, l := range onceLits {
			if l.Pos() <= pos && pos < l.End() {
				return true
			}
		}
		return false
	}
	// nil guards: if X == nil { X = e }
	guard := map[ast.Stmt]*types.Var{}
	ast.Inspect(sf.decl.Body, func(n ast.Node) bool {
		ifs, ok := n.(*ast.IfStmt)
		if !ok || ifs.Init != nil {
			return true
		}
		be, ok := ifs.Cond.(*ast.BinaryExpr)
		if !ok || be.Op != token.EQL {
			return true
		}
		id, ok := be.X.(*ast.Ident)
		nl, ok2 := be.Y.(*ast.Ident)
		if !ok || !ok2 || nl.Name != "nil" {
			return true
		}
		v, _ := info.Uses[id].(*types.Var)
		if v == nil || v.Pkg() == nil || v.Parent() != v.Pkg().Scope() {
			return true
		}
		for _, st := range ifs.Body.List {
			guard[st] = v
		}
		return true
	})

	record := func(at ast.Node, lhs ast.Expr, stmt ast.Stmt, forceSync string) {
		w := x.walkLHS(p, lhs)
		file, line := x.pos(at.Pos())
		if w.unread {
			x.unrec = append(x.unrec, fmt.Sprintf("%s:%d write through an unread shape: %s", file, line, x.text(lhs)))
			return
		}
		row := swRow{file: file, line: line, fn: funcName(sf.obj), target: x.text(lhs), sync: "none"}
		var origins []swOrigin
		switch r := w.root.(type) {
		case *ast.Ident:
			if r.Name == "_" {
				return
			}
			obj := info.Uses[r]
			if obj == nil {
				obj = info.Defs[r]
			}
			v, _ := obj.(*types.Var)
			if v == nil {
				return
			}
			if v.Pkg() != nil && v.Parent() == v.Pkg().Scope() {
				row.root = "global"
				row.global = v.Name()
				if gv, ok := guard[stmt]; ok && gv == v && !w.deref {
					if x.declInit[v] {
						row.sync = "nilGuardInit"
					} else {
						row.sync = "nilGuardNoInit"
					}
				}
			} else {
				if !w.deref {
					return // the variable itself: local storage
				}
				if fi.lf[v] {
					return // freshly allocated in this function
				}
				if !w.docField && !fi.docAlias[v] {
					return // per-call structure (not a document type)
				}
				if i := fi.paramIndex(v); i >= 0 {
					origins = []swOrigin{{kind: "param", param: i}}
				} else if os := fi.orig[v]; len(os) > 0 {
					origins = os
				} else {
					origins = []swOrigin{{kind: "call"}}
				}
			}
		case *ast.CallExpr:
			if !w.deref || !w.docField {
				return
			}
			if f := calleeOf(p, r); f != nil && x.fresh[f] {
				return
			}
			origins = []swOrigin{{kind: "call"}}
		}
		if forceSync != "" {
			row.sync = forceSync
		} else if row.sync == "none" {
			if underMutex(at.Pos()) {
				row.sync = "mutex"
			} else if inOnce(at.Pos()) {
				row.sync = "once"
			}
		}
		cands = append(cands, swCand{row: row, fi: fi, origins: origins})
	}

	var curStmt ast.Stmt
	ast.Inspect(sf.decl.Body, func(n ast.Node) bool {
		if st, ok := n.(ast.Stmt); ok {
			switch st.(type) {
			case *ast.AssignStmt, *ast.IncDecStmt, *ast.ExprStmt:
				curStmt = st
			}
		}
		elemOf := func(c ast.Expr) ast.Expr {
			return &ast.IndexExpr{X: c, Index: &ast.BasicLit{Kind: token.INT, Value: "0"}, Lbrack: c.End(), Rbrack: c.End()}
		}
		switch n := n.(type) {
		case *ast.AssignStmt:
			for _, l := range n.Lhs {
				if _, ok := l.(*ast.Ident); ok && n.Tok == token.DEFINE {
					continue
				}
				record(n, l, n, "")
			}
		case *ast.IncDecStmt:
			record(n, n.X, n, "")
		case *ast.CallExpr:
			if id, ok := n.Fun.(*ast.Ident); ok {
				if _, isB := info.Uses[id].(*types.Builtin); isB && len(n.Args) > 0 {
					switch id.Name {
					case "delete", "copy", "clear":
						record(n, elemOf(n.Args[0]), curStmt, "") // the container's elements are written
					}
				}
				return true
			}
			sel, ok := n.Fun.(*ast.SelectorExpr)
			if !ok {
				return true
			}
			f, _ := info.Uses[sel.Sel].(*types.Func)
			if f == nil || f.Pkg() == nil {
				return true
			}
			switch f.Pkg().Path() {
			case "sort", "slices":
				nm := f.Name()
				if (strings.HasPrefix(nm, "Sort") || nm == "Strings" || nm == "Ints" || nm == "Float64s" ||
					nm == "Slice" || nm == "SliceStable" || nm == "Stable" || nm == "Reverse") && len(n.Args) > 0 {
					arg := n.Args[0]
					if c, ok := arg.(*ast.CallExpr); ok && len(c.Args) == 1 { // sort.Sort(byX(s))
						if tv, ok := info.Types[c.Fun]; ok && tv.IsType() {
							arg = c.Args[0]
						}
					}
					if t, ok := info.Types[arg]; ok && t.Type != nil {
						if _, isSlice := t.Type.Underlying().(*types.Slice); isSlice {
							record(n, elemOf(arg), curStmt, "")
						}
					}
				}
			case "sync":
				sig := f.Type().(*types.Signature)
				if sig.Recv() == nil {
					return true
				}
				if strings.HasSuffix(sig.Recv().Type().String(), "sync.Map") {
					switch f.Name() {
					case "Store", "LoadOrStore", "LoadAndDelete", "Delete", "Swap", "CompareAndSwap", "CompareAndDelete", "Clear":
						record(n, sel.X, curStmt, "syncMap")
					}
				}
			}
		}
		return true
	})
	return cands
}

