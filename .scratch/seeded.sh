#!/bin/bash
# usage: seeded.sh <id>   (runs demo with/without the patch and the quick check against the patched private copy)
export GOFLAGS=-mod=mod GOPROXY=off GOSUMDB=off GOTOOLCHAIN=local
ID=$1; W=/tmp/r/C13; SRC=/tmp/v/C13/seeded/$ID
git -C $W checkout -- . ; git -C $W clean -fdq
DEMO=$(mktemp -d); cp -r $SRC/* $DEMO/; cp $W/go.sum $DEMO/go.sum
sed -i -E "s#=> /tmp/mut2?/C13\$#=> $W#" $DEMO/go.mod
demo() { (cd $DEMO && timeout 600 go test -count=1 ./... >/dev/null 2>&1); echo $?; }
echo "demo without patch: $(demo)"
git -C $W apply $SRC/patch.diff || { echo "PATCH DOES NOT APPLY"; exit 1; }
(cd $W && go build ./... ) && echo builds
echo "demo with patch: $(demo)"
(cd /tmp/v/C13 && VERIF_REPO=$W ./check C13 quick 2>&1 | grep -v "^KNOWN-FINDING" | cut -c1-500 | tail -6)
git -C $W checkout -- . ; git -C $W clean -fdq
rm -rf $DEMO
