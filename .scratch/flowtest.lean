import KinModel.C13Flow
open KinModel.C13.Flow KinModel.Gen
set_option maxRecDepth 100000 in
theorem t1 : c13BodyFlow.all (fun f => accepts f.2) = true := by decide
