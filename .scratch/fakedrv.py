#!/usr/bin/env python3
import sys
f=open('/tmp/vw/C15/.scratch/cases.jsonl','w')
for line in sys.stdin:
    f.write(line); f.flush()
    sys.stdout.write('{"model":{},"spec":{},"excl":[],"branches":[]}\n'); sys.stdout.flush()
