#!/bin/sh
# usage: rp.sh case.json  -> prints impl / model / spec / excl compactly
cd /tmp/v/C02
python3 - "$1" <<'PY'
import json,sys,subprocess
c=json.load(open(sys.argv[1]))
if "case" not in c: c={"case":c}
json.dump(c,open('/tmp/v/C02/.scratch/_r.json','w'))
out=subprocess.run(['.build/harness','-prop','C02','-driver','lean/.lake/build/bin/kindriver','-root','/tmp/v/C02','-replay','/tmp/v/C02/.scratch/_r.json'],capture_output=True,text=True)
try:
    o=json.loads(out.stdout)
    for k in o:
        if k!='case': print(k,':',json.dumps(o[k])[:1500])
except Exception as e:
    print(out.stdout[-3000:],out.stderr[-2000:])
PY
