import KinModel.ConcCase
open KinModel.Conc
def w (s : Nat) : CaseM := { ops := [{ kind := .gen, genType := 3, recursive := true }], g := 2, per := 1, sched := s }
#eval (List.range 12).map (fun s => (s, (outcome (w s)).diverge, (outcome (w s)).race))
