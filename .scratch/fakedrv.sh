#!/bin/bash
cat > /tmp/vw/C15/.scratch/cases.jsonl
