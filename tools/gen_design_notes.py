#!/usr/bin/env python3
"""Assembles DESIGN.md §11.3 (notes per property) and the tail of §12 (false alarms) from design/notes/."""
import os, re
ROOT = os.path.dirname(os.path.dirname(os.path.abspath(__file__)))
N = os.path.join(ROOT, "design", "notes")


def block(begin, end, body, s):
    i, j = s.index(begin), s.index(end)
    i = s.index("\n", i) + 1
    return s[:i] + body + s[j:]


def main():
    notes, alarms = [], []
    for f in sorted(os.listdir(N)):
        txt = open(os.path.join(N, f)).read().strip()
        if not txt:
            continue
        if f.endswith(".false-alarms.md"):
            alarms.append(txt)
        elif re.fullmatch(r"C\d+\.md", f):
            notes.append(txt)
    p = os.path.join(ROOT, "DESIGN.md")
    s = open(p).read()
    s = block("<!-- NOTES:BEGIN", "<!-- NOTES:END -->", "\n\n".join(notes) + "\n", s)
    s = block("<!-- FALSEALARMS:BEGIN", "<!-- FALSEALARMS:END -->", "\n".join(alarms) + "\n", s)
    open(p, "w").write(s)
    print("DESIGN.md: %d property notes, %d false-alarm files assembled" % (len(notes), len(alarms)))


if __name__ == "__main__":
    main()
