#!/usr/bin/env python3
"""Regenerates MANIFEST.json from checks.json (one entry per built check) and properties.jsonl."""
import json, os, subprocess
R = os.path.dirname(os.path.dirname(os.path.abspath(__file__)))
cfg = {f[:-5]: json.load(open(os.path.join(R, "checks.d", f))) for f in sorted(os.listdir(os.path.join(R, "checks.d"))) if f.endswith(".json")}
props = [json.loads(l) for l in open(os.path.join(R, "properties.jsonl"))]
try:
    commits = subprocess.run(["git", "-C", "/repo", "log", "--format=%h %s", "--grep=^verif hook"], capture_output=True, text=True).stdout.split("\n")
    commits = [c.split()[0] for c in commits if c.strip()]
except Exception:
    commits = []
checks, na = [], []
for p in props:
    pid = p["id"]
    c = cfg.get(pid)
    if not c or c.get("disabled"):
        na.append({"property_id": pid, "reason": (c or {}).get("reason", "check not built yet (work in progress; see DESIGN.md §10)")})
        continue
    checks.append({
        "property_id": pid,
        "quick_cmd": "./check %s quick" % pid,
        "thorough_cmd": "./check %s thorough" % pid,
        "evidence_file": "/verif/evidence/%s.json" % pid,
        "replay_cmd_template": "./check %s --replay {path}" % pid,
        "engine": "lean-model+go-harness",
        "level_claimed": {"category": c.get("level", "proof"), "text": c.get("level_text", c.get("explanation", "")), "design_ref": "DESIGN.md §4 " + pid},
        "level_note": c.get("level_note", "Lean kernel + axioms propext/Classical.choice/Quot.sound; the model is tied to /repo by the differential correspondence run (and regenerated tables where listed); see DESIGN.md §5"),
        "technique": c.get("technique", "Lean 4 theorems over a hand-written model + differential correspondence check against the Go code"),
    })
m = {
    "version": 1,
    "setup_cmd": "./check --setup",
    "hooks": {"guard": "verif", "enable": "go build -tags verif (the harness module replaces github.com/getkin/kin-openapi by /repo)",
              "baseline_off_cmd": "/verif/tools/baseline.sh /repo", "source_commits": commits, "add_only": True},
    "engines": [
        {"name": "lean-model", "path": "/verif/lean", "serves_properties": [c["property_id"] for c in checks],
         "kind_free_text": "Lake project KinModel: models, specs, property theorems (Props/), compiled line-protocol driver"},
        {"name": "go-harness", "path": "/verif/go/cmd/harness", "serves_properties": [c["property_id"] for c in checks],
         "kind_free_text": "in-process differential harness: generators, real library calls, three-way comparison with the Lean driver, shrinking, replay"},
        {"name": "go-extract", "path": "/verif/go/cmd/extract", "serves_properties": [k for k, v in cfg.items() if v.get("tables")],
         "kind_free_text": "go/ast translator regenerating Lean tables from /repo on every run"},
    ],
    "checks": checks,
    "not_applicable": na,
    "notes": "Every check: regenerate tables from /repo -> lake build of the property's theorems + axiom audit -> differential run against /repo -> verdict. See DESIGN.md.",
}
json.dump(m, open(os.path.join(R, "MANIFEST.json"), "w"), indent=1)
print("MANIFEST: %d checks, %d not applicable" % (len(checks), len(na)))
