#!/usr/bin/env python3-vt
import json,sys,glob,jsonschema
sch=json.load(open('/root/.vp/EVIDENCE.schema.json'))
ok=True
for f in sys.argv[1:] or sorted(glob.glob('/verif/evidence/*.json')):
    try:
        ev=json.load(open(f)); jsonschema.validate(ev,sch)
        c=ev['coverage']; print(f.split('/')[-1],'OK',ev['tier'],'obl',c.get('obligations'),'/',c.get('discharged'),'eval',c.get('evaluations'),'nontriv',c.get('distinct_nontrivial'),'viol',ev.get('violations'),'%.0fs'%ev['wall_s'])
    except Exception as e:
        ok=False; print(f,'INVALID',str(e)[:300])
m=json.load(open('/verif/MANIFEST.json')) if len(sys.argv)==1 else None
if m:
    jsonschema.validate(m,json.load(open('/root/.vp/MANIFEST.schema.json'))); print('MANIFEST OK', len(m['checks']),'checks')
sys.exit(0 if ok else 1)
