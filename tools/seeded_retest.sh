#!/bin/bash
# tools/seeded_retest.sh [seed-id ...]  — re-runs the property's quick check against /repo HEAD + the seeded patch
# (scratch git worktree, removed afterwards) and records what was reported under "retest" in seeded/<id>/meta.json.
# Without arguments: every directory under seeded/. Sequential (the build directory is shared).
set -u
export GOFLAGS=-mod=mod GOPROXY=off GOSUMDB=off GOTOOLCHAIN=local
ROOT=$(cd "$(dirname "$0")/.." && pwd)
cd "$ROOT"
ids=${@:-$(ls seeded)}
RH=$(git -C /repo rev-parse --short HEAD); VH=$(git -C "$ROOT" rev-parse --short HEAD)
for id in $ids; do
  d=seeded/$id; [ -f $d/patch.diff ] || continue
  P=$(python3 -c "import json;print(json.load(open('$d/meta.json'))['property'])")
  T=$(mktemp -d); W=$T/w
  git -C /repo worktree add -q --detach $W HEAD
  APPLIES=true; OUT=""
  if git -C $W apply $ROOT/$d/patch.diff 2>/dev/null; then
    OUT=$(VERIF_REPO=$W timeout 1800 ./check $P quick 2>&1 | grep -v "^KNOWN-FINDING\|^WARNING")
  else APPLIES=false; fi
  git -C /repo worktree remove --force $W; rm -rf $T
  python3 - "$d/meta.json" "$APPLIES" "$RH" "$VH" "$P" <<PY
import json,sys
p,app,rh,vh,prop=sys.argv[1:]
out='''$(echo "$OUT" | tail -12 | sed "s/'''/'' '/g")'''
m=json.load(open(p))
lines=[l for l in out.splitlines() if l.startswith('VIOLATION')]
m['retest']={'repo_head':rh,'verif_head':vh,'check':prop,'patch_applies':app=='true','violation_lines':len(lines),
  'with_failing_input':len([l for l in lines if not l.rstrip().endswith('no-failing-input-found')]),
  'output_tail':out.splitlines()[-3:]}
json.dump(m,open(p,'w'),indent=1)
print('%s: applies=%s violations=%d with_input=%d'%(p.split('/')[-2],app,len(lines),m['retest']['with_failing_input']))
PY
done
