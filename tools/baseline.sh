#!/bin/bash
# Runs the repository's pinned test suite (guard OFF) and compares with BASELINE.json stable_pass.
# usage: tools/baseline.sh [repo-dir]   exit 0 iff every stable_pass test passes.
export GOFLAGS=-mod=mod GOPROXY=off GOSUMDB=off GOTOOLCHAIN=local
R=${1:-/repo}
OUT=$(mktemp)
(cd "$R" && go test -mod=mod -json -vet=off -count=1 -timeout 25m ./... > "$OUT" 2>/dev/null)
python3 - "$OUT" <<'PY'
import json,sys
base=json.load(open('/root/.vp/BASELINE.json'))
want=set(base['stable_pass'])
st={}
for l in open(sys.argv[1]):
    try: e=json.loads(l)
    except: continue
    if e.get('Test') and e.get('Action') in('pass','fail','skip'):
        st[e['Package']+'::'+e['Test']]=e['Action']
bad=[t for t in sorted(want) if st.get(t)!='pass']
print('baseline: %d/%d stable tests pass'%(len(want)-len(bad),len(want)))
for t in bad[:40]: print('  NOT PASSING:',t,st.get(t))
sys.exit(1 if bad else 0)
PY
rc=$?
rm -f "$OUT"
exit $rc
