#!/bin/bash
# Resolves package-level identifier clashes between per-property files of go/cmd/harness and go/cmd/extract
# (every property's files live in one `package main`): the redeclaring file family gets its identifier prefixed.
export GOFLAGS=-mod=mod GOPROXY=off GOSUMDB=off GOTOOLCHAIN=local
cd /verif/go
for i in $(seq 1 40); do
  out=$(go vet -modfile /verif/.build/go.mod -tags verif ./cmd/harness ./cmd/extract 2>&1 | grep "redeclared" | head -1)
  [ -z "$out" ] && break
  file=$(echo "$out" | sed -E 's/^(vet: )?([^:]+):.*/\2/')
  name=$(echo "$out" | sed -E 's/.*: ([A-Za-z0-9_]+) redeclared.*/\1/')
  dir=$(dirname $file); base=$(basename $file .go)
  if [[ "$dir" == *harness ]]; then fam=$(echo $base | sed -E 's/^(c[0-9]+).*/\1/'); files=$(ls $dir/$fam*.go); pre=$fam; else files=$file; pre=$(echo $base | cut -c1-4); fi
  echo "clash: $name in $file -> ${pre}_$name"
  sed -i -E "s/(^|[^%A-Za-z0-9_.\"])$name\b/\1${pre}_$name/g" $files   # not inside %verbs, selectors or string starts
done
go vet -modfile /verif/.build/go.mod -tags verif ./cmd/harness ./cmd/extract 2>&1 | grep -v "^WARN\|^#" | head -5
