#!/bin/bash
# tools/sweep.sh <tier> "<seeds>" [ids…] — unchanged-tree sweep; prints one line per run, non-zero exit if any check alarms.
# Meant for `vp run -- tools/sweep.sh quick "2 3 4"` (runs from a snapshot of the committed /verif against /repo).
tier=$1; seeds=$2; shift 2
ids=${@:-$(ls checks.d | sed 's/.json//')}
./check --setup >/dev/null 2>&1 || { echo "setup failed"; exit 2; }
rc=0
for s in $seeds; do for id in $ids; do
  out=$(VERIF_SEED=$s ./check $id $tier 2>&1); c=$?
  echo "seed=$s $(echo "$out" | grep -v '^KNOWN-FINDING' | grep -v '^  detail' | tail -1 | cut -c1-200) exit=$c"
  [ $c -ne 0 ] && { rc=1; echo "$out" | grep -E "VIOLATION|detail" | head -4; }
done; done
exit $rc
