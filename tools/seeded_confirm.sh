#!/bin/bash
# tools/seeded_confirm.sh <ID> <mk> [base-dir=/tmp/mut] [tag]  — confirm one independently written breaking change and record it under seeded/.
# Uses the private worktree /tmp/mut/<ID> (must be clean) and the agent's output /tmp/mut/<ID>-out/<mk>.
# Confirms: applies cleanly, builds, baseline suite passes with it, demo fails with it and passes without it;
# then runs ./check <ID> quick against the patched worktree and records what was reported.
set -u
export GOFLAGS=-mod=mod GOPROXY=off GOSUMDB=off GOTOOLCHAIN=local
ID=$1; MK=$2; BDIR=${3:-/tmp/mut}; TAG=${4:-}; W=$BDIR/$ID; SRC=$BDIR/$ID-out/$MK; DST=/verif/seeded/$ID-$TAG$MK
[ -z "$(git -C $W status --short)" ] || { echo "$W not clean"; exit 2; }
git -C $W checkout -q --detach $(git -C /repo rev-parse HEAD)
mkdir -p $DST
cp $SRC/patch.diff $SRC/demo_test.go $SRC/go.mod $DST/ 2>/dev/null
[ -d $SRC/testdata ] && cp -r $SRC/testdata $DST/
DEMO=$(mktemp -d); cp -r $SRC/* $DEMO/; cp $W/go.sum $DEMO/go.sum
sed -i -E "s#=> /tmp/mut[0-9]*/$ID\$#=> $W#" $DEMO/go.mod
RACE=""; grep -q -- "-race" $SRC/meta.json && RACE="-race"
demo() { (cd $DEMO && timeout 600 go test $RACE -count=1 ./... >/dev/null 2>&1); echo $?; }
D0=$(demo)
if ! git -C $W apply --check $SRC/patch.diff 2>/dev/null; then echo "patch does not apply to current HEAD"; APPLIES=false; else APPLIES=true; fi
BUILD=1; BASE=1; D1=0; CHK=""; VIOL=""
if $APPLIES; then
  git -C $W apply $SRC/patch.diff
  (cd $W && go build ./... >/dev/null 2>&1); BUILD=$?
  /verif/tools/baseline.sh $W >/dev/null 2>&1; BASE=$?
  D1=$(demo)
  if [ -f /verif/checks.d/$ID.json ]; then
    CHK=$(cd /verif && VERIF_REPO=$W timeout 1500 ./check $ID quick 2>&1 | grep -v "^KNOWN-FINDING" | tail -4)
    VIOL=$(echo "$CHK" | grep -c "^VIOLATION")
  fi
  git -C $W checkout -- . ; git -C $W clean -fdq
fi
rm -rf $DEMO
python3 - "$SRC/meta.json" "$DST/meta.json" "$APPLIES" "$BUILD" "$BASE" "$D0" "$D1" "$VIOL" "$CHK" <<'PY'
import json,sys
src,dst,app,build,base,d0,d1,viol,chk=sys.argv[1:]
m=json.load(open(src))
m['confirmed_by_integrator']={'patch_applies_to_repo_head':app=='true','builds':build=='0','baseline_955_pass_with_patch':base=='0',
  'demo_passes_without_patch':d0=='0','demo_fails_with_patch':d1!='0',
  'commands':['git -C <worktree> apply patch.diff','go build ./...','tools/baseline.sh <worktree>','cd demo && go test ./... (module replaced onto the worktree)','VERIF_REPO=<worktree> ./check %s quick'%m.get('property','')]}
m['detected_by']={'check':m.get('property',''),'violation_lines':int(viol or 0),'output_tail':chk.splitlines()[-3:] if chk else []}
json.dump(m,open(dst,'w'),indent=1)
ok = app=='true' and build=='0' and base=='0' and d0=='0' and d1!='0'
print(('%s: confirmed=%s detected=%s'%(dst.split('/')[-2], ok, (viol or '0')!='0')))
PY
