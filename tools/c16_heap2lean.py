#!/usr/bin/env python3
"""Prints the heap abstraction of a corpus/C16 case as a Lean `KinModel.Internalize.Heap` literal.
usage: tools/c16_heap2lean.py corpus/C16/<case>.json <defName>
(used to write the concrete heaps of the witness / regression theorems in lean/KinModel/Props/C16.lean)"""
import json, sys

KINDS = ["schemas", "parameters", "headers", "requestBodies", "responses", "securitySchemes", "examples", "links", "callbacks"]

def s(x): return '"%s".toList' % x.replace('\\', '\\\\').replace('"', '\\"')
def nats(l): return "[" + ", ".join(str(i) for i in l) + "]"
def I(i): return str(i) if i >= 0 else "(%d)" % i

def main():
    c = json.load(open(sys.argv[1]))
    if "case" in c: c = c["case"]
    h = c["heap"]; name = sys.argv[2]
    out = []
    out.append("def %s : Heap :=" % name)
    out.append("  { root := %s, hasComp := %s, validBefore := %s," % (("some (%s)" % s(h["root"])) if h["hasurl"] else "none", str(h["hascomp"]).lower(), str(h["valid"]).lower()))
    cells = []
    for x in h["cells"]:
        rp = "some (%s, %s)" % (s(x["rpp"]), s(x["rpf"])) if x["hasrp"] else "none"
        cells.append("{ k := %s, ref := %s, refPath := %s, val := %s }" % (s(x["k"]), s(x["ref"]), rp, I(x["val"])))
    out.append("    cells := #[" + ",\n      ".join(cells) + "],")
    vals = []
    for v in h["vals"]:
        cont = "[" + ", ".join("{ schema := %s, ex := %s, enc := [%s] }" % (I(m["schema"]), nats(m["ex"]), ", ".join(nats(e) for e in m["enc"])) for m in v["content"]) + "]"
        dm = "[" + ", ".join("(%s, %d)" % (s(e["t"]), e["c"]) for e in v.get("dmap", [])) + "]"
        vals.append("{ t := \"%s\", cc := \"%s\", ch := %s, schema := %s, content := %s, headers := %s, links := %s, items := %s, pex := %s, dmap := %s }" % (
            v["t"], v["cc"], nats(v["ch"]), I(v["schema"]), cont, nats(v["headers"]), nats(v["links"]), nats(v["items"]), nats(v.get("pex", [])), dm))
    out.append("    vals := #[" + ",\n      ".join(vals) + "],")
    pis = []
    for p in h["pis"]:
        ops = "[" + ", ".join("{ rb := %s, cbs := %s, resps := %s, params := %s }" % (I(o["rb"]), nats(o["cbs"]), nats(o["resps"]), nats(o["params"])) for o in p["ops"]) + "]"
        pis.append("{ ref := %s, params := %s, ops := %s }" % (s(p["ref"]), nats(p["params"]), ops))
    out.append("    pis := #[" + ",\n      ".join(pis) + "],")
    comps = []
    for k in KINDS:
        for e in h["comps"].get(k, []):
            comps.append("(%s, %s, %d)" % (s(k), s(e["n"]), e["c"]))
    out.append("    comps := [" + ", ".join(comps) + "],")
    out.append("    paths := %s }" % nats(h["paths"]))
    print("\n".join(out))

main()
