/-
DESIGN-PHASE SKETCH (round 0) — not part of the verification machinery. MODEL AND STATEMENT ONLY:
the soundness theorem is stated (`MatchSoundPartial`), not proved; only the witness is proved.

C09 (DESIGN.md §4-C09): the legacy router's pattern trie (routers/legacy/pathpattern): suffix
kinds, `matchN`/`matchL` mirroring Node.matchRemaining (stored suffix order, backtracking, the
`"/"`-against-exhausted-input branch), `spell` (the string a token path produces for given variable
values), the well-labelled invariant `WL` that CreateNode maintains, and
  * witness_empty_binding : template "/b/{x}" matches "/b" with x = ""   (finding #14)
Lean 4.33.0, core only, ≈ 1 s.
-/
namespace Rt

abbrev Str := List Char

/-- suffix kinds of routers/legacy/pathpattern (regexp suffixes are off by default) -/
inductive Suf
  | const (s : Str)      -- "/" or a run without '/' and '{'
  | var                  -- {name}: up to the next '/'
  | all                  -- {name*}: the rest
  deriving DecidableEq

/-- the trie; `value` is the template (with its method prefix) stored at this node -/
inductive Node where
  | mk (value : Option Nat) (sufs : List (Suf × Node))

def takeSeg : Str → Str × Str
  | [] => ([], [])
  | c :: cs => if c = '/' then ([], c :: cs) else let (a, b) := takeSeg cs; (c :: a, b)

theorem takeSeg_append (s : Str) : (takeSeg s).1 ++ (takeSeg s).2 = s := by
  induction s with
  | nil => rfl
  | cons c cs ih => simp only [takeSeg]; split <;> simp_all

def stripPrefix : Str → Str → Option Str
  | [], s => some s
  | _ :: _, [] => none
  | p :: ps, c :: cs => if p = c then stripPrefix ps cs else none

theorem stripPrefix_some {p s r : Str} (h : stripPrefix p s = some r) : s = p ++ r := by
  induction p generalizing s with
  | nil => simp [stripPrefix] at h; simp [h]
  | cons a as ih =>
    cases s with
    | nil => simp [stripPrefix] at h
    | cons c cs =>
      simp only [stripPrefix] at h
      split at h
      · rename_i e; subst e; simp [ih h]
      · simp at h

-- Node.matchRemaining: first suffix (in stored order) whose sub-match reaches a node with a value
mutual
def matchN : Node → Str → List Str → Option (Nat × List Str)
  | .mk value sufs, rem, vals =>
    match rem, value with
    | [], some v => some (v, vals)
    | _, _ => matchL sufs rem vals
def matchL : List (Suf × Node) → Str → List Str → Option (Nat × List Str)
  | [], _, _ => none
  | (suf, child) :: rest, rem, vals =>
    let r :=
      match suf with
      | .const p =>
        (match stripPrefix p rem with
         | some rem' => matchN child rem' vals
         | none => if rem = [] ∧ p = ['/'] then matchN child rem vals else none)   -- trailing "/" quirk
      | .var => let (seg, rem') := takeSeg rem; matchN child rem' (vals ++ [seg])
      | .all =>
        (match child with
         | .mk (some v) _ => some (v, vals ++ [rem])
         | .mk none _ => none)
    match r with
    | some x => some x
    | none => matchL rest rem vals
end

/-- the string a suffix path spells for given variable values -/
def spell : List Suf → List Str → Option Str
  | [], [] => some []
  | [], _ :: _ => none
  | .const p :: r, vs => (spell r vs).map (p ++ ·)
  | .var :: r, v :: vs => (spell r vs).map (v ++ ·)
  | .all :: r, v :: vs => (spell r vs).map (v ++ ·)
  | .var :: _, [] => none
  | .all :: _, [] => none

-- trie well-labelled: a value stored below suffix path `pre` is a template whose token list is `pre`
-- (the invariant CreateNode maintains; `tokens` is the template table)
mutual
def WL (tokens : Nat → List Suf) : Node → List Suf → Prop
  | .mk value sufs, pre => (∀ v, value = some v → tokens v = pre) ∧ WLL tokens sufs pre
def WLL (tokens : Nat → List Suf) : List (Suf × Node) → List Suf → Prop
  | [], _ => True
  | (suf, child) :: rest, pre => WL tokens child (pre ++ [suf]) ∧ WLL tokens rest pre
end

/-- STATEMENT ONLY (to be proved in the machinery, by `matchN.mutual_induct`):
    a match whose bindings are all non-empty spells exactly the input. The hypothesis is needed:
    the `"/"`-against-empty-input branch lets `GET /b` match `/b/{x}` with x = "" (finding #14). -/
def MatchSoundPartial (tokens : Nat → List Suf) (root : Node) : Prop :=
  WL tokens root [] →
  ∀ input v vals, matchN root input [] = some (v, vals) → (∀ x ∈ vals, x ≠ []) →
    spell (tokens v) vals = some input

/-- witness of finding #14 on the model: template "/b/{x}" (tokens "/", "b", "/", var) matches "/b" -/
def t14 : Node :=
  .mk none [(.const ['/'], .mk none [(.const ['b'], .mk none [(.const ['/'], .mk none [(.var, .mk (some 0) [])])])])]
theorem witness_empty_binding : matchN t14 ['/', 'b'] [] = some (0, [[]]) := by
  simp [t14, matchN, matchL, stripPrefix, takeSeg]

end Rt
