/-
DESIGN-PHASE FEASIBILITY PROTOTYPE (round 0) — not part of the verification machinery.

C13 (DESIGN.md §4-C13), the request-body plumbing of validateSecurityRequirement: the stream
(remaining bytes), GetBody, ContentLength; "put the data back" (`restore`); an authentication
callback that may read the body and may fail.
  * secReq_body_readable_partial — after the security phase the body reads back in full, success or
        failure, under `Benign` (every scheme declared; a failing callback did not read the body)
  * witness_auth_reads_then_fails, witness_undeclared_scheme — `decide` witnesses that `Benign`
        is needed (finding #11)
ValidateRequestBody's read/restore and the default rewrite are the same two lemmas
(`restore_readAll`, `restore_getOK`). Lean 4.33.0, core only, ≈ 1 s; axioms: propext, Quot.sound.
-/
namespace B

abbrev Bytes := List Nat

/-- http.Request body plumbing: the stream (remaining bytes; none = nil/NoBody), GetBody, ContentLength -/
structure Req where
  body : Option Bytes
  getBody : Option Bytes        -- what GetBody() would yield, if set
  contentLength : Int
  deriving DecidableEq, Repr

/-- "put the data back into the input" as written three times in validate_request.go -/
def restore (r : Req) (data : Bytes) : Req :=
  match r.getBody with
  | some b => { r with body := some b }
  | none => { body := some data, getBody := some data, contentLength := data.length }

/-- what the authentication callback does with the body: nothing, or reads it all; and its verdict -/
structure Auth where
  readsBody : Bool
  ok : Bool

def runAuth (r : Req) (a : Auth) : Req :=
  if a.readsBody then { r with body := r.body.map (fun _ => []) } else r

/-- validateSecurityRequirement for one requirement whose schemes behave as `auths` (in sorted order);
    `declared` says whether each scheme is declared. Returns the request afterwards and success. -/
def secReq (r : Req) (schemes : List (Bool × Auth)) : Req × Bool :=
  match r.body with
  | none =>                                   -- no body: nothing to read or restore
    (r, schemes.all (fun s => s.1 && s.2.ok))
  | some data =>
    let r0 := { r with body := some [] }      -- io.ReadAll consumed it
    let rec go (r : Req) : List (Bool × Auth) → Req × Bool
      | [] => (restore r data, true)          -- final restore
      | (declared, a) :: rest =>
        if !declared then (r, false)          -- undeclared scheme: return BEFORE any restore
        else
          let r1 := restore r data
          let r2 := runAuth r1 a
          if a.ok then go r2 rest else (r2, false)   -- failing callback: return without restore
    go r0 schemes

def readAll (r : Req) : Bytes := r.body.getD []

/-- the exclusion: every scheme is declared, and a failing callback did not read the body -/
def Benign (schemes : List (Bool × Auth)) : Prop :=
  ∀ s ∈ schemes, s.1 = true ∧ (s.2.ok = false → s.2.readsBody = false)

theorem restore_readAll (r : Req) (data : Bytes) (h : ∀ b, r.getBody = some b → b = data) :
    readAll (restore r data) = data := by
  unfold restore readAll
  cases hg : r.getBody with
  | none => simp
  | some b => simp [h b hg]

/-- invariant carried through the scheme loop: GetBody, when set, yields the original bytes -/
def GetOK (r : Req) (data : Bytes) : Prop := ∀ b, r.getBody = some b → b = data

theorem restore_getOK (r : Req) (data : Bytes) (h : GetOK r data) : GetOK (restore r data) data := by
  unfold restore GetOK at *
  cases hg : r.getBody with
  | none => simp
  | some b => simpa [hg] using h

theorem runAuth_getOK (r : Req) (a : Auth) (data : Bytes) (h : GetOK r data) : GetOK (runAuth r a) data := by
  unfold runAuth GetOK at *; split <;> simpa using h

theorem go_readable (data : Bytes) : ∀ (schemes : List (Bool × Auth)) (r : Req),
    GetOK r data → Benign schemes → (schemes ≠ [] ∨ True) →
    (∀ res, secReq.go data r schemes = res → res.2 = true → readAll res.1 = data) ∧
    (∀ res, secReq.go data r schemes = res → res.2 = false → schemes ≠ [] → readAll res.1 = data)
  | [], r, hg, _, _ => by
    constructor
    · intro res h _; subst h; simp [secReq.go]; exact restore_readAll r data hg
    · intro res h _ hne; exact absurd rfl hne
  | (declared, a) :: rest, r, hg, hb, _ => by
    have hd : declared = true := (hb (declared, a) (by simp)).1
    have hrest : Benign rest := fun s hs => hb s (by simp [hs])
    have hg2 : GetOK (runAuth (restore r data) a) data := runAuth_getOK _ _ _ (restore_getOK _ _ hg)
    constructor
    · intro res h hok
      simp only [secReq.go, hd] at h
      cases ha : a.ok with
      | false => simp [ha] at h; subst h; simp at hok
      | true => simp [ha] at h; exact (go_readable data rest _ hg2 hrest (Or.inr trivial)).1 res h hok
    · intro res h hfail _
      simp only [secReq.go, hd] at h
      cases ha : a.ok with
      | false =>
        simp [ha] at h; subst h
        have hnr : a.readsBody = false := (hb (declared, a) (by simp)).2 ha
        simp [runAuth, hnr]
        exact restore_readAll r data hg
      | true =>
        simp [ha] at h
        cases rest with
        | nil => simp [secReq.go] at h; subst h; simp at hfail
        | cons s ss => exact (go_readable data (s :: ss) _ hg2 hrest (Or.inr trivial)).2 res h hfail (by simp)

/-- C13 (partial), security phase: afterwards the body reads back in full, whatever the outcome -/
theorem secReq_body_readable_partial (r : Req) (schemes : List (Bool × Auth)) (data : Bytes)
    (hb : r.body = some data) (hg : GetOK r data) (hben : Benign schemes) (hne : schemes ≠ []) :
    readAll (secReq r schemes).1 = data := by
  unfold secReq
  simp only [hb]
  have hg0 : GetOK { r with body := some [] } data := by simpa [GetOK] using hg
  have := go_readable data schemes _ hg0 hben (Or.inr trivial)
  cases hres : (secReq.go data { r with body := some [] } schemes).2 with
  | true => exact this.1 _ rfl hres
  | false => exact this.2 _ rfl hres hne

/-- witnesses of finding #11: a failing callback that read the body, and an undeclared scheme -/
theorem witness_auth_reads_then_fails :
    readAll (secReq { body := some [1,2,3], getBody := none, contentLength := 3 } [(true, ⟨true, false⟩)]).1 = [] := by
  decide
theorem witness_undeclared_scheme :
    readAll (secReq { body := some [1,2,3], getBody := none, contentLength := 3 } [(false, ⟨false, true⟩)]).1 = [] := by
  decide

#print axioms secReq_body_readable_partial
end B
