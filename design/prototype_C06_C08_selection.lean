/-
DESIGN-PHASE FEASIBILITY PROTOTYPE (round 0) — not part of the verification machinery.

C06(a) and C08 (DESIGN.md §4-C06, §4-C08): the two selection functions as decision logic.
  * contentGet_spec           — openapi3.Content.Get (branch by branch) = first declared entry in the
                                documented precedence list: exact string, without parameters, type/*,
                                */*; only */* for an empty mime; no wildcard when the type has no '/'
  * exact_wins
  * status_exact_wins, status_class_then_default — Responses.Status then Default: exact code, then
                                the class key 1XX..5XX (100..599 only), then "default"
Lean 4.33.0, core only, ≈ 1 s; axioms: propext, Classical.choice, Quot.sound.
-/
namespace M

abbrev Str := List Char

def lookup (k : Str) : List (Str × α) → Option α
  | [] => none
  | (k', v) :: r => if k = k' then some v else lookup k r

/-- text before the first ';' (strings.IndexByte(mime, ';')) -/
def base (mime : Str) : Str := mime.takeWhile (· ≠ ';')

/-- text before the first '/', if there is one -/
def majorType : Str → Option Str
  | [] => none
  | c :: cs => if c = '/' then some [] else (majorType cs).map (c :: ·)

def star : Str := "*/*".toList
def slashStar : Str := "/*".toList
def dflt : Str := "default".toList
def codeKey (status : Nat) : Str := (toString status).toList

/-- openapi3.Content.Get, branch by branch -/
def contentGet (c : List (Str × α)) (mime : Str) : Option α :=
  if mime = [] then lookup star c else
  match lookup mime c with
  | some v => some v
  | none =>
    match lookup (base mime) c with
    | some v => some v
    | none =>
      match majorType (base mime) with
      | none => none
      | some t =>
        match lookup (t ++ slashStar) c with
        | some v => some v
        | none => lookup star c

/-- the documented precedence as a candidate list -/
def candidates (mime : Str) : List Str :=
  if mime = [] then [star] else
  match majorType (base mime) with
  | none => [mime, base mime]
  | some t => [mime, base mime, t ++ slashStar, star]

def firstSome (c : List (Str × α)) : List Str → Option α
  | [] => none
  | k :: ks => match lookup k c with | some v => some v | none => firstSome c ks

/-- C06(a): the media type chosen is the first declared one in the documented precedence order:
    exact string, then without parameters, then type/*, then */* (and nothing when the type has no '/') -/
theorem contentGet_spec (c : List (Str × α)) (mime : Str) : contentGet c mime = firstSome c (candidates mime) := by
  unfold contentGet candidates
  by_cases h : mime = []
  · simp [h, firstSome]; cases lookup star c <;> rfl
  · simp only [h, if_false]
    cases h1 : lookup mime c with
    | some v => cases majorType (base mime) <;> simp [firstSome, h1]
    | none =>
      cases h2 : lookup (base mime) c with
      | some v => cases majorType (base mime) <;> simp [firstSome, h1, h2]
      | none =>
        cases h3 : majorType (base mime) with
        | none => simp [firstSome, h1, h2]
        | some t =>
          cases h4 : lookup (t ++ slashStar) c with
          | some v => simp [firstSome, h1, h2, h4]
          | none => simp [firstSome, h1, h2, h4]; cases lookup star c <;> rfl

theorem exact_wins (c : List (Str × α)) (mime : Str) (v : α) (hne : mime ≠ []) (h : lookup mime c = some v) :
    contentGet c mime = some v := by
  simp [contentGet, hne, h]

/-! C08: Responses.Status then Default -/

/-- "1XX".."5XX" for 100..599 -/
def classKey (status : Nat) : Option Str :=
  if 99 < status ∧ status < 600 then some ((toString (status / 100)).toList ++ "XX".toList) else none

def statusLookup (m : List (Str × α)) (status : Nat) : Option α :=
  match lookup (codeKey status) m with
  | some v => some v
  | none =>
    match (match classKey status with | some k => lookup k m | none => none) with
    | some v => some v
    | none => lookup dflt m

theorem status_exact_wins (m : List (Str × α)) (status : Nat) (v : α)
    (h : lookup (codeKey status) m = some v) : statusLookup m status = some v := by
  simp [statusLookup, h]

theorem status_class_then_default (m : List (Str × α)) (status : Nat)
    (h : lookup (codeKey status) m = none) :
    statusLookup m status =
      (match classKey status with
       | some k => (lookup k m).orElse (fun _ => lookup dflt m)
       | none => lookup dflt m) := by
  unfold statusLookup
  simp only [h]
  cases classKey status with
  | none => simp
  | some k => cases hk : lookup k m <;> simp [hk]

example : classKey 201 = some "2XX".toList := by decide
example : classKey 99 = none ∧ classKey 600 = none := by decide

#print axioms contentGet_spec
end M
