/-
DESIGN-PHASE FEASIBILITY PROTOTYPE (round 0) — not part of the verification machinery.

C15 (DESIGN.md §4-C15), the abstract part: shared state as cells; an operation's footprint as a list
of atomic actions (plain read, PLAIN write, synchronised cache fill) — in the machinery the
footprints are regenerated from the code by the translator.
  * no_race_of_no_plain_writes — footprints without plain writes cannot race
  * reads_independent          — whatever other threads did before (they can only have filled cache
                                 cells, which results never read directly), a thread reads the same
                                 values as when it runs alone ⇒ same verdict under every schedule
What this does NOT prove: the Go memory model, races inside library internals. Those are exercised
by `-race` runs, which act as the correspondence check of the footprint table.
Lean 4.33.0, core only, ≈ 1 s; axioms: propext, Quot.sound.
-/
namespace Cc

/-! C15: shared state of a loaded document + router, as cells. An operation (FindRoute,
    ValidateRequest, ValidateResponse, VisitJSON, schema generation) is a list of atomic actions on
    shared cells — its *footprint*, regenerated from the code by the translator — plus a pure
    result function of what it read. -/

abbrev Cell := Nat
abbrev Val := Nat

inductive Act
  | read (c : Cell)                     -- plain read of document / router / registry state
  | write (c : Cell) (v : Val)          -- PLAIN write (no synchronisation): what must not occur
  | cacheFill (c : Cell) (v : Val)      -- sync.Map / mutex / once-guarded fill: sets c only if empty (0)

abbrev State := Cell → Val

def step (σ : State) : Act → State × Option Val
  | .read c => (σ, some (σ c))
  | .write c v => (fun x => if x = c then v else σ x, none)
  | .cacheFill c v => ((fun x => if x = c ∧ σ c = 0 then v else σ x), none)

/-- run one thread's actions, collecting the values it read (its result is a function of these) -/
def runThread (σ : State) : List Act → State × List Val
  | [] => (σ, [])
  | a :: as =>
    let (σ', r) := step σ a
    let (σ'', rs) := runThread σ' as
    (σ'', match r with | some v => v :: rs | none => rs)

def isPlainWrite : Act → Bool | .write _ _ => true | _ => false
def touches (a : Act) (c : Cell) : Bool := match a with | .read c' => c = c' | .write c' _ => c = c' | .cacheFill c' _ => c = c'

/-- footprint condition checked `by decide` on the regenerated table -/
def NoPlainWrites (t : List Act) : Bool := t.all (fun a => !isPlainWrite a)

/-- cells that some thread may cache-fill are never read plainly by an operation's result
    (the cache is consulted through lookupOrCompute, whose result does not depend on the cache) -/
def readOK (cacheCells : List Cell) : Act → Bool
  | .read c => !cacheCells.contains c
  | _ => true
def ReadsAvoid (t : List Act) (cacheCells : List Cell) : Bool := t.all (readOK cacheCells)

/-- a data race needs a plain write: two accesses to one cell from different threads, one of them
    a plain write (synchronised fills are ordered by the primitive) -/
def Race (t1 t2 : List Act) : Prop :=
  ∃ a ∈ t1, ∃ b ∈ t2, ∃ c, touches a c = true ∧ touches b c = true ∧ (isPlainWrite a = true ∨ isPlainWrite b = true)

theorem no_race_of_no_plain_writes (t1 t2 : List Act) (h1 : NoPlainWrites t1 = true) (h2 : NoPlainWrites t2 = true) :
    ¬ Race t1 t2 := by
  rintro ⟨a, ha, b, hb, c, _, _, hw⟩
  simp only [NoPlainWrites, List.all_eq_true] at h1 h2
  rcases hw with hw | hw
  · have := h1 a ha; simp [hw] at this
  · have := h2 b hb; simp [hw] at this

/-- states that agree outside the cache cells -/
def AgreeOff (cacheCells : List Cell) (σ τ : State) : Prop := ∀ c, c ∉ cacheCells → σ c = τ c

theorem step_agree (cacheCells : List Cell) (σ τ : State) (a : Act) (hσ : AgreeOff cacheCells σ τ)
    (hw : isPlainWrite a = false) (hr : readOK cacheCells a = true)
    (hc : ∀ c v, a = .cacheFill c v → c ∈ cacheCells) :
    AgreeOff cacheCells (step σ a).1 (step τ a).1 ∧ (step σ a).2 = (step τ a).2 := by
  cases a with
  | read c =>
    have hcn : c ∉ cacheCells := by simpa [readOK] using hr
    exact ⟨by simpa [step] using hσ, by simp [step, hσ c hcn]⟩
  | write c v => simp [isPlainWrite] at hw
  | cacheFill c v =>
    have hcm := hc c v rfl
    refine ⟨?_, by simp [step]⟩
    intro x hx
    have : x ≠ c := fun e => hx (e ▸ hcm)
    simp [step, this, hσ x hx]

/-- schedule independence, in its essential form: whatever other threads did before (they can only
    have filled cache cells), a thread reads the same values as when it runs alone -/
theorem reads_independent (cacheCells : List Cell) : ∀ (t : List Act) (σ τ : State),
    AgreeOff cacheCells σ τ → NoPlainWrites t = true → ReadsAvoid t cacheCells = true →
    (∀ a ∈ t, ∀ c v, a = .cacheFill c v → c ∈ cacheCells) →
    (runThread σ t).2 = (runThread τ t).2
  | [], _, _, _, _, _, _ => rfl
  | a :: as, σ, τ, hag, hw, hr, hc => by
    simp only [NoPlainWrites, ReadsAvoid, List.all_cons, Bool.and_eq_true] at hw hr
    have hwa : isPlainWrite a = false := by simpa using hw.1
    obtain ⟨hag', hres⟩ := step_agree cacheCells σ τ a hag hwa hr.1 (fun c v e => hc a (by simp) c v e)
    have ih := reads_independent cacheCells as (step σ a).1 (step τ a).1 hag'
      (by simpa [NoPlainWrites] using hw.2) (by simpa [ReadsAvoid] using hr.2)
      (fun b hb => hc b (by simp [hb]))
    simp only [runThread]
    rw [hres, ih]

#print axioms no_race_of_no_plain_writes
#print axioms reads_independent
end Cc
