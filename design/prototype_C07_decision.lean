/-
DESIGN-PHASE FEASIBILITY PROTOTYPE (round 0) — not part of the verification machinery.

C07 (DESIGN.md §4-C07): the orchestration of openapi3filter.ValidateRequest as decision logic:
security (OR over requirements, AND over schemes, operation list overrides the document list),
path-level parameters minus overrides, operation parameters, body; fail-first vs multi-error.
  * accept_iff_partial            — accepted ⇔ security ∧ every parameter in effect ∧ body, under the
                                    exclusion NoPathLevelQuery (finding #10)
  * multi_reports_exactly_failing — multi-error mode returns exactly the failing parts
  * witness_pathlevel_query       — `decide` witness that the exclusion is needed
Lean 4.33.0, core only, ≈ 1 s; axioms: propext, Classical.choice, Quot.sound.
-/
namespace R

inductive In | path | query | header | cookie
  deriving DecidableEq

structure Param where
  name : String
  loc  : In
  ok   : Bool          -- does ValidateParameter accept it for this request? (abstracted)
  deriving DecidableEq

abbrev Requirement := List String            -- scheme names (sorted by the code)

structure Opts where
  excludeBody  : Bool := false
  excludeQuery : Bool := false
  multiError   : Bool := false

structure Op where
  opParams   : List Param
  pathParams : List Param
  opSecurity : Option (List Requirement)     -- nil ⇒ fall back to the document's list
  docSecurity : List Requirement
  hasBody    : Bool
  bodyOK     : Bool

inductive Part | security | param (p : Param) | body
  deriving DecidableEq

/-- validateSecurityRequirement: every scheme must be declared and accepted -/
def reqOK (declared auth : String → Bool) (r : Requirement) : Bool :=
  r.all (fun s => declared s && auth s)

/-- ValidateSecurityRequirements: empty list passes; otherwise the first satisfied requirement wins -/
def secOK (declared auth : String → Bool) (rs : List Requirement) : Bool :=
  rs.isEmpty || rs.any (reqOK declared auth)

def overridden (opParams : List Param) (p : Param) : Bool :=
  opParams.any (fun q => q.name = p.name && q.loc = p.loc)

/-- the failing parts, in the order the Go code meets them (model of ValidateRequest's body) -/
def failing (o : Opts) (op : Op) (declared auth : String → Bool) : List Part :=
  let sec := match op.opSecurity with | some rs => rs | none => op.docSecurity
  (if secOK declared auth sec then [] else [Part.security]) ++
  -- path-level parameters, minus overrides  (NOTE: ExcludeRequestQueryParams is NOT consulted here)
  ((op.pathParams.filter (fun p => !overridden op.opParams p)).filter (fun p => !p.ok)).map Part.param ++
  -- operation parameters
  ((op.opParams.filter (fun p => !(o.excludeQuery && p.loc = In.query))).filter (fun p => !p.ok)).map Part.param ++
  (if op.hasBody && !o.excludeBody && !op.bodyOK then [Part.body] else [])

inductive Res | ok | err (parts : List Part)

/-- fail-first returns the first failing part; multi-error returns all of them -/
def validateRequest (o : Opts) (op : Op) (declared auth : String → Bool) : Res :=
  match failing o op declared auth with
  | [] => .ok
  | p :: ps => if o.multiError then .err (p :: ps) else .err [p]

def Res.isOk : Res → Bool | .ok => true | _ => false

/-! ### Spec -/

def effective (o : Opts) (op : Op) : List Param :=
  (op.opParams ++ op.pathParams.filter (fun p => !overridden op.opParams p)).filter
    (fun p => !(o.excludeQuery && p.loc = In.query))

def SecSpec (declared auth : String → Bool) (op : Op) : Prop :=
  let rs := match op.opSecurity with | some rs => rs | none => op.docSecurity
  rs = [] ∨ ∃ r ∈ rs, ∀ s ∈ r, declared s = true ∧ auth s = true

theorem secOK_iff (declared auth : String → Bool) (rs : List Requirement) :
    secOK declared auth rs = true ↔ (rs = [] ∨ ∃ r ∈ rs, ∀ s ∈ r, declared s = true ∧ auth s = true) := by
  simp [secOK, reqOK, List.isEmpty_iff]

/-- the exclusion: no path-level query parameter survives into the effective set while
    query parameters are excluded (finding #10) -/
def NoPathLevelQuery (o : Opts) (op : Op) : Prop :=
  o.excludeQuery = true → ∀ p ∈ op.pathParams, p.loc ≠ In.query ∨ overridden op.opParams p = true

/-- C07 (partial): request validation succeeds iff security, every parameter in effect and the body pass -/
theorem accept_iff_partial (o : Opts) (op : Op) (declared auth : String → Bool) (hx : NoPathLevelQuery o op) :
    (validateRequest o op declared auth).isOk = true ↔
      (SecSpec declared auth op ∧ (∀ p ∈ effective o op, p.ok = true) ∧
       (op.hasBody = true → o.excludeBody = false → op.bodyOK = true)) := by
  have hfail : (validateRequest o op declared auth).isOk = true ↔ failing o op declared auth = [] := by
    unfold validateRequest
    cases h : failing o op declared auth with
    | nil => simp [Res.isOk]
    | cons p ps => cases o.multiError <;> simp [Res.isOk]
  rw [hfail]
  unfold failing SecSpec effective
  simp only [List.append_eq_nil_iff, List.map_eq_nil_iff, List.filter_eq_nil_iff]
  constructor
  · rintro ⟨⟨⟨hs, hpp⟩, hop⟩, hb⟩
    refine ⟨?_, ?_, ?_⟩
    · have : secOK declared auth (match op.opSecurity with | some rs => rs | none => op.docSecurity) = true := by
        cases hc : secOK declared auth (match op.opSecurity with | some rs => rs | none => op.docSecurity) with
        | true => rfl
        | false => simp [hc] at hs
      exact (secOK_iff _ _ _).mp this
    · intro p hp
      simp only [List.mem_filter, List.mem_append] at hp
      obtain ⟨hp1 | ⟨hp1, hov⟩, hq⟩ := hp
      · have := hop p (by simp [List.mem_filter, hp1]; simpa using hq); simpa using this
      · have := hpp p (by simp [List.mem_filter, hp1]; simpa using hov); simpa using this
    · intro h1 h2
      cases hc : op.bodyOK with
      | true => rfl
      | false => simp [h1, h2, hc] at hb
  · rintro ⟨hs, hp, hb⟩
    refine ⟨⟨⟨?_, ?_⟩, ?_⟩, ?_⟩
    · have := (secOK_iff declared auth _).mpr hs; simp [this]
    · intro p hpm
      obtain ⟨hp1, hov⟩ := List.mem_filter.mp hpm
      have hq : (!(o.excludeQuery && decide (p.loc = In.query))) = true := by
        cases he : o.excludeQuery with
        | false => simp
        | true =>
          rcases hx he p hp1 with h | h
          · simp [h]
          · simp [h] at hov
      have := hp p (List.mem_filter.mpr ⟨List.mem_append.mpr (Or.inr (List.mem_filter.mpr ⟨hp1, hov⟩)), hq⟩)
      simp [this]
    · intro p hpm
      obtain ⟨hp1, hq⟩ := List.mem_filter.mp hpm
      have := hp p (List.mem_filter.mpr ⟨List.mem_append.mpr (Or.inl hp1), hq⟩)
      simp [this]
    · cases h1 : op.hasBody <;> cases h2 : o.excludeBody <;> simp
      exact hb h1 h2

/-- multi-error mode reports exactly the failing parts; fail-first reports the first of them -/
theorem multi_reports_exactly_failing (o : Opts) (op : Op) (declared auth : String → Bool) (hm : o.multiError = true) :
    validateRequest o op declared auth = (match failing o op declared auth with | [] => .ok | ps => .err ps) := by
  unfold validateRequest; cases failing o op declared auth <;> simp [hm]

/-- witness of finding #10: a failing path-level query parameter is still reported when query
    parameters are excluded, although the effective set is empty -/
def w : Op := { opParams := [], pathParams := [⟨"q", .query, false⟩], opSecurity := none, docSecurity := [], hasBody := false, bodyOK := true }
theorem witness_pathlevel_query :
    (validateRequest { excludeQuery := true } w (fun _ => true) (fun _ => true)).isOk = false ∧
    effective { excludeQuery := true } w = [] := by decide

#print axioms accept_iff_partial
end R
