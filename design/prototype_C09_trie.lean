/-
DESIGN-PHASE FEASIBILITY PROTOTYPE (round 0) — not part of the verification machinery.

C09 (DESIGN.md §4-C09): the legacy router's pattern trie (routers/legacy/pathpattern): suffix kinds,
`matchN`/`matchL` mirroring Node.matchRemaining (stored suffix order, backtracking, the
`"/"`-against-exhausted-input branch), `spell` (the string a token path produces for given variable
values), the well-labelled invariant `WL` that CreateNode maintains, and `TemplatesWF` (no empty
constant; no stored template ends in "/", because CreateNode strips trailing slashes).
  * match_sound_partial   — a match whose bindings are all non-empty spells exactly the input:
                            substituting the returned values into the returned template reproduces
                            the request (proved with `matchN.mutual_induct`)
  * witness_empty_binding — template "/b/{x}" matches "/b" with x = ""  (finding #14: why the
                            non-empty hypothesis is needed)
Lean 4.33.0, core only, ≈ 1 s; axioms: propext, Quot.sound.
-/
namespace Rt

abbrev Str := List Char

/-- suffix kinds of routers/legacy/pathpattern (regexp suffixes are off by default) -/
inductive Suf
  | const (s : Str)      -- "/" or a run without '/' and '{'
  | var                  -- {name}: up to the next '/'
  | all                  -- {name*}: the rest
  deriving DecidableEq

/-- the trie; `value` is the template (with its method prefix) stored at this node -/
inductive Node where
  | mk (value : Option Nat) (sufs : List (Suf × Node))

def takeSeg : Str → Str × Str
  | [] => ([], [])
  | c :: cs => if c = '/' then ([], c :: cs) else let (a, b) := takeSeg cs; (c :: a, b)

theorem takeSeg_append (s : Str) : (takeSeg s).1 ++ (takeSeg s).2 = s := by
  induction s with
  | nil => rfl
  | cons c cs ih => simp only [takeSeg]; split <;> simp_all

def stripPrefix : Str → Str → Option Str
  | [], s => some s
  | _ :: _, [] => none
  | p :: ps, c :: cs => if p = c then stripPrefix ps cs else none

theorem stripPrefix_some {p s r : Str} (h : stripPrefix p s = some r) : s = p ++ r := by
  induction p generalizing s with
  | nil => simp [stripPrefix] at h; simp [h]
  | cons a as ih =>
    cases s with
    | nil => simp [stripPrefix] at h
    | cons c cs =>
      simp only [stripPrefix] at h
      split at h
      · rename_i e; subst e; simp [ih h]
      · simp at h

def first (a b : Option α) : Option α := match a with | some x => some x | none => b

def valueOf : Node → Option Nat | .mk v _ => v

-- Node.matchRemaining: first suffix (in stored order) whose sub-match reaches a node with a value
mutual
def matchN : Node → Str → List Str → Option (Nat × List Str)
  | .mk value sufs, rem, vals =>
    match rem, value with
    | [], some v => some (v, vals)
    | _, _ => matchL sufs rem vals
def matchL : List (Suf × Node) → Str → List Str → Option (Nat × List Str)
  | [], _, _ => none
  | (suf, child) :: rest, rem, vals =>
    first
      (match suf with
       | .const p =>
         (match stripPrefix p rem with
          | some rem' => matchN child rem' vals
          | none => if rem = [] ∧ p = ['/'] then matchN child rem vals else none)   -- trailing "/" quirk
       | .var => matchN child (takeSeg rem).2 (vals ++ [(takeSeg rem).1])
       | .all => (valueOf child).map (fun v => (v, vals ++ [rem])))
      (matchL rest rem vals)
end

/-- the string a suffix path spells for given variable values -/
def spell : List Suf → List Str → Option Str
  | [], [] => some []
  | [], _ :: _ => none
  | .const p :: r, vs => (spell r vs).map (p ++ ·)
  | .var :: r, v :: vs => (spell r vs).map (v ++ ·)
  | .all :: r, v :: vs => (spell r vs).map (v ++ ·)
  | .var :: _, [] => none
  | .all :: _, [] => none

-- trie well-labelled: a value stored below suffix path `pre` is a template whose token list is `pre`
mutual
def WL (tokens : Nat → List Suf) : Node → List Suf → Prop
  | .mk value sufs, pre => (∀ v, value = some v → tokens v = pre) ∧ WLL tokens sufs pre
def WLL (tokens : Nat → List Suf) : List (Suf × Node) → List Suf → Prop
  | [], _ => True
  | (suf, child) :: rest, pre => WL tokens child (pre ++ [suf]) ∧ WLL tokens rest pre
end

/-- templates as CreateNode stores them: no empty constant, and (trailing slashes are stripped before
    insertion) the last token is never the constant "/" -/
def TemplatesWF (tokens : Nat → List Suf) : Prop :=
  ∀ v, (∀ s ∈ tokens v, s ≠ .const []) ∧ (tokens v).getLast? ≠ some (.const ['/'])

theorem spell_nil_of_nonempty : ∀ (path : List Suf) (ext : List Str),
    (∀ s ∈ path, s ≠ .const []) → (∀ x ∈ ext, x ≠ []) → spell path ext = some [] → path = [] ∧ ext = []
  | [], [], _, _, _ => ⟨rfl, rfl⟩
  | [], _ :: _, _, _, h => by simp [spell] at h
  | .const p :: r, vs, hp, _, h => by
    simp only [spell, Option.map_eq_some_iff] at h
    obtain ⟨a, _, ha⟩ := h
    have : p = [] := by
      cases p with
      | nil => rfl
      | cons c cs => simp at ha
    exact absurd (this ▸ rfl) (hp (.const p) (by simp))
  | .var :: r, v :: vs, _, hx, h => by
    simp only [spell, Option.map_eq_some_iff] at h
    obtain ⟨a, _, ha⟩ := h
    have : v = [] := by
      cases v with
      | nil => rfl
      | cons c cs => simp at ha
    exact absurd this (hx v (by simp))
  | .all :: r, v :: vs, _, hx, h => by
    simp only [spell, Option.map_eq_some_iff] at h
    obtain ⟨a, _, ha⟩ := h
    have : v = [] := by
      cases v with
      | nil => rfl
      | cons c cs => simp at ha
    exact absurd this (hx v (by simp))
  | .var :: _, [], _, _, h => by simp [spell] at h
  | .all :: _, [], _, _, h => by simp [spell] at h


/-- what a successful match must satisfy, relative to the suffix path `pre` that leads to the node -/
def Sound (tokens : Nat → List Suf) (pre : List Suf) (rem : Str) (vals0 : List Str) (res : Nat × List Str) : Prop :=
  ∃ ext path, res.2 = vals0 ++ ext ∧ tokens res.1 = pre ++ path ∧ ((∀ x ∈ ext, x ≠ []) → spell path ext = some rem)

theorem first_some {a b : Option α} {x : α} (h : first a b = some x) : a = some x ∨ (a = none ∧ b = some x) := by
  cases a <;> simp_all [first]

theorem getLast?_append_singleton (l : List Suf) (s : Suf) : (l ++ [s]).getLast? = some s := by simp

theorem match_sound (tokens : Nat → List Suf) (hwf : TemplatesWF tokens) :
    (∀ node rem vals0, ∀ pre, WL tokens node pre → ∀ res, matchN node rem vals0 = some res → Sound tokens pre rem vals0 res) ∧
    (∀ sufs rem vals0, ∀ pre, WLL tokens sufs pre → ∀ res, matchL sufs rem vals0 = some res → Sound tokens pre rem vals0 res) := by
  refine matchN.mutual_induct
    (motive_1 := fun node rem vals0 => ∀ pre, WL tokens node pre → ∀ res, matchN node rem vals0 = some res → Sound tokens pre rem vals0 res)
    (motive_2 := fun sufs rem vals0 => ∀ pre, WLL tokens sufs pre → ∀ res, matchL sufs rem vals0 = some res → Sound tokens pre rem vals0 res)
    ?here ?down ?lnil ?lcons
  case here =>
    intro sufs vals v pre hwl res h
    simp only [matchN] at h
    cases h
    simp only [WL] at hwl
    exact ⟨[], [], by simp, by simp [hwl.1 v rfl], fun _ => rfl⟩
  case down =>
    intro value sufs rem vals hno ih pre hwl res h
    simp only [WL] at hwl
    have : matchN (.mk value sufs) rem vals = matchL sufs rem vals := by
      cases rem with
      | nil =>
        cases value with
        | none => simp [matchN]
        | some v => exact (hno v rfl rfl).elim
      | cons c cs => simp [matchN]
    rw [this] at h
    exact ih pre hwl.2 res h
  case lnil => intro rem vals pre _ res h; simp [matchL] at h
  case lcons =>
    intro suf child rest rem vals ihStrip ihSame ihVar ihRest pre hwl res h
    simp only [WLL] at hwl
    obtain ⟨hwlc, hwlr⟩ := hwl
    simp only [matchL] at h
    rcases first_some h with h1 | ⟨_, h2⟩
    · cases suf with
      | const p =>
        simp only at h1
        cases hs : stripPrefix p rem with
        | some rem' =>
          simp only [hs] at h1
          obtain ⟨ext, path, e1, e2, e3⟩ := ihStrip rem' (pre ++ [.const p]) hwlc res h1
          refine ⟨ext, .const p :: path, e1, by simp [e2], fun hx => ?_⟩
          simp [spell, e3 hx, stripPrefix_some hs]
        | none =>
          simp only [hs] at h1
          by_cases hq : rem = [] ∧ p = ['/']
          · simp only [hq, and_self, if_true] at h1
            obtain ⟨hr, hp⟩ := hq
            subst hr hp
            obtain ⟨ext, path, e1, e2, e3⟩ := ihSame (pre ++ [.const ['/']]) hwlc res h1
            refine ⟨ext, .const ['/'] :: path, e1, by simp [e2], fun hx => ?_⟩
            -- the quirk branch: with non-empty bindings it would make a stored template end in "/"
            exfalso
            have hnil := spell_nil_of_nonempty path ext
              (fun s hs' => (hwf res.1).1 s (by rw [e2]; simp [hs'])) hx (e3 hx)
            have := (hwf res.1).2
            rw [e2, hnil.1] at this
            simp at this
          · simp [hq] at h1
      | var =>
        simp only at h1
        obtain ⟨ext, path, e1, e2, e3⟩ := ihVar (pre ++ [.var]) hwlc res h1
        refine ⟨(takeSeg rem).1 :: ext, .var :: path, by simp [e1], by simp [e2], fun hx => ?_⟩
        have hx' : ∀ x ∈ ext, x ≠ [] := fun x hm => hx x (by simp [hm])
        simp only [spell, e3 hx', Option.map_some]
        rw [takeSeg_append]
      | all =>
        simp only at h1
        obtain ⟨value, sufs⟩ := child
        cases value with
        | none => simp [valueOf] at h1
        | some v =>
          simp [valueOf] at h1
          subst h1
          simp only [WL] at hwlc
          exact ⟨[rem], [.all], by simp, by simp [hwlc.1 v rfl], fun _ => by simp [spell]⟩
    · exact ihRest pre hwlr res h2

/-- C09 (legacy router, partial): a match whose bindings are all non-empty spells exactly the input:
    substituting the returned values into the returned template reproduces the request -/
theorem match_sound_partial (tokens : Nat → List Suf) (hwf : TemplatesWF tokens) (root : Node) (hwl : WL tokens root [])
    (input : Str) (v : Nat) (vals : List Str) (h : matchN root input [] = some (v, vals)) (hne : ∀ x ∈ vals, x ≠ []) :
    spell (tokens v) vals = some input := by
  obtain ⟨ext, path, e1, e2, e3⟩ := (match_sound tokens hwf).1 root input [] [] hwl (v, vals) h
  simp at e1 e2
  subst e1
  rw [e2]; exact e3 hne

/-- witness of finding #14 on the model: template "/b/{x}" (tokens "/", "b", "/", var) matches "/b" with x = "" -/
def t14 : Node :=
  .mk none [(.const ['/'], .mk none [(.const ['b'], .mk none [(.const ['/'], .mk none [(.var, .mk (some 0) [])])])])]
theorem witness_empty_binding : matchN t14 ['/', 'b'] [] = some (0, [[]]) := by
  simp [t14, matchN, matchL, stripPrefix, takeSeg, first]

#print axioms match_sound_partial
end Rt
