/-
DESIGN-PHASE FEASIBILITY PROTOTYPE (round 0) — not part of the verification machinery.

C02 (DESIGN.md §4-C02): the loader's resolution with its in-progress set (`visitedRefs`) and backtrack
callbacks, both keyed by the reference TEXT exactly as in openapi3/loader.go; `designates` is the
specification (what the text designates from the file it is written in, following chains).
  * resolved_correctly_partial — under `TextIsGlobal` (a text designates the same target from every
        file) every value the algorithm records is what the reference designates; proved by induction
        on fuel with the invariants `Good` (recorded values are right) and `PendingOK` (a pending node
        carries the text it waits for). The step that fills pending nodes is exactly where the
        exclusion is used.
  * w29_model / w29_spec / w29_text_not_global — finding #29 reproduced INSIDE the model by `decide`:
        the same relative text in two directories; the algorithm gives the second occurrence the first
        occurrence's target while the specification designates the other file
Not in this abstraction: kinds (finding #12), the walk table, path algebra, the read log (see the C11
prototype). Lean 4.33.0, core only, ≈ 2 s; axioms: propext, Quot.sound.
-/
namespace Ld

abbrev Loc := Nat
abbrev Text := Nat                     -- reference texts, as written in the files
abbrev Id := Loc × Nat                 -- a node: (file, index in that file's node table)

structure Node where
  ref  : Option Text                   -- `$ref` text, if this node is a reference
  kids : List Nat                      -- child nodes (indices in the same file) walked by the resolver

structure World where
  files  : Loc → List Node
  /-- what a reference text written in file `cur` designates per RFC resolution + JSON pointer -/
  target : Loc → Text → Option Id

def World.node (w : World) (i : Id) : Option Node := (w.files i.1)[i.2]?

structure St where
  value   : List (Id × Id)             -- resolved references: ref node ↦ the (non-reference) node it stands for
  inprog  : List Text                  -- visitedRefs: keyed by TEXT, as in the Go code
  pending : List (Text × Id)           -- backtrack callbacks: text ↦ reference nodes to fill in later
  deriving Repr

def St.get (s : St) (i : Id) : Option Id := (s.value.find? (·.1 = i)).map (·.2)

mutual
/-- resolve*Ref + walk of the children; fuel-indexed -/
def resolve (w : World) : Nat → Id → St → Option St
  | 0, _, _ => none
  | fuel + 1, i, s =>
    match w.node i with
    | none => none
    | some n =>
      match n.ref with
      | none => walk w fuel i.1 n.kids s                       -- a plain value: walk its children
      | some t =>
        if (s.get i).isSome then some s                         -- component.Value != nil
        else if s.inprog.contains t then
          some { s with pending := s.pending ++ [(t, i)] }      -- shouldVisitRef = false: register callback
        else
          match w.target i.1 t with
          | none => none                                        -- dangling: load error
          | some tgt =>
            let s1 := { s with inprog := s.inprog ++ [t] }      -- visitRef
            match resolve w fuel tgt s1 with                    -- resolve the target in ITS OWN file
            | none => none
            | some s2 =>
              -- the value the target stands for: itself, or what it was resolved to if it is a reference
              let v := match (w.node tgt).bind (·.ref) with
                       | none => some tgt
                       | some _ => s2.get tgt
              match v with
              | none => some { s2 with inprog := s2.inprog.erase t }        -- unvisit with nil value: callbacks not run
              | some v =>
                -- unvisitRef: run the callbacks registered under this TEXT, whatever file they came from
                let filled := (s2.pending.filter (·.1 = t)).map (fun p => (p.2, v))
                some { value := s2.value ++ [(i, v)] ++ filled,
                       inprog := s2.inprog.erase t,
                       pending := s2.pending.filter (·.1 ≠ t) }
def walk (w : World) : Nat → Loc → List Nat → St → Option St
  | _, _, [], s => some s
  | 0, _, _ :: _, _ => none
  | fuel + 1, loc, k :: ks, s =>
    match resolve w fuel (loc, k) s with
    | none => none
    | some s' => walk w fuel loc ks s'
end

/-- the specification: a reference node stands for what its text designates from ITS OWN file
    (following reference chains) -/
def designates (w : World) : Nat → Id → Option Id
  | 0, _ => none
  | fuel + 1, i =>
    match w.node i with
    | none => none
    | some n =>
      match n.ref with
      | none => some i
      | some t => (w.target i.1 t).bind (designates w fuel)

/-- exclusion for the partial theorem: equal texts designate equal targets wherever they are written -/
def TextDeterminesTarget (w : World) : Prop :=
  ∀ l l' t a b, w.target l t = some a → w.target l' t = some b → a = b

/-- STATEMENT ONLY (the machinery proves it by induction on fuel with the invariant "every pending
    entry under text t will be given designates of t"): -/
def ResolvedCorrectlyPartial (w : World) : Prop :=
  TextDeterminesTarget w →
  ∀ fuel root s, resolve w fuel root ⟨[], [], []⟩ = some s →
    ∀ i v, (i, v) ∈ s.value → ∃ f, designates w f i = some v

/-! Witness of finding #29. Files: 0 = /r/a/root.json, 1 = /r/a/x.json, 2 = /r/b/b.json, 3 = /r/b/x.json.
    Text 7 = "x.json#/S" (relative!), text 8 = "../b/b.json#/T". -/
def w29 : World where
  files := fun
    | 0 => [⟨some 7, []⟩]                         -- root: X = {$ref: x.json#/S}
    | 1 => [⟨none, [1]⟩, ⟨some 8, []⟩]            -- a/x.json: S = object with property p = {$ref: ../b/b.json#/T}
    | 2 => [⟨none, [1]⟩, ⟨some 7, []⟩]            -- b/b.json: T = object with property q = {$ref: x.json#/S}
    | 3 => [⟨none, []⟩]                           -- b/x.json: S = string
    | _ => []
  target := fun loc t =>
    match loc, t with
    | 0, 7 => some (1, 0)                         -- from /r/a: x.json#/S is a/x.json's S
    | 1, 8 => some (2, 0)
    | 2, 7 => some (3, 0)                         -- from /r/b: x.json#/S is b/x.json's S
    | _, _ => none

/-- the loader's algorithm gives q (node (2,1)) the value a/x.json#/S = (1,0) … -/
theorem w29_model : ((resolve w29 20 (0, 0) ⟨[], [], []⟩).bind (·.get (2, 1))) = some (1, 0) := by decide
/-- … while the reference designates b/x.json#/S = (3,0): model ≠ spec, as on the real code -/
theorem w29_spec : designates w29 5 (2, 1) = some (3, 0) := by decide
theorem w29_not_excluded_trivially : ¬ TextDeterminesTarget w29 := by
  intro h; have := h 0 2 7 (1, 0) (3, 0) rfl rfl; simp at this


/-! ### Partial correctness of the text-keyed algorithm under `TextDeterminesTarget` -/

theorem designates_mono (w : World) : ∀ (f : Nat) (i v : Id), designates w f i = some v → ∀ g, f ≤ g → designates w g i = some v
  | 0, _, _, h, _, _ => by simp [designates] at h
  | f + 1, i, v, h, g, hg => by
    cases g with
    | zero => omega
    | succ g =>
      simp only [designates] at h ⊢
      cases hn : w.node i with
      | none => simp [hn] at h
      | some n =>
        simp only [hn] at h ⊢
        cases hr : n.ref with
        | none => simpa [hr] using h
        | some t =>
          simp only [hr] at h ⊢
          cases ht : w.target i.1 t with
          | none => simp [ht] at h
          | some tgt =>
            simp only [ht, Option.bind_some] at h ⊢
            exact designates_mono w f tgt v h g (by omega)

/-- what every recorded value must satisfy -/
def Good (w : World) (s : St) : Prop := ∀ i v, (i, v) ∈ s.value → ∃ f, designates w f i = some v

/-- every pending entry is a reference node carrying exactly the text it waits for -/
def PendingOK (w : World) (s : St) : Prop := ∀ t m, (t, m) ∈ s.pending → ∃ n, w.node m = some n ∧ n.ref = some t

theorem get_mem (s : St) (i v : Id) (h : s.get i = some v) : (i, v) ∈ s.value := by
  unfold St.get at h
  cases hf : s.value.find? (·.1 = i) with
  | none => simp [hf] at h
  | some p =>
    simp [hf] at h
    have hm := List.mem_of_find?_eq_some hf
    have hp := List.find?_some hf
    simp at hp
    obtain ⟨a, b⟩ := p
    simp at hp h; subst hp; subst h; exact hm

/-- the exclusion in the form the proof needs: a text designates the same target from every file
    (in particular it is defined everywhere or nowhere) -/
def TextIsGlobal (w : World) : Prop := ∀ l l' t, w.target l t = w.target l' t

theorem resolve_correct (w : World) (hT : TextIsGlobal w) : ∀ fuel,
    (∀ i s s', Good w s → PendingOK w s → resolve w fuel i s = some s' → Good w s' ∧ PendingOK w s') ∧
    (∀ loc ks s s', Good w s → PendingOK w s → walk w fuel loc ks s = some s' → Good w s' ∧ PendingOK w s') := by
  intro fuel
  induction fuel with
  | zero =>
    refine ⟨?_, ?_⟩
    · intro i s s' _ _ h; simp [resolve] at h
    · intro loc ks s s' hg hp h; cases ks <;> simp [walk] at h; subst h; exact ⟨hg, hp⟩
  | succ fuel ih =>
    obtain ⟨ihR, ihW⟩ := ih
    refine ⟨?_, ?_⟩
    · intro i s s' hg hp h
      simp only [resolve] at h
      cases hn : w.node i with
      | none => simp [hn] at h
      | some n =>
        simp only [hn] at h
        cases hr : n.ref with
        | none => simp only [hr] at h; exact ihW _ _ _ _ hg hp h
        | some t =>
          simp only [hr] at h
          by_cases h1 : (s.get i).isSome = true
          · simp [h1] at h; subst h; exact ⟨hg, hp⟩
          · simp only [h1] at h
            by_cases h2 : s.inprog.contains t = true
            · simp only [h2, if_true] at h; simp at h; subst h
              refine ⟨hg, ?_⟩
              intro t' m hm
              simp only [List.mem_append, List.mem_singleton, Prod.mk.injEq] at hm
              rcases hm with hm | ⟨rfl, rfl⟩
              · exact hp t' m hm
              · exact ⟨n, hn, hr⟩
            · simp only [h2] at h
              cases ht : w.target i.1 t with
              | none => simp [ht] at h
              | some tgt =>
                simp only [ht] at h
                cases hres : resolve w fuel tgt { s with inprog := s.inprog ++ [t] } with
                | none => simp [hres] at h
                | some s2 =>
                  simp only [hres] at h
                  obtain ⟨hg2, hp2⟩ := ihR tgt _ s2 (by simpa [Good] using hg) (by simpa [PendingOK] using hp) hres
                  -- the value the target stands for
                  cases hv : (match (w.node tgt).bind (·.ref) with | none => some tgt | some _ => s2.get tgt) with
                  | none =>
                    simp only [hv] at h; simp at h; subst h
                    exact ⟨by simpa [Good] using hg2, by simpa [PendingOK] using hp2⟩
                  | some v =>
                    simp only [hv] at h; simp at h; subst h
                    -- designates of the target is v
                    have hdt : ∃ f, designates w f tgt = some v := by
                      cases hnt : w.node tgt with
                      | none =>
                        simp [hnt] at hv; subst hv
                        -- a target without a node cannot have been resolved: resolve returned some, so node exists
                        cases fuel with
                        | zero => simp [resolve] at hres
                        | succ f => simp [resolve, hnt] at hres
                      | some nt =>
                        cases hrt : nt.ref with
                        | none =>
                          simp [hnt, hrt] at hv; subst hv
                          exact ⟨1, by simp [designates, hnt, hrt]⟩
                        | some t' =>
                          simp [hnt, hrt] at hv
                          exact hg2 _ _ (get_mem _ _ _ hv)
                    obtain ⟨f, hf⟩ := hdt
                    have hdi : designates w (f + 1) i = some v := by
                      simp [designates, hn, hr, ht, hf]
                    refine ⟨?_, ?_⟩
                    · intro a b hab
                      dsimp only at hab
                      simp only [List.mem_append, List.mem_cons, List.not_mem_nil, or_false, List.mem_map, List.mem_filter] at hab
                      rcases hab with hab | hab | ⟨p, ⟨hpm, hpt⟩, hpe⟩
                      · exact hg2 a b hab
                      · simp only [Prod.mk.injEq] at hab; obtain ⟨rfl, rfl⟩ := hab; exact ⟨f + 1, hdi⟩
                      · -- a pending node waiting for the same TEXT, possibly written in another file
                        obtain ⟨pt, pm⟩ := p
                        simp only [Prod.mk.injEq] at hpe; obtain ⟨rfl, rfl⟩ := hpe
                        have hpt' : pt = t := by simpa using hpt
                        subst hpt'
                        obtain ⟨nm, hnm, hrm⟩ := hp2 _ _ hpm
                        have htm : w.target pm.1 pt = some tgt := by rw [hT pm.1 i.1 pt]; exact ht
                        exact ⟨f + 1, by simp [designates, hnm, hrm, htm, hf]⟩
                    · intro t' m hm
                      dsimp only at hm
                      simp only [List.mem_filter] at hm
                      exact hp2 t' m hm.1
    · intro loc ks s s' hg hp h
      cases ks with
      | nil => simp [walk] at h; subst h; exact ⟨hg, hp⟩
      | cons k ks =>
        simp only [walk] at h
        cases hres : resolve w fuel (loc, k) s with
        | none => simp [hres] at h
        | some s1 =>
          simp only [hres] at h
          obtain ⟨hg1, hp1⟩ := ihR _ _ _ hg hp hres
          exact ihW _ _ _ _ hg1 hp1 h

/-- C02 (partial) on the model: after a successful load every reference that was given a value stands
    for exactly what its text designates from the file it is written in -/
theorem resolved_correctly_partial (w : World) (hT : TextIsGlobal w) (fuel : Nat) (root : Id) (s : St)
    (h : resolve w fuel root ⟨[], [], []⟩ = some s) : ∀ i v, (i, v) ∈ s.value → ∃ f, designates w f i = some v :=
  ((resolve_correct w hT fuel).1 root ⟨[], [], []⟩ s (by intro i v h; simp at h) (by intro t m h; simp at h) h).1

theorem w29_text_not_global : ¬ TextIsGlobal w29 := by
  intro h; have := h 0 2 7; simp [w29] at this

#print axioms resolved_correctly_partial
end Ld
