/-
DESIGN-PHASE FEASIBILITY PROTOTYPE (round 0) — not part of the verification machinery.

C11 (DESIGN.md §4-C11): an abstract, fuel-indexed loader (elements carry internal references —
with the raw re-read fallback of resolveComponent — external references and child elements;
`resolve` and `store` abstract the path algebra and the file system) that logs every read, and

  switch_off_reads_root_only : allowed = false → load … = some log → ∀ l ∈ log, l = root

proved by an invariant over the four mutually recursive walkers (induction on fuel). The guard is
checked before any location is computed or read, and the "current location" only changes inside
the guarded branch — exactly the two facts the translator's `readSites` table must confirm for the
real code. Lean 4.33.0, core only, ≈ 1 s; axioms: propext, Quot.sound.
-/
namespace L

abbrev Loc := Nat      -- abstract locations (files / URLs)
abbrev Rel := Nat      -- abstract external reference texts

/-- A parsed element: the references it carries at walked positions and its child elements. -/
inductive Node where
  | mk (refs : List (Bool × Nat)) (ext : List (Rel × Bool)) (kids : List Node)
  -- refs : internal references (needsRawReRead?, index of the target among the document's nodes)
  -- ext  : external references (text, hasFragment?)

structure Env where
  allowed : Bool                         -- Loader.IsExternalRefsAllowed
  resolve : Loc → Rel → Loc              -- resolvePathWithRef (path algebra, abstract here)
  store   : Loc → Option (List Node)     -- what a read + parse of a location yields: its node table

/-- reads performed, in order; `none` = load error -/
abbrev Log := List Loc

mutual
/-- visit one element that lives in the document at `cur` whose node table is `tbl` -/
def visit (env : Env) : Nat → Loc → List Node → Node → Log → Option Log
  | 0, _, _, _, _ => none                                    -- out of fuel (cannot happen with enough fuel)
  | fuel + 1, cur, tbl, .mk refs ext kids, log =>
    (visitInt env fuel cur tbl refs log).bind fun log =>
    (visitExt env fuel cur tbl ext log).bind fun log =>
    visitKids env fuel cur tbl kids log
def visitInt (env : Env) : Nat → Loc → List Node → List (Bool × Nat) → Log → Option Log
  | _, _, _, [], log => some log
  | 0, _, _, _ :: _, _ => none
  | fuel + 1, cur, tbl, (reread, i) :: rest, log =>
    -- resolveComponent: drill in the typed document; on failure re-read the CURRENT document raw
    let log := if reread then log ++ [cur] else log
    match tbl[i]? with
    | none => none                                            -- dangling
    | some target =>
      (visit env fuel cur tbl target log).bind fun log => visitInt env fuel cur tbl rest log
def visitExt (env : Env) : Nat → Loc → List Node → List (Rel × Bool) → Log → Option Log
  | _, _, _, [], log => some log
  | 0, _, _, _ :: _, _ => none
  | fuel + 1, cur, tbl, (rel, _frag) :: rest, log =>
    if !env.allowed then none                                 -- allowsExternalRefs guard, BEFORE any read
    else
      let loc := env.resolve cur rel
      match env.store loc with
      | none => none
      | some tbl' =>
        match tbl'.head? with
        | none => none
        | some root =>
          -- the referenced document/element is visited with ITS OWN location as current
          (visit env fuel loc tbl' root (log ++ [loc])).bind fun log => visitExt env fuel cur tbl rest log
def visitKids (env : Env) : Nat → Loc → List Node → List Node → Log → Option Log
  | _, _, _, [], log => some log
  | 0, _, _, _ :: _, _ => none
  | fuel + 1, cur, tbl, k :: ks, log =>
    (visit env fuel cur tbl k log).bind fun log => visitKids env fuel cur tbl ks log
end

/-- LoadFromFile: read the root, then walk it -/
def load (env : Env) (fuel : Nat) (root : Loc) : Option Log :=
  match env.store root with
  | none => none
  | some tbl => match tbl.head? with
    | none => none
    | some n => visit env fuel root tbl n [root]

/-! ### C11, switch off: nothing but the root is ever read -/

def OnlyRoot (root : Loc) (log : Log) : Prop := ∀ l ∈ log, l = root

theorem off_invariant (env : Env) (hoff : env.allowed = false) (root : Loc) :
    ∀ fuel,
      (∀ tbl n log log', OnlyRoot root log → visit env fuel root tbl n log = some log' → OnlyRoot root log') ∧
      (∀ tbl rs log log', OnlyRoot root log → visitInt env fuel root tbl rs log = some log' → OnlyRoot root log') ∧
      (∀ tbl es log log', OnlyRoot root log → visitExt env fuel root tbl es log = some log' → OnlyRoot root log') ∧
      (∀ tbl ks log log', OnlyRoot root log → visitKids env fuel root tbl ks log = some log' → OnlyRoot root log') := by
  intro fuel
  induction fuel with
  | zero =>
    refine ⟨?_, ?_, ?_, ?_⟩
    · intro tbl n log log' _ h; simp [visit] at h
    · intro tbl rs log log' hl h; cases rs <;> simp [visitInt] at h; subst h; exact hl
    · intro tbl es log log' hl h; cases es <;> simp [visitExt] at h; subst h; exact hl
    · intro tbl ks log log' hl h; cases ks <;> simp [visitKids] at h; subst h; exact hl
  | succ fuel ih =>
    obtain ⟨ihV, ihI, ihE, ihK⟩ := ih
    refine ⟨?_, ?_, ?_, ?_⟩
    · intro tbl n log log' hl h
      obtain ⟨refs, ext, kids⟩ := n
      simp only [visit, Option.bind_eq_some_iff] at h
      obtain ⟨l1, h1, l2, h2, h3⟩ := h
      exact ihK _ _ _ _ (ihE _ _ _ _ (ihI _ _ _ _ hl h1) h2) h3
    · intro tbl rs log log' hl h
      cases rs with
      | nil => simp [visitInt] at h; subst h; exact hl
      | cons r rest =>
        obtain ⟨reread, i⟩ := r
        simp only [visitInt] at h
        cases ht : tbl[i]? with
        | none => simp [ht] at h
        | some target =>
          simp only [ht, Option.bind_eq_some_iff] at h
          obtain ⟨l1, h1, h2⟩ := h
          have hl' : OnlyRoot root (if reread = true then log ++ [root] else log) := by
            intro l hm; split at hm
            · simp at hm; rcases hm with hm | hm
              · exact hl l hm
              · exact hm
            · exact hl l hm
          exact ihI _ _ _ _ (ihV _ _ _ _ hl' h1) h2
    · intro tbl es log log' hl h
      cases es with
      | nil => simp [visitExt] at h; subst h; exact hl
      | cons e rest => obtain ⟨rel, fr⟩ := e; simp [visitExt, hoff] at h
    · intro tbl ks log log' hl h
      cases ks with
      | nil => simp [visitKids] at h; subst h; exact hl
      | cons k ks =>
        simp only [visitKids, Option.bind_eq_some_iff] at h
        obtain ⟨l1, h1, h2⟩ := h
        exact ihK _ _ _ _ (ihV _ _ _ _ hl h1) h2

/-- C11 (first sentence) on the model: with external references disallowed, a successful load
    has read the root document only — whatever references the document contains. -/
theorem switch_off_reads_root_only (env : Env) (hoff : env.allowed = false) (fuel : Nat) (root : Loc)
    (log : Log) (h : load env fuel root = some log) : ∀ l ∈ log, l = root := by
  unfold load at h
  cases hs : env.store root with
  | none => simp [hs] at h
  | some tbl =>
    cases hh : tbl.head? with
    | none => simp [hs, hh] at h
    | some n =>
      simp [hs, hh] at h
      exact (off_invariant env hoff root fuel).1 tbl n [root] log (by intro l hl; simpa using hl) h

#print axioms switch_off_reads_root_only
end L
