/-
DESIGN-PHASE FEASIBILITY PROTOTYPE (round 0) — not part of the verification machinery.

Generic object-kind model for C03 (DESIGN.md §4-C03): a descriptor `d` (keys written by the
marshaller, keys deleted from the extension map by the unmarshaller), `marshal`, `unmarshal`,
and the round trip `agree d → NF d r → unmarshal d (marshal d r) = r` (field-wise and for the
extension map). In the real machinery the descriptors are regenerated from /repo by the
translator and `∀ d ∈ Gen.descriptors, d.agree` is discharged `by decide`.
Lean 4.33.0, core only, builds in ≈ 1 s; axioms: propext, Classical.choice, Quot.sound.
-/
namespace M
variable {V : Type}

abbrev Obj (V : Type) := List (String × V)

def lookup (k : String) : Obj V → Option V
  | [] => none
  | (k', v) :: r => if k = k' then some v else lookup k r

structure Desc where
  keys : List String      -- keys written by the marshaller (= json tags)
  dels : List String      -- keys deleted from Extensions by the unmarshaller

def Desc.agree (d : Desc) : Bool := d.keys == d.dels && d.keys.Nodup

structure Rec (V : Type) where
  get : String → Option V          -- known fields, none = zero value / omitted
  ext : Obj V

def marshal (d : Desc) (r : Rec V) : Obj V :=
  r.ext ++ d.keys.filterMap (fun k => (r.get k).map (fun v => (k, v)))

def unmarshal (d : Desc) (o : Obj V) : Rec V :=
  { get := fun k => if k ∈ d.keys then lookup k o else none
    ext := o.filter (fun kv => !(d.dels.contains kv.1)) }

/-- normal form of a record for descriptor d -/
structure NF (d : Desc) (r : Rec V) : Prop where
  outside : ∀ k, k ∉ d.keys → r.get k = none
  extFresh : ∀ kv ∈ r.ext, kv.1 ∉ d.keys

theorem lookup_append (k : String) (a b : Obj V) :
    lookup k (a ++ b) = (lookup k a).orElse (fun _ => lookup k b) := by
  induction a with
  | nil => simp [lookup]
  | cons kv r ih => obtain ⟨k', v⟩ := kv; simp only [List.cons_append, lookup]; split <;> simp [ih]

theorem lookup_none_of_fresh (k : String) (a : Obj V) (h : ∀ kv ∈ a, kv.1 ≠ k) : lookup k a = none := by
  induction a with
  | nil => rfl
  | cons kv r ih =>
    obtain ⟨k', v⟩ := kv
    have : k ≠ k' := fun e => h (k', v) (by simp) e.symm
    simp [lookup, this]; exact ih (fun kv hkv => h kv (by simp [hkv]))

theorem lookup_fields (get : String → Option V) (k : String) :
    ∀ (ks : List String), ks.Nodup → k ∈ ks →
      lookup k (ks.filterMap (fun k => (get k).map (fun v => (k, v)))) = get k
  | [], _, h => by simp at h
  | k' :: ks, hn, hk => by
    rw [List.nodup_cons] at hn
    by_cases e : k = k'
    · subst e
      cases hg : get k with
      | none =>
        simp [List.filterMap_cons, hg]
        apply lookup_none_of_fresh
        intro kv hkv
        simp [List.mem_filterMap] at hkv
        obtain ⟨k2, hk2, v, _, rfl⟩ := hkv
        intro e; subst e; exact hn.1 hk2
      | some v => simp [List.filterMap_cons, hg, lookup]
    · have hk' : k ∈ ks := by simpa [e] using hk
      cases hg : get k' with
      | none => simp [List.filterMap_cons, hg]; exact lookup_fields get k ks hn.2 hk'
      | some v => simp [List.filterMap_cons, hg, lookup, e]; exact lookup_fields get k ks hn.2 hk'

theorem roundtrip_get (d : Desc) (r : Rec V) (ha : d.agree = true) (hr : NF d r) (k : String) :
    (unmarshal d (marshal d r)).get k = r.get k := by
  simp [Desc.agree] at ha
  obtain ⟨_, hnd⟩ := ha
  simp only [unmarshal, marshal]
  by_cases hk : k ∈ d.keys
  · simp only [hk, if_true, lookup_append]
    rw [lookup_none_of_fresh k r.ext (fun kv hkv e => hr.extFresh kv hkv (e ▸ hk))]
    simpa using lookup_fields r.get k d.keys hnd hk
  · simp [hk, hr.outside k hk]

theorem roundtrip_ext (d : Desc) (r : Rec V) (ha : d.agree = true) (hr : NF d r) :
    (unmarshal d (marshal d r)).ext = r.ext := by
  simp [Desc.agree] at ha
  obtain ⟨hkd, _⟩ := ha
  simp only [unmarshal, marshal, List.filter_append]
  have h1 : r.ext.filter (fun kv => !(d.dels.contains kv.1)) = r.ext := by
    apply List.filter_eq_self.mpr
    intro kv hkv
    have := hr.extFresh kv hkv
    simp [← hkd, this]
  have h2 : (d.keys.filterMap (fun k => (r.get k).map (fun v => (k, v)))).filter
      (fun kv => !(d.dels.contains kv.1)) = [] := by
    apply List.filter_eq_nil_iff.mpr
    intro kv hkv
    simp [List.mem_filterMap] at hkv
    obtain ⟨k, hk, v, _, rfl⟩ := hkv
    simp [← hkd, hk]
  rw [h1, h2]; simp

#print axioms roundtrip_get
#print axioms roundtrip_ext
end M
