/-
DESIGN-PHASE FEASIBILITY PROTOTYPE (round 0) — not part of the verification machinery.

C04 (DESIGN.md §4-C04), the generic core: a document tree whose nodes carry a kind, a local verdict
and children at named positions; `validate` descends only along the (kind, position) pairs of an
edge table — in the machinery that table is REGENERATED from the Validate methods of /repo.
  * validate_iff            — accepted ⇔ every node reachable through the table's edges is locally fine
  * spec_violation_rejected — if the specification's containment edges are among the table's edges
                              (a `decide` obligation), every violation the specification can reach
                              is rejected
Lean 4.33.0, core only, ≈ 2 s; axioms: propext, Quot.sound.
-/
namespace V

/-- kinds of document nodes (abstract) and a document tree: a node has a kind, a local verdict
    for each rule (abstracted to one Bool per node: "all local rules of this kind hold"),
    and children grouped under named positions -/
inductive Doc where
  | node (kind : Nat) (localOK : Bool) (kids : List (Nat × Doc))     -- (position id, child)

/-- generated descent table: (kind, position) pairs that the kind's Validate method descends into -/
abbrev Edges := List (Nat × Nat)

-- model of the recursive descent: local rules, then every child at a position listed in the table
mutual
def validate (E : Edges) : Doc → Bool
  | .node k ok kids => ok && validateKids E k kids
def validateKids (E : Edges) (k : Nat) : List (Nat × Doc) → Bool
  | [] => true
  | (pos, d) :: r => (if E.contains (k, pos) then validate E d else true) && validateKids E k r
end

-- nodes reachable through the table
mutual
inductive Reach (E : Edges) : Doc → Doc → Prop
  | self {d} : Reach E d d
  | step {k ok kids pos c d} : (pos, c) ∈ kids → (k, pos) ∈ E → Reach E c d → Reach E (.node k ok kids) d
end

def Doc.localOK : Doc → Bool | .node _ ok _ => ok

mutual
theorem validate_sound (E : Edges) : ∀ (d : Doc), validate E d = true → ∀ d', Reach E d d' → d'.localOK = true
  | .node k ok kids, h, d', hr => by
    simp only [validate, Bool.and_eq_true] at h
    cases hr with
    | self => exact h.1
    | step hm he hr' => exact kids_sound E k kids h.2 _ _ hm he d' hr'
theorem kids_sound (E : Edges) (k : Nat) : ∀ (kids : List (Nat × Doc)), validateKids E k kids = true →
    ∀ pos c, (pos, c) ∈ kids → (k, pos) ∈ E → ∀ d', Reach E c d' → d'.localOK = true
  | [], _, _, _, hm, _, _, _ => by simp at hm
  | (p, d) :: r, h, pos, c, hm, he, d', hr => by
    simp only [validateKids, Bool.and_eq_true] at h
    simp only [List.mem_cons, Prod.mk.injEq] at hm
    rcases hm with ⟨rfl, rfl⟩ | hm
    · have : E.contains (k, pos) = true := by simpa using he
      simp only [this, if_true] at h
      exact validate_sound E c h.1 d' hr
    · exact kids_sound E k r h.2 pos c hm he d' hr
end

mutual
theorem validate_complete (E : Edges) : ∀ (d : Doc), (∀ d', Reach E d d' → d'.localOK = true) → validate E d = true
  | .node k ok kids, h => by
    simp only [validate, Bool.and_eq_true]
    refine ⟨h _ .self, kids_complete E k kids (fun pos c hm he d' hr => h d' (.step hm he hr))⟩
theorem kids_complete (E : Edges) (k : Nat) : ∀ (kids : List (Nat × Doc)),
    (∀ pos c, (pos, c) ∈ kids → (k, pos) ∈ E → ∀ d', Reach E c d' → d'.localOK = true) → validateKids E k kids = true
  | [], _ => rfl
  | (p, d) :: r, h => by
    simp only [validateKids, Bool.and_eq_true]
    refine ⟨?_, kids_complete E k r (fun pos c hm he => h pos c (by simp [hm]) he)⟩
    split
    · rename_i hc
      exact validate_complete E d (h p d (by simp) (by simpa using hc))
    · rfl
end

/-- C04 core: the descent accepts exactly when every node reachable THROUGH THE CODE'S EDGES is locally fine -/
theorem validate_iff (E : Edges) (d : Doc) :
    validate E d = true ↔ ∀ d', Reach E d d' → d'.localOK = true :=
  ⟨validate_sound E d, validate_complete E d⟩

/-- lifting to the specification's containment relation: if the spec's edges are among the code's
    edges (a `decide` obligation on the generated table), every spec-reachable violation is rejected -/
theorem spec_violation_rejected (E S : Edges) (hcover : ∀ e ∈ S, e ∈ E) (d d' : Doc)
    (hr : Reach S d d') (hbad : d'.localOK = false) : validate E d = false := by
  have mono : ∀ {a b}, Reach S a b → Reach E a b := by
    intro a b h
    induction h with
    | self => exact .self
    | step hm he _ ih => exact .step hm (hcover _ he) ih
  cases hv : validate E d with
  | false => rfl
  | true => have := (validate_iff E d).mp hv d' (mono hr); simp [hbad] at this

#print axioms validate_iff
#print axioms spec_violation_rejected
end V
