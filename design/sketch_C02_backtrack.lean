/-
DESIGN-PHASE SKETCH (round 0) — not part of the verification machinery. MODEL, SPEC AND STATEMENT;
only the witness theorems are proved.

C02 (DESIGN.md §4-C02): the loader's resolution with its in-progress set (`visitedRefs`) and backtrack
callbacks, both keyed by the reference TEXT exactly as in openapi3/loader.go; `designates` is the
specification (what the text designates from the file it is written in, following chains).
  * ResolvedCorrectlyPartial — STATEMENT of the partial theorem, under `TextDeterminesTarget`
  * w29_model / w29_spec     — finding #29 reproduced INSIDE the model by `decide`: with the same
        relative text written in two directories, the algorithm gives the second occurrence the first
        occurrence's target, while the specification designates the other file
Lean 4.33.0, core only, ≈ 1 s.
-/
namespace Ld

abbrev Loc := Nat
abbrev Text := Nat                     -- reference texts, as written in the files
abbrev Id := Loc × Nat                 -- a node: (file, index in that file's node table)

structure Node where
  ref  : Option Text                   -- `$ref` text, if this node is a reference
  kids : List Nat                      -- child nodes (indices in the same file) walked by the resolver

structure World where
  files  : Loc → List Node
  /-- what a reference text written in file `cur` designates per RFC resolution + JSON pointer -/
  target : Loc → Text → Option Id

def World.node (w : World) (i : Id) : Option Node := (w.files i.1)[i.2]?

structure St where
  value   : List (Id × Id)             -- resolved references: ref node ↦ the (non-reference) node it stands for
  inprog  : List Text                  -- visitedRefs: keyed by TEXT, as in the Go code
  pending : List (Text × Id)           -- backtrack callbacks: text ↦ reference nodes to fill in later
  deriving Repr

def St.get (s : St) (i : Id) : Option Id := (s.value.find? (·.1 = i)).map (·.2)

mutual
/-- resolve*Ref + walk of the children; fuel-indexed -/
def resolve (w : World) : Nat → Id → St → Option St
  | 0, _, _ => none
  | fuel + 1, i, s =>
    match w.node i with
    | none => none
    | some n =>
      match n.ref with
      | none => walk w fuel i.1 n.kids s                       -- a plain value: walk its children
      | some t =>
        if (s.get i).isSome then some s                         -- component.Value != nil
        else if s.inprog.contains t then
          some { s with pending := s.pending ++ [(t, i)] }      -- shouldVisitRef = false: register callback
        else
          match w.target i.1 t with
          | none => none                                        -- dangling: load error
          | some tgt =>
            let s1 := { s with inprog := s.inprog ++ [t] }      -- visitRef
            match resolve w fuel tgt s1 with                    -- resolve the target in ITS OWN file
            | none => none
            | some s2 =>
              -- the value the target stands for: itself, or what it was resolved to if it is a reference
              let v := match (w.node tgt).bind (·.ref) with
                       | none => some tgt
                       | some _ => s2.get tgt
              match v with
              | none => some { s2 with inprog := s2.inprog.erase t }        -- unvisit with nil value: callbacks not run
              | some v =>
                -- unvisitRef: run the callbacks registered under this TEXT, whatever file they came from
                let filled := (s2.pending.filter (·.1 = t)).map (fun p => (p.2, v))
                some { value := s2.value ++ [(i, v)] ++ filled,
                       inprog := s2.inprog.erase t,
                       pending := s2.pending.filter (·.1 ≠ t) }
def walk (w : World) : Nat → Loc → List Nat → St → Option St
  | _, _, [], s => some s
  | 0, _, _ :: _, _ => none
  | fuel + 1, loc, k :: ks, s =>
    match resolve w fuel (loc, k) s with
    | none => none
    | some s' => walk w fuel loc ks s'
end

/-- the specification: a reference node stands for what its text designates from ITS OWN file
    (following reference chains) -/
def designates (w : World) : Nat → Id → Option Id
  | 0, _ => none
  | fuel + 1, i =>
    match w.node i with
    | none => none
    | some n =>
      match n.ref with
      | none => some i
      | some t => (w.target i.1 t).bind (designates w fuel)

/-- exclusion for the partial theorem: equal texts designate equal targets wherever they are written -/
def TextDeterminesTarget (w : World) : Prop :=
  ∀ l l' t a b, w.target l t = some a → w.target l' t = some b → a = b

/-- STATEMENT ONLY (the machinery proves it by induction on fuel with the invariant "every pending
    entry under text t will be given designates of t"): -/
def ResolvedCorrectlyPartial (w : World) : Prop :=
  TextDeterminesTarget w →
  ∀ fuel root s, resolve w fuel root ⟨[], [], []⟩ = some s →
    ∀ i v, (i, v) ∈ s.value → ∃ f, designates w f i = some v

/-! Witness of finding #29. Files: 0 = /r/a/root.json, 1 = /r/a/x.json, 2 = /r/b/b.json, 3 = /r/b/x.json.
    Text 7 = "x.json#/S" (relative!), text 8 = "../b/b.json#/T". -/
def w29 : World where
  files := fun
    | 0 => [⟨some 7, []⟩]                         -- root: X = {$ref: x.json#/S}
    | 1 => [⟨none, [1]⟩, ⟨some 8, []⟩]            -- a/x.json: S = object with property p = {$ref: ../b/b.json#/T}
    | 2 => [⟨none, [1]⟩, ⟨some 7, []⟩]            -- b/b.json: T = object with property q = {$ref: x.json#/S}
    | 3 => [⟨none, []⟩]                           -- b/x.json: S = string
    | _ => []
  target := fun loc t =>
    match loc, t with
    | 0, 7 => some (1, 0)                         -- from /r/a: x.json#/S is a/x.json's S
    | 1, 8 => some (2, 0)
    | 2, 7 => some (3, 0)                         -- from /r/b: x.json#/S is b/x.json's S
    | _, _ => none

/-- the loader's algorithm gives q (node (2,1)) the value a/x.json#/S = (1,0) … -/
theorem w29_model : ((resolve w29 20 (0, 0) ⟨[], [], []⟩).bind (·.get (2, 1))) = some (1, 0) := by decide
/-- … while the reference designates b/x.json#/S = (3,0): model ≠ spec, as on the real code -/
theorem w29_spec : designates w29 5 (2, 1) = some (3, 0) := by decide
theorem w29_not_excluded_trivially : ¬ TextDeterminesTarget w29 := by
  intro h; have := h 0 2 7 (1, 0) (3, 0) rfl rfl; simp at this

end Ld
