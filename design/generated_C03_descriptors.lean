/-
DESIGN-PHASE FEASIBILITY ARTEFACT (round 0) — not part of the verification machinery.

End-to-end run of the translator tie for C03 on the pinned tree: the table below was EMITTED by the
scratch extractor (probe_descriptor_scan.go.txt, Lean-emitting variant) from /repo/openapi3 and
/repo/openapi2 — struct json tags, keys written by the map-building marshaller, keys deleted from
the extension map by the unmarshaller (`$ref` and the origin key set aside) — and the obligations
are discharged by `decide` (8 s):
  * not_all_agree     — the obligation `∀ d, d.agree` is FALSE on the pinned tree
  * disagreeing_kinds — exactly one kind disagrees: openapi2.Schema
  * stray_deletes     — its unmarshaller deletes "anyOf", "nullable", "oneOf" without having such
                        fields (finding #27, confirmed on the real code)
  * the_rest_agrees   — the other 30 kinds agree
-/
-- GENERATED from /repo by the scratch descriptor extractor (design-time run)
namespace Gen
structure D where
  name : String
  tags : List String
  marsh : List String
  dels : List String
  ext : Bool
def descriptors : List D := [
  { name := "openapi3.Components", tags := ["callbacks", "examples", "headers", "links", "parameters", "requestBodies", "responses", "schemas", "securitySchemes"], marsh := ["callbacks", "examples", "headers", "links", "parameters", "requestBodies", "responses", "schemas", "securitySchemes"], dels := ["callbacks", "examples", "headers", "links", "parameters", "requestBodies", "responses", "schemas", "securitySchemes"], ext := true },
  { name := "openapi3.Contact", tags := ["email", "name", "url"], marsh := ["email", "name", "url"], dels := ["email", "name", "url"], ext := true },
  { name := "openapi3.Discriminator", tags := ["mapping", "propertyName"], marsh := ["mapping", "propertyName"], dels := ["mapping", "propertyName"], ext := true },
  { name := "openapi3.Encoding", tags := ["allowReserved", "contentType", "explode", "headers", "style"], marsh := ["allowReserved", "contentType", "explode", "headers", "style"], dels := ["allowReserved", "contentType", "explode", "headers", "style"], ext := true },
  { name := "openapi3.Example", tags := ["description", "externalValue", "summary", "value"], marsh := ["description", "externalValue", "summary", "value"], dels := ["description", "externalValue", "summary", "value"], ext := true },
  { name := "openapi3.ExternalDocs", tags := ["description", "url"], marsh := ["description", "url"], dels := ["description", "url"], ext := true },
  { name := "openapi3.Info", tags := ["contact", "description", "license", "termsOfService", "title", "version"], marsh := ["contact", "description", "license", "termsOfService", "title", "version"], dels := ["contact", "description", "license", "termsOfService", "title", "version"], ext := true },
  { name := "openapi3.License", tags := ["name", "url"], marsh := ["name", "url"], dels := ["name", "url"], ext := true },
  { name := "openapi3.Link", tags := ["description", "operationId", "operationRef", "parameters", "requestBody", "server"], marsh := ["description", "operationId", "operationRef", "parameters", "requestBody", "server"], dels := ["description", "operationId", "operationRef", "parameters", "requestBody", "server"], ext := true },
  { name := "openapi3.MediaType", tags := ["encoding", "example", "examples", "schema"], marsh := ["encoding", "example", "examples", "schema"], dels := ["encoding", "example", "examples", "schema"], ext := true },
  { name := "openapi3.OAuthFlow", tags := ["authorizationUrl", "refreshUrl", "scopes", "tokenUrl"], marsh := ["authorizationUrl", "refreshUrl", "scopes", "tokenUrl"], dels := ["authorizationUrl", "refreshUrl", "scopes", "tokenUrl"], ext := true },
  { name := "openapi3.OAuthFlows", tags := ["authorizationCode", "clientCredentials", "implicit", "password"], marsh := ["authorizationCode", "clientCredentials", "implicit", "password"], dels := ["authorizationCode", "clientCredentials", "implicit", "password"], ext := true },
  { name := "openapi3.Operation", tags := ["callbacks", "deprecated", "description", "externalDocs", "operationId", "parameters", "requestBody", "responses", "security", "servers", "summary", "tags"], marsh := ["callbacks", "deprecated", "description", "externalDocs", "operationId", "parameters", "requestBody", "responses", "security", "servers", "summary", "tags"], dels := ["callbacks", "deprecated", "description", "externalDocs", "operationId", "parameters", "requestBody", "responses", "security", "servers", "summary", "tags"], ext := true },
  { name := "openapi3.Parameter", tags := ["allowEmptyValue", "allowReserved", "content", "deprecated", "description", "example", "examples", "explode", "in", "name", "required", "schema", "style"], marsh := ["allowEmptyValue", "allowReserved", "content", "deprecated", "description", "example", "examples", "explode", "in", "name", "required", "schema", "style"], dels := ["allowEmptyValue", "allowReserved", "content", "deprecated", "description", "example", "examples", "explode", "in", "name", "required", "schema", "style"], ext := true },
  { name := "openapi3.PathItem", tags := ["connect", "delete", "description", "get", "head", "options", "parameters", "patch", "post", "put", "servers", "summary", "trace"], marsh := ["connect", "delete", "description", "get", "head", "options", "parameters", "patch", "post", "put", "servers", "summary", "trace"], dels := ["connect", "delete", "description", "get", "head", "options", "parameters", "patch", "post", "put", "servers", "summary", "trace"], ext := true },
  { name := "openapi3.RequestBody", tags := ["content", "description", "required"], marsh := ["content", "description", "required"], dels := ["content", "description", "required"], ext := true },
  { name := "openapi3.Response", tags := ["content", "description", "headers", "links"], marsh := ["content", "description", "headers", "links"], dels := ["content", "description", "headers", "links"], ext := true },
  { name := "openapi3.Schema", tags := ["additionalProperties", "allOf", "allowEmptyValue", "anyOf", "default", "deprecated", "description", "discriminator", "enum", "example", "exclusiveMaximum", "exclusiveMinimum", "externalDocs", "format", "items", "maxItems", "maxLength", "maxProperties", "maximum", "minItems", "minLength", "minProperties", "minimum", "multipleOf", "not", "nullable", "oneOf", "pattern", "properties", "readOnly", "required", "title", "type", "uniqueItems", "writeOnly", "xml"], marsh := ["additionalProperties", "allOf", "allowEmptyValue", "anyOf", "default", "deprecated", "description", "discriminator", "enum", "example", "exclusiveMaximum", "exclusiveMinimum", "externalDocs", "format", "items", "maxItems", "maxLength", "maxProperties", "maximum", "minItems", "minLength", "minProperties", "minimum", "multipleOf", "not", "nullable", "oneOf", "pattern", "properties", "readOnly", "required", "title", "type", "uniqueItems", "writeOnly", "xml"], dels := ["additionalProperties", "allOf", "allowEmptyValue", "anyOf", "default", "deprecated", "description", "discriminator", "enum", "example", "exclusiveMaximum", "exclusiveMinimum", "externalDocs", "format", "items", "maxItems", "maxLength", "maxProperties", "maximum", "minItems", "minLength", "minProperties", "minimum", "multipleOf", "not", "nullable", "oneOf", "pattern", "properties", "readOnly", "required", "title", "type", "uniqueItems", "writeOnly", "xml"], ext := true },
  { name := "openapi3.SecurityScheme", tags := ["bearerFormat", "description", "flows", "in", "name", "openIdConnectUrl", "scheme", "type"], marsh := ["bearerFormat", "description", "flows", "in", "name", "openIdConnectUrl", "scheme", "type"], dels := ["bearerFormat", "description", "flows", "in", "name", "openIdConnectUrl", "scheme", "type"], ext := true },
  { name := "openapi3.Server", tags := ["description", "url", "variables"], marsh := ["description", "url", "variables"], dels := ["description", "url", "variables"], ext := true },
  { name := "openapi3.ServerVariable", tags := ["default", "description", "enum"], marsh := ["default", "description", "enum"], dels := ["default", "description", "enum"], ext := true },
  { name := "openapi3.T", tags := ["components", "externalDocs", "info", "openapi", "paths", "security", "servers", "tags"], marsh := ["components", "externalDocs", "info", "openapi", "paths", "security", "servers", "tags"], dels := ["components", "externalDocs", "info", "openapi", "paths", "security", "servers", "tags"], ext := true },
  { name := "openapi3.Tag", tags := ["description", "externalDocs", "name"], marsh := ["description", "externalDocs", "name"], dels := ["description", "externalDocs", "name"], ext := true },
  { name := "openapi3.XML", tags := ["attribute", "name", "namespace", "prefix", "wrapped"], marsh := ["attribute", "name", "namespace", "prefix", "wrapped"], dels := ["attribute", "name", "namespace", "prefix", "wrapped"], ext := true },
  { name := "openapi2.Operation", tags := ["consumes", "deprecated", "description", "externalDocs", "operationId", "parameters", "produces", "responses", "schemes", "security", "summary", "tags"], marsh := ["consumes", "deprecated", "description", "externalDocs", "operationId", "parameters", "produces", "responses", "schemes", "security", "summary", "tags"], dels := ["consumes", "deprecated", "description", "externalDocs", "operationId", "parameters", "produces", "responses", "schemes", "security", "summary", "tags"], ext := true },
  { name := "openapi2.Parameter", tags := ["allowEmptyValue", "collectionFormat", "default", "description", "enum", "exclusiveMaximum", "exclusiveMinimum", "format", "in", "items", "maxItems", "maxLength", "maximum", "minItems", "minLength", "minimum", "multipleOf", "name", "pattern", "required", "schema", "type", "uniqueItems"], marsh := ["allowEmptyValue", "collectionFormat", "default", "description", "enum", "exclusiveMaximum", "exclusiveMinimum", "format", "in", "items", "maxItems", "maxLength", "maximum", "minItems", "minLength", "minimum", "multipleOf", "name", "pattern", "required", "schema", "type", "uniqueItems"], dels := ["allowEmptyValue", "collectionFormat", "default", "description", "enum", "exclusiveMaximum", "exclusiveMinimum", "format", "in", "items", "maxItems", "maxLength", "maximum", "minItems", "minLength", "minimum", "multipleOf", "name", "pattern", "required", "schema", "type", "uniqueItems"], ext := true },
  { name := "openapi2.PathItem", tags := ["delete", "get", "head", "options", "parameters", "patch", "post", "put"], marsh := ["delete", "get", "head", "options", "parameters", "patch", "post", "put"], dels := ["delete", "get", "head", "options", "parameters", "patch", "post", "put"], ext := true },
  { name := "openapi2.Response", tags := ["description", "examples", "headers", "schema"], marsh := ["description", "examples", "headers", "schema"], dels := ["description", "examples", "headers", "schema"], ext := true },
  { name := "openapi2.Schema", tags := ["additionalProperties", "allOf", "allowEmptyValue", "default", "deprecated", "description", "discriminator", "enum", "example", "exclusiveMaximum", "exclusiveMinimum", "externalDocs", "format", "items", "maxItems", "maxLength", "maxProperties", "maximum", "minItems", "minLength", "minProperties", "minimum", "multipleOf", "not", "pattern", "properties", "readOnly", "required", "title", "type", "uniqueItems", "writeOnly", "xml"], marsh := ["additionalProperties", "allOf", "allowEmptyValue", "default", "deprecated", "description", "discriminator", "enum", "example", "exclusiveMaximum", "exclusiveMinimum", "externalDocs", "format", "items", "maxItems", "maxLength", "maxProperties", "maximum", "minItems", "minLength", "minProperties", "minimum", "multipleOf", "not", "pattern", "properties", "readOnly", "required", "title", "type", "uniqueItems", "writeOnly", "xml"], dels := ["additionalProperties", "allOf", "allowEmptyValue", "anyOf", "default", "deprecated", "description", "discriminator", "enum", "example", "exclusiveMaximum", "exclusiveMinimum", "externalDocs", "format", "items", "maxItems", "maxLength", "maxProperties", "maximum", "minItems", "minLength", "minProperties", "minimum", "multipleOf", "not", "nullable", "oneOf", "pattern", "properties", "readOnly", "required", "title", "type", "uniqueItems", "writeOnly", "xml"], ext := true },
  { name := "openapi2.SecurityScheme", tags := ["authorizationUrl", "description", "flow", "in", "name", "scopes", "tags", "tokenUrl", "type"], marsh := ["authorizationUrl", "description", "flow", "in", "name", "scopes", "tags", "tokenUrl", "type"], dels := ["authorizationUrl", "description", "flow", "in", "name", "scopes", "tags", "tokenUrl", "type"], ext := true },
  { name := "openapi2.T", tags := ["basePath", "consumes", "definitions", "externalDocs", "host", "info", "parameters", "paths", "produces", "responses", "schemes", "security", "securityDefinitions", "swagger", "tags"], marsh := ["basePath", "consumes", "definitions", "externalDocs", "host", "info", "parameters", "paths", "produces", "responses", "schemes", "security", "securityDefinitions", "swagger", "tags"], dels := ["basePath", "consumes", "definitions", "externalDocs", "host", "info", "parameters", "paths", "produces", "responses", "schemes", "security", "securityDefinitions", "swagger", "tags"], ext := true }
]
end Gen

namespace Gen

def D.agree (d : D) : Bool := d.tags == d.marsh && d.marsh == d.dels && d.tags.Nodup && d.ext

/-- the obligation as it would be stated on the pinned tree: it FAILS … -/
theorem not_all_agree : ¬ (∀ d ∈ descriptors, d.agree = true) := by decide

/-- … and `decide` says exactly where: the one kind whose unmarshaller deletes keys it has no field for -/
theorem disagreeing_kinds : (descriptors.filter (fun d => !d.agree)).map (·.name) = ["openapi2.Schema"] := by decide

/-- what the stray deletes are -/
theorem stray_deletes :
    ((descriptors.filter (fun d => d.name == "openapi2.Schema")).map
      (fun d => d.dels.filter (fun k => !d.marsh.contains k))) = [["anyOf", "nullable", "oneOf"]] := by decide

/-- everything else agrees: 30 kinds -/
theorem the_rest_agrees : ∀ d ∈ descriptors.filter (fun d => d.name != "openapi2.Schema"), d.agree = true := by decide
theorem table_size : descriptors.length = 31 := by decide

end Gen
