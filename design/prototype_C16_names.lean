/-
DESIGN-PHASE FEASIBILITY PROTOTYPE (round 0) — not part of the verification machinery.

C16 (DESIGN.md §4-C16), the two pieces of DefaultRefNameResolver that decide findings #17 and #18:
  * witness_name_collision        — `s/a_b.json` and `s/a/b.json` get the same component name
                                    (`decide`): the resolver is not injective
  * trimLoop_terminates_relative  — the common-directory trimming loop ends for a relative root path
  * trimLoop_diverges_absolute    — for an absolute root path and a cut that never succeeds, no amount
                                    of fuel suffices ("/" is a fixed point of path.Dir and is never ".")
Lean 4.33.0, core only, ≈ 1 s; axioms: propext.
-/
namespace N

abbrev Str := List Char

def isIdChar (c : Char) : Bool := c.isAlphanum || c = '.' || c = '_' || c = '-'

/-- InvalidIdentifierCharRegExp.ReplaceAllString(name, "_") -/
def sanitize (s : Str) : Str := s.map (fun c => if isIdChar c then c else '_')

/-- path.Ext stripped repeatedly -/
def dropExt (s : Str) : Str :=
  -- model: cut at the first '.' of the last segment (all extensions of the file name)
  let rev := s.reverse
  let (lastSegRev, restRev) := rev.span (· ≠ '/')
  let lastSeg := lastSegRev.reverse
  (restRev.reverse) ++ lastSeg.takeWhile (· ≠ '.')

/-- DefaultRefNameResolver for a whole-file reference below the root's directory:
    strip extensions, trim leading "./", replace invalid characters -/
def refName (relPath : Str) : Str :=
  sanitize ((dropExt relPath).dropWhile (fun c => c = '.' || c = '/'))

/-- C16, "distinct external targets are never merged under one component name", is FALSE of the
    default resolver: two different files get the same name (finding #17) -/
theorem witness_name_collision :
    refName "s/a_b.json".toList = refName "s/a/b.json".toList ∧ "s/a_b.json" ≠ "s/a/b.json" := by
  decide

/-- the trimming loop of DefaultRefNameResolver: `for { if commonDir == "." break; if cut(...) break;
    commonDir = path.Dir(commonDir) }` — modelled with fuel; `dir` is path.Dir on segment lists
    (absolute = leading empty segment marker `true`) -/
structure P where
  abs : Bool
  segs : List Str
  deriving DecidableEq

def P.dir (p : P) : P := { p with segs := p.segs.dropLast }
def P.isDot (p : P) : Bool := !p.abs && p.segs.isEmpty          -- path.Dir(...) == "."

/-- returns none when the fuel runs out: the loop did not terminate within `fuel` iterations -/
def trimLoop (cutFound : P → Bool) : Nat → P → Option P
  | 0, _ => none
  | fuel + 1, d => if d.isDot then some d else if cutFound d then some d else trimLoop cutFound fuel d.dir

/-- relative root path: the loop ends (commonDir reaches ".") -/
theorem trimLoop_terminates_relative (cut : P → Bool) (d : P) (h : d.abs = false) :
    trimLoop cut (d.segs.length + 1) d ≠ none := by
  obtain ⟨a, segs⟩ := d
  simp at h; subst h
  induction hn : segs.length generalizing segs with
  | zero =>
    have : segs = [] := by simpa using hn
    subst this; simp [trimLoop, P.isDot]
  | succ n ih =>
    simp only [trimLoop]
    split
    · simp
    · split
      · simp
      · have : (segs.dropLast).length = n := by simp [hn]
        have := ih segs.dropLast this
        simp only [P.dir]; exact this

/-- absolute root path and a cut that never succeeds (the file path is empty after "same as root
    document"): "/" is a fixed point of path.Dir and never equals ".", so no amount of fuel suffices
    (finding #18) -/
theorem trimLoop_diverges_absolute (fuel : Nat) (segs : List Str) :
    trimLoop (fun _ => false) fuel { abs := true, segs := segs } = none := by
  induction fuel generalizing segs with
  | zero => rfl
  | succ n ih => simp [trimLoop, P.isDot, P.dir, ih]

#print axioms trimLoop_diverges_absolute
end N
