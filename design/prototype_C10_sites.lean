/-
DESIGN-PHASE FEASIBILITY PROTOTYPE (round 0) — not part of the verification machinery.

C10 / C20 (DESIGN.md §4-C10, §4-C20): the shape of the panic-site table (regenerated from /repo by
the translator: kind of the potentially panicking operation + the guard that dominates it, merged
with a hand-written expectations file naming the model lemma or library contract that discharges a
row) and of the obligation over it. On an excerpt of the pinned tree's table `decide` pinpoints the
undischarged rows — findings #2 (×2), #3, #4, #22, #23, #35, #15. In the machinery the obligation is
`∀ s ∈ Gen.panicSites, s.discharged ∨ s ∈ knownFindingSites`.
Lean 4.33.0, core only, ≈ 2 s.
-/
namespace Ps

/-! C10 / C20: the regenerated table of potentially panicking sites and the obligation over it. -/

inductive Kind
  | derefOptScalar      -- *schema.Min, *v with v a *float64 / *uint64 / *bool field
  | derefRefValue       -- x.Value.F where x is a *…Ref (safe under RefsResolved, a corollary of C04)
  | derefOptStruct      -- selector through an optional struct pointer (e.Parameter.In, header.Schema.Value)
  | typeAssert          -- x.(T) without comma-ok
  | index               -- slice index / slice expression
  | explicitPanic       -- panic(…)
  | bigFloat            -- big.NewFloat(x) (panics on NaN)
  deriving DecidableEq, Repr

inductive Guard
  | none
  | nilCheckSameExpr    -- `e != nil &&`, enclosing `if e != nil`, `if v := e; v != nil`, `e == nil ||`
  | lenCheck            -- dominated by a length test that covers the index
  | commaOk
  | invariant (name : String)   -- discharged by a named model lemma (e.g. "RefsResolved", "MuxMatchedMethod")
  | libraryContract (name : String)  -- e.g. strconv returns *NumError
  | unreachable (why : String)  -- e.g. registration-time only, not on the traffic path
  deriving DecidableEq, Repr

structure Site where
  where_ : String
  kind   : Kind
  guard  : Guard
  deriving Repr

def Site.discharged (s : Site) : Bool :=
  match s.kind, s.guard with
  | _, .none => false
  | .derefRefValue, .invariant _ => true
  | .derefRefValue, .nilCheckSameExpr => true
  | .derefOptScalar, .nilCheckSameExpr => true
  | .derefOptStruct, .nilCheckSameExpr => true
  | .derefOptStruct, .invariant _ => true
  | .typeAssert, .commaOk => true
  | .typeAssert, .libraryContract _ => true
  | .typeAssert, .invariant _ => true
  | .index, .lenCheck => true
  | .index, .invariant _ => true
  | .explicitPanic, .unreachable _ => true
  | .explicitPanic, .invariant _ => true
  | .bigFloat, .invariant _ => true
  | _, _ => false

/-- an excerpt of the pinned tree's table (hand-copied from the scratch extractor's output) -/
def sites : List Site := [
  ⟨"schema.go:1571 *schema.Min", .derefOptScalar, .none⟩,
  ⟨"schema.go:1589 *schema.Max", .derefOptScalar, .none⟩,
  ⟨"schema.go:1607 *v (minimum)", .derefOptScalar, .nilCheckSameExpr⟩,
  ⟨"schema.go:1646 big.NewFloat(value / *v)", .bigFloat, .none⟩,
  ⟨"schema.go:1743 cp.MatchString", .derefOptStruct, .none⟩,
  ⟨"validate_response.go:validateResponseHeader headerRef.Value.Schema.Value", .derefOptStruct, .none⟩,
  ⟨"validation_error_encoder.go:convertParseError e.Parameter.In", .derefOptStruct, .none⟩,
  ⟨"validation_error_encoder.go:171 *e.Parameter.Explode", .derefOptScalar, .nilCheckSameExpr⟩,
  ⟨"req_resp_decoder.go:897 m[key].(map[string]any)", .typeAssert, .none⟩,
  ⟨"req_resp_decoder.go:1159 err.(*strconv.NumError)", .typeAssert, .libraryContract "strconv.Parse* returns *NumError"⟩,
  ⟨"path_item.go:177 panic (GetOperation default) via legacy.FindRoute", .explicitPanic, .none⟩,
  ⟨"path_item.go:177 panic (GetOperation default) via gorillamux.FindRoute", .explicitPanic, .invariant "MuxMatchedMethod"⟩,
  ⟨"req_resp_decoder.go:1213 panic (RegisterBodyDecoder)", .explicitPanic, .unreachable "registration time"⟩,
  ⟨"validate_request.go:63 parameterRef.Value", .derefRefValue, .invariant "RefsResolved"⟩,
  ⟨"schema.go:1388 v[matchedOneOfIndices[0]]", .index, .invariant "ok = 1 ⇒ one index recorded"⟩ ]

/-- on the pinned tree the obligation FAILS, and `decide` says exactly where: the undischarged rows
    are findings #2 (×2), #3, #4, #22, #23, #35, #15 -/
theorem undischarged_rows :
    (sites.filter (fun s => !s.discharged)).map (·.where_) =
      ["schema.go:1571 *schema.Min", "schema.go:1589 *schema.Max", "schema.go:1646 big.NewFloat(value / *v)",
       "schema.go:1743 cp.MatchString",
       "validate_response.go:validateResponseHeader headerRef.Value.Schema.Value",
       "validation_error_encoder.go:convertParseError e.Parameter.In",
       "req_resp_decoder.go:897 m[key].(map[string]any)",
       "path_item.go:177 panic (GetOperation default) via legacy.FindRoute"] := by decide

end Ps
