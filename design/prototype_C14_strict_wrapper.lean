/-
DESIGN-PHASE FEASIBILITY PROTOTYPE (round 0) — not part of the verification machinery.

C14 (DESIGN.md §4-C14): the strict response wrapper of openapi3filter/middleware.go as a state
machine over handler operations (WriteHeader / Write / Header / Flush), a spec of the client-side
http.ResponseWriter, and
  * strict_nothing_leaks        — for every operation sequence nothing reaches the client before flush
  * strict_valid_exact_partial  — after flush the client holds exactly what a direct run would have
                                  produced (refinement by a simulation relation), for status ≠ 0
  * strict_no_write_panics      — witness of finding #16: no write ⇒ WriteHeader(0)
Lean 4.33.0, core only, ≈ 1 s; axioms: propext.
-/
namespace W

/-- what the client-side http.ResponseWriter has received -/
structure Client where
  status : Option Nat := none      -- first WriteHeader wins
  body   : List Nat := []          -- bytes
  deriving Repr, DecidableEq

def Client.writeHeader (c : Client) (n : Nat) : Client :=
  match c.status with | none => { c with status := some n } | some _ => c
def Client.write (c : Client) (bs : List Nat) : Client :=
  let c := c.writeHeader 200
  { c with body := c.body ++ bs }

inductive Op | writeHeader (n : Nat) | write (bs : List Nat) | header | flush

/-- strictResponseWrapper: headerWritten, status, buffered body; underlying client -/
structure Strict where
  headerWritten : Bool := false
  status : Nat := 0
  buf : List Nat := []
  client : Client := {}

def Strict.step (w : Strict) : Op → Strict
  | .writeHeader n => if w.headerWritten then w else { w with status := n, headerWritten := true }
  | .write bs =>
    let w := if w.headerWritten then w else { w with status := 200, headerWritten := true }
    { w with buf := w.buf ++ bs }
  | .header => w
  | .flush => w

def Strict.run (w : Strict) (ops : List Op) : Strict := ops.foldl Strict.step w

/-- flushBodyContents: WriteHeader(status) then Write(buf); status 0 panics in net/http -/
def Strict.flushOut (w : Strict) : Option Client :=
  if w.status = 0 then none else some ((w.client.writeHeader w.status).write w.buf)

/-- the same handler run directly against the client writer (the spec) -/
def direct (c : Client) : Op → Client
  | .writeHeader n => c.writeHeader n
  | .write bs => c.write bs
  | .header => c
  | .flush => c

theorem strict_step_client (w : Strict) (op : Op) : (w.step op).client = w.client := by
  cases op <;> simp [Strict.step] <;> split <;> rfl

/-- C14: while the handler runs, nothing reaches the client -/
theorem strict_nothing_leaks (w : Strict) (ops : List Op) : (w.run ops).client = w.client := by
  induction ops generalizing w with
  | nil => rfl
  | cons op ops ih => simp [Strict.run, List.foldl] at *; rw [ih]; exact strict_step_client w op

/-- simulation relation between the wrapper and a direct run from an empty client -/
def Sim (w : Strict) (c : Client) : Prop :=
  (w.headerWritten = true → c.status = some w.status) ∧ (w.headerWritten = false → c.status = none ∧ w.status = 0) ∧
  c.body = w.buf

theorem sim_step (w : Strict) (c : Client) (op : Op) (h : Sim w c) : Sim (w.step op) (direct c op) := by
  obtain ⟨h1, h2, h3⟩ := h
  cases op with
  | writeHeader n =>
    cases hw : w.headerWritten
    · have := h2 hw; simp [Strict.step, direct, Client.writeHeader, hw, this, Sim, h3]
    · have := h1 hw; simp [Strict.step, direct, Client.writeHeader, hw, this, Sim, h3]
  | write bs =>
    cases hw : w.headerWritten
    · have := h2 hw; simp [Strict.step, direct, Client.write, Client.writeHeader, hw, this, Sim, h3]
    · have := h1 hw; simp [Strict.step, direct, Client.write, Client.writeHeader, hw, this, Sim, h3]
  | header => exact ⟨h1, h2, h3⟩
  | flush => exact ⟨h1, h2, h3⟩

theorem sim_run (w : Strict) (c : Client) (ops : List Op) (h : Sim w c) :
    Sim (w.run ops) (ops.foldl direct c) := by
  induction ops generalizing w c with
  | nil => exact h
  | cons op ops ih => exact ih _ _ (sim_step w c op h)

/-- C14 (partial): a valid response reaches the client with exactly the status and body the handler
    wrote — provided the handler wrote a non-zero status (status 0 is finding #16). -/
theorem strict_valid_exact_partial (ops : List Op) (c : Client)
    (hc : c = ops.foldl direct {}) (hs : c.status ≠ none) (h0 : c.status ≠ some 0) :
    (({} : Strict).run ops).flushOut = some c := by
  have hsim := sim_run {} {} ops (by simp [Sim])
  rw [← hc] at hsim
  have hcl := strict_nothing_leaks {} ops
  obtain ⟨h1, h2, h3⟩ := hsim
  cases hw : (({} : Strict).run ops).headerWritten
  · exact absurd (h2 hw).1 hs
  · have hst := h1 hw
    have hne : (({} : Strict).run ops).status ≠ 0 := by intro e; apply h0; rw [hst, e]
    simp [Strict.flushOut, hne, hcl, Client.write, Client.writeHeader]
    cases c with
    | mk st bd => simp at hst h3 ⊢; simp [hst, h3]

/-- witness for finding #16: handler writes nothing → flush passes status 0 to the real writer -/
theorem strict_no_write_panics : (({} : Strict).run []).flushOut = none := by decide

#print axioms strict_nothing_leaks
#print axioms strict_valid_exact_partial
end W
