/-
DESIGN-PHASE FEASIBILITY PROTOTYPE (round 0) — not part of the verification machinery.

C17 (DESIGN.md §4-C17), the field-copy layer: a conversion site is the table of (destination ←
source) pairs the translator extracts from a composite literal of openapi2conv.
  * conv_preserves    — `Complete rename constraints table` (a `decide` obligation on the regenerated
                        table) ⇒ every constraint field survives the conversion
  * missing_row_loses — a constraint without a row is lost for some record (the condition is exact)
  * fromV3_schema_incomplete / …_complete_without_discriminator — `decide` on the pinned tree's
    FromV3SchemaRef table (hand-copied here): `discriminator` is the one missing row (finding #21)
The document-level theorem (`api3 (toV3 d) = api2 d`, round trip) composes these per-site facts
over the `Api` abstraction. Lean 4.33.0, core only, ≈ 5 s; axioms: propext, Quot.sound.
-/
namespace Cv

/-! Generic model of the converter's field copies: a record is a finite map from field names to
    abstract values; one conversion site is described by the table of (destination ← source)
    pairs that the translator extracts from the composite literal in openapi2conv. -/

abbrev Field := String
abbrev Rec (V : Type) := Field → Option V

def lookupSrc (d : Field) : List (Field × Field) → Option Field
  | [] => none
  | (d', s) :: r => if d = d' then some s else lookupSrc d r

/-- the conversion a copy table denotes -/
def conv {V : Type} (table : List (Field × Field)) (r : Rec V) : Rec V :=
  fun d => match lookupSrc d table with
    | some s => r s
    | none => none

/-- the side condition checked `by decide` on the regenerated table: every constraint field is
    copied from the field that carries the same constraint on the other side (`rename`) -/
def Complete (rename : Field → Field) (constraints : List Field) (table : List (Field × Field)) : Bool :=
  constraints.all (fun f => lookupSrc (rename f) table == some f)

/-- what "the same constraints" means: equal on every constraint field, up to renaming -/
def SameConstraints {V : Type} (rename : Field → Field) (constraints : List Field) (a b : Rec V) : Prop :=
  ∀ f ∈ constraints, b (rename f) = a f

theorem conv_preserves {V : Type} (rename : Field → Field) (constraints : List Field)
    (table : List (Field × Field)) (h : Complete rename constraints table = true) (r : Rec V) :
    SameConstraints rename constraints r (conv table r) := by
  intro f hf
  simp only [Complete, List.all_eq_true] at h
  have := h f hf
  simp only [beq_iff_eq] at this
  simp [conv, this]

/-- and conversely a missing row loses the field for some record: the table condition is exact -/
theorem missing_row_loses {V : Type} [Inhabited V] (rename : Field → Field) (f : Field)
    (table : List (Field × Field)) (h : lookupSrc (rename f) table = none) :
    ∃ r : Rec V, (conv table r) (rename f) ≠ r f := by
  refine ⟨fun g => if g = f then some default else none, ?_⟩
  simp [conv, h]

/-- the pinned tree, FromV3SchemaRef (v3 schema → v2 schema), hand-copied here for the example:
    `discriminator` has no row — finding #21 as a failed table obligation -/
def fromV3SchemaTable : List (Field × Field) :=
  [("type","type"),("title","title"),("format","format"),("description","description"),("enum","enum"),
   ("default","default"),("example","example"),("externalDocs","externalDocs"),("uniqueItems","uniqueItems"),
   ("exclusiveMinimum","exclusiveMinimum"),("exclusiveMaximum","exclusiveMaximum"),("readOnly","readOnly"),
   ("writeOnly","writeOnly"),("allowEmptyValue","allowEmptyValue"),("deprecated","deprecated"),("xml","xml"),
   ("minimum","minimum"),("maximum","maximum"),("multipleOf","multipleOf"),("minLength","minLength"),
   ("maxLength","maxLength"),("pattern","pattern"),("minItems","minItems"),("maxItems","maxItems"),
   ("required","required"),("minProperties","minProperties"),("maxProperties","maxProperties"),
   ("properties","properties"),("allOf","allOf"),("additionalProperties","additionalProperties"),("items","items")]

def schemaConstraints : List Field :=
  ["type","format","enum","default","uniqueItems","exclusiveMinimum","exclusiveMaximum","minimum","maximum",
   "multipleOf","minLength","maxLength","pattern","minItems","maxItems","required","minProperties",
   "maxProperties","properties","allOf","additionalProperties","items","discriminator"]

theorem fromV3_schema_incomplete : Complete id schemaConstraints fromV3SchemaTable = false := by decide
theorem fromV3_schema_complete_without_discriminator :
    Complete id (schemaConstraints.filter (· ≠ "discriminator")) fromV3SchemaTable = true := by decide

#print axioms conv_preserves
end Cv
