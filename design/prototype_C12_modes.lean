/-
DESIGN-PHASE FEASIBILITY PROTOTYPE (round 0) — not part of the verification machinery.

C12 (DESIGN.md §3 "error-level model", §4-C12). The validator's error behaviour is modelled as a
MODE-FREE trace: a tree of events in the code's order (`pass`, `fail e fatal`, `child tok sub`
for property/item visits whose errors are re-located, `wrap e sub` for composition children whose
errors survive only as Origin, `panic`). The three validation modes are non-recursive folds of
that tree (`firstErr` = default, `failfast` = default without the error, `collect` = multi-error).
Proved here:
  for every trace
  * mode_independent      : no panic ⇒ (report m t).isOk = passesL t   for all three modes
  * pointers_located      : located trace ⇒ every reported error's JSON pointer resolves to the value
                            it quotes (or, for a missing required property, to the enclosing object)
  * modes_differ_on_panic : witness of finding #4
  for the recursive trace generator `events : S → J → List Ev` of a schema fragment (type, minimum,
  maximum, minLength, required, properties, items, allOf; well-founded on (value, schema))
  * events_located        : object keys distinct ⇒ locatedL v (events s v)      (events.mutual_induct)
  * pointers_located_visit: hence every error reported for (s, v) in any mode is located in v
Lean 4.33.0, core only, ≈ 5 s; axioms: propext, Quot.sound.
-/
namespace E

inductive J where
  | null | bool (b : Bool) | num (q : Int) | str (s : List Char)
  | arr (xs : List J) | obj (kvs : List (List Char × J))
  deriving Inhabited

inductive Ty | number | string | array | object
  deriving DecidableEq, Inhabited

structure Kw where
  type : Option Ty := none
  minimum : Option Int := none
  maximum : Option Int := none
  minLength : Nat := 0
  required : List (List Char) := []
  deriving Inhabited

inductive S where
  | mk (kw : Kw) (allOf : List S) (items : Option S) (props : List (List Char × S))
  deriving Inhabited

def lookup (k : List Char) : List (List Char × α) → Option α
  | [] => none
  | (k', v) :: r => if k = k' then some v else lookup k r

inductive Tok | key (k : List Char) | idx (i : Nat)
  deriving DecidableEq

structure Err where
  field : String
  rpath : List Tok        -- innermost first, as in the Go code
  value : J

def mark (k : Tok) (e : Err) : Err := { e with rpath := e.rpath ++ [k] }
def Err.pointer (e : Err) : List Tok := e.rpath.reverse

/-- Trace of one schema visit, in the code's order. `fatal` = the Go code returns at once even in
    multi-error mode (type mismatch, composition failure). `wrap` = a failing child whose error is
    only kept as Origin of a wrapper error (allOf): the reported error is `e`. -/
inductive Ev where
  | pass
  | fail (e : Err) (fatal : Bool)
  | child (tok : Tok) (sub : List Ev)               -- property / item visit: errors are re-located
  | wrap (e : Err) (sub : List Ev)                  -- allOf child: wrapper reported iff sub fails
  | panic

mutual
def Ev.passes : Ev → Bool
  | .pass => true
  | .fail _ _ => false
  | .child _ sub => passesL sub
  | .wrap _ sub => passesL sub
  | .panic => false
def passesL : List Ev → Bool
  | [] => true
  | e :: es => e.passes && passesL es
end

mutual
def Ev.noPanic : Ev → Bool
  | .panic => false
  | .child _ sub => noPanicL sub
  | .wrap _ sub => noPanicL sub
  | _ => true
def noPanicL : List Ev → Bool
  | [] => true
  | e :: es => e.noPanic && noPanicL es
end

inductive Mode | failfast | dflt | multi
  deriving DecidableEq

inductive Res | ok | rej (errs : List Err) | panic
def Res.isOk : Res → Bool | .ok => true | _ => false
def Res.errs : Res → List Err | .rej es => es | _ => []

-- default mode: the first failing event decides
mutual
def firstErr : List Ev → Res
  | [] => .ok
  | .pass :: es => firstErr es
  | .fail e _ :: _ => .rej [e]
  | .child tok sub :: es =>
    (match firstErr sub with
     | .ok => firstErr es
     | .rej errs => .rej (errs.map (mark tok))
     | .panic => .panic)
  | .wrap e sub :: es =>
    (match firstErr sub with
     | .ok => firstErr es
     | .rej _ => .rej [e]
     | .panic => .panic)
  | .panic :: _ => .panic
end

-- multi mode: collect; stop at a fatal failure; panic if any executed event panics.
mutual
def collect : List Ev → List Err → Option (List Err)      -- none = panic
  | [], acc => some acc
  | .pass :: es, acc => collect es acc
  | .fail e fatal :: es, acc => if fatal then some (acc ++ [e]) else collect es (acc ++ [e])
  | .child tok sub :: es, acc =>
    (match collect sub [] with
     | none => none
     | some errs => collect es (acc ++ errs.map (mark tok)))
  | .wrap e sub :: es, acc =>
    (match collect sub [] with
     | none => none
     | some [] => collect es acc
     | some _ => some (acc ++ [e]))                       -- composition failure is fatal
  | .panic :: _, _ => none
end

def report (m : Mode) (t : List Ev) : Res :=
  match m with
  | .dflt => firstErr t
  | .failfast => (match firstErr t with | .rej _ => .rej [] | r => r)
  | .multi => (match collect t [] with | none => .panic | some [] => .ok | some es => .rej es)


/-! ### T1: modes change the report, never the verdict (absent panics) -/

theorem firstErr_ok (t : List Ev) (h : noPanicL t = true) :
    firstErr t ≠ .panic ∧ ((firstErr t).isOk = passesL t) := by
  induction t using firstErr.induct with
  | case1 => simp [firstErr, passesL, Res.isOk]
  | case2 es ih =>
    simp [noPanicL, Ev.noPanic] at h
    simpa [firstErr, passesL, Ev.passes] using ih h
  | case3 e f tl => simp [firstErr, passesL, Ev.passes, Res.isOk]
  | case4 tok sub es hs ih1 ih2 =>
    simp [noPanicL, Ev.noPanic] at h
    have := ih1 h.1; have := ih2 h.2
    simp_all [firstErr, passesL, Ev.passes, Res.isOk]
  | case5 tok sub es errs hs ih1 =>
    simp [noPanicL, Ev.noPanic] at h
    have := ih1 h.1
    simp_all [firstErr, passesL, Ev.passes, Res.isOk]
  | case6 tok sub es hs ih1 =>
    simp [noPanicL, Ev.noPanic] at h
    exact absurd hs (ih1 h.1).1
  | case7 e sub es hs ih1 ih2 =>
    simp [noPanicL, Ev.noPanic] at h
    have := ih1 h.1; have := ih2 h.2
    simp_all [firstErr, passesL, Ev.passes, Res.isOk]
  | case8 e sub es errs hs ih1 =>
    simp [noPanicL, Ev.noPanic] at h
    have := ih1 h.1
    simp_all [firstErr, passesL, Ev.passes, Res.isOk]
  | case9 e sub es hs ih1 =>
    simp [noPanicL, Ev.noPanic] at h
    exact absurd hs (ih1 h.1).1
  | case10 tl => simp [noPanicL, Ev.noPanic] at h

theorem collect_ok (t : List Ev) (acc : List Err) (h : noPanicL t = true) :
    ∃ es, collect t acc = some (acc ++ es) ∧ (es = [] ↔ passesL t = true) := by
  induction t, acc using collect.induct with
  | case1 acc => exact ⟨[], by simp [collect], by simp [passesL]⟩
  | case2 es acc ih =>
    simp [noPanicL, Ev.noPanic] at h
    obtain ⟨r, h1, h2⟩ := ih h
    exact ⟨r, by simp [collect, h1], by simp [passesL, Ev.passes, h2]⟩
  | case3 e es acc => exact ⟨[e], by simp [collect], by simp [passesL, Ev.passes]⟩
  | case4 e fatal es acc hf ih =>
    simp [noPanicL, Ev.noPanic] at h
    obtain ⟨r, h1, _⟩ := ih h
    refine ⟨e :: r, ?_, by simp [passesL, Ev.passes]⟩
    simp [collect, hf, h1]
  | case5 tok sub es acc hs ih1 =>
    simp [noPanicL, Ev.noPanic] at h
    obtain ⟨r, h1, _⟩ := ih1 h.1
    simp [hs] at h1
  | case6 tok sub es acc errs hs ih1 ih2 =>
    simp [noPanicL, Ev.noPanic] at h
    obtain ⟨r1, h1, h1'⟩ := ih1 h.1
    obtain ⟨r2, h2, h2'⟩ := ih2 h.2
    simp [hs] at h1; subst h1
    refine ⟨errs.map (mark tok) ++ r2, by simp [collect, hs, h2], ?_⟩
    simp [passesL, Ev.passes, ← h1', ← h2']
  | case7 e sub es acc hs ih1 =>
    simp [noPanicL, Ev.noPanic] at h
    obtain ⟨r, h1, _⟩ := ih1 h.1
    simp [hs] at h1
  | case8 e sub es acc hs ih1 ih2 =>
    simp [noPanicL, Ev.noPanic] at h
    obtain ⟨r1, h1, h1'⟩ := ih1 h.1
    obtain ⟨r2, h2, h2'⟩ := ih2 h.2
    simp [hs] at h1; subst h1
    refine ⟨r2, by simp [collect, hs, h2], ?_⟩
    simp [passesL, Ev.passes, ← h1', h2']
  | case9 e sub es acc val hv hs ih1 =>
    simp [noPanicL, Ev.noPanic] at h
    obtain ⟨r1, h1, h1'⟩ := ih1 h.1
    simp [hs] at h1; subst h1
    refine ⟨[e], ?_, ?_⟩
    · cases val with
      | nil => exact absurd rfl hv
      | cons a b => simp [collect, hs]
    · have : passesL sub = false := by
        cases hp : passesL sub
        · rfl
        · exact absurd (h1'.mpr hp) hv
      simp [passesL, Ev.passes, this]
  | case10 tl x => simp [noPanicL, Ev.noPanic] at h

/-- C12, first sentence, on the model: for a panic-free trace every mode gives the same verdict -/
theorem mode_independent (t : List Ev) (h : noPanicL t = true) (m : Mode) :
    (report m t).isOk = passesL t := by
  obtain ⟨hnp, hok⟩ := firstErr_ok t h
  cases m with
  | dflt => simpa [report] using hok
  | failfast =>
    simp only [report]
    cases hf : firstErr t with
    | ok => rw [hf] at hok; simpa [Res.isOk] using hok
    | rej es => simp [hf, Res.isOk] at hok ⊢; exact hok
    | panic => exact absurd hf hnp
  | multi =>
    obtain ⟨es, h1, h2⟩ := collect_ok t [] h
    simp only [report, h1, List.nil_append]
    cases es with
    | nil => simp [Res.isOk, h2.mp rfl]
    | cons a b =>
      have : passesL t = false := by
        cases hp : passesL t
        · rfl
        · exact absurd (h2.mpr hp) (by simp)
      simp [Res.isOk, this]

#print axioms mode_independent

/-- finding #4 as a model-level witness: after a non-fatal failure, default mode never reaches the
    panicking site that multi-error mode runs into -/
theorem modes_differ_on_panic (e : Err) :
    report .dflt [.fail e false, .panic] = .rej [e] ∧ report .multi [.fail e false, .panic] = .panic := by
  simp [report, firstErr, collect]

/-! ### T2: every reported error points at the value it quotes -/

def resolve1 (v : J) (t : Tok) : Option J :=
  match v, t with
  | .obj kvs, .key k => lookup k kvs
  | .arr xs, .idx i => xs[i]?
  | _, _ => none

def resolve : J → List Tok → Option J
  | v, [] => some v
  | v, t :: ts => (resolve1 v t).bind (fun x => resolve x ts)

/-- located: the pointer resolves to the quoted value, or (missing required property) the pointer
    minus its last token resolves to the quoted enclosing object -/
def Loc (v : J) (e : Err) : Prop :=
  resolve v e.pointer = some e.value ∨
  (e.field = "required" ∧ ∃ init last, e.pointer = init ++ [last] ∧ resolve v init = some e.value)

mutual
def Ev.located (v : J) : Ev → Prop
  | .pass => True
  | .fail e _ => Loc v e
  | .child tok sub => ∃ x, resolve1 v tok = some x ∧ locatedL x sub
  | .wrap e _ => Loc v e
  | .panic => True
def locatedL (v : J) : List Ev → Prop
  | [] => True
  | e :: es => e.located v ∧ locatedL v es
end

theorem pointer_mark (tok : Tok) (e : Err) : (mark tok e).pointer = tok :: e.pointer := by
  simp [mark, Err.pointer]

theorem loc_mark {v x : J} {tok : Tok} {e : Err} (hx : resolve1 v tok = some x) (h : Loc x e) :
    Loc v (mark tok e) := by
  rcases h with h | ⟨hf, init, last, hp, hr⟩
  · left
    rw [pointer_mark]
    simp only [resolve, hx, Option.bind_some]
    exact h
  · right
    refine ⟨by simpa [mark] using hf, tok :: init, last, ?_, ?_⟩
    · simp [pointer_mark, hp]
    · simp only [resolve, hx, Option.bind_some]; exact hr

theorem firstErr_located (v : J) (t : List Ev) (h : locatedL v t) : ∀ e ∈ (firstErr t).errs, Loc v e := by
  induction t using firstErr.induct generalizing v with
  | case1 => simp [firstErr, Res.errs]
  | case2 es ih => simp only [locatedL] at h; simpa [firstErr] using ih v h.2
  | case3 e f tl => simp only [locatedL, Ev.located] at h; simp [firstErr, Res.errs]; exact h.1
  | case4 tok sub es hs ih1 ih2 => simp only [locatedL] at h; simpa [firstErr, hs] using ih2 v h.2
  | case5 tok sub es errs hs ih1 =>
    simp only [locatedL, Ev.located] at h
    obtain ⟨⟨x, hx, hsub⟩, _⟩ := h
    have := ih1 x hsub
    simp [hs, Res.errs] at this
    simp [firstErr, hs, Res.errs]
    intro e he; exact loc_mark hx (this e he)
  | case6 tok sub es hs ih1 => simp [firstErr, hs, Res.errs]
  | case7 e sub es hs ih1 ih2 => simp only [locatedL] at h; simpa [firstErr, hs] using ih2 v h.2
  | case8 e sub es errs hs ih1 =>
    simp only [locatedL, Ev.located] at h
    simp [firstErr, hs, Res.errs]; exact h.1
  | case9 e sub es hs ih1 => simp [firstErr, hs, Res.errs]
  | case10 tl => simp [firstErr, Res.errs]

theorem collect_located (v : J) (t : List Ev) (acc : List Err) (h : locatedL v t)
    (hacc : ∀ e ∈ acc, Loc v e) : ∀ r, collect t acc = some r → ∀ e ∈ r, Loc v e := by
  induction t, acc using collect.induct generalizing v with
  | case1 acc => intro r hr; simp [collect] at hr; subst hr; exact hacc
  | case2 es acc ih => simp only [locatedL] at h; intro r hr; simp [collect] at hr; exact ih v h.2 hacc r hr
  | case3 e es acc =>
    simp only [locatedL, Ev.located] at h
    intro r hr; simp [collect] at hr; subst hr
    intro e' he'; simp at he'; rcases he' with he' | rfl
    · exact hacc _ he'
    · exact h.1
  | case4 e fatal es acc hf ih =>
    simp only [locatedL, Ev.located] at h
    intro r hr; simp [collect, hf] at hr
    refine ih v h.2 ?_ r hr
    intro e' he'; simp at he'; rcases he' with he' | rfl
    · exact hacc _ he'
    · exact h.1
  | case5 tok sub es acc hs ih1 => intro r hr; simp [collect, hs] at hr
  | case6 tok sub es acc errs hs ih1 ih2 =>
    simp only [locatedL, Ev.located] at h
    obtain ⟨⟨x, hx, hsub⟩, hes⟩ := h
    intro r hr; simp [collect, hs] at hr
    refine ih2 v hes ?_ r hr
    intro e' he'; simp at he'; rcases he' with he' | ⟨e0, he0, rfl⟩
    · exact hacc _ he'
    · exact loc_mark hx (ih1 x hsub (by simp) errs hs e0 he0)
  | case7 e sub es acc hs ih1 => intro r hr; simp [collect, hs] at hr
  | case8 e sub es acc hs ih1 ih2 =>
    simp only [locatedL] at h
    intro r hr; simp [collect, hs] at hr; exact ih2 v h.2 hacc r hr
  | case9 e sub es acc val hv hs ih1 =>
    simp only [locatedL, Ev.located] at h
    intro r hr
    cases val with
    | nil => exact absurd rfl hv
    | cons a b =>
      simp [collect, hs] at hr; subst hr
      intro e' he'; simp at he'; rcases he' with he' | rfl
      · exact hacc _ he'
      · exact h.1
  | case10 tl x => intro r hr; simp [collect] at hr

/-- C12, second sentence, on the model -/
theorem pointers_located (v : J) (t : List Ev) (h : locatedL v t) (m : Mode) :
    ∀ e ∈ (report m t).errs, Loc v e := by
  cases m with
  | dflt => simpa [report] using firstErr_located v t h
  | failfast =>
    simp only [report]
    cases firstErr t <;> simp [Res.errs]
  | multi =>
    simp only [report]
    cases hc : collect t [] with
    | none => simp [Res.errs]
    | some r =>
      cases r with
      | nil => simp [Res.errs]
      | cons a b =>
        simp only [Res.errs]
        exact collect_located v t [] h (by simp) _ hc


#print axioms pointers_located

/-! ### The trace generator for a schema fragment, and `locatedL v (events s v)` -/

def Kw.permits (kw : Kw) (t : Ty) : Bool := match kw.type with | none => true | some t' => t = t'

def here (field : String) (v : J) : Err := { field := field, rpath := [], value := v }

/-- one keyword check: fail (quoting the visited value) or pass -/
def chk (v : J) (bad : Bool) (field : String) (fatal : Bool) : Ev :=
  if bad then .fail (here field v) fatal else .pass

/-- the leaf keyword checks of one schema on one value, as data, in the code's order;
    a type mismatch is fatal (the Go code returns at once in every mode) -/
def leafChecks (kw : Kw) : J → List (Bool × String × Bool)
  | .null => [(true, "nullable", true)]
  | .bool _ => []
  | .num q =>
    [(!(kw.permits .number), "type", true),
     ((match kw.minimum with | some mn => decide (q < mn) | none => false), "minimum", false),
     ((match kw.maximum with | some mx => decide (mx < q) | none => false), "maximum", false)]
  | .str s => [(!(kw.permits .string), "type", true), (decide (s.length < kw.minLength), "minLength", false)]
  | .arr _ => [(!(kw.permits .array), "type", true)]
  | .obj _ => [(!(kw.permits .object), "type", true)]

def leafEvs (kw : Kw) (v : J) : List Ev := (leafChecks kw v).map (fun c => chk v c.1 c.2.1 c.2.2)

def reqEvs (v : J) (kvs : List (List Char × J)) : List (List Char) → List Ev
  | [] => []
  | k :: ks =>
    (if (lookup k kvs).isNone then .fail (mark (.key k) (here "required" v)) false else .pass) :: reqEvs v kvs ks

mutual
def events : S → J → List Ev
  | .mk kw allOf items props, v =>
    allOfEvs allOf v ++ leafEvs kw v ++
    (match v with
     | .arr xs => (match items with | none => [] | some s => itemsEvs s xs 0)
     | .obj kvs => propsEvs props kvs ++ reqEvs v kvs kw.required
     | _ => [])
termination_by s v => (sizeOf v, sizeOf s)
def allOfEvs : List S → J → List Ev
  | [], _ => []
  | s :: ss, v => .wrap (here "allOf" v) (events s v) :: allOfEvs ss v
termination_by ss v => (sizeOf v, sizeOf ss)
def itemsEvs : S → List J → Nat → List Ev
  | _, [], _ => []
  | s, x :: xs, i => .child (.idx i) (events s x) :: itemsEvs s xs (i + 1)
termination_by s xs _ => (sizeOf xs, sizeOf s)
def propsEvs : List (List Char × S) → List (List Char × J) → List Ev
  | _, [] => []
  | p, (k, x) :: r =>
    (match lookup k p with
     | some s => .child (.key k) (events s x)
     | none => .pass) :: propsEvs p r
termination_by p kvs => (sizeOf kvs, sizeOf p)
end

theorem loc_here (field : String) (v : J) : Loc v (here field v) := by
  left; simp [here, Err.pointer, resolve]

theorem loc_required (k : List Char) (v : J) : Loc v (mark (.key k) (here "required" v)) := by
  right
  refine ⟨by simp [mark, here], [], .key k, ?_, ?_⟩
  · simp [mark, here, Err.pointer]
  · simp [mark, here, resolve]

theorem locatedL_append {v : J} {a b : List Ev} (ha : locatedL v a) (hb : locatedL v b) : locatedL v (a ++ b) := by
  induction a with
  | nil => simpa using hb
  | cons e es ih => simp only [List.cons_append, locatedL] at *; exact ⟨ha.1, ih ha.2⟩

theorem chk_located (v : J) (bad : Bool) (field : String) (fatal : Bool) : (chk v bad field fatal).located v := by
  unfold chk; split <;> simp [Ev.located, loc_here]

theorem map_chk_located (v : J) (cs : List (Bool × String × Bool)) :
    locatedL v (cs.map (fun c => chk v c.1 c.2.1 c.2.2)) := by
  induction cs with
  | nil => simp [locatedL]
  | cons c cs ih => simp only [List.map_cons, locatedL]; exact ⟨chk_located _ _ _ _, ih⟩

theorem leafEvs_located (kw : Kw) (v : J) : locatedL v (leafEvs kw v) := map_chk_located v _

theorem reqEvs_located (v : J) (kvs : List (List Char × J)) (ks : List (List Char)) : locatedL v (reqEvs v kvs ks) := by
  induction ks with
  | nil => simp [reqEvs, locatedL]
  | cons k ks ih =>
    simp only [reqEvs, locatedL]
    refine ⟨?_, ih⟩
    split <;> simp [Ev.located, loc_required]

/-- object keys distinct at every level (Go maps) -/
def keysOf : List (List Char × J) → List (List Char)
  | [] => []
  | (k, _) :: r => k :: keysOf r

theorem lookup_of_mem_nodup : ∀ (kvs : List (List Char × J)) (k : List Char) (x : J),
    (keysOf kvs).Nodup → (k, x) ∈ kvs → lookup k kvs = some x
  | [], _, _, _, h => by simp at h
  | (k', x') :: r, k, x, hn, h => by
    simp only [keysOf, List.nodup_cons] at hn
    simp only [List.mem_cons, Prod.mk.injEq] at h
    rcases h with ⟨rfl, rfl⟩ | h
    · simp [lookup]
    · have hne : k ≠ k' := by
        intro e; subst e
        apply hn.1
        clear hn
        induction r with
        | nil => simp at h
        | cons kv r ih =>
          obtain ⟨a, b⟩ := kv
          simp only [List.mem_cons, Prod.mk.injEq] at h
          rcases h with ⟨rfl, rfl⟩ | h
          · simp [keysOf]
          · simp [keysOf, ih h]
      simp [lookup, hne, lookup_of_mem_nodup r k x hn.2 h]


mutual
def WFJ : J → Prop
  | .arr xs => WFJL xs
  | .obj kvs => (keysOf kvs).Nodup ∧ WFJP kvs
  | _ => True
def WFJL : List J → Prop
  | [] => True
  | x :: xs => WFJ x ∧ WFJL xs
def WFJP : List (List Char × J) → Prop
  | [] => True
  | (_, x) :: r => WFJ x ∧ WFJP r
end

theorem wfjl_mem {xs : List J} (h : WFJL xs) : ∀ x ∈ xs, WFJ x := by
  induction xs with
  | nil => simp
  | cons a r ih => simp only [WFJL] at h; intro x hx; simp at hx; rcases hx with rfl | hx; exact h.1; exact ih h.2 x hx

theorem wfjp_mem {kvs : List (List Char × J)} (h : WFJP kvs) : ∀ kx ∈ kvs, WFJ kx.2 := by
  induction kvs with
  | nil => simp
  | cons a r ih =>
    obtain ⟨k, x⟩ := a
    simp only [WFJP] at h
    intro kx hkx; simp at hkx; rcases hkx with rfl | hkx
    · exact h.1
    · exact ih h.2 kx hkx

/-- the trace of a schema visit is located in the visited value (object keys distinct, as in Go maps) -/
theorem events_located :
    (∀ s v, WFJ v → locatedL v (events s v)) ∧
    (∀ p r, ∀ (all : List (List Char × J)), (∀ kx ∈ r, lookup kx.1 all = some kx.2) → (∀ kx ∈ r, WFJ kx.2) →
        locatedL (.obj all) (propsEvs p r)) ∧
    (∀ s xs i, ∀ (all : List J), (∀ j, xs[j]? = all[i + j]?) → (∀ x ∈ xs, WFJ x) →
        locatedL (.arr all) (itemsEvs s xs i)) ∧
    (∀ ss v, WFJ v → locatedL v (allOfEvs ss v)) := by
  refine events.mutual_induct
    (motive1 := fun s v => WFJ v → locatedL v (events s v))
    (motive2 := fun p r => ∀ (all : List (List Char × J)), (∀ kx ∈ r, lookup kx.1 all = some kx.2) → (∀ kx ∈ r, WFJ kx.2) →
        locatedL (.obj all) (propsEvs p r))
    (motive3 := fun s xs i => ∀ (all : List J), (∀ j, xs[j]? = all[i + j]?) → (∀ x ∈ xs, WFJ x) →
        locatedL (.arr all) (itemsEvs s xs i))
    (motive4 := fun ss v => WFJ v → locatedL v (allOfEvs ss v))
    ?node ?pnil ?pcons ?inil ?icons ?anil ?acons
  case node =>
    intro kw allOf items props v ihA ihC hwf
    rw [events.eq_def]
    simp only
    refine locatedL_append (locatedL_append (ihA hwf) (leafEvs_located kw v)) ?_
    cases v with
    | arr xs =>
      cases items with
      | none => simp [locatedL]
      | some s =>
        simp only at ihC ⊢
        exact ihC xs (by intro j; simp) (wfjl_mem (by simpa [WFJ] using hwf))
    | obj kvs =>
      simp only at ihC ⊢
      have hw : (keysOf kvs).Nodup ∧ WFJP kvs := by simpa [WFJ] using hwf
      refine locatedL_append (ihC kvs ?_ (wfjp_mem hw.2)) (reqEvs_located _ _ _)
      intro kx hkx
      exact lookup_of_mem_nodup kvs kx.1 kx.2 hw.1 (by simpa using hkx)
    | null => simp [locatedL]
    | bool b => simp [locatedL]
    | num q => simp [locatedL]
    | str x => simp [locatedL]
  case pnil => intro p all _ _; simp [propsEvs, locatedL]
  case pcons =>
    intro p k x r ih1 ih2 all hall hwf
    rw [propsEvs.eq_def]
    simp only [locatedL]
    refine ⟨?_, ih2 all (fun kx h => hall kx (by simp [h])) (fun kx h => hwf kx (by simp [h]))⟩
    cases hl : lookup k p with
    | none => simp [Ev.located]
    | some s =>
      simp only [Ev.located]
      exact ⟨x, by simpa [resolve1] using hall (k, x) (by simp), ih1 s (hwf (k, x) (by simp))⟩
  case inil => intro s i all _ _; simp [itemsEvs, locatedL]
  case icons =>
    intro s x xs i ih1 ih2 all hall hwf
    rw [itemsEvs.eq_def]
    simp only [locatedL, Ev.located]
    refine ⟨⟨x, ?_, ih1 (hwf x (by simp))⟩, ih2 all ?_ (fun y hy => hwf y (by simp [hy]))⟩
    · have := hall 0; simp at this; simp [resolve1, ← this]
    · intro j; have := hall (j + 1); simp at this; rw [this]; congr 1; omega
  case anil => intro v _; simp [allOfEvs, locatedL]
  case acons =>
    intro s ss v ih1 ih2 hwf
    rw [allOfEvs.eq_def]
    simp only [locatedL, Ev.located]
    exact ⟨loc_here _ _, ih2 hwf⟩

/-- C12, second sentence, for the fragment: every error reported in any mode points at the value it quotes -/
theorem pointers_located_visit (s : S) (v : J) (hwf : WFJ v) (m : Mode) :
    ∀ e ∈ (report m (events s v)).errs, Loc v e :=
  pointers_located v (events s v) (events_located.1 s v hwf) m

#print axioms pointers_located_visit
end E
