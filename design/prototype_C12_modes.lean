/-
DESIGN-PHASE FEASIBILITY PROTOTYPE (round 0) — not part of the verification machinery.

C12 (DESIGN.md §3 "error-level model", §4-C12). The validator's error behaviour is modelled as a
MODE-FREE trace: a tree of events in the code's order (`pass`, `fail e fatal`, `child tok sub`
for property/item visits whose errors are re-located, `wrap e sub` for composition children whose
errors survive only as Origin, `panic`). The three validation modes are non-recursive folds of
that tree (`firstErr` = default, `failfast` = default without the error, `collect` = multi-error).
Proved here, for every trace:
  * mode_independent   : no panic ⇒ (report m t).isOk = passesL t   for all three modes
  * pointers_located   : located trace ⇒ every reported error's JSON pointer resolves to the value
                         it quotes (or, for a missing required property, to the enclosing object)
  * modes_differ_on_panic : witness of finding #4 (multi-error mode reaches a panicking site that
                         default mode never executes)
What remains for the real model is the recursive generator `events : Schema → Json → List Ev`
(mirroring visitJSON) with `locatedL v (events s v)`.
Lean 4.33.0, core only, ≈ 3 s; axioms: propext, Quot.sound.
-/
namespace E

inductive J where
  | null | bool (b : Bool) | num (q : Int) | str (s : List Char)
  | arr (xs : List J) | obj (kvs : List (List Char × J))
  deriving Inhabited

inductive Ty | number | string | array | object
  deriving DecidableEq, Inhabited

structure Kw where
  type : Option Ty := none
  minimum : Option Int := none
  maximum : Option Int := none
  minLength : Nat := 0
  required : List (List Char) := []
  deriving Inhabited

inductive S where
  | mk (kw : Kw) (allOf : List S) (items : Option S) (props : List (List Char × S))
  deriving Inhabited

def lookup (k : List Char) : List (List Char × α) → Option α
  | [] => none
  | (k', v) :: r => if k = k' then some v else lookup k r

inductive Tok | key (k : List Char) | idx (i : Nat)
  deriving DecidableEq

structure Err where
  field : String
  rpath : List Tok        -- innermost first, as in the Go code
  value : J

def mark (k : Tok) (e : Err) : Err := { e with rpath := e.rpath ++ [k] }
def Err.pointer (e : Err) : List Tok := e.rpath.reverse

/-- Trace of one schema visit, in the code's order. `fatal` = the Go code returns at once even in
    multi-error mode (type mismatch, composition failure). `wrap` = a failing child whose error is
    only kept as Origin of a wrapper error (allOf): the reported error is `e`. -/
inductive Ev where
  | pass
  | fail (e : Err) (fatal : Bool)
  | child (tok : Tok) (sub : List Ev)               -- property / item visit: errors are re-located
  | wrap (e : Err) (sub : List Ev)                  -- allOf child: wrapper reported iff sub fails
  | panic

mutual
def Ev.passes : Ev → Bool
  | .pass => true
  | .fail _ _ => false
  | .child _ sub => passesL sub
  | .wrap _ sub => passesL sub
  | .panic => false
def passesL : List Ev → Bool
  | [] => true
  | e :: es => e.passes && passesL es
end

mutual
def Ev.noPanic : Ev → Bool
  | .panic => false
  | .child _ sub => noPanicL sub
  | .wrap _ sub => noPanicL sub
  | _ => true
def noPanicL : List Ev → Bool
  | [] => true
  | e :: es => e.noPanic && noPanicL es
end

inductive Mode | failfast | dflt | multi
  deriving DecidableEq

inductive Res | ok | rej (errs : List Err) | panic
def Res.isOk : Res → Bool | .ok => true | _ => false
def Res.errs : Res → List Err | .rej es => es | _ => []

-- default mode: the first failing event decides
mutual
def firstErr : List Ev → Res
  | [] => .ok
  | .pass :: es => firstErr es
  | .fail e _ :: _ => .rej [e]
  | .child tok sub :: es =>
    (match firstErr sub with
     | .ok => firstErr es
     | .rej errs => .rej (errs.map (mark tok))
     | .panic => .panic)
  | .wrap e sub :: es =>
    (match firstErr sub with
     | .ok => firstErr es
     | .rej _ => .rej [e]
     | .panic => .panic)
  | .panic :: _ => .panic
end

-- multi mode: collect; stop at a fatal failure; panic if any executed event panics.
mutual
def collect : List Ev → List Err → Option (List Err)      -- none = panic
  | [], acc => some acc
  | .pass :: es, acc => collect es acc
  | .fail e fatal :: es, acc => if fatal then some (acc ++ [e]) else collect es (acc ++ [e])
  | .child tok sub :: es, acc =>
    (match collect sub [] with
     | none => none
     | some errs => collect es (acc ++ errs.map (mark tok)))
  | .wrap e sub :: es, acc =>
    (match collect sub [] with
     | none => none
     | some [] => collect es acc
     | some _ => some (acc ++ [e]))                       -- composition failure is fatal
  | .panic :: _, _ => none
end

def report (m : Mode) (t : List Ev) : Res :=
  match m with
  | .dflt => firstErr t
  | .failfast => (match firstErr t with | .rej _ => .rej [] | r => r)
  | .multi => (match collect t [] with | none => .panic | some [] => .ok | some es => .rej es)


/-! ### T1: modes change the report, never the verdict (absent panics) -/

theorem firstErr_ok (t : List Ev) (h : noPanicL t = true) :
    firstErr t ≠ .panic ∧ ((firstErr t).isOk = passesL t) := by
  induction t using firstErr.induct with
  | case1 => simp [firstErr, passesL, Res.isOk]
  | case2 es ih =>
    simp [noPanicL, Ev.noPanic] at h
    simpa [firstErr, passesL, Ev.passes] using ih h
  | case3 e f tl => simp [firstErr, passesL, Ev.passes, Res.isOk]
  | case4 tok sub es hs ih1 ih2 =>
    simp [noPanicL, Ev.noPanic] at h
    have := ih1 h.1; have := ih2 h.2
    simp_all [firstErr, passesL, Ev.passes, Res.isOk]
  | case5 tok sub es errs hs ih1 =>
    simp [noPanicL, Ev.noPanic] at h
    have := ih1 h.1
    simp_all [firstErr, passesL, Ev.passes, Res.isOk]
  | case6 tok sub es hs ih1 =>
    simp [noPanicL, Ev.noPanic] at h
    exact absurd hs (ih1 h.1).1
  | case7 e sub es hs ih1 ih2 =>
    simp [noPanicL, Ev.noPanic] at h
    have := ih1 h.1; have := ih2 h.2
    simp_all [firstErr, passesL, Ev.passes, Res.isOk]
  | case8 e sub es errs hs ih1 =>
    simp [noPanicL, Ev.noPanic] at h
    have := ih1 h.1
    simp_all [firstErr, passesL, Ev.passes, Res.isOk]
  | case9 e sub es hs ih1 =>
    simp [noPanicL, Ev.noPanic] at h
    exact absurd hs (ih1 h.1).1
  | case10 tl => simp [noPanicL, Ev.noPanic] at h

theorem collect_ok (t : List Ev) (acc : List Err) (h : noPanicL t = true) :
    ∃ es, collect t acc = some (acc ++ es) ∧ (es = [] ↔ passesL t = true) := by
  induction t, acc using collect.induct with
  | case1 acc => exact ⟨[], by simp [collect], by simp [passesL]⟩
  | case2 es acc ih =>
    simp [noPanicL, Ev.noPanic] at h
    obtain ⟨r, h1, h2⟩ := ih h
    exact ⟨r, by simp [collect, h1], by simp [passesL, Ev.passes, h2]⟩
  | case3 e es acc => exact ⟨[e], by simp [collect], by simp [passesL, Ev.passes]⟩
  | case4 e fatal es acc hf ih =>
    simp [noPanicL, Ev.noPanic] at h
    obtain ⟨r, h1, _⟩ := ih h
    refine ⟨e :: r, ?_, by simp [passesL, Ev.passes]⟩
    simp [collect, hf, h1]
  | case5 tok sub es acc hs ih1 =>
    simp [noPanicL, Ev.noPanic] at h
    obtain ⟨r, h1, _⟩ := ih1 h.1
    simp [hs] at h1
  | case6 tok sub es acc errs hs ih1 ih2 =>
    simp [noPanicL, Ev.noPanic] at h
    obtain ⟨r1, h1, h1'⟩ := ih1 h.1
    obtain ⟨r2, h2, h2'⟩ := ih2 h.2
    simp [hs] at h1; subst h1
    refine ⟨errs.map (mark tok) ++ r2, by simp [collect, hs, h2], ?_⟩
    simp [passesL, Ev.passes, ← h1', ← h2']
  | case7 e sub es acc hs ih1 =>
    simp [noPanicL, Ev.noPanic] at h
    obtain ⟨r, h1, _⟩ := ih1 h.1
    simp [hs] at h1
  | case8 e sub es acc hs ih1 ih2 =>
    simp [noPanicL, Ev.noPanic] at h
    obtain ⟨r1, h1, h1'⟩ := ih1 h.1
    obtain ⟨r2, h2, h2'⟩ := ih2 h.2
    simp [hs] at h1; subst h1
    refine ⟨r2, by simp [collect, hs, h2], ?_⟩
    simp [passesL, Ev.passes, ← h1', h2']
  | case9 e sub es acc val hv hs ih1 =>
    simp [noPanicL, Ev.noPanic] at h
    obtain ⟨r1, h1, h1'⟩ := ih1 h.1
    simp [hs] at h1; subst h1
    refine ⟨[e], ?_, ?_⟩
    · cases val with
      | nil => exact absurd rfl hv
      | cons a b => simp [collect, hs]
    · have : passesL sub = false := by
        cases hp : passesL sub
        · rfl
        · exact absurd (h1'.mpr hp) hv
      simp [passesL, Ev.passes, this]
  | case10 tl x => simp [noPanicL, Ev.noPanic] at h

/-- C12, first sentence, on the model: for a panic-free trace every mode gives the same verdict -/
theorem mode_independent (t : List Ev) (h : noPanicL t = true) (m : Mode) :
    (report m t).isOk = passesL t := by
  obtain ⟨hnp, hok⟩ := firstErr_ok t h
  cases m with
  | dflt => simpa [report] using hok
  | failfast =>
    simp only [report]
    cases hf : firstErr t with
    | ok => rw [hf] at hok; simpa [Res.isOk] using hok
    | rej es => simp [hf, Res.isOk] at hok ⊢; exact hok
    | panic => exact absurd hf hnp
  | multi =>
    obtain ⟨es, h1, h2⟩ := collect_ok t [] h
    simp only [report, h1, List.nil_append]
    cases es with
    | nil => simp [Res.isOk, h2.mp rfl]
    | cons a b =>
      have : passesL t = false := by
        cases hp : passesL t
        · rfl
        · exact absurd (h2.mpr hp) (by simp)
      simp [Res.isOk, this]

#print axioms mode_independent

/-- finding #4 as a model-level witness: after a non-fatal failure, default mode never reaches the
    panicking site that multi-error mode runs into -/
theorem modes_differ_on_panic (e : Err) :
    report .dflt [.fail e false, .panic] = .rej [e] ∧ report .multi [.fail e false, .panic] = .panic := by
  simp [report, firstErr, collect]

/-! ### T2: every reported error points at the value it quotes -/

def resolve1 (v : J) (t : Tok) : Option J :=
  match v, t with
  | .obj kvs, .key k => lookup k kvs
  | .arr xs, .idx i => xs[i]?
  | _, _ => none

def resolve : J → List Tok → Option J
  | v, [] => some v
  | v, t :: ts => (resolve1 v t).bind (fun x => resolve x ts)

/-- located: the pointer resolves to the quoted value, or (missing required property) the pointer
    minus its last token resolves to the quoted enclosing object -/
def Loc (v : J) (e : Err) : Prop :=
  resolve v e.pointer = some e.value ∨
  (e.field = "required" ∧ ∃ init last, e.pointer = init ++ [last] ∧ resolve v init = some e.value)

mutual
def Ev.located (v : J) : Ev → Prop
  | .pass => True
  | .fail e _ => Loc v e
  | .child tok sub => ∃ x, resolve1 v tok = some x ∧ locatedL x sub
  | .wrap e _ => Loc v e
  | .panic => True
def locatedL (v : J) : List Ev → Prop
  | [] => True
  | e :: es => e.located v ∧ locatedL v es
end

theorem pointer_mark (tok : Tok) (e : Err) : (mark tok e).pointer = tok :: e.pointer := by
  simp [mark, Err.pointer]

theorem loc_mark {v x : J} {tok : Tok} {e : Err} (hx : resolve1 v tok = some x) (h : Loc x e) :
    Loc v (mark tok e) := by
  rcases h with h | ⟨hf, init, last, hp, hr⟩
  · left
    rw [pointer_mark]
    simp only [resolve, hx, Option.bind_some]
    exact h
  · right
    refine ⟨by simpa [mark] using hf, tok :: init, last, ?_, ?_⟩
    · simp [pointer_mark, hp]
    · simp only [resolve, hx, Option.bind_some]; exact hr

theorem firstErr_located (v : J) (t : List Ev) (h : locatedL v t) : ∀ e ∈ (firstErr t).errs, Loc v e := by
  induction t using firstErr.induct generalizing v with
  | case1 => simp [firstErr, Res.errs]
  | case2 es ih => simp only [locatedL] at h; simpa [firstErr] using ih v h.2
  | case3 e f tl => simp only [locatedL, Ev.located] at h; simp [firstErr, Res.errs]; exact h.1
  | case4 tok sub es hs ih1 ih2 => simp only [locatedL] at h; simpa [firstErr, hs] using ih2 v h.2
  | case5 tok sub es errs hs ih1 =>
    simp only [locatedL, Ev.located] at h
    obtain ⟨⟨x, hx, hsub⟩, _⟩ := h
    have := ih1 x hsub
    simp [hs, Res.errs] at this
    simp [firstErr, hs, Res.errs]
    intro e he; exact loc_mark hx (this e he)
  | case6 tok sub es hs ih1 => simp [firstErr, hs, Res.errs]
  | case7 e sub es hs ih1 ih2 => simp only [locatedL] at h; simpa [firstErr, hs] using ih2 v h.2
  | case8 e sub es errs hs ih1 =>
    simp only [locatedL, Ev.located] at h
    simp [firstErr, hs, Res.errs]; exact h.1
  | case9 e sub es hs ih1 => simp [firstErr, hs, Res.errs]
  | case10 tl => simp [firstErr, Res.errs]

theorem collect_located (v : J) (t : List Ev) (acc : List Err) (h : locatedL v t)
    (hacc : ∀ e ∈ acc, Loc v e) : ∀ r, collect t acc = some r → ∀ e ∈ r, Loc v e := by
  induction t, acc using collect.induct generalizing v with
  | case1 acc => intro r hr; simp [collect] at hr; subst hr; exact hacc
  | case2 es acc ih => simp only [locatedL] at h; intro r hr; simp [collect] at hr; exact ih v h.2 hacc r hr
  | case3 e es acc =>
    simp only [locatedL, Ev.located] at h
    intro r hr; simp [collect] at hr; subst hr
    intro e' he'; simp at he'; rcases he' with he' | rfl
    · exact hacc _ he'
    · exact h.1
  | case4 e fatal es acc hf ih =>
    simp only [locatedL, Ev.located] at h
    intro r hr; simp [collect, hf] at hr
    refine ih v h.2 ?_ r hr
    intro e' he'; simp at he'; rcases he' with he' | rfl
    · exact hacc _ he'
    · exact h.1
  | case5 tok sub es acc hs ih1 => intro r hr; simp [collect, hs] at hr
  | case6 tok sub es acc errs hs ih1 ih2 =>
    simp only [locatedL, Ev.located] at h
    obtain ⟨⟨x, hx, hsub⟩, hes⟩ := h
    intro r hr; simp [collect, hs] at hr
    refine ih2 v hes ?_ r hr
    intro e' he'; simp at he'; rcases he' with he' | ⟨e0, he0, rfl⟩
    · exact hacc _ he'
    · exact loc_mark hx (ih1 x hsub (by simp) errs hs e0 he0)
  | case7 e sub es acc hs ih1 => intro r hr; simp [collect, hs] at hr
  | case8 e sub es acc hs ih1 ih2 =>
    simp only [locatedL] at h
    intro r hr; simp [collect, hs] at hr; exact ih2 v h.2 hacc r hr
  | case9 e sub es acc val hv hs ih1 =>
    simp only [locatedL, Ev.located] at h
    intro r hr
    cases val with
    | nil => exact absurd rfl hv
    | cons a b =>
      simp [collect, hs] at hr; subst hr
      intro e' he'; simp at he'; rcases he' with he' | rfl
      · exact hacc _ he'
      · exact h.1
  | case10 tl x => intro r hr; simp [collect] at hr

/-- C12, second sentence, on the model -/
theorem pointers_located (v : J) (t : List Ev) (h : locatedL v t) (m : Mode) :
    ∀ e ∈ (report m t).errs, Loc v e := by
  cases m with
  | dflt => simpa [report] using firstErr_located v t h
  | failfast =>
    simp only [report]
    cases firstErr t <;> simp [Res.errs]
  | multi =>
    simp only [report]
    cases hc : collect t [] with
    | none => simp [Res.errs]
    | some r =>
      cases r with
      | nil => simp [Res.errs]
      | cons a b =>
        simp only [Res.errs]
        exact collect_located v t [] h (by simp) _ hc

#print axioms pointers_located
end E
