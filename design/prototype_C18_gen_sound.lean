/-
DESIGN-PHASE FEASIBILITY PROTOTYPE (round 0) — not part of the verification machinery.

C18 (DESIGN.md §4-C18), non-recursive stage: Go types (bool, bounded integers, string, pointers
at any level, slices, string-keyed maps, structs with distinct JSON names), typed values, a model
of encoding/json (`encode`), a model of openapi3gen's kind switch (`gen`; a pointer adds
`nullable`), the fragment of `Sat` that generated schemas use, and

  gen_sound : HasType v t → Sat (gen t) (encode v)

by structural recursion over the (mutual) typing derivation. The property theorem is this plus
C01's validator↔spec theorem (generated schemas satisfy C01's side conditions). Recursive types
(component references, where the `nullable` of a pointer is lost — finding #19) and the `,string`
tag option (finding #32) are the exclusions of stage 2.
Lean 4.33.0, core only, ≈ 3 s; axioms: propext, Classical.choice, Quot.sound.
-/
namespace G

abbrev Str := List Char

inductive J where
  | null | bool (b : Bool) | num (q : Int) | str (s : Str)
  | arr (xs : List J) | obj (kvs : List (Str × J))

/-- Go types of the supported fragment (non-recursive stage) -/
inductive GoType where
  | bool
  | int (lo hi : Option Int)       -- sized integers: bounds emitted by the generator
  | string
  | ptr (t : GoType)
  | slice (t : GoType)
  | map (t : GoType)               -- map[string]t
  | struct (fields : List (Str × GoType))

/-- untyped Go values + typing relation -/
inductive GoVal where
  | b (x : Bool) | i (n : Int) | s (x : Str)
  | nil                            -- nil pointer
  | ref (v : GoVal)                -- non-nil pointer
  | slice (vs : List GoVal)        -- non-nil slice
  | map (kvs : List (Str × GoVal)) -- non-nil map
  | struct (fs : List (Str × GoVal))

def keys : List (Str × α) → List Str
  | [] => []
  | (k, _) :: r => k :: keys r

mutual
inductive HasType : GoVal → GoType → Prop
  | b {x} : HasType (.b x) .bool
  | i {n lo hi} : (∀ l, lo = some l → l ≤ n) → (∀ h, hi = some h → n ≤ h) → HasType (.i n) (.int lo hi)
  | s {x} : HasType (.s x) .string
  | nil {t} : HasType .nil (.ptr t)
  | ref {v t} : HasType v t → HasType (.ref v) (.ptr t)
  | slice {vs t} : AllHaveType vs t → HasType (.slice vs) (.slice t)
  | map {kvs t} : AllHaveTypeKV kvs t → HasType (.map kvs) (.map t)
  | struct {fs fields} : FieldsHaveType fs fields → HasType (.struct fs) (.struct fields)
inductive AllHaveType : List GoVal → GoType → Prop
  | nil {t} : AllHaveType [] t
  | cons {v vs t} : HasType v t → AllHaveType vs t → AllHaveType (v :: vs) t
inductive AllHaveTypeKV : List (Str × GoVal) → GoType → Prop
  | nil {t} : AllHaveTypeKV [] t
  | cons {k v kvs t} : HasType v t → AllHaveTypeKV kvs t → AllHaveTypeKV ((k, v) :: kvs) t
inductive FieldsHaveType : List (Str × GoVal) → List (Str × GoType) → Prop
  | nil : FieldsHaveType [] []
  | cons {k v t fs fields} : k ∉ keys fs → HasType v t → FieldsHaveType fs fields → FieldsHaveType ((k, v) :: fs) ((k, t) :: fields)   -- JSON names distinct
end

-- encoding/json
mutual
def encode : GoVal → J
  | .b x => .bool x
  | .i n => .num n
  | .s x => .str x
  | .nil => .null
  | .ref v => encode v
  | .slice vs => .arr (encodeL vs)
  | .map kvs => .obj (encodeKV kvs)
  | .struct fs => .obj (encodeKV fs)
def encodeL : List GoVal → List J
  | [] => []
  | v :: vs => encode v :: encodeL vs
def encodeKV : List (Str × GoVal) → List (Str × J)
  | [] => []
  | (k, v) :: r => (k, encode v) :: encodeKV r
end

/-- the generated schema (only what the generator emits) -/
inductive Sch where
  | mk (ty : Option Str) (nullable : Bool) (lo hi : Option Int)
       (items : Option Sch) (props : List (Str × Sch)) (addl : Option Sch)

def Sch.setNullable : Sch → Sch
  | .mk ty _ lo hi it pr ad => .mk ty true lo hi it pr ad

-- generateWithoutSaving: kind switch; a pointer adds `nullable` (non-root)
mutual
def gen : GoType → Sch
  | .bool => .mk (some "boolean".toList) false none none none [] none
  | .int lo hi => .mk (some "integer".toList) false lo hi none [] none
  | .string => .mk (some "string".toList) false none none none [] none
  | .ptr t => (gen t).setNullable
  | .slice t => .mk (some "array".toList) false none none (some (gen t)) [] none
  | .map t => .mk (some "object".toList) false none none none [] (some (gen t))
  | .struct fields => .mk (some "object".toList) false none none none (genFields fields) none
def genFields : List (Str × GoType) → List (Str × Sch)
  | [] => []
  | (k, t) :: r => (k, gen t) :: genFields r
end

def lookup (k : Str) : List (Str × α) → Option α
  | [] => none
  | (k', v) :: r => if k = k' then some v else lookup k r

-- the fragment of `Sat` (DESIGN §3) that generated schemas use
mutual
def Sat : Sch → J → Prop
  | .mk ty nullable lo hi items props addl, v =>
    match v with
    | .null => nullable = true
    | .bool _ => ty = some "boolean".toList
    | .num q => ty = some "integer".toList ∧ (∀ l, lo = some l → l ≤ q) ∧ (∀ h, hi = some h → q ≤ h)
    | .str _ => ty = some "string".toList
    | .arr xs => ty = some "array".toList ∧ (∀ s, items = some s → SatItems s xs)
    | .obj kvs => ty = some "object".toList ∧ SatProps props addl kvs
def SatItems : Sch → List J → Prop
  | _, [] => True
  | s, x :: xs => Sat s x ∧ SatItems s xs
def SatProps : List (Str × Sch) → Option Sch → List (Str × J) → Prop
  | _, _, [] => True
  | p, ad, (k, x) :: r =>
    (match lookup k p with
     | some s => Sat s x
     | none => ∀ s, ad = some s → Sat s x) ∧ SatProps p ad r
end


theorem sat_setNullable (s : Sch) (x : J) (h : Sat s x) : Sat s.setNullable x := by
  obtain ⟨ty, nl, lo, hi, it, pr, ad⟩ := s
  cases x <;> simp_all [Sch.setNullable, Sat]

theorem sat_setNullable_null (s : Sch) : Sat s.setNullable .null := by
  obtain ⟨ty, nl, lo, hi, it, pr, ad⟩ := s
  simp [Sch.setNullable, Sat]

theorem lookup_genFields_skip (k : Str) (t0 : GoType) (k0 : Str) (fields : List (Str × GoType)) (h : k ≠ k0) :
    lookup k ((k0, gen t0) :: genFields fields) = lookup k (genFields fields) := by
  simp [lookup, h]

/-- every entry of the encoded object finds its own field schema (field names distinct) -/
theorem satProps_of_forall (p : List (Str × Sch)) (kvs : List (Str × J))
    (h : ∀ kv ∈ kvs, ∃ s, lookup kv.1 p = some s ∧ Sat s kv.2) : SatProps p none kvs := by
  induction kvs with
  | nil => simp [SatProps]
  | cons kv r ih =>
    obtain ⟨k, x⟩ := kv
    rw [SatProps]
    obtain ⟨s, hs, hsat⟩ := h (k, x) (by simp)
    refine ⟨by simp [hs, hsat], ih (fun kv hkv => h kv (by simp [hkv]))⟩

theorem mem_keys_encodeKV {fs : List (Str × GoVal)} {kv : Str × J} (h : kv ∈ encodeKV fs) : kv.1 ∈ keys fs := by
  induction fs with
  | nil => simp [encodeKV] at h
  | cons f r ih =>
    obtain ⟨k, v⟩ := f
    simp only [encodeKV, List.mem_cons] at h
    rcases h with rfl | h
    · simp [keys]
    · simp [keys, ih h]

mutual
theorem gen_sound : ∀ {v t}, HasType v t → Sat (gen t) (encode v)
  | _, _, .b => by simp [gen, encode, Sat]
  | _, _, .i hl hh => by simp only [gen, encode, Sat]; exact ⟨trivial, hl, hh⟩
  | _, _, .s => by simp [gen, encode, Sat]
  | _, _, .nil => by simp only [gen, encode]; exact sat_setNullable_null _
  | _, _, .ref h => by simp only [gen, encode]; exact sat_setNullable _ _ (gen_sound h)
  | _, _, .slice h => by
      simp only [gen, encode, Sat]
      exact ⟨trivial, fun s hs => by cases hs; exact items_sound h⟩
  | _, _, .map h => by
      simp only [gen, encode, Sat]
      exact ⟨trivial, map_sound h⟩
  | _, _, .struct h => by
      simp only [gen, encode, Sat]
      exact ⟨trivial, satProps_of_forall _ _ (fields_sound h)⟩
theorem items_sound : ∀ {vs t}, AllHaveType vs t → SatItems (gen t) (encodeL vs)
  | _, _, .nil => by simp [encodeL, SatItems]
  | _, _, .cons h hs => by simp only [encodeL, SatItems]; exact ⟨gen_sound h, items_sound hs⟩
theorem map_sound : ∀ {kvs t}, AllHaveTypeKV kvs t → SatProps [] (some (gen t)) (encodeKV kvs)
  | _, _, .nil => by simp [encodeKV, SatProps]
  | _, _, .cons h hs => by
      simp only [encodeKV, SatProps, lookup]
      exact ⟨fun s hs' => by cases hs'; exact gen_sound h, map_sound hs⟩
/-- each encoded field is found in the generated properties (needs distinct names: stated as the
    conclusion restricted to entries whose key does not occur earlier) -/
theorem fields_sound : ∀ {fs fields}, FieldsHaveType fs fields →
    ∀ kv ∈ encodeKV fs, ∃ s, lookup kv.1 (genFields fields) = some s ∧ Sat s kv.2
  | _, _, .nil => by simp [encodeKV]
  | _, _, .cons (k := k) (fs := fs) (fields := fields) hfresh h hs => by
      intro kv hkv
      simp only [encodeKV, List.mem_cons] at hkv
      rcases hkv with rfl | hkv
      · exact ⟨_, by simp [genFields, lookup], gen_sound h⟩
      · obtain ⟨s, hl, hsat⟩ := fields_sound hs kv hkv
        by_cases e : kv.1 = k
        · exfalso; apply hfresh; rw [← e]; exact mem_keys_encodeKV hkv
        · exact ⟨s, by simp [genFields, lookup, e, hl], hsat⟩
end

#print axioms gen_sound
end G
