/-
DESIGN-PHASE FEASIBILITY PROTOTYPE (round 0) — not part of the verification machinery.

C05 (DESIGN.md §4-C05): `strings.Split` for a non-empty, possibly multi-character separator
(leftmost non-overlapping matches) and the round trip

  split_join_multi : xs ≠ [] → (∀ x ∈ xs, c0 ∉ x) → splitOnL (c0 :: dr) (joinL (c0 :: dr) xs) = xs

i.e. the decoder inverts the specification's encoding whenever no element contains the FIRST
character of the delimiter — the `Encodable` side condition of the matrix/explode cell (";name=")
and, with dr = [], of every single-character cell (",", ".", "|", " ").
Lean 4.33.0, core only, ≈ 1 s; axioms: propext, Quot.sound.
-/
namespace T

/-- strings.Split for a non-empty separator: leftmost, non-overlapping matches -/
def splitOnL (d : List Char) (s : List Char) : List (List Char) :=
  if hd : d = [] then [s] else
  if d.isPrefixOf s then [] :: splitOnL d (s.drop d.length)
  else match s with
    | [] => [[]]
    | c :: cs =>
      match splitOnL d cs with
      | [] => [[c]]
      | h :: t => (c :: h) :: t
termination_by s.length
decreasing_by
  · have : 0 < d.length := by cases d <;> simp_all
    have : s ≠ [] := by
      intro e; subst e; rename_i h; cases d <;> simp_all [List.isPrefixOf]
    have : 0 < s.length := by cases s <;> simp_all
    simp; omega
  · simp

def joinL (d : List Char) : List (List Char) → List Char
  | [] => []
  | [x] => x
  | x :: y :: r => x ++ d ++ joinL d (y :: r)

theorem splitOnL_ne_nil (d s : List Char) : splitOnL d s ≠ [] := by
  unfold splitOnL
  split
  · simp
  · split
    · simp
    · split
      · simp
      · split <;> simp

/-- scanning an element whose characters all differ from the delimiter's first character -/
theorem splitOnL_elem (c0 : Char) (dr x rest : List Char) (h : c0 ∉ x) :
    splitOnL (c0 :: dr) (x ++ (c0 :: dr) ++ rest) = x :: splitOnL (c0 :: dr) rest := by
  induction x with
  | nil =>
    rw [splitOnL.eq_def]
    simp [List.isPrefixOf]
  | cons c cs ih =>
    have hc : c ≠ c0 := by intro e; apply h; simp [e]
    have hcs : c0 ∉ cs := by intro e; apply h; simp [e]
    rw [splitOnL.eq_def]
    simp [List.isPrefixOf, hc, Ne.symm hc]
    rw [show cs ++ c0 :: (dr ++ rest) = cs ++ (c0 :: dr) ++ rest by simp]
    rw [ih hcs]

theorem splitOnL_last (c0 : Char) (dr x : List Char) (h : c0 ∉ x) :
    splitOnL (c0 :: dr) x = [x] := by
  induction x with
  | nil => rw [splitOnL.eq_def]; simp [List.isPrefixOf]
  | cons c cs ih =>
    have hc : c ≠ c0 := by intro e; apply h; simp [e]
    have hcs : c0 ∉ cs := by intro e; apply h; simp [e]
    rw [splitOnL.eq_def]
    simp [List.isPrefixOf, Ne.symm hc, ih hcs]

/-- round trip for a multi-character delimiter (matrix/explode uses ";name="):
    elements must be free of the delimiter's first character -/
theorem split_join_multi (c0 : Char) (dr : List Char) :
    ∀ (xs : List (List Char)), xs ≠ [] → (∀ x ∈ xs, c0 ∉ x) → splitOnL (c0 :: dr) (joinL (c0 :: dr) xs) = xs
  | [], h, _ => absurd rfl h
  | [x], _, hx => by simpa [joinL] using splitOnL_last c0 dr x (hx x (by simp))
  | x :: y :: r, _, hx => by
    have h1 : c0 ∉ x := hx x (by simp)
    have ih := split_join_multi c0 dr (y :: r) (by simp) (fun z hz => hx z (by simp [hz]))
    simp only [joinL]
    rw [splitOnL_elem c0 dr x _ h1, ih]

#print axioms split_join_multi
end T
