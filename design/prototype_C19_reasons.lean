/-
DESIGN-PHASE FEASIBILITY PROTOTYPE (round 0) — not part of the verification machinery.

C19 (DESIGN.md §4-C19): reasons are lists of fragments tagged with provenance; every reason of the
validator model is built by `mkReason site …` from a table of reason sites (regenerated from the
`Reason:` expressions of /repo by the translator, with each fmt argument classified).
  * mkReason_value_free — a clean site never produces a fragment taken from the value
  * render_value_free   — rendering (path prefix + reasons of the error and its origin chain) stays clean
  * sites_clean         — `decide` over the pinned tree's 34 sites (hand-copied here)
Lean 4.33.0, core only, ≈ 1 s; axioms: propext, Quot.sound.
-/
namespace Rs

/-! C19: reasons as lists of fragments with provenance. The table of reason sites is regenerated
    from the code; the validator model builds every reason through `mkReason site args`. -/

inductive Prov
  | lit            -- string literal in the source
  | schema         -- a field of the schema (bounds, pattern, enum, property names of `required`, …)
  | valueKey       -- a property NAME taken from the value (keys are not leaf values)
  | index          -- an array / oneOf index
  | valueType      -- %T of the value
  | validatorText  -- text returned by a built-in format validator (audited separately)
  | valueStr       -- a string taken from the value: MUST NOT OCCUR
  deriving DecidableEq, Repr

structure Site where
  field : String
  argProvs : List Prov      -- provenance of each fmt argument, as classified by the translator
  deriving Repr

def Site.clean (s : Site) : Bool := s.argProvs.all (· ≠ Prov.valueStr)

structure Frag where
  prov : Prov
  text : String

/-- a reason built at a site: the literal format text plus one fragment per argument, each carrying
    the provenance the table assigns to that argument position -/
def mkReason (s : Site) (fmt : String) (args : List String) : List Frag :=
  ⟨.lit, fmt⟩ :: (s.argProvs.zip args).map (fun pa => ⟨pa.1, pa.2⟩)

theorem mkReason_value_free (s : Site) (fmt : String) (args : List String) (h : s.clean = true) :
    ∀ f ∈ mkReason s fmt args, f.prov ≠ Prov.valueStr := by
  intro f hf
  simp only [mkReason, List.mem_cons, List.mem_map] at hf
  rcases hf with rfl | ⟨pa, hpa, rfl⟩
  · simp
  · have hm : pa.1 ∈ s.argProvs := (List.of_mem_zip hpa).1
    simp only [Site.clean, List.all_eq_true] at h
    simpa using h pa.1 hm

/-- error trees (an error may wrap an origin, a multi-error has members) -/
inductive ErrT where
  | leaf (reason : List Frag)
  | wrap (reason : List Frag) (origin : ErrT)
  | many (members : List ErrT)

mutual
def ErrT.frags : ErrT → List Frag
  | .leaf r => r
  | .wrap r o => r ++ o.frags
  | .many ms => fragsL ms
def fragsL : List ErrT → List Frag
  | [] => []
  | e :: es => e.frags ++ fragsL es
end

/-- rendering with details disabled / with a reason-only customiser: path prefix (keys and indices
    only) + reasons of the error and of its origin chain -/
def render (pathToks : List String) (e : ErrT) : List Frag :=
  pathToks.map (fun t => ⟨Prov.valueKey, t⟩) ++ e.frags

theorem render_value_free (pathToks : List String) (e : ErrT)
    (h : ∀ f ∈ e.frags, f.prov ≠ Prov.valueStr) : ∀ f ∈ render pathToks e, f.prov ≠ Prov.valueStr := by
  intro f hf
  simp only [render, List.mem_append, List.mem_map] at hf
  rcases hf with ⟨t, _, rfl⟩ | hf
  · simp
  · exact h f hf

/-- the pinned tree's table, hand-copied (34 sites: 32 literals + the two `e.Reason =` assignments) -/
def sites : List Site := [
  ⟨"type", []⟩, ⟨"type", [.valueType]⟩, ⟨"enum", [.schema]⟩, ⟨"discriminator", [.schema]⟩, ⟨"discriminator", [.schema]⟩,
  ⟨"discriminator", [.schema]⟩, ⟨"oneOf", [.index]⟩, ⟨"oneOf", []⟩, ⟨"anyOf", []⟩, ⟨"allOf", []⟩, ⟨"nullable", []⟩,
  ⟨"type", []⟩, ⟨"format", [.schema, .validatorText]⟩, ⟨"exclusiveMinimum", [.schema]⟩, ⟨"exclusiveMaximum", [.schema]⟩,
  ⟨"minimum", [.schema]⟩, ⟨"maximum", [.schema]⟩, ⟨"multipleOf", [.schema]⟩, ⟨"minLength", [.schema]⟩, ⟨"maxLength", [.schema]⟩,
  ⟨"pattern", [.schema]⟩, ⟨"format", [.schema, .validatorText]⟩, ⟨"minItems", [.schema]⟩, ⟨"maxItems", [.schema]⟩,
  ⟨"uniqueItems", []⟩, ⟨"minProperties", [.schema]⟩, ⟨"maxProperties", [.schema]⟩, ⟨"properties", [.valueKey]⟩,
  ⟨"required", [.schema]⟩, ⟨"type", [.lit, .schema]⟩, ⟨"format:ip", []⟩, ⟨"format:ip", []⟩, ⟨"format:ip", []⟩,
  ⟨"pattern", [.schema, .validatorText]⟩ ]

theorem sites_clean : ∀ s ∈ sites, s.clean = true := by decide

#print axioms mkReason_value_free
end Rs
