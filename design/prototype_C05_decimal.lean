/-
DESIGN-PHASE FEASIBILITY PROTOTYPE (round 0) — not part of the verification machinery.

C05 (DESIGN.md §4-C05), the primitive layer: decimal text of a natural number (strconv.FormatInt
for n ≥ 0) and its parser (strconv.ParseInt on digit strings; the sign is a separate, trivial case):

  readNat_showNat : readNat (showNat n) = some n

Together with `split_join_multi` (prototype_C05_split.lean) this is what `decode (encode v) = v`
needs for integers and arrays/objects of integers in every style cell.
Lean 4.33.0, core only, ≈ 1 s; axioms: propext, Quot.sound.
-/
namespace Dg

/-- decimal digits of a natural number, most significant first (strconv.FormatInt for n ≥ 0) -/
def digitChar (d : Nat) : Char := Char.ofNat (48 + d)

def showNatAux : Nat → Nat → List Char → List Char
  | 0, _, acc => acc
  | fuel + 1, n, acc =>
    if n < 10 then digitChar n :: acc
    else showNatAux fuel (n / 10) (digitChar (n % 10) :: acc)

def showNat (n : Nat) : List Char := showNatAux (n + 1) n []

def digitVal (c : Char) : Option Nat :=
  if 48 ≤ c.toNat ∧ c.toNat ≤ 57 then some (c.toNat - 48) else none

/-- strconv.ParseInt(s, 10, 64) for a non-empty string of decimal digits (sign handled separately) -/
def readNatAux : List Char → Nat → Option Nat
  | [], acc => some acc
  | c :: cs, acc => match digitVal c with
    | none => none
    | some d => readNatAux cs (acc * 10 + d)

def readNat : List Char → Option Nat
  | [] => none
  | cs => readNatAux cs 0

theorem digitVal_digitChar (d : Nat) (h : d < 10) : digitVal (digitChar d) = some d := by
  have : d = 0 ∨ d = 1 ∨ d = 2 ∨ d = 3 ∨ d = 4 ∨ d = 5 ∨ d = 6 ∨ d = 7 ∨ d = 8 ∨ d = 9 := by omega
  rcases this with rfl | rfl | rfl | rfl | rfl | rfl | rfl | rfl | rfl | rfl <;> decide

theorem readNatAux_append (xs ys : List Char) (acc : Nat) :
    readNatAux (xs ++ ys) acc = (readNatAux xs acc).bind (fun a => readNatAux ys a) := by
  induction xs generalizing acc with
  | nil => simp [readNatAux]
  | cons c cs ih =>
    simp only [List.cons_append, readNatAux]
    cases digitVal c with
    | none => simp
    | some d => simp [ih]

/-- reading `showNatAux fuel n acc` = reading the digits of n, then continuing with acc -/
theorem read_showAux : ∀ (fuel n : Nat) (acc : List Char) (a0 : Nat), n < fuel →
    readNatAux (showNatAux fuel n acc) a0 = readNatAux acc (a0 * 10 ^ (showNatAux fuel n []).length + n)
  | 0, _, _, _, h => by omega
  | fuel + 1, n, acc, a0, h => by
    by_cases hn : n < 10
    · simp [showNatAux, hn, readNatAux, digitVal_digitChar n hn]
    · have hlt : n / 10 < fuel := by omega
      have ih1 := read_showAux fuel (n / 10) (digitChar (n % 10) :: acc) a0 hlt
      have ih2 := read_showAux fuel (n / 10) [digitChar (n % 10)] 0 hlt
      have hlen : (showNatAux fuel (n / 10) [digitChar (n % 10)]).length = (showNatAux fuel (n / 10) []).length + 1 := by
        have key : ∀ (f m : Nat) (acc : List Char), (showNatAux f m acc).length = (showNatAux f m []).length + acc.length := by
          intro f
          induction f with
          | zero => intro m acc; simp [showNatAux]
          | succ f ih =>
            intro m acc
            simp only [showNatAux]
            split
            · simp; omega
            · rw [ih (m / 10) (digitChar (m % 10) :: acc), ih (m / 10) [digitChar (m % 10)]]; simp; omega
        simpa using key fuel (n / 10) [digitChar (n % 10)]
      simp only [showNatAux, hn, if_false]
      rw [ih1]
      simp only [readNatAux, digitVal_digitChar (n % 10) (Nat.mod_lt _ (by omega))]
      rw [hlen]
      congr 1
      have e : a0 * 10 ^ ((showNatAux fuel (n / 10) []).length + 1) = (a0 * 10 ^ (showNatAux fuel (n / 10) []).length) * 10 := by
        rw [Nat.pow_succ, Nat.mul_assoc]
      rw [e]
      generalize a0 * 10 ^ (showNatAux fuel (n / 10) []).length = X
      omega

theorem showNat_ne_nil (n : Nat) : showNat n ≠ [] := by
  unfold showNat
  simp only [showNatAux]
  split
  · simp
  · intro h
    have key : ∀ (f m : Nat) (acc : List Char), acc ≠ [] → showNatAux f m acc ≠ [] := by
      intro f
      induction f with
      | zero => intro m acc h; simpa [showNatAux] using h
      | succ f ih => intro m acc h; simp only [showNatAux]; split; simp; exact ih _ _ (by simp)
    exact key _ _ _ (by simp) h

/-- C05: the decimal text of a number parses back to the number -/
theorem readNat_showNat (n : Nat) : readNat (showNat n) = some n := by
  have h := read_showAux (n + 1) n [] 0 (by omega)
  simp [readNatAux] at h
  unfold readNat
  cases hs : showNat n with
  | nil => exact absurd hs (showNat_ne_nil n)
  | cons c cs => simp only []; rw [← hs]; exact h

example : showNat 0 = ['0'] ∧ showNat 907 = ['9', '0', '7'] := by decide

#print axioms readNat_showNat
end Dg
