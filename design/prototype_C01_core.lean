/-
DESIGN-PHASE FEASIBILITY PROTOTYPE (round 0) — not part of the verification machinery.

Purpose: de-risk the central proof of DESIGN.md §3/§4-C01. A verdict-level model of
`(*openapi3.Schema).visitJSON` for a realistic keyword fragment (type lists, nullable,
minimum/maximum with exclusive flags and the nil-dereference panic as outcome `none`,
minLength, required, properties, additionalProperties (bool | schema), items,
allOf/anyOf/oneOf/not, the `IsEmpty` shortcut, the "null after a composition" rule),
a declarative spec `Sat`, its executable twin `satB` (the oracle the driver evaluates), and

    main     : Clean s → visit s v = some b → (b = true ↔ Sat s v)
    satB_iff : satB s v = true ↔ Sat s v

where `Clean` is the exclusion "no non-trivial schema takes the IsEmpty shortcut"
(finding #1 of DESIGN §7). Checked with Lean 4.33.0, core only, `lake build` ≈ 30 s;
axioms: propext, Classical.choice, Quot.sound.

Engineering lessons (see DESIGN §9): recursion is well-founded on (sizeOf value, sizeOf schema)
and is accepted without hints; keep all non-recursive logic outside the `mutual` block
(`combine`, `combineB`, `bor`, `addCount`, `propRes`) — in particular NO `let` shared across
branches inside a recursive definition: `satB` written with `let comps := …` made the generated
`satB.mutual_induct` fail in the kernel ("declaration has free variables"); use
`visit.eq_def`/`unfold`, not `rw [visit]` (equation-lemma generation times out); prove with
`f.mutual_induct` and explicit motives; compose keyword equivalences with `band_iff` /
`combineB_iff`; `generalize` a Boolean sub-expression before `simp` to stop it being re-associated.

To re-check:  lake new P lib && cp this file to P/P/Basic.lean && cd P && lake build
-/
namespace K

inductive J where
  | null | bool (b : Bool) | num (q : Int) | str (s : List Char)
  | arr (xs : List J) | obj (kvs : List (List Char × J))
  deriving Inhabited

inductive Ty | boolean | number | string | array | object | null
  deriving DecidableEq, Inhabited

structure Kw where
  types : Option (List Ty) := none
  nullable : Bool := false
  minimum : Option Int := none
  maximum : Option Int := none
  exclMin : Bool := false
  exclMax : Bool := false
  minLength : Nat := 0
  required : List (List Char) := []
  addHas : Option Bool := none
  deriving Inhabited

inductive S where
  | mk (kw : Kw) (allOf anyOf oneOf : List S) (not : Option S) (items : Option S)
       (props : List (List Char × S)) (addl : Option S)
  deriving Inhabited

def Kw.permits (kw : Kw) (t : Ty) : Bool :=
  match kw.types with | none => true | some ts => ts.contains t
def Kw.permitsNull (kw : Kw) : Bool :=
  kw.nullable || (match kw.types with | none => false | some ts => ts.contains .null)

def Kw.bare (kw : Kw) : Bool :=
  kw.types.isNone && !kw.nullable && kw.minimum.isNone && kw.maximum.isNone && !kw.exclMin && !kw.exclMax
  && kw.minLength == 0 && kw.required.isEmpty && kw.addHas != some false

mutual
def S.isEmpty : S → Bool
  | .mk kw a b c n i p ad =>
    kw.bare && isEmptyO n && isEmptyO ad && isEmptyO i && isEmptyP p && isEmptyL c && isEmptyL b && isEmptyL a
def isEmptyL : List S → Bool
  | [] => true
  | s :: ss => s.isEmpty && isEmptyL ss
def isEmptyO : Option S → Bool
  | none => true
  | some s => s.isEmpty
def isEmptyP : List (List Char × S) → Bool
  | [] => true
  | (_, s) :: ps => s.isEmpty && isEmptyP ps
end

def lookup (k : List Char) : List (List Char × α) → Option α
  | [] => none
  | (k', v) :: r => if k = k' then some v else lookup k r

def J.isNull : J → Bool | .null => true | _ => false

/-- verdict model: none = panic -/
def numOK (kw : Kw) (q : Int) : Option Bool :=
  if !(kw.permits .number) then some false else
  match kw.exclMin, kw.minimum with
  | true, none => none
  | em, mn =>
    match kw.exclMax, kw.maximum with
    | true, none => none
    | ex, mx =>
      some ((match em, mn with | true, some m => m < q | _, _ => true) &&
            (match ex, mx with | true, some m => q < m | _, _ => true) &&
            (match mn with | some m => m ≤ q | none => true) &&
            (match mx with | some m => q ≤ m | none => true))

def band (a b : Option Bool) : Option Bool :=
  match a, b with
  | none, _ => none
  | some false, _ => some false   -- early return on first failure
  | some true, b => b


/-- non-recursive combination of the results of the recursive calls, in the code's order -/
def combine (kw : Kw) (a b c : List S) (self : S) (v : J)
    (rNot : Option (Option Bool)) (rCount : Option Nat) (rAny rAll rChild : Option Bool) : Option Bool :=
    if v.isNull && kw.permitsNull then some true else
    if self.isEmpty then some (!v.isNull) else
    band (match rNot with
          | none => some true
          | some r => r.map (!·))
    (band (if c.isEmpty then some true else rCount.map (· == 1))
    (band (if b.isEmpty then some true else rAny)
    (band rAll
    (if v.isNull && (!c.isEmpty || !b.isEmpty || !a.isEmpty) then some true else
     match v with
     | .null => some false
     | .bool _ => some (kw.permits .boolean)
     | .num q => numOK kw q
     | .str s => some (kw.permits .string && kw.minLength ≤ s.length)
     | .arr _ => if !(kw.permits .array) then some false else rChild
     | .obj kvs => if !(kw.permits .object) then some false else
                  band rChild (some (kw.required.all (fun k => (lookup k kvs).isSome)))))))

def bor (a b : Option Bool) : Option Bool :=
  match a with
  | none => none
  | some true => some true
  | some false => b
def addCount (a : Option Bool) (n : Option Nat) : Option Nat :=
  match a, n with
  | some b, some n => some (if b then n + 1 else n)
  | _, _ => none
def propRes (has : Option Bool) (rProp rAdd : Option (Option Bool)) : Option Bool :=
  match rProp with
  | some r => r
  | none => if has != some false then (match rAdd with | some r => r | none => some true) else some false

mutual
def visit : S → J → Option Bool
  | .mk kw a b c n i p ad, v =>
    combine kw a b c (.mk kw a b c n i p ad) v
      (match n with | none => none | some s => some (visit s v))
      (countOK c v) (visitAny1 b v) (visitAll a v)
      (match v with
       | .arr xs => (match i with | none => some true | some s => visitItems s xs)
       | .obj kvs => visitProps p ad kw.addHas kvs
       | _ => some true)
termination_by s v => (sizeOf v, sizeOf s)
def visitAll : List S → J → Option Bool
  | [], _ => some true
  | s :: ss, v => band (visit s v) (visitAll ss v)
termination_by ss v => (sizeOf v, sizeOf ss)
def visitAny1 : List S → J → Option Bool
  | [], _ => some false
  | s :: ss, v => bor (visit s v) (visitAny1 ss v)
termination_by ss v => (sizeOf v, sizeOf ss)
def countOK : List S → J → Option Nat
  | [], _ => some 0
  | s :: ss, v => addCount (visit s v) (countOK ss v)
termination_by ss v => (sizeOf v, sizeOf ss)
def visitItems : S → List J → Option Bool
  | _, [] => some true
  | s, x :: xs => band (visit s x) (visitItems s xs)
termination_by s xs => (sizeOf xs, sizeOf s)
def visitProps : List (List Char × S) → Option S → Option Bool → List (List Char × J) → Option Bool
  | _, _, _, [] => some true
  | p, ad, has, (k, x) :: r =>
    band (propRes has (match lookup k p with | some s => some (visit s x) | none => none)
                      (match ad with | some s => some (visit s x) | none => none))
         (visitProps p ad has r)
termination_by p ad _ kvs => (sizeOf kvs, sizeOf p + sizeOf ad)
end

/-! ## Spec -/
def typeKwOK (kw : Kw) (i : Option S) : J → Prop
  | .null => False
  | .bool _ => kw.permits .boolean = true
  | .num q => kw.permits .number = true ∧
      (∀ m, kw.minimum = some m → m ≤ q ∧ (kw.exclMin = true → m < q)) ∧
      (∀ m, kw.maximum = some m → q ≤ m ∧ (kw.exclMax = true → q < m))
  | .str s => kw.permits .string = true ∧ kw.minLength ≤ s.length
  | .arr _ => kw.permits .array = true
  | .obj kvs => kw.permits .object = true ∧ ∀ k ∈ kw.required, (lookup k kvs).isSome = true

mutual
def Sat : S → J → Prop
  | .mk kw a b c n i p ad, v =>
    let comps := (∀ t, n = some t → ¬ Sat t v) ∧ (c = [] ∨ SatCount c v 1) ∧ (b = [] ∨ SatAny b v) ∧ SatAll a v
    if v.isNull then
      kw.permitsNull = true ∨ ((a ≠ [] ∨ b ≠ [] ∨ c ≠ []) ∧ comps)
    else
      comps ∧ typeKwOK kw i v ∧
      (match v with
       | .arr xs => ∀ t, i = some t → SatItems t xs
       | .obj kvs => SatProps p ad kw.addHas kvs
       | _ => True)
termination_by s v => (sizeOf v, sizeOf s)
def SatAll : List S → J → Prop
  | [], _ => True
  | s :: ss, v => Sat s v ∧ SatAll ss v
termination_by ss v => (sizeOf v, sizeOf ss)
def SatAny : List S → J → Prop
  | [], _ => False
  | s :: ss, v => Sat s v ∨ SatAny ss v
termination_by ss v => (sizeOf v, sizeOf ss)
def SatCount : List S → J → Nat → Prop
  | [], _, n => n = 0
  | s :: ss, v, n => (Sat s v ∧ ∃ m, n = m + 1 ∧ SatCount ss v m) ∨ (¬ Sat s v ∧ SatCount ss v n)
termination_by ss v _ => (sizeOf v, sizeOf ss)
def SatItems : S → List J → Prop
  | _, [] => True
  | s, x :: xs => Sat s x ∧ SatItems s xs
termination_by s xs => (sizeOf xs, sizeOf s)
def SatProps : List (List Char × S) → Option S → Option Bool → List (List Char × J) → Prop
  | _, _, _, [] => True
  | p, ad, has, (k, x) :: r =>
    (match lookup k p with
     | some s => Sat s x
     | none => has ≠ some false ∧ (∀ s, ad = some s → Sat s x)) ∧
    SatProps p ad has r
termination_by p ad _ kvs => (sizeOf kvs, sizeOf p + sizeOf ad)
end


/-! ## Exclusion: no non-trivial schema takes the IsEmpty shortcut -/
mutual
def Clean : S → Prop
  | .mk kw a b c n i p ad =>
    ((S.mk kw a b c n i p ad).isEmpty = true → a = [] ∧ b = [] ∧ c = [] ∧ n = none ∧ i = none ∧ p = [] ∧ ad = none) ∧
    CleanL a ∧ CleanL b ∧ CleanL c ∧ CleanO n ∧ CleanO i ∧ CleanP p ∧ CleanO ad
def CleanL : List S → Prop
  | [] => True
  | s :: ss => Clean s ∧ CleanL ss
def CleanO : Option S → Prop
  | none => True
  | some s => Clean s
def CleanP : List (List Char × S) → Prop
  | [] => True
  | (_, s) :: ps => Clean s ∧ CleanP ps
end

theorem cleanP_lookup {p : List (List Char × S)} {k s} (h : CleanP p) (hl : lookup k p = some s) : Clean s := by
  induction p with
  | nil => simp [lookup] at hl
  | cons kv r ih =>
    obtain ⟨k', s'⟩ := kv
    simp only [CleanP] at h
    simp only [lookup] at hl
    split at hl
    · cases hl; exact h.1
    · exact ih h.2 hl


theorem band_true {a b : Option Bool} : band a b = some true ↔ a = some true ∧ b = some true := by
  cases a with
  | none => simp [band]
  | some x => cases x <;> simp [band]

theorem band_false {a b : Option Bool} :
    band a b = some false ↔ a = some false ∨ (a = some true ∧ b = some false) := by
  cases a with
  | none => simp [band]
  | some x => cases x <;> simp [band]

theorem band_some {a b : Option Bool} {r : Bool} (h : band a b = some r) :
    (a = some false ∧ r = false) ∨ (a = some true ∧ b = some r) := by
  cases a with
  | none => simp [band] at h
  | some x => cases x <;> simp_all [band]

theorem numOK_iff {kw : Kw} {q : Int} {b : Bool} (h : numOK kw q = some b) :
    b = true ↔ (kw.permits .number = true ∧
      (∀ m, kw.minimum = some m → m ≤ q ∧ (kw.exclMin = true → m < q)) ∧
      (∀ m, kw.maximum = some m → q ≤ m ∧ (kw.exclMax = true → q < m))) := by
  unfold numOK at h
  cases hp : kw.permits .number <;> simp [hp] at h ⊢
  · first | exact h | exact h.symm ▸ rfl
  · cases hem : kw.exclMin <;> cases hmn : kw.minimum <;> cases hex : kw.exclMax <;> cases hmx : kw.maximum <;>
      simp_all <;> (subst h; simp) <;> omega


theorem isNull_iff {v : J} : v.isNull = true ↔ v = .null := by cases v <;> simp [J.isNull]





theorem bor_some {a b : Option Bool} {r : Bool} (h : bor a b = some r) :
    (a = some true ∧ r = true) ∨ (a = some false ∧ b = some r) := by
  cases a with
  | none => simp [bor] at h
  | some x => cases x <;> simp_all [bor]

theorem addCount_some {a : Option Bool} {n : Option Nat} {r : Nat} (h : addCount a n = some r) :
    ∃ b m, a = some b ∧ n = some m ∧ r = (if b then m + 1 else m) := by
  cases a <;> cases n <;> simp_all [addCount]


theorem satProps_trivial (has : Option Bool) (h : has ≠ some false) (kvs : List (List Char × J)) :
    SatProps [] none has kvs := by
  induction kvs with
  | nil => simp [SatProps]
  | cons kv r ih => obtain ⟨k, x⟩ := kv; rw [SatProps]; simp [lookup, h, ih]

theorem bare_facts {kw : Kw} (h : kw.bare = true) :
    kw.types = none ∧ kw.nullable = false ∧ kw.minimum = none ∧ kw.maximum = none ∧ kw.exclMin = false ∧
    kw.exclMax = false ∧ kw.minLength = 0 ∧ kw.required = [] ∧ kw.addHas ≠ some false := by
  unfold Kw.bare at h
  simp at h
  obtain ⟨⟨⟨⟨⟨⟨⟨⟨h1, h2⟩, h3⟩, h4⟩, h5⟩, h6⟩, h7⟩, h8⟩, h9⟩ := h
  refine ⟨h1, h2, h3, h4, h5, h6, h7, ?_, h9⟩
  cases hr : kw.required <;> simp_all

theorem band_iff {x y : Option Bool} {P Q : Prop}
    (hx : ∀ rb, x = some rb → (rb = true ↔ P)) (hy : ∀ rb, y = some rb → (rb = true ↔ Q)) :
    ∀ r, band x y = some r → (r = true ↔ P ∧ Q) := by
  intro r h
  rcases band_some h with ⟨h1, rfl⟩ | ⟨h1, h2⟩
  · have := hx _ h1; simp at this; simp [this]
  · have e1 := hx _ h1; have e2 := hy _ h2; simp at e1; simp [e1, e2]

theorem isEmpty_list_iff {α} (l : List α) : l.isEmpty = true ↔ l = [] := by cases l <;> simp

theorem main :
    (∀ s v, Clean s → ∀ b, visit s v = some b → (b = true ↔ Sat s v)) ∧
    (∀ p ad has kvs, CleanP p → CleanO ad → ∀ b, visitProps p ad has kvs = some b → (b = true ↔ SatProps p ad has kvs)) ∧
    (∀ s xs, Clean s → ∀ b, visitItems s xs = some b → (b = true ↔ SatItems s xs)) ∧
    (∀ ss v, CleanL ss → ∀ b, visitAll ss v = some b → (b = true ↔ SatAll ss v)) ∧
    (∀ ss v, CleanL ss → ∀ b, visitAny1 ss v = some b → (b = true ↔ SatAny ss v)) ∧
    (∀ ss v, CleanL ss → ∀ n, countOK ss v = some n → ∀ m, (SatCount ss v m ↔ m = n)) := by
  refine visit.mutual_induct
    (motive1 := fun s v => Clean s → ∀ b, visit s v = some b → (b = true ↔ Sat s v))
    (motive2 := fun p ad has kvs => CleanP p → CleanO ad → ∀ b, visitProps p ad has kvs = some b → (b = true ↔ SatProps p ad has kvs))
    (motive3 := fun s xs => Clean s → ∀ b, visitItems s xs = some b → (b = true ↔ SatItems s xs))
    (motive4 := fun ss v => CleanL ss → ∀ b, visitAll ss v = some b → (b = true ↔ SatAll ss v))
    (motive5 := fun ss v => CleanL ss → ∀ b, visitAny1 ss v = some b → (b = true ↔ SatAny ss v))
    (motive6 := fun ss v => CleanL ss → ∀ n, countOK ss v = some n → ∀ m, (SatCount ss v m ↔ m = n))
    ?node ?pnil ?pcons ?inil ?icons ?anil ?acons ?ynil ?ycons ?cnil ?ccons
  case node =>
    intro kw a b c n i p ad v ihn ih6 ih5 ih4 ihc hcl r hr
    rw [visit.eq_def] at hr
    simp only at hr
    unfold combine at hr
    rw [Sat.eq_def]
    simp only
    by_cases h1 : (v.isNull && kw.permitsNull) = true
    · simp only [h1, if_true] at hr
      have hn : v.isNull = true := by simp_all
      have hp : kw.permitsNull = true := by simp_all
      cases hr
      simp [hn, hp]
    · simp only [h1] at hr
      by_cases he : (S.mk kw a b c n i p ad).isEmpty = true
      · simp only [he, if_true] at hr
        obtain ⟨ha, hb, hcc, hn, hi, hp, had⟩ := (by unfold Clean at hcl; exact hcl.1 he)
        subst ha hb hcc hn hi hp had
        have hbare : kw.bare = true := by
          simpa [S.isEmpty, isEmptyL, isEmptyO, isEmptyP] using he
        obtain ⟨f1, f2, f3, f4, f5, f6, f7, f8, f9⟩ := bare_facts hbare
        cases hr
        cases v with
        | null =>
          have : kw.permitsNull = false := by simpa [J.isNull] using h1
          simp [J.isNull, this]
        | bool x => simp [J.isNull, SatAll, typeKwOK, Kw.permits, f1]
        | num q => simp [J.isNull, SatAll, typeKwOK, Kw.permits, f1, f3, f4]
        | str x => simp [J.isNull, SatAll, typeKwOK, Kw.permits, f1, f7]
        | arr xs => simp [J.isNull, SatAll, typeKwOK, Kw.permits, f1]
        | obj kvs => simp [J.isNull, SatAll, typeKwOK, Kw.permits, f1, f8, satProps_trivial _ f9]
      · simp only [he] at hr
        unfold Clean at hcl
        obtain ⟨_, cla, clb, clc, cln, cli, clp, clad⟩ := hcl
        have hNOT : ∀ rb, (match (match n with | none => none | some s => some (visit s v)) with
              | none => some true | some r => Option.map (fun x => !x) r) = some rb →
            (rb = true ↔ ∀ t, n = some t → ¬ Sat t v) := by
          intro rb h
          cases n with
          | none => simp at h ⊢; first | exact h | exact h.symm
          | some t =>
            simp only [] at h
            cases hv : visit t v with
            | none => simp [hv] at h
            | some x =>
              simp [hv] at h
              have := ihn (by simpa [CleanO] using cln) _ hv
              cases x <;> simp_all
        have hONE : ∀ rb, (if c.isEmpty = true then some true else Option.map (fun x => x == 1) (countOK c v)) = some rb →
            (rb = true ↔ (c = [] ∨ SatCount c v 1)) := by
          intro rb h
          by_cases hc : c = []
          · simp [hc] at h ⊢; first | exact h | exact h.symm
          · have : c.isEmpty = false := by cases c <;> simp_all
            simp [this] at h
            obtain ⟨k, hk, rfl⟩ := h
            have := ih6 clc _ hk 1
            simp [hc, this]; exact eq_comm
        have hANY : ∀ rb, (if b.isEmpty = true then some true else visitAny1 b v) = some rb →
            (rb = true ↔ (b = [] ∨ SatAny b v)) := by
          intro rb h
          by_cases hb : b = []
          · simp [hb] at h ⊢; first | exact h | exact h.symm
          · have : b.isEmpty = false := by cases b <;> simp_all
            simp [this] at h
            have := ih5 clb _ h
            simp [hb, this]
        have hALL := ih4 cla
        have hREST : ∀ rb, (if (v.isNull && (!c.isEmpty || !b.isEmpty || !a.isEmpty)) = true then some true else
              match v with
              | .null => some false
              | .bool _ => some (kw.permits .boolean)
              | .num q => numOK kw q
              | .str s => some (kw.permits .string && decide (kw.minLength ≤ s.length))
              | .arr _ => if (!kw.permits .array) = true then some false else
                  (match v with
                   | .arr xs => (match i with | none => some true | some s => visitItems s xs)
                   | .obj kvs => visitProps p ad kw.addHas kvs
                   | _ => some true)
              | .obj kvs => if (!kw.permits .object) = true then some false else
                  band (match v with
                   | .arr xs => (match i with | none => some true | some s => visitItems s xs)
                   | .obj kvs => visitProps p ad kw.addHas kvs
                   | _ => some true)
                    (some (kw.required.all (fun k => (lookup k kvs).isSome)))) = some rb →
            (rb = true ↔ (if v.isNull = true then (a ≠ [] ∨ b ≠ [] ∨ c ≠ []) else
               typeKwOK kw i v ∧ (match v with
                 | .arr xs => ∀ t, i = some t → SatItems t xs
                 | .obj kvs => SatProps p ad kw.addHas kvs
                 | _ => True))) := by
          intro rb h
          cases v with
          | null =>
            simp [J.isNull, isEmpty_list_iff] at h ⊢
            by_cases hh : (c = [] ∧ b = [] ∧ a = [])
            · obtain ⟨rfl, rfl, rfl⟩ := hh; simp at h ⊢; first | exact h | exact h.symm
            · have : ¬ (c = [] → b = [] → a = []) ∨ True := Or.inr trivial
              by_cases hc : c = [] <;> by_cases hb : b = [] <;> by_cases ha : a = [] <;> simp_all
          | bool x => simp [J.isNull, typeKwOK] at h ⊢; subst h; rfl
          | num q => simp [J.isNull, typeKwOK] at h ⊢; exact numOK_iff h
          | str x => simp [J.isNull, typeKwOK] at h ⊢; subst h; simp
          | arr xs =>
            simp [J.isNull, typeKwOK] at h ⊢
            by_cases hp : kw.permits .array = true
            · simp [hp] at h ⊢
              cases i with
              | none => simp at h ⊢; first | exact h | exact h.symm
              | some t => simp at h ⊢; exact ihc (by simpa [CleanO] using cli) _ h
            · have hp' : kw.permits .array = false := by simpa using hp
              simp [hp'] at h ⊢; first | exact h | exact h.symm
          | obj kvs =>
            simp [J.isNull, typeKwOK] at h ⊢
            by_cases hp : kw.permits .object = true
            · simp [hp] at h ⊢
              have := band_iff (P := SatProps p ad kw.addHas kvs) (Q := ∀ k ∈ kw.required, (lookup k kvs).isSome = true)
                (ihc clp clad) (by intro rb' h'; simp at h'; subst h'; simp) _ h
              rw [this]; exact And.comm
            · have hp' : kw.permits .object = false := by simpa using hp
              simp [hp'] at h ⊢; first | exact h | exact h.symm
        have := band_iff hNOT (band_iff hONE (band_iff hANY (band_iff hALL hREST))) _ hr
        rw [this]
        by_cases hn : v.isNull = true
        · have hp : kw.permitsNull = false := by simpa [hn] using h1
          simp [hn, hp]
          constructor
          · rintro ⟨h1, h2, h3, h4, h5⟩; exact ⟨h5, h1, h2, h3, h4⟩
          · rintro ⟨h5, h1, h2, h3, h4⟩; exact ⟨h1, h2, h3, h4, h5⟩
        · simp [hn]
          constructor
          · rintro ⟨h1, h2, h3, h4, h5⟩; exact ⟨⟨h1, h2, h3, h4⟩, h5⟩
          · rintro ⟨⟨h1, h2, h3, h4⟩, h5⟩; exact ⟨h1, h2, h3, h4, h5⟩
  case pnil => intro p ad has _ _ b hb; unfold visitProps at hb; cases hb; simp [SatProps]
  case pcons =>
    intro p ad has k x r ih1 ih2 ih3 hp had b hb
    unfold visitProps at hb; rw [SatProps]
    have key : ∀ rb, propRes has (match lookup k p with | some s => some (visit s x) | none => none)
                      (match ad with | some s => some (visit s x) | none => none) = some rb →
        (rb = true ↔ (match lookup k p with
           | some s => Sat s x
           | none => has ≠ some false ∧ (∀ s, ad = some s → Sat s x))) := by
      intro rb hrb
      cases hl : lookup k p with
      | some s =>
        simp [hl, propRes] at hrb ⊢
        exact ih1 s (cleanP_lookup hp hl) _ hrb
      | none =>
        simp [hl, propRes] at hrb ⊢
        by_cases hh : has = some false
        · simp [hh] at hrb ⊢; exact hrb
        · simp [hh] at hrb ⊢
          cases ad with
          | none => simp at hrb ⊢; exact hrb
          | some s =>
            simp at hrb ⊢
            exact ih2 (by simpa [CleanO] using had) _ hrb
    rcases band_some hb with ⟨h1, rfl⟩ | ⟨h1, h2⟩
    · have := key _ h1; simp at this; simp [this]
    · have e1 := key _ h1; have e2 := ih3 hp had _ h2; simp at e1; simp [e1, e2]
  case inil => intro s _ b hb; rw [visitItems] at hb; cases hb; simp [SatItems]
  case icons =>
    intro s x xs ih1 ih2 hs b hb
    rw [visitItems] at hb; rw [SatItems]
    rcases band_some hb with ⟨h1, rfl⟩ | ⟨h1, h2⟩
    · have := ih1 hs _ h1; simp at this; simp [this]
    · have e1 := ih1 hs _ h1; have e2 := ih2 hs _ h2; simp at e1; simp [e1, e2]
  case anil => intro v _ b hb; rw [visitAll] at hb; cases hb; simp [SatAll]
  case acons =>
    intro s ss v ih1 ih2 hc b hb
    rw [visitAll] at hb; rw [SatAll]
    unfold CleanL at hc
    rcases band_some hb with ⟨h1, rfl⟩ | ⟨h1, h2⟩
    · have := ih1 hc.1 _ h1; simp at this; simp [this]
    · have e1 := ih1 hc.1 _ h1; have e2 := ih2 hc.2 _ h2; simp at e1; simp [e1, e2]
  case ynil => intro v _ b hb; rw [visitAny1] at hb; cases hb; simp [SatAny]
  case ycons =>
    intro s ss v ih1 ih2 hc b hb
    rw [visitAny1] at hb; rw [SatAny]
    unfold CleanL at hc
    rcases bor_some hb with ⟨h1, rfl⟩ | ⟨h1, h2⟩
    · have := ih1 hc.1 _ h1; simp at this; simp [this]
    · have e1 := ih1 hc.1 _ h1; have e2 := ih2 hc.2 _ h2; simp at e1; simp [e1, e2]
  case cnil => intro v _ n hn m; rw [countOK] at hn; cases hn; simp [SatCount]
  case ccons =>
    intro s ss v ih1 ih2 hc n hn m
    rw [countOK] at hn; rw [SatCount]
    unfold CleanL at hc
    obtain ⟨b, k, h1, h2, rfl⟩ := addCount_some hn
    have e1 := ih1 hc.1 _ h1
    have e2 := ih2 hc.2 _ h2
    cases b
    · simp at e1; simp [e1, e2]
    · simp at e1; simp [e1, e2]

#print axioms main

/-! ### The executable twin of the specification (the oracle the driver evaluates) -/

def typeKwOKB (kw : Kw) (i : Option S) : J → Bool
  | .null => false
  | .bool _ => kw.permits .boolean
  | .num q => kw.permits .number &&
      (match kw.minimum with | some m => decide (m ≤ q) && (!kw.exclMin || decide (m < q)) | none => true) &&
      (match kw.maximum with | some m => decide (q ≤ m) && (!kw.exclMax || decide (q < m)) | none => true)
  | .str s => kw.permits .string && decide (kw.minLength ≤ s.length)
  | .arr _ => kw.permits .array
  | .obj kvs => kw.permits .object && kw.required.all (fun k => (lookup k kvs).isSome)

theorem typeKwOKB_iff (kw : Kw) (i : Option S) (v : J) : typeKwOKB kw i v = true ↔ typeKwOK kw i v := by
  cases v with
  | null => simp [typeKwOKB, typeKwOK]
  | bool b => simp [typeKwOKB, typeKwOK]
  | num q =>
    simp only [typeKwOKB, typeKwOK, Bool.and_eq_true]
    cases hmn : kw.minimum <;> cases hmx : kw.maximum <;> cases hem : kw.exclMin <;> cases hex : kw.exclMax <;>
      simp [and_assoc]
  | str s => simp [typeKwOKB, typeKwOK]
  | arr xs => simp [typeKwOKB, typeKwOK]
  | obj kvs => simp [typeKwOKB, typeKwOK, List.all_eq_true]

/-- non-recursive combination, same shape as the `Sat` clause -/
def combineB (kw : Kw) (a b c : List S) (i : Option S) (v : J)
    (rNot : Bool) (rCount : Nat) (rAny rAll rChild : Bool) : Bool :=
  if v.isNull then
    kw.permitsNull || ((!a.isEmpty || !b.isEmpty || !c.isEmpty) &&
      (rNot && (c.isEmpty || rCount == 1) && (b.isEmpty || rAny) && rAll))
  else
    (rNot && (c.isEmpty || rCount == 1) && (b.isEmpty || rAny) && rAll) && typeKwOKB kw i v && rChild

mutual
def satB : S → J → Bool
  | .mk kw a b c n i p ad, v =>
    combineB kw a b c i v
      (match n with | none => true | some t => !satB t v)
      (satCountB c v) (satAnyB b v) (satAllB a v)
      (match v with
       | .arr xs => (match i with | none => true | some t => satItemsB t xs)
       | .obj kvs => satPropsB p ad kw.addHas kvs
       | _ => true)
termination_by s v => (sizeOf v, sizeOf s)
def satAllB : List S → J → Bool
  | [], _ => true
  | s :: ss, v => satB s v && satAllB ss v
termination_by ss v => (sizeOf v, sizeOf ss)
def satAnyB : List S → J → Bool
  | [], _ => false
  | s :: ss, v => satB s v || satAnyB ss v
termination_by ss v => (sizeOf v, sizeOf ss)
def satCountB : List S → J → Nat
  | [], _ => 0
  | s :: ss, v => (if satB s v then 1 else 0) + satCountB ss v
termination_by ss v => (sizeOf v, sizeOf ss)
def satItemsB : S → List J → Bool
  | _, [] => true
  | s, x :: xs => satB s x && satItemsB s xs
termination_by s xs => (sizeOf xs, sizeOf s)
def satPropsB : List (List Char × S) → Option S → Option Bool → List (List Char × J) → Bool
  | _, _, _, [] => true
  | p, ad, has, (k, x) :: r =>
    (match lookup k p with
     | some s => satB s x
     | none => has != some false && (match ad with | some s => satB s x | none => true)) &&
    satPropsB p ad has r
termination_by p ad _ kvs => (sizeOf kvs, sizeOf p + sizeOf ad)
end


theorem satCount_unique : ∀ (ss : List S) (v : J) (m n : Nat), SatCount ss v m → SatCount ss v n → m = n := by
  intro ss v
  induction ss with
  | nil => intro m n hm hn; rw [SatCount] at hm hn; omega
  | cons s ss ih =>
    intro m n hm hn
    rw [SatCount] at hm hn
    rcases hm with ⟨h1, m', rfl, hm'⟩ | ⟨h1, hm'⟩ <;> rcases hn with ⟨h2, n', rfl, hn'⟩ | ⟨h2, hn'⟩
    · rw [ih _ _ hm' hn']
    · exact absurd h1 h2
    · exact absurd h2 h1
    · exact ih _ _ hm' hn'

theorem combineB_iff (kw : Kw) (a b c : List S) (i : Option S) (v : J)
    (rNot : Bool) (rCount : Nat) (rAny rAll rChild : Bool) (PNot PCount PAny PAll PChild : Prop)
    (hNot : rNot = true ↔ PNot) (hCnt : rCount = 1 ↔ PCount) (hAny : rAny = true ↔ PAny)
    (hAll : rAll = true ↔ PAll) (hChild : rChild = true ↔ PChild) :
    combineB kw a b c i v rNot rCount rAny rAll rChild = true ↔
      (if v.isNull = true then
        kw.permitsNull = true ∨ ((a ≠ [] ∨ b ≠ [] ∨ c ≠ []) ∧ (PNot ∧ (c = [] ∨ PCount) ∧ (b = [] ∨ PAny) ∧ PAll))
       else
        (PNot ∧ (c = [] ∨ PCount) ∧ (b = [] ∨ PAny) ∧ PAll) ∧ typeKwOK kw i v ∧ PChild) := by
  have hcomps : (rNot && (c.isEmpty || rCount == 1) && (b.isEmpty || rAny) && rAll) = true ↔
      (PNot ∧ (c = [] ∨ PCount) ∧ (b = [] ∨ PAny) ∧ PAll) := by
    simp only [Bool.and_eq_true, Bool.or_eq_true, isEmpty_list_iff, beq_iff_eq, hNot, hCnt, hAny, hAll]
    constructor
    · rintro ⟨⟨⟨x1, x2⟩, x3⟩, x4⟩; exact ⟨x1, x2, x3, x4⟩
    · rintro ⟨x1, x2, x3, x4⟩; exact ⟨⟨⟨x1, x2⟩, x3⟩, x4⟩
  unfold combineB
  generalize (rNot && (c.isEmpty || rCount == 1) && (b.isEmpty || rAny) && rAll) = comps at hcomps ⊢
  by_cases hn : v.isNull = true
  · simp only [hn, if_true, Bool.or_eq_true, Bool.and_eq_true, hcomps]
    simp [isEmpty_list_iff, or_assoc]
  · have hn' : v.isNull = false := by simpa using hn
    simp only [hn', Bool.false_eq_true, if_false, Bool.and_eq_true]
    rw [hcomps, typeKwOKB_iff, hChild]
    exact and_assoc

/-- the executable oracle agrees with the declarative specification -/
theorem satB_iff :
    (∀ s v, satB s v = true ↔ Sat s v) ∧
    (∀ p ad has kvs, satPropsB p ad has kvs = true ↔ SatProps p ad has kvs) ∧
    (∀ s xs, satItemsB s xs = true ↔ SatItems s xs) ∧
    (∀ ss v, satAllB ss v = true ↔ SatAll ss v) ∧
    (∀ ss v, satAnyB ss v = true ↔ SatAny ss v) ∧
    (∀ ss v, SatCount ss v (satCountB ss v)) := by
  refine satB.mutual_induct
    (motive1 := fun s v => satB s v = true ↔ Sat s v)
    (motive2 := fun p ad has kvs => satPropsB p ad has kvs = true ↔ SatProps p ad has kvs)
    (motive3 := fun s xs => satItemsB s xs = true ↔ SatItems s xs)
    (motive4 := fun ss v => satAllB ss v = true ↔ SatAll ss v)
    (motive5 := fun ss v => satAnyB ss v = true ↔ SatAny ss v)
    (motive6 := fun ss v => SatCount ss v (satCountB ss v))
    ?node ?pnil ?pcons ?inil ?icons ?anil ?acons ?ynil ?ycons ?cnil ?ccons
  case node =>
    intro kw a b c n i p ad v ihn ih6 ih5 ih4 ihc
    rw [satB.eq_def, Sat.eq_def]
    simp only
    refine combineB_iff kw a b c i v _ _ _ _ _ _ _ _ _ _ ?_ ?_ ih5 ih4 ?_
    · cases n with
      | none => simp
      | some t => simp only at ihn; simp [← ihn]
    · exact ⟨fun h => h ▸ ih6, fun h => satCount_unique c v _ _ ih6 h⟩
    · cases v with
      | arr xs =>
        cases i with
        | none => simp
        | some t => simp only at ihc; simp [ihc]
      | obj kvs => simp only at ihc; simpa using ihc
      | null => simp
      | bool x => simp
      | num q => simp
      | str x => simp
  case pnil => intro p ad has; simp [satPropsB, SatProps]
  case pcons =>
    intro p ad has k x r ih1 ih2 ih3
    rw [satPropsB.eq_def, SatProps]
    simp only [Bool.and_eq_true, ih3]
    cases hl : lookup k p with
    | some s => simp [ih1 s]
    | none =>
      cases ad with
      | none => simp
      | some s => simp only at ih2; simp [ih2]
  case inil => intro s; simp [satItemsB, SatItems]
  case icons => intro s x xs ih1 ih2; rw [satItemsB, SatItems]; simp [ih1, ih2]
  case anil => intro v; simp [satAllB, SatAll]
  case acons => intro s ss v ih1 ih2; rw [satAllB, SatAll]; simp [ih1, ih2]
  case ynil => intro v; simp [satAnyB, SatAny]
  case ycons => intro s ss v ih1 ih2; rw [satAnyB, SatAny]; simp [ih1, ih2]
  case cnil => intro v; simp [satCountB, SatCount]
  case ccons =>
    intro s ss v ih1 ih2
    rw [satCountB, SatCount]
    cases hs : satB s v with
    | true => left; exact ⟨ih1.mp hs, satCountB ss v, by simp; omega, ih2⟩
    | false =>
      right
      refine ⟨fun h => ?_, by simpa using ih2⟩
      have := ih1.mpr h; simp [hs] at this

#print axioms satB_iff
end K
