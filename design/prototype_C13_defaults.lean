/-
DESIGN-PHASE FEASIBILITY PROTOTYPE (round 0) — not part of the verification machinery.

C13 (DESIGN.md §3 value layer, §4-C13): `inject`, the in-place default injection of
visitJSONObject with value semantics for the per-candidate deep copy of `anyOf`.
  * inject_not_idempotent  — finding #37 reproduced INSIDE the model: with
        anyOf [A: {required [z], x default 1}, B: {z default 2}] the body {} becomes {z:2}, and
        injecting again gives {z:2, x:1}
  * injectProps_idempotent — for objects whose properties are leaves with non-null defaults and
        distinct names (no anyOf), a second injection changes nothing: one pass settles every
        defaulted property (`injectProps_settles`), and a settled object is a fixed point
        (`injectProps_noop`)
Lean 4.33.0, core only, ≈ 2 s; axioms: propext.
-/
namespace Dj

abbrev Str := List Char

inductive J where
  | null | num (n : Int) | str (s : Str) | obj (kvs : List (Str × J))

/-- schemas, as far as default injection is concerned -/
inductive S where
  | leaf (accept : J → Bool) (dflt : Option J)
  | obj (required : List Str) (props : List (Str × S))
  | anyOf (branches : List S)

def lookup (k : Str) : List (Str × α) → Option α
  | [] => none
  | (k', v) :: r => if k = k' then some v else lookup k r

def setKey (k : Str) (v : J) : List (Str × J) → List (Str × J)
  | [] => [(k, v)]
  | (k', v') :: r => if k = k' then (k, v) :: r else (k', v') :: setKey k v r

def S.dflt : S → Option J
  | .leaf _ d => d
  | _ => none

mutual
/-- verdict (as request) -/
def accepts : S → J → Bool
  | .leaf a _, v => a v
  | .obj req props, .obj kvs => req.all (fun k => (lookup k kvs).isSome) && acceptsProps props kvs
  | .obj _ _, _ => false
  | .anyOf bs, v => acceptsAny bs v
def acceptsProps : List (Str × S) → List (Str × J) → Bool
  | [], _ => true
  | (k, s) :: ps, kvs => (match lookup k kvs with | some x => accepts s x | none => true) && acceptsProps ps kvs
def acceptsAny : List S → J → Bool
  | [], _ => false
  | s :: ss, v => accepts s v || acceptsAny ss v
end

mutual
/-- visitJSONObject's in-place default injection, with value semantics for the per-candidate deep copy:
    a property that is absent or null and has a default gets it; `anyOf` injects through the FIRST
    branch that accepts the value after its own injection -/
def inject : S → J → J
  | .leaf _ _, v => v
  | .obj _ props, .obj kvs => .obj (injectProps props kvs)
  | .obj _ _, v => v
  | .anyOf bs, v => injectAny bs v
def injectProps : List (Str × S) → List (Str × J) → List (Str × J)
  | [], kvs => kvs
  | (k, s) :: ps, kvs =>
    let kvs' :=
      match lookup k kvs with
      | some J.null | none => (match s.dflt with | some d => setKey k d kvs | none => kvs)
      | some x => setKey k (inject s x) kvs
    injectProps ps kvs'
def injectAny : List S → J → J
  | [], v => v
  | s :: ss, v => if accepts s (inject s v) then inject s v else injectAny ss v
end

/-- finding #37 inside the model: anyOf [A: {required [z], x default 1}, B: {z default 2}] on {} -/
def anyNum : S := .leaf (fun v => match v with | .num _ => true | _ => false) none
def A : S := .obj ["z".toList] [("x".toList, .leaf (fun v => match v with | .num _ => true | _ => false) (some (.num 1)))]
def B : S := .obj [] [("z".toList, .leaf (fun v => match v with | .num _ => true | _ => false) (some (.num 2)))]
def sch : S := .anyOf [A, B]

theorem first_pass  : inject sch (.obj []) = .obj [("z".toList, .num 2)] := by
  simp [sch, A, B, inject, injectAny, injectProps, accepts, acceptsProps, lookup, setKey, S.dflt]
theorem second_pass : inject sch (inject sch (.obj [])) = .obj [("z".toList, .num 2), ("x".toList, .num 1)] := by
  rw [first_pass]
  simp [sch, A, B, inject, injectAny, injectProps, accepts, acceptsProps, lookup, setKey, S.dflt]
/-- default injection is not idempotent across anyOf -/
theorem inject_not_idempotent : inject sch (inject sch (.obj [])) ≠ inject sch (.obj []) := by
  rw [second_pass, first_pass]; simp

/-! Without `anyOf`, for an object whose properties are leaves with non-null defaults, a second
    injection changes nothing. -/

def FlatProps : List (Str × S) → Prop
  | [] => True
  | (_, s) :: ps => (∃ a d, s = .leaf a d ∧ d ≠ some J.null) ∧ FlatProps ps

theorem lookup_setKey_same (k : Str) (v : J) (kvs : List (Str × J)) : lookup k (setKey k v kvs) = some v := by
  induction kvs with
  | nil => simp [setKey, lookup]
  | cons kv r ih =>
    obtain ⟨k', v'⟩ := kv
    simp only [setKey]
    split
    · simp [lookup]
    · rename_i h; simp [lookup, h, ih]

theorem lookup_setKey_other (k k' : Str) (v : J) (kvs : List (Str × J)) (h : k' ≠ k) :
    lookup k' (setKey k v kvs) = lookup k' kvs := by
  induction kvs with
  | nil => simp [setKey, lookup, h]
  | cons kv r ih =>
    obtain ⟨k2, v2⟩ := kv
    simp only [setKey]
    split
    · rename_i e; subst e; simp [lookup, h]
    · simp only [lookup]; split <;> simp_all

theorem setKey_noop (k : Str) (v : J) (kvs : List (Str × J)) (h : lookup k kvs = some v) : setKey k v kvs = kvs := by
  induction kvs with
  | nil => simp [lookup] at h
  | cons kv r ih =>
    obtain ⟨k', v'⟩ := kv
    simp only [lookup] at h
    simp only [setKey]
    split at h
    · rename_i e; subst e; cases h; simp
    · rename_i e; simp [e, ih h]

/-- what one pass guarantees: a property with a default is present and not null afterwards, and a
    property that was present and not null keeps its value -/
def Settled (ps : List (Str × S)) (kvs : List (Str × J)) : Prop :=
  ∀ k s, (k, s) ∈ ps → ∀ d, s.dflt = some d → ∃ x, lookup k kvs = some x ∧ x ≠ J.null

theorem injectProps_noop : ∀ (ps : List (Str × S)) (kvs : List (Str × J)), FlatProps ps → Settled ps kvs →
    injectProps ps kvs = kvs
  | [], kvs, _, _ => rfl
  | (k, s) :: ps, kvs, hf, hs => by
    obtain ⟨⟨a, d, rfl, hd⟩, hf'⟩ := hf
    have hrest : Settled ps kvs := fun k' s' hm => hs k' s' (by simp [hm])
    simp only [injectProps]
    cases d with
    | none =>
      -- no default: nothing is ever written for this property
      have : (match lookup k kvs with
              | some J.null | none => (match (S.leaf a none).dflt with | some d => setKey k d kvs | none => kvs)
              | some x => setKey k (inject (S.leaf a none) x) kvs) = kvs := by
        cases hl : lookup k kvs with
        | none => simp [S.dflt]
        | some x =>
          cases x with
          | null => simp [S.dflt]
          | num n => simp [inject, setKey_noop k _ kvs hl]
          | str t => simp [inject, setKey_noop k _ kvs hl]
          | obj o => simp [inject, setKey_noop k _ kvs hl]
      rw [this]; exact injectProps_noop ps kvs hf' hrest
    | some dv =>
      obtain ⟨x, hx, hxn⟩ := hs k (S.leaf a (some dv)) (by simp) dv rfl
      have : (match lookup k kvs with
              | some J.null | none => (match (S.leaf a (some dv)).dflt with | some d => setKey k d kvs | none => kvs)
              | some x => setKey k (inject (S.leaf a (some dv)) x) kvs) = kvs := by
        rw [hx]
        cases x with
        | null => exact absurd rfl hxn
        | num n => simp [inject, setKey_noop k _ kvs hx]
        | str t => simp [inject, setKey_noop k _ kvs hx]
        | obj o => simp [inject, setKey_noop k _ kvs hx]
      rw [this]; exact injectProps_noop ps kvs hf' hrest

def pkeys : List (Str × S) → List Str
  | [] => []
  | (k, _) :: r => k :: pkeys r

/-- injection only writes keys that are declared properties -/
theorem injectProps_other : ∀ (ps : List (Str × S)) (kvs : List (Str × J)) (k' : Str), FlatProps ps → k' ∉ pkeys ps →
    lookup k' (injectProps ps kvs) = lookup k' kvs
  | [], _, _, _, _ => rfl
  | (k, s) :: ps, kvs, k', hf, hk => by
    obtain ⟨⟨a, d, rfl, hd⟩, hf'⟩ := hf
    have hne : k' ≠ k := fun e => hk (by simp [pkeys, e])
    have hk2 : k' ∉ pkeys ps := fun h => hk (by simp [pkeys, h])
    simp only [injectProps]
    rw [injectProps_other ps _ k' hf' hk2]
    cases hl : lookup k kvs with
    | none => cases d <;> simp [S.dflt, lookup_setKey_other _ _ _ _ hne]
    | some x => cases x <;> cases d <;> simp [S.dflt, inject, lookup_setKey_other _ _ _ _ hne]

theorem injectProps_settles : ∀ (ps : List (Str × S)) (kvs : List (Str × J)), FlatProps ps → (pkeys ps).Nodup →
    Settled ps (injectProps ps kvs)
  | [], _, _, _ => by intro k s hm; simp at hm
  | (k, s) :: ps, kvs, hf, hn => by
    obtain ⟨⟨a, d, rfl, hd⟩, hf'⟩ := hf
    simp only [pkeys, List.nodup_cons] at hn
    intro k' s' hm dv hdv
    simp only [List.mem_cons, Prod.mk.injEq] at hm
    simp only [injectProps]
    rcases hm with ⟨rfl, rfl⟩ | hm
    · -- the head property: written (or kept) now, untouched by the rest
      simp only [S.dflt] at hdv; subst hdv
      rw [injectProps_other ps _ k' hf' hn.1]
      have hdn : dv ≠ J.null := fun e => hd (by simp [e])
      cases hl : lookup k' kvs with
      | none => exact ⟨dv, by simp [S.dflt, lookup_setKey_same], hdn⟩
      | some x =>
        cases x with
        | null => exact ⟨dv, by simp [S.dflt, lookup_setKey_same], hdn⟩
        | num n => exact ⟨.num n, by simp [inject, lookup_setKey_same], by simp⟩
        | str t => exact ⟨.str t, by simp [inject, lookup_setKey_same], by simp⟩
        | obj o => exact ⟨.obj o, by simp [inject, lookup_setKey_same], by simp⟩
    · exact injectProps_settles ps _ hf' hn.2 k' s' hm dv hdv

/-- C13 (body defaults, flat objects without anyOf): a second validation changes nothing further -/
theorem injectProps_idempotent (ps : List (Str × S)) (kvs : List (Str × J)) (hf : FlatProps ps) (hn : (pkeys ps).Nodup) :
    injectProps ps (injectProps ps kvs) = injectProps ps kvs :=
  injectProps_noop ps _ hf (injectProps_settles ps kvs hf hn)

#print axioms injectProps_idempotent
end Dj
