// Package hx is the correspondence-harness engine shared by all properties.
//
// A case is a JSON object: it is at once the request sent to the Lean driver (line protocol) and the
// description from which the property's Run function builds real inputs for the library. For every case
// the engine obtains I (implementation observation, from Run), and M (model) and S (spec) from the driver
// reply, applies the three-way verdict rule of DESIGN §2.3, shrinks failing cases and writes replay files.
package hx

import (
	"bufio"
	"encoding/json"
	"fmt"
	"io"
	"os"
	"os/exec"
	"path/filepath"
	"runtime/debug"
	"sort"
	"strings"
	"sync"
	"time"
)

type Case = map[string]any

// Verdict of one comparison.
type Verdict struct {
	IM     bool   // implementation agrees with the model
	IS     bool   // implementation agrees with the spec (the property holds on this input)
	Detail string // human readable difference
}

type Ctx struct {
	Tier   string
	Seed   uint64
	Rng    *Rng
	Corpus []Case // corpus cases of this property (run first)
	Repo   string // repository under test
	Root   string // /verif
}

func (c *Ctx) Thorough() bool { return c.Tier == "thorough" }

type Prop struct {
	ID string
	// Rule describes generation/enumeration and what makes a case non-trivial.
	Rule string
	// Exhaustive is set when Gen enumerates a finite space completely (besides the random stream).
	Exhaustive bool
	Gen        func(ctx *Ctx, emit func(Case))
	// Run executes the real library on the case and returns a canonical (JSON-marshalable) observation.
	Run func(c Case) any
	// Compare relates the observation with the driver reply ({"model":…,"spec":…,"excl":[…],"branches":[…]}).
	Compare func(c Case, impl any, reply map[string]any) Verdict
	// Shrink proposes strictly smaller variants of a case (may be nil).
	Shrink func(c Case) []Case
	// TimeoutMs > 0 runs each case under a watchdog; a timeout is observed as {"hang":true}.
	TimeoutMs int
	// Workers: number of parallel implementation runs (default 8).
	Workers int
	// NoDriver: the property needs no model evaluation (Compare receives an empty reply).
	NoDriver bool
	// RunChild, when set, is what `harness -child` evaluates for a case (see RunIsolated); Run then
	// typically is `func(c Case) any { return hx.RunIsolated("Cxx", c, 5000) }`.
	RunChild    func(c Case) any
	Assumptions []string
}

var registry = map[string]*Prop{}

func Register(p *Prop) { registry[p.ID] = p }
func Lookup(id string) *Prop { return registry[id] }

// ---------------------------------------------------------------- rng

type Rng struct{ s uint64 }

// NewRng scrambles the seed first: consecutive seeds must give unrelated streams, not the same stream shifted.
func NewRng(seed uint64) *Rng {
	z := seed + 0x632BE59BD9B4E019
	z = (z ^ (z >> 30)) * 0xBF58476D1CE4E5B9
	z = (z ^ (z >> 27)) * 0x94D049BB133111EB
	return &Rng{s: z ^ (z >> 31)}
}
func (r *Rng) U64() uint64 {
	r.s += 0x9E3779B97F4A7C15
	z := r.s
	z = (z ^ (z >> 30)) * 0xBF58476D1CE4E5B9
	z = (z ^ (z >> 27)) * 0x94D049BB133111EB
	return z ^ (z >> 31)
}
func (r *Rng) Intn(n int) int {
	if n <= 0 {
		return 0
	}
	return int(r.U64() % uint64(n))
}
func (r *Rng) Bool() bool        { return r.U64()&1 == 1 }
func (r *Rng) Chance(p int) bool { return r.Intn(100) < p }
func Pick[T any](r *Rng, xs []T) T { return xs[r.Intn(len(xs))] }

// ---------------------------------------------------------------- driver client

type Driver struct {
	cmd *exec.Cmd
	in  io.WriteCloser
	out *bufio.Reader
	mu  sync.Mutex
}

func StartDriver(path string) (*Driver, error) {
	cmd := exec.Command(path)
	in, err := cmd.StdinPipe()
	if err != nil {
		return nil, err
	}
	out, err := cmd.StdoutPipe()
	if err != nil {
		return nil, err
	}
	cmd.Stderr = os.Stderr
	if err := cmd.Start(); err != nil {
		return nil, err
	}
	return &Driver{cmd: cmd, in: in, out: bufio.NewReaderSize(out, 1<<20)}, nil
}

// Eval sends the cases and returns one reply per case (nil reply on protocol error).
func (d *Driver) Eval(cases []Case) ([]map[string]any, error) {
	d.mu.Lock()
	defer d.mu.Unlock()
	errc := make(chan error, 1)
	go func() {
		w := bufio.NewWriterSize(d.in, 1<<20)
		for _, c := range cases {
			b, err := json.Marshal(c)
			if err != nil {
				errc <- err
				return
			}
			w.Write(b)
			w.WriteByte('\n')
		}
		errc <- w.Flush()
	}()
	res := make([]map[string]any, len(cases))
	for i := range cases {
		line, err := d.out.ReadBytes('\n')
		if err != nil {
			return res, fmt.Errorf("driver closed after %d replies: %v", i, err)
		}
		var m map[string]any
		dec := json.NewDecoder(strings.NewReader(string(line)))
		dec.UseNumber()
		if err := dec.Decode(&m); err != nil {
			return res, fmt.Errorf("driver reply %d unparsable: %v: %s", i, err, line)
		}
		res[i] = m
	}
	if err := <-errc; err != nil {
		return res, err
	}
	return res, nil
}

func (d *Driver) Close() {
	d.in.Close()
	d.cmd.Wait()
}

// ---------------------------------------------------------------- result

type Violation struct {
	Kind   string `json:"kind"` // "input" | "correspondence" | "obligation"
	Replay string `json:"replay"`
	Detail string `json:"detail"`
	Found  bool   `json:"failing_input_found"`
}

type Result struct {
	Property       string         `json:"property"`
	Tier           string         `json:"tier"`
	Seed           uint64         `json:"seed"`
	Evaluations    int            `json:"evaluations"`
	Distinct       int            `json:"distinct_nontrivial"`
	Rule           string         `json:"rule"`
	Exhaustive     bool           `json:"exhaustive"`
	Samples        []any          `json:"samples"`
	BranchesHit    map[string]int `json:"branches_hit"`
	ImplKinds      map[string]int `json:"impl_outcome_kinds"`
	KnownHits      map[string]int `json:"known_finding_hits"`
	KnownGone      map[string]int `json:"known_finding_absent_on"`
	Violations     []Violation    `json:"violations"`
	IMDisagree     int            `json:"impl_model_disagreements"`
	ISDisagree     int            `json:"impl_spec_disagreements"`
	CorpusCases    int            `json:"corpus_cases"`
	Assumptions    []string       `json:"assumptions"`
	DriverError    string         `json:"driver_error,omitempty"`
	WallS          float64        `json:"wall_s"`
}

type KnownFinding struct {
	ID       string `json:"id"`
	Property string `json:"property"`
	Class    string `json:"class"`
	What     string `json:"what"`
	Status   string `json:"status"` // "open" | "fixed"
	Commit   string `json:"commit,omitempty"`
}

func LoadKnown(path, prop string) map[string]KnownFinding {
	out := map[string]KnownFinding{}
	files := []string{path}
	more, _ := filepath.Glob(filepath.Join(filepath.Dir(path), "known_findings.d", "*.json"))
	sort.Strings(more)
	files = append(files, more...)
	for _, fn := range files {
		b, err := os.ReadFile(fn)
		if err != nil {
			continue
		}
		var f struct {
			Findings []KnownFinding `json:"findings"`
		}
		if json.Unmarshal(b, &f) != nil {
			continue
		}
		for _, k := range f.Findings {
			if k.Property == prop && k.Status == "open" {
				out[k.Class] = k
			}
		}
	}
	return out
}

func canon(v any) string {
	b, _ := json.Marshal(v)
	return string(b)
}

// Canon is the canonical JSON text of a value (object keys sorted).
func Canon(v any) string { return canon(v) }

func runOne(p *Prop, c Case) (res any) {
	defer func() {
		if r := recover(); r != nil {
			st := string(debug.Stack())
			site := ""
			for _, l := range strings.Split(st, "\n") {
				if strings.Contains(l, "kin-openapi") || strings.Contains(l, "/repo/") {
					site = strings.TrimSpace(l)
					break
				}
			}
			res = map[string]any{"panic": fmt.Sprint(r), "site": site}
		}
	}()
	return p.Run(c)
}

func runGuarded(p *Prop, c Case) any {
	if p.TimeoutMs <= 0 {
		return runOne(p, c)
	}
	ch := make(chan any, 1)
	go func() { ch <- runOne(p, c) }()
	select {
	case r := <-ch:
		return r
	case <-time.After(time.Duration(p.TimeoutMs) * time.Millisecond):
		return map[string]any{"hang": true}
	}
}

func implKind(v any) string {
	if m, ok := v.(map[string]any); ok {
		if _, ok := m["panic"]; ok {
			return "panic"
		}
		if _, ok := m["hang"]; ok {
			return "hang"
		}
		if _, ok := m["crash"]; ok {
			return "crash"
		}
		if k, ok := m["kind"].(string); ok {
			return k
		}
		if b, ok := m["ok"].(bool); ok {
			if b {
				return "ok"
			}
			return "reject"
		}
	}
	return "other"
}

func strList(v any) []string {
	var out []string
	if l, ok := v.([]any); ok {
		for _, x := range l {
			if s, ok := x.(string); ok {
				out = append(out, s)
			}
		}
	}
	return out
}

type Engine struct {
	P        *Prop
	D        *Driver
	Known    map[string]KnownFinding
	ReplayDir string
	Ctx      *Ctx
}

type evald struct {
	c     Case
	impl  any
	reply map[string]any
	v     Verdict
}

func (e *Engine) evalBatch(cases []Case) ([]evald, error) {
	out := make([]evald, len(cases))
	workers := e.P.Workers
	if workers <= 0 {
		workers = 8
	}
	var wg sync.WaitGroup
	idx := make(chan int, len(cases))
	for i := range cases {
		idx <- i
	}
	close(idx)
	for w := 0; w < workers; w++ {
		wg.Add(1)
		go func() {
			defer wg.Done()
			for i := range idx {
				out[i].c = cases[i]
				out[i].impl = normalize(runGuarded(e.P, cases[i]))
			}
		}()
	}
	var replies []map[string]any
	var derr error
	if e.P.NoDriver || e.D == nil {
		replies = make([]map[string]any, len(cases))
		for i := range replies {
			replies[i] = map[string]any{}
		}
	} else {
		replies, derr = e.D.Eval(cases)
	}
	wg.Wait()
	if derr != nil {
		return out, derr
	}
	for i := range out {
		out[i].reply = replies[i]
		if replies[i] == nil {
			out[i].v = Verdict{IM: false, IS: true, Detail: "no driver reply"}
			continue
		}
		if es, ok := replies[i]["error"].(string); ok {
			out[i].v = Verdict{IM: false, IS: true, Detail: "driver error: " + es}
			continue
		}
		out[i].v = e.P.Compare(cases[i], out[i].impl, replies[i])
	}
	return out, nil
}

// normalize round-trips through JSON so that observations are plain maps/slices/strings/json.Number.
func normalize(v any) any {
	b, err := json.Marshal(v)
	if err != nil {
		return map[string]any{"unmarshalable": err.Error()}
	}
	var out any
	dec := json.NewDecoder(strings.NewReader(string(b)))
	dec.UseNumber()
	if dec.Decode(&out) != nil {
		return nil
	}
	return out
}

// fails tells whether the case is a property failure outside the known classes.
func (e *Engine) classify(ev evald) (newViolation bool, knownClasses []string, corrBroken bool) {
	excl := strList(ev.reply["excl"])
	var kn []string
	allKnown := len(excl) > 0
	for _, c := range excl {
		if _, ok := e.Known[c]; ok {
			kn = append(kn, c)
		} else {
			allKnown = false
		}
	}
	if !ev.v.IS {
		if allKnown && ev.v.IM {
			return false, kn, false // defect present exactly as recorded
		}
		return true, kn, !ev.v.IM
	}
	// I = S
	if !ev.v.IM {
		if len(excl) > 0 {
			return false, nil, false // inside an exclusion class the defect is gone (I = S): fine
		}
		return false, nil, true
	}
	return false, nil, false
}

func (e *Engine) shrink(ev evald) evald {
	if e.P.Shrink == nil {
		return ev
	}
	cur := ev
	for round := 0; round < 200; round++ {
		cands := e.P.Shrink(cur.c)
		if len(cands) == 0 {
			break
		}
		evs, err := e.evalBatch(cands)
		if err != nil {
			break
		}
		found := false
		for _, x := range evs {
			if nv, _, _ := e.classify(x); nv {
				cur = x
				found = true
				break
			}
		}
		if !found {
			break
		}
	}
	return cur
}

func (e *Engine) writeReplay(kind string, ev evald, extra map[string]any, n int) string {
	os.MkdirAll(e.ReplayDir, 0o755)
	path := filepath.Join(e.ReplayDir, fmt.Sprintf("%s-%s-%d.json", e.P.ID, kind, n))
	obj := map[string]any{
		"property": e.P.ID, "kind": kind, "case": ev.c, "impl": ev.impl,
		"seed": e.Ctx.Seed, "tier": e.Ctx.Tier, "detail": ev.v.Detail,
	}
	if ev.reply != nil {
		obj["model"] = ev.reply["model"]
		obj["spec"] = ev.reply["spec"]
		obj["excl"] = ev.reply["excl"]
	}
	for k, v := range extra {
		obj[k] = v
	}
	b, _ := json.MarshalIndent(obj, "", " ")
	os.WriteFile(path, b, 0o644)
	return path
}

// Run executes the whole check and returns the result (the caller prints lines and writes evidence).
func (e *Engine) Run() *Result {
	t0 := time.Now()
	p := e.P
	res := &Result{Property: p.ID, Tier: e.Ctx.Tier, Seed: e.Ctx.Seed, Rule: p.Rule, Exhaustive: p.Exhaustive,
		BranchesHit: map[string]int{}, ImplKinds: map[string]int{}, KnownHits: map[string]int{}, KnownGone: map[string]int{},
		Assumptions: p.Assumptions, Samples: []any{}, Violations: []Violation{}}
	seen := map[string]bool{}
	var batch []Case
	nontrivial := map[string]bool{}
	var firstCorr *evald
	corrCount := 0
	nViol := 0
	const maxViol = 5
	sampleEvery := 1
	flush := func() {
		if len(batch) == 0 {
			return
		}
		evs, err := e.evalBatch(batch)
		if err != nil {
			res.DriverError = err.Error()
		}
		for _, ev := range evs {
			if ev.c == nil {
				continue
			}
			res.Evaluations++
			res.ImplKinds[implKind(ev.impl)]++
			br := strList(ev.reply["branches"])
			for _, b := range br {
				res.BranchesHit[b]++
			}
			key := canon(ev.c)
			if len(br) > 0 || p.NoDriver {
				nontrivial[key] = true
			}
			if len(res.Samples) < 6 && res.Evaluations%sampleEvery == 0 {
				res.Samples = append(res.Samples, map[string]any{"case": ev.c, "impl": ev.impl, "model": ev.reply["model"], "spec": ev.reply["spec"]})
				sampleEvery = sampleEvery*7 + 1
			}
			if !ev.v.IM {
				res.IMDisagree++
			}
			if !ev.v.IS {
				res.ISDisagree++
			}
			nv, kn, corr := e.classify(ev)
			for _, k := range kn {
				res.KnownHits[k]++
			}
			if !nv && len(kn) == 0 {
				for _, c := range strList(ev.reply["excl"]) {
					if _, ok := e.Known[c]; ok && ev.v.IS {
						res.KnownGone[c]++
					}
				}
			}
			if nv {
				if nViol < maxViol {
					sm := e.shrink(ev)
					path := e.writeReplay("input", sm, map[string]any{"shrunk_from": ev.c}, nViol)
					res.Violations = append(res.Violations, Violation{Kind: "input", Replay: path, Detail: sm.v.Detail, Found: true})
				}
				nViol++
			} else if corr {
				corrCount++
				if firstCorr == nil {
					x := ev
					firstCorr = &x
				}
			}
		}
		batch = batch[:0]
	}
	emit := func(c Case) {
		c["p"] = p.ID
		k := canon(c)
		if seen[k] {
			return
		}
		seen[k] = true
		batch = append(batch, c)
		if len(batch) >= 2000 {
			flush()
		}
	}
	for _, c := range e.Ctx.Corpus {
		emit(c)
		res.CorpusCases++
	}
	flush()
	p.Gen(e.Ctx, emit)
	flush()
	res.Distinct = len(nontrivial)
	if nViol == 0 && firstCorr != nil {
		// correspondence broken, no input on which the property fails was found in the explored set
		path := e.writeReplay("correspondence", *firstCorr, map[string]any{
			"correspondence": p.ID + " model vs implementation", "disagreements": corrCount,
			"note": "the model no longer describes the code on this input; the property itself (impl vs spec) held on every explored input"}, 0)
		res.Violations = append(res.Violations, Violation{Kind: "correspondence", Replay: path, Detail: firstCorr.v.Detail, Found: false})
	}
	if res.DriverError != "" && len(res.Violations) == 0 {
		os.MkdirAll(e.ReplayDir, 0o755)
		path := filepath.Join(e.ReplayDir, p.ID+"-driver-0.json")
		b, _ := json.MarshalIndent(map[string]any{"property": p.ID, "kind": "correspondence", "correspondence": "driver protocol", "error": res.DriverError}, "", " ")
		os.WriteFile(path, b, 0o644)
		res.Violations = append(res.Violations, Violation{Kind: "correspondence", Replay: path, Detail: res.DriverError, Found: false})
	}
	res.WallS = time.Since(t0).Seconds()
	return res
}

// ---------------------------------------------------------------- child-process isolation
//
// Some inputs kill the process (fatal stack overflow, runaway memory) or never return. A property whose
// Run must survive those calls RunIsolated from its Run function: the case is evaluated by RunChild in a
// child process (the harness binary re-executed with -child) under a timeout; a crash or a timeout is an
// observation ({"crash":…} / {"hang":true}), not the end of the check.

type child struct {
	cmd *exec.Cmd
	in  io.WriteCloser
	out *bufio.Reader
}

var (
	childMu   sync.Mutex
	childPool = map[string][]*child{}
)

func startChild(prop string) (*child, error) {
	exe, err := os.Executable()
	if err != nil {
		return nil, err
	}
	cmd := exec.Command(exe, "-prop", prop, "-child")
	cmd.Env = append(os.Environ(), "GOMEMLIMIT=2GiB", "GOTRACEBACK=single")
	in, _ := cmd.StdinPipe()
	out, _ := cmd.StdoutPipe()
	var errb strings.Builder
	cmd.Stderr = &limitedWriter{b: &errb, max: 4000}
	if err := cmd.Start(); err != nil {
		return nil, err
	}
	return &child{cmd: cmd, in: in, out: bufio.NewReaderSize(out, 1<<20)}, nil
}

type limitedWriter struct {
	b   *strings.Builder
	max int
}

func (w *limitedWriter) Write(p []byte) (int, error) {
	if w.b.Len() < w.max {
		n := w.max - w.b.Len()
		if n > len(p) {
			n = len(p)
		}
		w.b.Write(p[:n])
	}
	return len(p), nil
}

// RunIsolated evaluates p.RunChild(c) in a child process. timeoutMs bounds the single case.
func RunIsolated(prop string, c Case, timeoutMs int) any {
	childMu.Lock()
	var ch *child
	if l := childPool[prop]; len(l) > 0 {
		ch = l[len(l)-1]
		childPool[prop] = l[:len(l)-1]
	}
	childMu.Unlock()
	if ch == nil {
		var err error
		if ch, err = startChild(prop); err != nil {
			return map[string]any{"crash": "cannot start child: " + err.Error()}
		}
	}
	b, _ := json.Marshal(c)
	type rd struct {
		line []byte
		err  error
	}
	rc := make(chan rd, 1)
	go func() {
		if _, err := ch.in.Write(append(b, '\n')); err != nil {
			rc <- rd{nil, err}
			return
		}
		l, err := ch.out.ReadBytes('\n')
		rc <- rd{l, err}
	}()
	kill := func() string {
		ch.cmd.Process.Kill()
		ch.cmd.Wait()
		if lw, ok := ch.cmd.Stderr.(*limitedWriter); ok {
			return lw.b.String()
		}
		return ""
	}
	select {
	case r := <-rc:
		if r.err != nil {
			msg := kill()
			first := msg
			if i := strings.Index(first, "\n"); i > 0 {
				first = first[:i]
			}
			return map[string]any{"crash": first}
		}
		var v any
		dec := json.NewDecoder(strings.NewReader(string(r.line)))
		dec.UseNumber()
		if dec.Decode(&v) != nil {
			return map[string]any{"crash": "unparsable child reply"}
		}
		childMu.Lock()
		childPool[prop] = append(childPool[prop], ch)
		childMu.Unlock()
		return v
	case <-time.After(time.Duration(timeoutMs) * time.Millisecond):
		kill()
		return map[string]any{"hang": true}
	}
}

// ChildLoop is the body of `harness -prop X -child`: one case per line in, one observation per line out.
func ChildLoop(p *Prop) {
	in := bufio.NewReaderSize(os.Stdin, 1<<20)
	out := bufio.NewWriter(os.Stdout)
	run := p.RunChild
	if run == nil {
		run = p.Run
	}
	for {
		line, err := in.ReadBytes('\n')
		if len(line) > 0 {
			var c Case
			dec := json.NewDecoder(strings.NewReader(string(line)))
			dec.UseNumber()
			var res any
			if dec.Decode(&c) != nil {
				res = map[string]any{"crash": "bad case"}
			} else {
				q := *p
				q.Run = run
				res = runOne(&q, c)
			}
			b, _ := json.Marshal(res)
			out.Write(b)
			out.WriteByte('\n')
			out.Flush()
		}
		if err != nil {
			return
		}
	}
}

// StopChildren ends every pooled child process.
func StopChildren() {
	childMu.Lock()
	defer childMu.Unlock()
	for _, l := range childPool {
		for _, ch := range l {
			ch.in.Close()
			ch.cmd.Process.Kill()
			ch.cmd.Wait()
		}
	}
	childPool = map[string][]*child{}
}

// LoadCorpus reads corpus/<id>/*.json (each file: one case object or a list of cases).
func LoadCorpus(dir string) []Case {
	var out []Case
	files, _ := filepath.Glob(filepath.Join(dir, "*.json"))
	sort.Strings(files)
	for _, f := range files {
		b, err := os.ReadFile(f)
		if err != nil {
			continue
		}
		dec := json.NewDecoder(strings.NewReader(string(b)))
		dec.UseNumber()
		var v any
		if dec.Decode(&v) != nil {
			continue
		}
		switch x := v.(type) {
		case map[string]any:
			if c, ok := x["case"].(map[string]any); ok {
				out = append(out, c)
			} else {
				out = append(out, x)
			}
		case []any:
			for _, y := range x {
				if m, ok := y.(map[string]any); ok {
					out = append(out, m)
				}
			}
		}
	}
	return out
}

// Replay runs one case and prints I, M, S.
func (e *Engine) Replay(c Case) (string, bool) {
	c["p"] = e.P.ID
	evs, err := e.evalBatch([]Case{c})
	if err != nil {
		return "driver error: " + err.Error(), false
	}
	ev := evs[0]
	nv, kn, corr := e.classify(ev)
	b, _ := json.MarshalIndent(map[string]any{"case": ev.c, "impl": ev.impl, "model": ev.reply["model"], "spec": ev.reply["spec"],
		"excl": ev.reply["excl"], "impl_eq_model": ev.v.IM, "impl_eq_spec": ev.v.IS, "detail": ev.v.Detail,
		"new_violation": nv, "known_classes": kn, "correspondence_broken": corr}, "", " ")
	return string(b), !nv && !corr
}
