module kinverif

go 1.22.5

toolchain go1.23.5

require (
	github.com/getkin/kin-openapi v0.0.0
	github.com/oasdiff/yaml v0.0.0-20250309154309-f31be36b4037
	github.com/oasdiff/yaml3 v0.0.0-20250309153720-d2182401db90
	golang.org/x/tools v0.29.0
)

require (
	github.com/go-openapi/jsonpointer v0.21.0 // indirect
	github.com/go-openapi/swag v0.23.0 // indirect
	github.com/gorilla/mux v1.8.0 // indirect
	github.com/josharian/intern v1.0.0 // indirect
	github.com/mailru/easyjson v0.7.7 // indirect
	github.com/mohae/deepcopy v0.0.0-20170929034955-c48cc78d4826 // indirect
	github.com/perimeterx/marshmallow v1.1.5 // indirect
	golang.org/x/mod v0.22.0 // indirect
	golang.org/x/sync v0.10.0 // indirect
	gopkg.in/yaml.v3 v3.0.1 // indirect
)

replace github.com/getkin/kin-openapi => /repo
