package main

import (
	"bytes"
	"context"
	"fmt"
	"io"
	"net/http"

	"github.com/getkin/kin-openapi/openapi3"
	"github.com/getkin/kin-openapi/openapi3filter"
	"github.com/getkin/kin-openapi/routers/legacy"
)

func try(name string, f func()) {
	defer func() {
		if r := recover(); r != nil {
			fmt.Println(name, "PANIC:", r)
		}
	}()
	f()
}

func load(s string) *openapi3.T {
	doc, err := openapi3.NewLoader().LoadFromData([]byte(s))
	if err != nil {
		fmt.Println("load err", err)
		return nil
	}
	if err := doc.Validate(context.Background()); err != nil {
		fmt.Println("validate err", err)
		return nil
	}
	return doc
}

func run(name, docs, method, url, ct, body string, status int, rct, rbody string) {
	doc := load(docs)
	if doc == nil {
		return
	}
	try(name, func() {
		r, err := legacy.NewRouter(doc)
		if err != nil {
			fmt.Println(name, "router err", err)
			return
		}
		req, _ := http.NewRequest(method, url, bytes.NewReader([]byte(body)))
		if ct != "" {
			req.Header.Set("Content-Type", ct)
		}
		route, pp, err := r.FindRoute(req)
		if err != nil {
			fmt.Println(name, "route err", err)
			return
		}
		in := &openapi3filter.RequestValidationInput{Request: req, PathParams: pp, Route: route, Options: &openapi3filter.Options{MultiError: true}}
		err = openapi3filter.ValidateRequest(context.Background(), in)
		fmt.Println(name, "req:", err)
		if err != nil {
			fmt.Println(name, "conv:", openapi3filter.ConvertErrors(err))
		}
		h := http.Header{}
		if rct != "" {
			h.Set("Content-Type", rct)
		}
		rin := &openapi3filter.ResponseValidationInput{RequestValidationInput: in, Status: status, Header: h, Body: io.NopCloser(bytes.NewReader([]byte(rbody)))}
		err = openapi3filter.ValidateResponse(context.Background(), rin)
		fmt.Println(name, "resp:", err)
	})
}

const head = `{"openapi":"3.0.0","info":{"title":"t","version":"1"},`

func main() {
	run("param-content-noschema", head+`"paths":{"/a":{"get":{"parameters":[{"name":"q","in":"query","content":{"application/json":{}}}],"responses":{"200":{"description":"ok"}}}}}}`, "GET", "http://x/a?q=1", "", "", 200, "", "")
	run("param-content-other", head+`"paths":{"/a":{"get":{"parameters":[{"name":"q","in":"query","content":{"text/plain":{"schema":{"type":"string"}}}}],"responses":{"200":{"description":"ok"}}}}}}`, "GET", "http://x/a?q=1", "", "", 200, "", "")
	run("param-content-multi", head+`"paths":{"/a":{"get":{"parameters":[{"name":"q","in":"query","content":{"application/json":{"schema":{"type":"array","items":{"type":"integer"}}}}}],"responses":{"200":{"description":"ok"}}}}}}`, "GET", "http://x/a?q=1&q=x", "", "", 200, "", "")
	run("param-content-multi-noitems", head+`"paths":{"/a":{"get":{"parameters":[{"name":"q","in":"query","content":{"application/json":{"schema":{"type":"object"}}}}],"responses":{"200":{"description":"ok"}}}}}}`, "GET", "http://x/a?q=1&q=x", "", "", 200, "", "")
	run("body-noschema", head+`"paths":{"/a":{"post":{"requestBody":{"content":{"application/json":{}}},"responses":{"200":{"description":"ok","content":{"application/json":{}}}}}}}}`, "POST", "http://x/a", "application/json", "{", 200, "application/json", "{")
	run("resp-default-only", head+`"paths":{"/a":{"post":{"responses":{"default":{"description":"ok","headers":{"X-A":{"content":{"application/json":{"schema":{"type":"integer"}}}}}}}}}}}`, "POST", "http://x/a", "application/json", "{", 200, "application/json", "{")
	run("urlencoded-array-noitems", head+`"paths":{"/a":{"post":{"requestBody":{"content":{"application/x-www-form-urlencoded":{"schema":{"type":"object","properties":{"a":{"type":"array","items":{"type":"integer"}},"b":{"allOf":[{"type":"integer"}]}}}}}},"responses":{"200":{"description":"ok"}}}}}}`, "POST", "http://x/a", "application/x-www-form-urlencoded", "a=1&a=2&b=x", 200, "", "")
	run("urlencoded-nonobject", head+`"paths":{"/a":{"post":{"requestBody":{"content":{"application/x-www-form-urlencoded":{"schema":{"type":"string"}}}},"responses":{"200":{"description":"ok"}}}}}}`, "POST", "http://x/a", "application/x-www-form-urlencoded", "a=1&a=2&b=x", 200, "", "")
	run("multipart-nonobject", head+`"paths":{"/a":{"post":{"requestBody":{"content":{"multipart/form-data":{"schema":{"type":"string"}}}},"responses":{"200":{"description":"ok"}}}}}}`, "POST", "http://x/a", "multipart/form-data; boundary=b", "--b\r\nContent-Disposition: form-data; name=\"a\"\r\n\r\n1\r\n--b--\r\n", 200, "", "")
	run("multipart-noschema-props", head+`"paths":{"/a":{"post":{"requestBody":{"content":{"multipart/form-data":{"schema":{"type":"object","additionalProperties":true}}}},"responses":{"200":{"description":"ok"}}}}}}`, "POST", "http://x/a", "multipart/form-data; boundary=b", "--b\r\nContent-Disposition: form-data; name=\"a\"\r\n\r\n1\r\n--b--\r\n", 200, "", "")
	run("rec-unguarded-novisit", head+`"components":{"schemas":{"A":{"allOf":[{"$ref":"#/components/schemas/A"}]}}},"paths":{"/a":{"post":{"requestBody":{"content":{"application/json":{"schema":{"$ref":"#/components/schemas/A"}}}},"responses":{"200":{"description":"ok"}}}}}}`, "POST", "http://x/a", "text/plain", "1", 200, "", "")
}
