package main

// Table MediaTypeMatch: the media-type matching code as a small step program, read from the source —
//   contentGetSteps     from `func (content Content) Get(mime string) *MediaType` (openapi3/content.go),
//   parseMediaTypeSteps from `func parseMediaType(contentType string) string` (openapi3filter/internal.go).
// Rule (syntactic, statement by statement; every statement is printed with go/printer, white space collapsed):
//   if M == "" { return C["k"] }                                             → .emptyRet "k"
//   if v := C[M]; v != nil { return v }                                      → .tryMime
//   i := strings.IndexByte(M, 'c') ; if i < 0 { i = len(M) } ; M = M[:i]     → .cutFirst 'c'
//   i = strings.IndexByte(M, 'c') ; if i < 0 { return nil } ; M = M[:i] + "s" → .cutFirstOrNil 'c' "s"
//   return C["k"]                                                            → .retKey "k"
//   (parseMediaType) i := strings.IndexByte(X, 'c') ; if i < 0 { return X } ; return X[:i] → .prefixBefore 'c'
// where M / C / X are the function's parameter / receiver names. Any other statement (another strings function such
// as LastIndexByte, another comparison, an extra statement) is an `unrecognised` row.

import (
	"bytes"
	"fmt"
	"go/ast"
	"go/parser"
	"go/printer"
	"go/token"
	"path/filepath"
	"regexp"
	"strings"
)

func init() { register("MediaTypeMatch", extractMediaTypeMatch) }

func mtmStmts(repo, rel, recvType, fname string) (*token.FileSet, []ast.Stmt, string, string, error) {
	fset := token.NewFileSet()
	f, err := parser.ParseFile(fset, filepath.Join(repo, rel), nil, 0)
	if err != nil {
		return nil, nil, "", "", err
	}
	for _, d := range f.Decls {
		fd, ok := d.(*ast.FuncDecl)
		if !ok || fd.Name.Name != fname || fd.Body == nil {
			continue
		}
		recv := ""
		if recvType != "" {
			if fd.Recv == nil || len(fd.Recv.List) != 1 || len(fd.Recv.List[0].Names) != 1 {
				continue
			}
			if id, ok := fd.Recv.List[0].Type.(*ast.Ident); !ok || id.Name != recvType {
				continue
			}
			recv = fd.Recv.List[0].Names[0].Name
		} else if fd.Recv != nil {
			continue
		}
		if fd.Type.Params == nil || len(fd.Type.Params.List) != 1 || len(fd.Type.Params.List[0].Names) != 1 {
			continue
		}
		return fset, fd.Body.List, recv, fd.Type.Params.List[0].Names[0].Name, nil
	}
	return nil, nil, "", "", fmt.Errorf("%s: func %s not found", rel, fname)
}

var mtmWS = regexp.MustCompile(`\s+`)

func mtmText(fset *token.FileSet, n ast.Node) string {
	var b bytes.Buffer
	printer.Fprint(&b, fset, n)
	return strings.TrimSpace(mtmWS.ReplaceAllString(b.String(), " "))
}

func extractMediaTypeMatch(repo string) (string, error) {
	q := regexp.QuoteMeta
	var get, pmt []string
	// ---- Content.Get
	{
		rel := "openapi3/content.go"
		fset, stmts, C, M, err := mtmStmts(repo, rel, "Content", "Get")
		if err != nil {
			get = append(get, fmt.Sprintf(".unrecognised %q", err.Error()))
		} else {
			reEmpty := regexp.MustCompile(`^if ` + q(M) + ` == "" \{ return ` + q(C) + `\[("[^"]*")\] \}$`)
			reTry := regexp.MustCompile(`^if v := ` + q(C) + `\[` + q(M) + `\]; v != nil \{ return v \}$`)
			reIdx := regexp.MustCompile(`^i :?= strings\.IndexByte\(` + q(M) + `, '(.)'\)$`)
			reLen := regexp.MustCompile(`^if i < 0 \{ i = len\(` + q(M) + `\) \}$`)
			reNil := regexp.MustCompile(`^if i < 0 \{ return nil \}$`)
			reCut := regexp.MustCompile(`^` + q(M) + ` = ` + q(M) + `\[:i\]$`)
			reCutS := regexp.MustCompile(`^` + q(M) + ` = ` + q(M) + `\[:i\] \+ ("[^"]*")$`)
			reRet := regexp.MustCompile(`^return ` + q(C) + `\[("[^"]*")\]$`)
			txt := make([]string, len(stmts))
			for i, s := range stmts {
				txt[i] = mtmText(fset, s)
			}
			for i := 0; i < len(stmts); {
				pos := fset.Position(stmts[i].Pos())
				site := fmt.Sprintf("%s:%d", rel, pos.Line)
				t := txt[i]
				if m := reEmpty.FindStringSubmatch(t); m != nil {
					get = append(get, ".emptyRet "+m[1])
					i++
					continue
				}
				if reTry.MatchString(t) {
					get = append(get, ".tryMime")
					i++
					continue
				}
				if m := reIdx.FindStringSubmatch(t); m != nil && i+2 < len(stmts) {
					if reLen.MatchString(txt[i+1]) && reCut.MatchString(txt[i+2]) {
						get = append(get, fmt.Sprintf(".cutFirst '%s'", m[1]))
						i += 3
						continue
					}
					if m2 := reCutS.FindStringSubmatch(txt[i+2]); reNil.MatchString(txt[i+1]) && m2 != nil {
						get = append(get, fmt.Sprintf(".cutFirstOrNil '%s' %s", m[1], m2[1]))
						i += 3
						continue
					}
				}
				if m := reRet.FindStringSubmatch(t); m != nil {
					get = append(get, ".retKey "+m[1])
					i++
					continue
				}
				get = append(get, fmt.Sprintf(".unrecognised %q", site))
				i++
			}
		}
	}
	// ---- parseMediaType
	{
		rel := "openapi3filter/internal.go"
		fset, stmts, _, X, err := mtmStmts(repo, rel, "", "parseMediaType")
		if err != nil {
			pmt = append(pmt, fmt.Sprintf(".unrecognised %q", err.Error()))
		} else {
			reIdx := regexp.MustCompile(`^i := strings\.IndexByte\(` + q(X) + `, '(.)'\)$`)
			reSame := regexp.MustCompile(`^if i < 0 \{ return ` + q(X) + ` \}$`)
			rePre := regexp.MustCompile(`^return ` + q(X) + `\[:i\]$`)
			ok := false
			if len(stmts) == 3 {
				if m := reIdx.FindStringSubmatch(mtmText(fset, stmts[0])); m != nil &&
					reSame.MatchString(mtmText(fset, stmts[1])) && rePre.MatchString(mtmText(fset, stmts[2])) {
					pmt = append(pmt, fmt.Sprintf(".prefixBefore '%s'", m[1]))
					ok = true
				}
			}
			if !ok {
				line := 0
				if len(stmts) > 0 {
					line = fset.Position(stmts[0].Pos()).Line
				}
				pmt = append(pmt, fmt.Sprintf(".unrecognised %q", fmt.Sprintf("%s:%d", rel, line)))
			}
		}
	}
	var b strings.Builder
	b.WriteString("/- GENERATED by go/cmd/extract (table MediaTypeMatch) from openapi3/content.go and openapi3filter/internal.go — do not edit. -/\n")
	b.WriteString("namespace KinModel.Gen\n\n")
	b.WriteString("inductive MatchStep\n  | emptyRet (key : String)\n  | tryMime\n  | cutFirst (c : Char)\n  | cutFirstOrNil (c : Char) (suffix : String)\n  | retKey (key : String)\n  | prefixBefore (c : Char)\n  | unrecognised (site : String)\n  deriving DecidableEq, Repr\n\n")
	write := func(name string, rows []string) {
		b.WriteString("def " + name + " : List MatchStep := [\n")
		for i, r := range rows {
			sep := ","
			if i == len(rows)-1 {
				sep = ""
			}
			b.WriteString("  " + r + sep + "\n")
		}
		b.WriteString("]\n\n")
	}
	write("contentGetSteps", get)
	write("parseMediaTypeSteps", pmt)
	fmt.Fprintf(&b, "-- rows: %d\n\nend KinModel.Gen\n", len(get)+len(pmt))
	return b.String(), nil
}
