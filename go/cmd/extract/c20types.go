package main

// Table C20Types: the struct declarations of package openapi3 as the reflective drill-down of
// Loader.resolveComponent / drillIntoField sees them — for every struct its fields in declaration
// order with the yaml tag name and a structural type, the `Ref`/`Value` wrapper structs, the map-like
// structs (unexported field m), the embedded structs. Purely syntactic (go/ast).

import (
	"fmt"
	"go/ast"
	"go/parser"
	"go/token"
	"io/fs"
	"path/filepath"
	"reflect"
	"sort"
	"strings"
)

func init() { register("C20Types", extractC20Types) }

type c20TypeEnv struct {
	fset  *token.FileSet
	specs map[string]*ast.TypeSpec
	files map[string]string
}

func c20LoadPackage(repo string) (*c20TypeEnv, map[string]*ast.File, error) {
	fset := token.NewFileSet()
	dir := filepath.Join(repo, "openapi3")
	pkgs, err := parser.ParseDir(fset, dir, func(fi fs.FileInfo) bool { return !strings.HasSuffix(fi.Name(), "_test.go") }, parser.ParseComments)
	if err != nil {
		return nil, nil, err
	}
	pkg, ok := pkgs["openapi3"]
	if !ok {
		return nil, nil, fmt.Errorf("package openapi3 not found in %s", dir)
	}
	env := &c20TypeEnv{fset: fset, specs: map[string]*ast.TypeSpec{}, files: map[string]string{}}
	for fn, f := range pkg.Files {
		for _, d := range f.Decls {
			gd, ok := d.(*ast.GenDecl)
			if !ok || gd.Tok != token.TYPE {
				continue
			}
			for _, s := range gd.Specs {
				ts := s.(*ast.TypeSpec)
				env.specs[ts.Name.Name] = ts
				env.files[ts.Name.Name] = filepath.Base(fn)
			}
		}
	}
	return env, pkg.Files, nil
}

func (e *c20TypeEnv) pos(n ast.Node) string {
	p := e.fset.Position(n.Pos())
	return fmt.Sprintf("%s:%d", filepath.Base(p.Filename), p.Line)
}

// ty renders a type expression as a Lean term of KinModel.LoadTypes.Ty.
func (e *c20TypeEnv) ty(x ast.Expr, depth int) string {
	if depth > 8 {
		return fmt.Sprintf("(.unrecognised %q)", e.pos(x))
	}
	switch t := x.(type) {
	case *ast.StarExpr:
		return "(.ptr " + e.ty(t.X, depth+1) + ")"
	case *ast.MapType:
		if id, ok := t.Key.(*ast.Ident); !ok || id.Name != "string" {
			return fmt.Sprintf("(.unrecognised %q)", e.pos(x))
		}
		return "(.mapOf " + e.ty(t.Value, depth+1) + ")"
	case *ast.ArrayType:
		return "(.sliceOf " + e.ty(t.Elt, depth+1) + ")"
	case *ast.InterfaceType:
		return ".any"
	case *ast.Ident:
		switch t.Name {
		case "string", "bool", "int", "int64", "uint64", "float64", "int32", "uint32", "float32", "uint", "byte":
			return ".scalar"
		case "any":
			return ".any"
		}
		ts, ok := e.specs[t.Name]
		if !ok {
			return fmt.Sprintf("(.unrecognised %q)", e.pos(x))
		}
		if _, isStruct := ts.Type.(*ast.StructType); isStruct {
			return fmt.Sprintf("(.struct %q)", t.Name)
		}
		return e.ty(ts.Type, depth+1)
	case *ast.SelectorExpr:
		// json.RawMessage, url.URL, regexp.Regexp …: opaque to the drill-down (never tagged)
		return ".scalar"
	case *ast.FuncType:
		return ".scalar"
	}
	return fmt.Sprintf("(.unrecognised %q)", e.pos(x))
}

// c20IsBasic: the type expression is a predeclared basic type, or a pointer to one.
func c20IsBasic(x ast.Expr) bool {
	if st, ok := x.(*ast.StarExpr); ok {
		x = st.X
	}
	id, ok := x.(*ast.Ident)
	if !ok {
		return false
	}
	switch id.Name {
	case "string", "bool", "int", "int64", "uint64", "float64", "int32", "uint32", "float32", "uint":
		return true
	}
	return false
}

// c20BasicKind: the JSON kind a basic-typed field accepts.
func c20BasicKind(x ast.Expr) string {
	if st, ok := x.(*ast.StarExpr); ok {
		x = st.X
	}
	switch x.(*ast.Ident).Name {
	case "string":
		return "string"
	case "bool":
		return "bool"
	}
	return "num"
}

func extractC20Types(repo string) (string, error) {
	env, _, err := c20LoadPackage(repo)
	if err != nil {
		return "", err
	}
	names := make([]string, 0, len(env.specs))
	for n := range env.specs {
		names = append(names, n)
	}
	sort.Strings(names)
	var fields, wrappers, maplikes, embedded, firstExt, plain, kinds []string
	for _, n := range names {
		st, ok := env.specs[n].Type.(*ast.StructType)
		if !ok {
			continue
		}
		hasRef, valueTy, mTy := false, "", ""
		for i, f := range st.Fields.List {
			if len(f.Names) == 0 {
				// embedded struct: reflect sees one untagged field
				if id, ok := f.Type.(*ast.Ident); ok {
					embedded = append(embedded, fmt.Sprintf("(%q, %q)", n, id.Name))
				} else {
					fields = append(fields, fmt.Sprintf("⟨%q, \"\", (.unrecognised %q)⟩", n, env.pos(f)))
				}
				continue
			}
			tag := ""
			if f.Tag != nil {
				raw := strings.Trim(f.Tag.Value, "`")
				y := reflect.StructTag(raw).Get("yaml")
				if y != "-" {
					tag = strings.Split(y, ",")[0]
				}
			}
			for _, nm := range f.Names {
				if i == 0 && nm.Name == "Extensions" {
					firstExt = append(firstExt, fmt.Sprintf("%q", n))
				}
				if nm.Name == "Ref" {
					hasRef = true
				}
				if nm.Name == "Value" {
					valueTy = env.ty(f.Type, 0)
				}
				if nm.Name == "m" {
					mTy = env.ty(f.Type, 0)
				}
				if tag != "" {
					fields = append(fields, fmt.Sprintf("⟨%q, %q, %s⟩", n, tag, env.ty(f.Type, 0)))
					if c20IsBasic(f.Type) {
						plain = append(plain, fmt.Sprintf("%q", n+"."+tag))
						kinds = append(kinds, fmt.Sprintf("(%q, %q)", n+"."+tag, c20BasicKind(f.Type)))
					}
				}
			}
		}
		if hasRef && valueTy != "" {
			wrappers = append(wrappers, fmt.Sprintf("(%q, %s)", n, valueTy))
		}
		if mTy != "" {
			maplikes = append(maplikes, fmt.Sprintf("(%q, %s)", n, mTy))
		}
	}
	var sb strings.Builder
	sb.WriteString("-- generated by go/cmd/extract (table C20Types) from openapi3/*.go — do not edit\n")
	sb.WriteString("import KinModel.LoadTypes\nnamespace KinModel.Gen\nopen KinModel.LoadTypes\n\n")
	fmt.Fprintf(&sb, "-- rows: %d\n", len(fields))
	sb.WriteString("def c20Fields : List Field := [\n  " + strings.Join(fields, ",\n  ") + "]\n\n")
	sb.WriteString("def c20Wrappers : List (String × Ty) := [\n  " + strings.Join(wrappers, ",\n  ") + "]\n\n")
	sb.WriteString("def c20Maplikes : List (String × Ty) := [\n  " + strings.Join(maplikes, ",\n  ") + "]\n\n")
	sb.WriteString("def c20Embedded : List (String × String) := [\n  " + strings.Join(embedded, ",\n  ") + "]\n\n")
	sb.WriteString("def c20ExtensionsFirst : List String := [\n  " + strings.Join(firstExt, ", ") + "]\n\n")
	// "Owner.tag" of the tagged fields whose declared type is a predeclared basic type or a pointer to one
	// (encoding/json rejects a JSON object or array there; no named type, no custom unmarshaller in between)
	sb.WriteString("def c20PlainScalars : List String := [\n  " + strings.Join(plain, ", ") + "]\n\n")
	// the JSON kind each of them accepts: "string", "bool" or "num"
	sb.WriteString("def c20ScalarKinds : List (String × String) := [\n  " + strings.Join(kinds, ", ") + "]\n\nend KinModel.Gen\n")
	return sb.String(), nil
}
