package main

// Table ReasonSites (C19): every expression that becomes the Reason of an openapi3.SchemaError, and every error
// text produced by a format validator, with each formatted argument classified by a small syntactic dataflow:
//   lit        string literal of the source
//   schema     a field of the schema (or of the validator's configuration), or something computed from one
//   key        a property NAME of the validated value
//   index      an index (loop counter / matched branch numbers)
//   validator  text of an error returned by a format validator or by the regexp compiler
//   valuetype  %T of the value (a Go type name)
//   VALUE      the validated value or a part of it            <- what the property forbids
//   unknown    the rule could not read the code shape         <- breaks the obligation, never skipped
// Rows carry no line numbers (a harmless move of code does not change the table).

import (
	"fmt"
	"go/ast"
	"go/parser"
	"go/token"
	"path/filepath"
	"sort"
	"strconv"
	"strings"
)

func init() { register("ReasonSites", extractReasonSites) }

type reasonRow struct {
	fn, field, format string
	args              []string
	file              string
	line              int
}

type fnScope struct {
	fset *token.FileSet
	fn   *ast.FuncDecl
	recv string
}

// definitions of an identifier inside the function, each with the position and the defining expression
type identDef struct {
	end   token.Pos // the definition is visible to uses after this position
	pos   token.Pos
	rhs   ast.Expr
	kind  string // "assign" | "rangekey" | "rangeval" | "param" | "recv"
	rangX ast.Expr
}

func (s *fnScope) defs(name string) []identDef {
	var out []identDef
	if s.fn.Recv != nil {
		for _, f := range s.fn.Recv.List {
			for _, n := range f.Names {
				if n.Name == name {
					out = append(out, identDef{pos: n.Pos(), kind: "recv"})
				}
			}
		}
	}
	for _, f := range s.fn.Type.Params.List {
		for _, n := range f.Names {
			if n.Name == name {
				out = append(out, identDef{pos: n.Pos(), kind: "param"})
			}
		}
	}
	if s.fn.Type.Results != nil {
		for _, f := range s.fn.Type.Results.List {
			for _, n := range f.Names {
				if n.Name == name {
					out = append(out, identDef{pos: n.Pos(), kind: "result"})
				}
			}
		}
	}
	ast.Inspect(s.fn.Body, func(n ast.Node) bool {
		switch x := n.(type) {
		case *ast.AssignStmt:
			for i, l := range x.Lhs {
				if id, ok := l.(*ast.Ident); ok && id.Name == name {
					var rhs ast.Expr
					if len(x.Rhs) == len(x.Lhs) {
						rhs = x.Rhs[i]
					} else if len(x.Rhs) == 1 {
						rhs = x.Rhs[0]
					}
					out = append(out, identDef{pos: id.Pos(), end: x.End(), rhs: rhs, kind: "assign"})
				}
			}
		case *ast.RangeStmt:
			if id, ok := x.Key.(*ast.Ident); ok && id.Name == name {
				out = append(out, identDef{pos: id.Pos(), kind: "rangekey", rangX: x.X})
			}
			if id, ok := x.Value.(*ast.Ident); ok && id.Name == name {
				out = append(out, identDef{pos: id.Pos(), kind: "rangeval", rangX: x.X})
			}
		case *ast.ValueSpec:
			for i, id := range x.Names {
				if id.Name == name {
					var rhs ast.Expr
					if i < len(x.Values) {
						rhs = x.Values[i]
					}
					out = append(out, identDef{pos: id.Pos(), rhs: rhs, kind: "assign"})
				}
			}
		}
		return true
	})
	sort.Slice(out, func(i, j int) bool { return out[i].pos < out[j].pos })
	return out
}

// appended finds `name = append(name, y…)` and returns the y expressions.
func (s *fnScope) appended(name string) []ast.Expr {
	var out []ast.Expr
	ast.Inspect(s.fn.Body, func(n ast.Node) bool {
		if as, ok := n.(*ast.AssignStmt); ok && len(as.Lhs) == 1 && len(as.Rhs) == 1 {
			if id, ok := as.Lhs[0].(*ast.Ident); ok && id.Name == name {
				if call, ok := as.Rhs[0].(*ast.CallExpr); ok {
					if f, ok := call.Fun.(*ast.Ident); ok && f.Name == "append" && len(call.Args) >= 2 {
						out = append(out, call.Args[1:]...)
					}
				}
			}
		}
		return true
	})
	return out
}

var valueParamNames = map[string]bool{"value": true, "item": true, "discriminatorVal": true, "discriminatorValString": true, "valuemap": true}

func (s *fnScope) classify(e ast.Expr, at token.Pos, depth int) string {
	if depth > 12 || e == nil {
		return "unknown"
	}
	switch x := e.(type) {
	case *ast.BasicLit:
		return "lit"
	case *ast.ParenExpr:
		return s.classify(x.X, at, depth+1)
	case *ast.StarExpr:
		return s.classify(x.X, at, depth+1)
	case *ast.UnaryExpr:
		return s.classify(x.X, at, depth+1)
	case *ast.SelectorExpr:
		// err.Error(), schemaErr.Reason handled by CallExpr / root
		return s.classify(x.X, at, depth+1)
	case *ast.IndexExpr:
		return s.classify(x.X, at, depth+1)
	case *ast.SliceExpr:
		return s.classify(x.X, at, depth+1)
	case *ast.CallExpr:
		if sel, ok := x.Fun.(*ast.SelectorExpr); ok {
			if sel.Sel.Name == "Error" || sel.Sel.Name == "String" {
				return s.classify(sel.X, at, depth+1)
			}
			if pk, ok := sel.X.(*ast.Ident); ok {
				switch pk.Name + "." + sel.Sel.Name {
				case "regexp.Compile", "regexp.MustCompile":
					return "validator"
				case "strings.Join", "json.Marshal", "strconv.FormatInt", "fmt.Sprint":
					if len(x.Args) > 0 {
						return s.classify(x.Args[0], at, depth+1)
					}
				case "fmt.Sprintf", "fmt.Errorf":
					worst := "lit"
					for _, a := range x.Args[1:] {
						worst = worse(worst, s.classify(a, at, depth+1))
					}
					return worst
				}
			}
			// a method call on something: class of the receiver (f.Validate(value) -> validator)
			if sel.Sel.Name == "Validate" {
				return "validator"
			}
			return s.classify(sel.X, at, depth+1)
		}
		if f, ok := x.Fun.(*ast.Ident); ok {
			switch f.Name {
			case "string", "int64", "float64", "int":
				if len(x.Args) == 1 {
					return s.classify(x.Args[0], at, depth+1)
				}
			case "c": // regex compiler callback
				return "validator"
			case "append":
				worst := "lit"
				for _, a := range x.Args[1:] {
					worst = worse(worst, s.classify(a, at, depth+1))
				}
				return worst
			case "make":
				return "lit"
			}
		}
		return "unknown"
	case *ast.Ident:
		if x.Name == "nil" {
			return "lit"
		}
		ds := s.defs(x.Name)
		var d *identDef
		for i := range ds {
			if ds[i].pos < at && ds[i].end < at {
				d = &ds[i]
			}
		}
		if d == nil {
			// package-level helper or constant
			if x.Obj == nil || x.Obj.Kind == ast.Con {
				return "lit"
			}
			return "unknown"
		}
		switch d.kind {
		case "result":
			return "lit"
		case "recv":
			if x.Name == "schema" {
				return "schema"
			}
			return "schema" // validator receivers (s, r): configuration
		case "param":
			if valueParamNames[x.Name] {
				return "VALUE"
			}
			if x.Name == "settings" || x.Name == "c" {
				return "schema"
			}
			if x.Name == "pattern" || x.Name == "format" {
				return "schema"
			}
			return "unknown"
		case "rangekey":
			c := s.classify(d.rangX, d.pos, depth+1)
			if c == "VALUE" {
				return "key"
			}
			if id, ok := d.rangX.(*ast.Ident); ok {
				// for idx, item := range v  → index
				_ = id
			}
			return "index"
		case "rangeval":
			// elements of a slice: of what? a slice built by append → class of what was appended
			if id, ok := d.rangX.(*ast.Ident); ok {
				if apps := s.appended(id.Name); len(apps) > 0 {
					worst := "lit"
					for _, a := range apps {
						worst = worse(worst, s.classify(a, a.Pos(), depth+1))
					}
					return worst
				}
			}
			return s.classify(d.rangX, d.pos, depth+1)
		case "assign":
			if d.rhs == nil {
				// declared without value, filled later by append or assignment
				if apps := s.appended(x.Name); len(apps) > 0 {
					worst := "lit"
					for _, a := range apps {
						worst = worse(worst, s.classify(a, a.Pos(), depth+1))
					}
					return worst
				}
				return "lit"
			}
			// x, ok := m[k] / v.(T): class of the source
			if ta, ok := d.rhs.(*ast.TypeAssertExpr); ok {
				return s.classify(ta.X, d.pos, depth+1)
			}
			if call, ok := d.rhs.(*ast.CallExpr); ok {
				if f, ok := call.Fun.(*ast.Ident); ok && f.Name == "make" {
					if apps := s.appended(x.Name); len(apps) > 0 {
						worst := "lit"
						for _, a := range apps {
							worst = worse(worst, s.classify(a, a.Pos(), depth+1))
						}
						return worst
					}
					return "lit"
				}
			}
			return s.classify(d.rhs, d.pos, depth+1)
		}
	case *ast.CompositeLit:
		worst := "lit"
		for _, el := range x.Elts {
			worst = worse(worst, s.classify(el, at, depth+1))
		}
		return worst
	case *ast.BinaryExpr:
		return worse(s.classify(x.X, at, depth+1), s.classify(x.Y, at, depth+1))
	}
	return "unknown"
}

var classRank = map[string]int{"lit": 0, "schema": 1, "index": 2, "key": 3, "validator": 4, "valuetype": 5, "unknown": 8, "VALUE": 9}

func worse(a, b string) string {
	if classRank[b] > classRank[a] {
		return b
	}
	return a
}

func isSchemaErrorLit(cl *ast.CompositeLit) bool {
	switch t := cl.Type.(type) {
	case *ast.Ident:
		return t.Name == "SchemaError"
	case *ast.SelectorExpr:
		return t.Sel.Name == "SchemaError"
	}
	return false
}

func (s *fnScope) reasonRow(field string, e ast.Expr) reasonRow {
	row := reasonRow{fn: s.fn.Name.Name, field: field}
	p := s.fset.Position(e.Pos())
	row.file, row.line = filepath.Base(p.Filename), p.Line
	switch x := e.(type) {
	case *ast.BasicLit:
		row.format, _ = strconv.Unquote(x.Value)
		return row
	case *ast.CallExpr:
		if sel, ok := x.Fun.(*ast.SelectorExpr); ok {
			if pk, ok := sel.X.(*ast.Ident); ok && pk.Name == "fmt" && (sel.Sel.Name == "Sprintf" || sel.Sel.Name == "Errorf") && len(x.Args) >= 1 {
				if lit, ok := x.Args[0].(*ast.BasicLit); ok {
					row.format, _ = strconv.Unquote(lit.Value)
					verbs := fmtVerbs(row.format)
					for i, a := range x.Args[1:] {
						c := s.classify(a, a.Pos(), 0)
						if i < len(verbs) && verbs[i] == 'T' && c == "VALUE" {
							c = "valuetype"
						}
						if i < len(verbs) && verbs[i] == 'w' {
							c = "validator" // wrapped error of a validator / compiler
						}
						row.args = append(row.args, c)
					}
					return row
				}
			}
		}
	case *ast.Ident:
		// a variable holding the text (formatStrErr): its defining Sprintf
		ds := s.defs(x.Name)
		var rows []reasonRow
		for _, d := range ds {
			if d.rhs != nil {
				if _, isLit := d.rhs.(*ast.BasicLit); isLit {
					continue
				}
				rows = append(rows, s.reasonRow(field, d.rhs))
			}
		}
		if len(rows) > 0 {
			// several assignments (integer / number formats): emit the first here, the others are added by the caller
			r := rows[0]
			r.format = joinFormats(rows)
			r.args = joinArgs(rows)
			return r
		}
	}
	row.format = "<unrecognised>"
	row.args = []string{"unknown"}
	return row
}

func joinFormats(rows []reasonRow) string {
	var fs []string
	for _, r := range rows {
		fs = append(fs, r.format)
	}
	return strings.Join(fs, " | ")
}
func joinArgs(rows []reasonRow) []string {
	var out []string
	for _, r := range rows {
		out = append(out, r.args...)
	}
	return out
}

func fmtVerbs(f string) []byte {
	var out []byte
	for i := 0; i < len(f); i++ {
		if f[i] == '%' {
			i++
			for i < len(f) && strings.ContainsRune("+-# 0123456789.", rune(f[i])) {
				i++
			}
			if i < len(f) && f[i] != '%' {
				out = append(out, f[i])
			}
		}
	}
	return out
}

func rsLeanStr(s string) string { return strconv.Quote(s) }

func extractReasonSites(repo string) (string, error) {
	fset := token.NewFileSet()
	var rows []reasonRow
	files := []string{"schema.go", "schema_formats.go", "schema_pattern.go"}
	for _, fname := range files {
		f, err := parser.ParseFile(fset, filepath.Join(repo, "openapi3", fname), nil, 0)
		if err != nil {
			return "", err
		}
		for _, d := range f.Decls {
			fd, ok := d.(*ast.FuncDecl)
			if !ok || fd.Body == nil {
				continue
			}
			sc := &fnScope{fset: fset, fn: fd}
			ast.Inspect(fd.Body, func(n ast.Node) bool {
				switch x := n.(type) {
				case *ast.CompositeLit:
					if !isSchemaErrorLit(x) || len(x.Elts) == 0 {
						return true
					}
					field := ""
					var reason ast.Expr
					for _, el := range x.Elts {
						kv, ok := el.(*ast.KeyValueExpr)
						if !ok {
							continue
						}
						k, _ := kv.Key.(*ast.Ident)
						if k == nil {
							continue
						}
						if k.Name == "SchemaField" {
							if lit, ok := kv.Value.(*ast.BasicLit); ok {
								field, _ = strconv.Unquote(lit.Value)
							}
						}
						if k.Name == "Reason" {
							reason = kv.Value
						}
					}
					if reason != nil {
						rows = append(rows, sc.reasonRow(field, reason))
					} else {
						p := fset.Position(x.Pos())
						rows = append(rows, reasonRow{fn: fd.Name.Name, field: field, format: "", file: filepath.Base(p.Filename), line: p.Line})
					}
				case *ast.AssignStmt:
					// e.Reason = …
					for i, l := range x.Lhs {
						if sel, ok := l.(*ast.SelectorExpr); ok && sel.Sel.Name == "Reason" && i < len(x.Rhs) {
							rows = append(rows, sc.reasonRow("<assigned>", x.Rhs[i]))
						}
					}
				case *ast.ReturnStmt:
					// validator error texts: return fmt.Errorf(…) inside Validate methods of schema_formats.go
					if fname == "schema_formats.go" && fd.Name.Name == "Validate" {
						for _, r := range x.Results {
							if call, ok := r.(*ast.CallExpr); ok {
								if sel, ok := call.Fun.(*ast.SelectorExpr); ok && sel.Sel.Name == "Errorf" {
									rows = append(rows, sc.reasonRow("<validator>", call))
								}
							}
						}
					}
				}
				return true
			})
		}
	}
	var b strings.Builder
	b.WriteString("/- GENERATED by go/cmd/extract (table ReasonSites) from openapi3/schema.go, schema_formats.go, schema_pattern.go — do not edit -/\n")
	b.WriteString("namespace KinModel.Gen\n\nstructure ReasonSite where\n  fn : String\n  field : String\n  format : String\n  args : List String\n  deriving DecidableEq, Repr\n\n")
	fmt.Fprintf(&b, "-- rows: %d\n", len(rows))
	b.WriteString("def reasonSites : List ReasonSite := [\n")
	for i, r := range rows {
		var as []string
		for _, a := range r.args {
			as = append(as, rsLeanStr(a))
		}
		sep := ","
		if i == len(rows)-1 {
			sep = ""
		}
		fmt.Fprintf(&b, "  ⟨%s, %s, %s, [%s]⟩%s  -- %s:%d\n", rsLeanStr(r.fn), rsLeanStr(r.field), rsLeanStr(r.format), strings.Join(as, ", "), sep, r.file, r.line)
	}
	b.WriteString("]\n\nend KinModel.Gen\n")
	return b.String(), nil
}
