package main

// Table C10CacheSites (C10): state the library keeps between calls in process-wide caches — every package-level
// variable of type sync.Map in openapi3 and openapi3filter (non-test files) and every use of it. Read with go/parser.
//
//   .store <var> <function> <method> <errGuarded> <effective>
//        a storing call (Store, LoadOrStore, Swap, CompareAndSwap). errGuarded: the statement stands at the top level
//        of the function body after an `if err != nil { …; return }` (no else), or inside `if err == nil { … }` — it is
//        reached only when the computation of the stored value did not fail. effective: false for
//        CompareAndSwap(k, nil, v), which never stores (a sync.Map holds no nil for an absent key).
//   .load <var> <function>            a Load call
//   .other <var> <function> <method>  Delete, LoadAndDelete, CompareAndDelete, Range, Clear
//   .unrecognised <what>              any other mention of the variable (address taken, passed on, assigned), or a
//                                     storing call in a place the rule cannot read (nested block, function literal)
//
// Obligation (Props/C10 `cache_stores_err_guarded`): every store is errGuarded, nothing unrecognised, at least one
// store and one load were found. The model (NoPanic/PatternCache.lean) derives its configuration from the rows.

import (
	"fmt"
	"go/ast"
	"go/token"
	"sort"
	"strings"
)

func init() { register("C10CacheSites", c10CacheSites) }

func c10IsErrCmp(e ast.Expr, op token.Token) bool {
	b, ok := e.(*ast.BinaryExpr)
	if !ok || b.Op != op {
		return false
	}
	x, ok1 := b.X.(*ast.Ident)
	y, ok2 := b.Y.(*ast.Ident)
	return ok1 && ok2 && x.Name == "err" && y.Name == "nil"
}

func c10Contains(n ast.Node, target ast.Node) bool {
	found := false
	ast.Inspect(n, func(x ast.Node) bool {
		if x == target {
			found = true
		}
		return !found
	})
	return found
}

func c10CacheSites(repo string) (string, error) {
	var rows []string
	unrec := func(s string) { rows = append(rows, "  .unrecognised "+pani_leanStr(s)) }
	nVars := 0
	for _, dir := range []string{"openapi3", "openapi3filter"} {
		fset, files, names, err := c10ParseDir(repo, dir)
		if err != nil {
			return "", err
		}
		vars := map[string]bool{}
		for _, f := range files {
			for _, d := range f.Decls {
				gd, ok := d.(*ast.GenDecl)
				if !ok || gd.Tok != token.VAR {
					continue
				}
				for _, sp := range gd.Specs {
					vs := sp.(*ast.ValueSpec)
					if se, ok := vs.Type.(*ast.SelectorExpr); ok {
						if x, ok := se.X.(*ast.Ident); ok && x.Name == "sync" && se.Sel.Name == "Map" {
							for _, n := range vs.Names {
								vars[n.Name] = true
								nVars++
							}
						}
					}
				}
			}
		}
		if len(vars) == 0 {
			continue
		}
		for fi, f := range files {
			for _, d := range f.Decls {
				fd, ok := d.(*ast.FuncDecl)
				if !ok || fd.Body == nil {
					continue
				}
				fname := fd.Name.Name
				if fd.Recv != nil && len(fd.Recv.List) == 1 {
					fname = psRecvName(fd.Recv.List[0].Type) + "." + fname
				}
				handled := map[*ast.Ident]bool{}
				ast.Inspect(fd.Body, func(n ast.Node) bool {
					call, ok := n.(*ast.CallExpr)
					if !ok {
						return true
					}
					se, ok := call.Fun.(*ast.SelectorExpr)
					if !ok {
						return true
					}
					id, ok := se.X.(*ast.Ident)
					if !ok || !vars[id.Name] {
						return true
					}
					handled[id] = true
					pos := fmt.Sprintf("%s:%d", names[fi], fset.Position(call.Pos()).Line)
					switch m := se.Sel.Name; m {
					case "Load":
						rows = append(rows, fmt.Sprintf("  .load %s %s", pani_leanStr(id.Name), pani_leanStr(fname)))
					case "Store", "LoadOrStore", "Swap", "CompareAndSwap":
						effective := true
						if m == "CompareAndSwap" && len(call.Args) == 3 {
							if o, ok := call.Args[1].(*ast.Ident); ok && o.Name == "nil" {
								effective = false
							}
						}
						// the top-level statement of the body that holds the call
						idx := -1
						for i, st := range fd.Body.List {
							if c10Contains(st, call) {
								idx = i
							}
						}
						if idx < 0 {
							unrec("storing call outside the function body list: " + pos)
							return true
						}
						guarded := false
						switch st := fd.Body.List[idx].(type) {
						case *ast.ExprStmt, *ast.AssignStmt, *ast.DeclStmt:
							for j := 0; j < idx; j++ {
								is, ok := fd.Body.List[j].(*ast.IfStmt)
								if !ok || is.Init != nil || is.Else != nil || !c10IsErrCmp(is.Cond, token.NEQ) || len(is.Body.List) == 0 {
									continue
								}
								if _, ok := is.Body.List[len(is.Body.List)-1].(*ast.ReturnStmt); ok {
									guarded = true
								}
							}
						case *ast.IfStmt:
							// if err == nil { <the call as a statement of the block> }
							if st.Init == nil && c10IsErrCmp(st.Cond, token.EQL) {
								for _, inner := range st.Body.List {
									switch inner.(type) {
									case *ast.ExprStmt, *ast.AssignStmt, *ast.DeclStmt:
										if c10Contains(inner, call) {
											guarded = true
										}
									}
								}
							}
							if !guarded {
								unrec("storing call in a conditional the rule cannot read: " + pos)
								return true
							}
						default:
							unrec("storing call in a nested statement: " + pos)
							return true
						}
						rows = append(rows, fmt.Sprintf("  .store %s %s %s %v %v", pani_leanStr(id.Name), pani_leanStr(fname), pani_leanStr(m), guarded, effective))
					case "Delete", "LoadAndDelete", "CompareAndDelete", "Range", "Clear":
						rows = append(rows, fmt.Sprintf("  .other %s %s %s", pani_leanStr(id.Name), pani_leanStr(fname), pani_leanStr(m)))
					default:
						unrec("unknown method " + m + ": " + pos)
					}
					return true
				})
				ast.Inspect(fd.Body, func(n ast.Node) bool {
					if id, ok := n.(*ast.Ident); ok && vars[id.Name] && !handled[id] {
						if id.Obj != nil { // resolved inside the file: the package-level declaration itself, or a local that shadows it
							vs, ok := id.Obj.Decl.(*ast.ValueSpec)
							if !ok {
								return true
							}
							if se, ok := vs.Type.(*ast.SelectorExpr); !ok || se.Sel.Name != "Map" {
								return true
							}
						}
						unrec(fmt.Sprintf("other use of %s: %s:%d", id.Name, names[fi], fset.Position(id.Pos()).Line))
					}
					return true
				})
			}
		}
	}
	if nVars == 0 {
		unrec("no package-level sync.Map found in openapi3 / openapi3filter")
	}
	sort.Strings(rows)
	var sb strings.Builder
	sb.WriteString("/- GENERATED by go/cmd/extract (table C10CacheSites) from the repository's current source. Do not edit. -/\n")
	sb.WriteString("import KinModel.NoPanic.PatternCache\nnamespace KinModel.Gen\nopen KinModel.NoPanic.PatternCache\n\n")
	fmt.Fprintf(&sb, "-- rows: %d\n", len(rows))
	sb.WriteString("def c10CacheSites : List Row := [\n" + strings.Join(rows, ",\n") + "]\n\nend KinModel.Gen\n")
	return sb.String(), nil
}
