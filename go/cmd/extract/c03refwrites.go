package main

// Table C03RefWrites (property C03, the Loader route): what openapi3/loader.go does to the `Ref` text of the
// nodes it resolves.  The tree model of the loaded document (KinModel/Marshal.lean: resolveG) keeps the `Ref` of
// every node; this table is the tie of that assumption to the code.
//
//   c03RefBlocks  one row per block `if v := X.Ref; v != "" { … }` (the reference branch of a resolver):
//                 function, owner X, variable v, number of top-level statements
//   c03RefKeys    per block: the text of `key := …` (the in-progress key), the two arguments of the deferred
//                 `loader.unvisitRef(key, value)` (the value handed to the queued callbacks) and the index of that statement
//   c03RefTops    one row per top-level statement of such a block, in source order:
//                 overwrite  it contains `*X = …` outside a function literal (the whole node, Ref included, is replaced)
//                 retAfter   a return statement can be reached after that overwrite before the statement is left
//                 hasReturn  it contains a return statement (outside function literals)
//                 restore    it is the statement `X.Ref = v`
//                 litCopy    it contains `*X = …` inside a function literal (the in-progress callback)
//   c03RefWrites  every statement of the file that can change a Ref text: an assignment / inc-dec whose left-hand
//                 side is a selector `.Ref`, `&E.Ref`, an assignment through `*E`; `accounted` = it is the restore
//                 statement of a block of its own target, or an overwrite of the owner inside the owner's block.
//   c03DocWrites  every store of the file into a field or an element (assignment, inc/dec), every `delete(m, k)` and every
//                 `.Set(…)` / `.Delete(…)` call: function, kind, leftmost identifier of what is written into, its text,
//                 and whether it lies inside the reference block whose owner is that identifier
// A shape the rule cannot read (overwrite inside a loop, the variable v re-assigned, a multi-value assignment to Ref)
// is an explicit `unrecognised` row.

import (
	"fmt"
	"go/ast"
	"go/parser"
	"go/token"
	"path/filepath"
	"strings"
)

func init() { register("C03RefWrites", extractC03RefWrites) }

func c03HasReturn(n ast.Node) bool {
	found := false
	if n == nil {
		return false
	}
	ast.Inspect(n, func(x ast.Node) bool {
		switch x.(type) {
		case *ast.FuncLit:
			return false
		case *ast.ReturnStmt:
			found = true
		case *ast.BranchStmt:
			found = true // goto / break / continue: treated like a return (conservative)
		}
		return true
	})
	return found
}

// c03After: does statement s contain an overwrite (isOW) outside function literals, can a return follow it before s
// is left, is it inside a loop
func c03After(s ast.Stmt, isOW func(ast.Stmt) bool) (has, ret, loop bool) {
	list := func(l []ast.Stmt) (bool, bool, bool) {
		h, r, lp := false, false, false
		for i, st := range l {
			h1, r1, l1 := c03After(st, isOW)
			if !h1 {
				continue
			}
			h = true
			r = r || r1
			lp = lp || l1
			for _, later := range l[i+1:] {
				if c03HasReturn(later) {
					r = true
				}
			}
		}
		return h, r, lp
	}
	switch x := s.(type) {
	case nil:
		return false, false, false
	case *ast.AssignStmt:
		return isOW(x), false, false
	case *ast.BlockStmt:
		if x == nil {
			return false, false, false
		}
		return list(x.List)
	case *ast.IfStmt:
		h0, r0, l0 := c03After(x.Init, isOW)
		if h0 && (c03HasReturn(x.Body) || c03HasReturn(x.Else)) {
			r0 = true
		}
		h1, r1, l1 := list(x.Body.List)
		h2, r2, l2 := false, false, false
		if x.Else != nil {
			h2, r2, l2 = c03After(x.Else, isOW)
		}
		return h0 || h1 || h2, r0 || r1 || r2, l0 || l1 || l2
	case *ast.ForStmt:
		h, r, _ := list(x.Body.List)
		return h, r, h
	case *ast.RangeStmt:
		h, r, _ := list(x.Body.List)
		return h, r, h
	case *ast.LabeledStmt:
		return c03After(x.Stmt, isOW)
	case *ast.SwitchStmt:
		return c03Clauses(x.Body, isOW)
	case *ast.TypeSwitchStmt:
		return c03Clauses(x.Body, isOW)
	case *ast.SelectStmt:
		return c03Clauses(x.Body, isOW)
	case *ast.CaseClause:
		h, r, lp := false, false, false
		for i, st := range x.Body {
			h1, r1, l1 := c03After(st, isOW)
			if h1 {
				h, r, lp = true, r || r1, lp || l1
				for _, later := range x.Body[i+1:] {
					if c03HasReturn(later) {
						r = true
					}
				}
			}
		}
		return h, r, lp
	case *ast.CommClause:
		h, r, lp := false, false, false
		for i, st := range x.Body {
			h1, r1, l1 := c03After(st, isOW)
			if h1 {
				h, r, lp = true, r || r1, lp || l1
				for _, later := range x.Body[i+1:] {
					if c03HasReturn(later) {
						r = true
					}
				}
			}
		}
		return h, r, lp
	}
	return false, false, false
}

func c03Clauses(b *ast.BlockStmt, isOW func(ast.Stmt) bool) (bool, bool, bool) {
	h, r, lp := false, false, false
	for _, c := range b.List {
		h1, r1, l1 := c03After(c, isOW)
		h, r, lp = h || h1, r || r1, lp || l1
	}
	return h, r, lp
}

// c03Base: the leftmost identifier of an expression (what is written into)
func c03Base(e ast.Expr) string {
	switch x := e.(type) {
	case *ast.Ident:
		return x.Name
	case *ast.SelectorExpr:
		return c03Base(x.X)
	case *ast.IndexExpr:
		return c03Base(x.X)
	case *ast.StarExpr:
		return c03Base(x.X)
	case *ast.ParenExpr:
		return c03Base(x.X)
	case *ast.CallExpr:
		return "call:" + c03Base(x.Fun)
	}
	return "?"
}

func extractC03RefWrites(repo string) (string, error) {
	fset := token.NewFileSet()
	file, err := parser.ParseFile(fset, filepath.Join(repo, "openapi3", "loader.go"), nil, 0)
	if err != nil {
		return "", err
	}
	pos := func(p token.Pos) string { return fmt.Sprintf("loader.go:%d", fset.Position(p).Line) }
	txt := func(e ast.Expr) string { return read_exprText(fset, e) }
	lb := func(b bool) string {
		if b {
			return "true"
		}
		return "false"
	}
	type block struct {
		fn, owner, v string
		body          *ast.BlockStmt
	}
	var blocksOut, topsOut, writesOut, keysOut, docOut []string
	for _, decl := range file.Decls {
		fd, ok := decl.(*ast.FuncDecl)
		if !ok || fd.Body == nil {
			continue
		}
		fn := fd.Name.Name
		// function literals of this function
		var lits []*ast.FuncLit
		ast.Inspect(fd.Body, func(n ast.Node) bool {
			if l, ok := n.(*ast.FuncLit); ok {
				lits = append(lits, l)
			}
			return true
		})
		inLit := func(p token.Pos) bool {
			for _, l := range lits {
				if l.Pos() <= p && p < l.End() {
					return true
				}
			}
			return false
		}
		// the reference blocks
		var blocks []block
		ast.Inspect(fd.Body, func(n ast.Node) bool {
			is, ok := n.(*ast.IfStmt)
			if !ok || is.Init == nil {
				return true
			}
			as, ok := is.Init.(*ast.AssignStmt)
			if !ok || as.Tok != token.DEFINE || len(as.Lhs) != 1 || len(as.Rhs) != 1 {
				return true
			}
			id, ok := as.Lhs[0].(*ast.Ident)
			se, ok2 := as.Rhs[0].(*ast.SelectorExpr)
			if !ok || !ok2 || se.Sel.Name != "Ref" {
				return true
			}
			if txt(is.Cond) != id.Name+` != ""` {
				writesOut = append(writesOut, fmt.Sprintf("  ⟨%q, \"unrecognised\", %q, %q, false⟩ -- %s", fn, txt(se.X), "condition "+txt(is.Cond), pos(is.Pos())))
				return true
			}
			blocks = append(blocks, block{fn, txt(se.X), id.Name, is.Body})
			return true
		})
		accounted := map[ast.Stmt]bool{}
		for _, b := range blocks {
			blocksOut = append(blocksOut, fmt.Sprintf("  (%q, %q, %q, %d) -- %s", b.fn, b.owner, b.v, len(b.body.List), pos(b.body.Pos())))
			isOW := func(s ast.Stmt) bool {
				as, ok := s.(*ast.AssignStmt)
				if !ok || inLit(as.Pos()) {
					return false
				}
				for _, l := range as.Lhs {
					if st, ok := l.(*ast.StarExpr); ok && txt(st.X) == b.owner {
						return true
					}
				}
				return false
			}
			keyRhs, regKey, regVal, regIdx := "", "", "", 0
			for idx, st := range b.body.List {
				if as, ok := st.(*ast.AssignStmt); ok && as.Tok == token.DEFINE && len(as.Lhs) == 1 && len(as.Rhs) == 1 {
					if id, ok := as.Lhs[0].(*ast.Ident); ok && id.Name == "key" {
						keyRhs = txt(as.Rhs[0])
					}
				}
				if ds, ok := st.(*ast.DeferStmt); ok && calleeName(ds.Call) == "unvisitRef" && len(ds.Call.Args) == 2 {
					regKey, regVal, regIdx = txt(ds.Call.Args[0]), txt(ds.Call.Args[1]), idx
				}
			}
			keysOut = append(keysOut, fmt.Sprintf("  (%q, %q, %q, %q, %d) -- %s", b.fn, keyRhs, regKey, regVal, regIdx, pos(b.body.Pos())))
			for idx, st := range b.body.List {
				has, ret, loop := c03After(st, isOW)
				if loop {
					writesOut = append(writesOut, fmt.Sprintf("  ⟨%q, \"unrecognised\", %q, \"overwrite inside a loop\", false⟩ -- %s", fn, b.owner, pos(st.Pos())))
				}
				restore := false
				if as, ok := st.(*ast.AssignStmt); ok && as.Tok == token.ASSIGN && len(as.Lhs) == 1 && len(as.Rhs) == 1 {
					if se, ok := as.Lhs[0].(*ast.SelectorExpr); ok && se.Sel.Name == "Ref" && txt(se.X) == b.owner && txt(as.Rhs[0]) == b.v {
						restore = true
						accounted[as] = true
					}
				}
				litCopy := false
				ast.Inspect(st, func(n ast.Node) bool {
					as, ok := n.(*ast.AssignStmt)
					if !ok {
						return true
					}
					for _, l := range as.Lhs {
						if se, ok := l.(*ast.StarExpr); ok && txt(se.X) == b.owner {
							accounted[as] = true
							if inLit(as.Pos()) {
								litCopy = true
							}
						}
						if id, ok := l.(*ast.Ident); ok && id.Name == b.v && as.Tok != token.DEFINE {
							writesOut = append(writesOut, fmt.Sprintf("  ⟨%q, \"unrecognised\", %q, \"reference variable re-assigned\", false⟩ -- %s", fn, b.v, pos(as.Pos())))
						}
					}
					return true
				})
				topsOut = append(topsOut, fmt.Sprintf("  ⟨%q, %q, %d, %s, %s, %s, %s, %s⟩ -- %s", b.fn, b.owner, idx, lb(has), lb(ret), lb(c03HasReturn(st)), lb(restore), lb(litCopy), pos(st.Pos())))
			}
		}
		// every store into a field or element, delete and Set call of the function
		ownerBlock := func(p token.Pos, base string) bool {
			for _, b := range blocks {
				if b.body.Pos() <= p && p < b.body.End() && b.owner == base {
					return true
				}
			}
			return false
		}
		docRow := func(kind string, e ast.Expr, p token.Pos) {
			t := txt(e)
			if len(t) > 60 {
				t = t[:60]
			}
			base := c03Base(e)
			docOut = append(docOut, fmt.Sprintf("  ⟨%q, %q, %q, %q, %s⟩ -- %s", fn, kind, base, t, lb(ownerBlock(p, base)), pos(p)))
		}
		ast.Inspect(fd.Body, func(n ast.Node) bool {
			switch x := n.(type) {
			case *ast.AssignStmt:
				for _, l := range x.Lhs {
					switch l.(type) {
					case *ast.SelectorExpr:
						docRow("field", l, x.Pos())
					case *ast.IndexExpr:
						docRow("elem", l, x.Pos())
					}
				}
			case *ast.IncDecStmt:
				switch x.X.(type) {
				case *ast.SelectorExpr, *ast.IndexExpr:
					docRow("field", x.X, x.Pos())
				}
			case *ast.CallExpr:
				if id, ok := x.Fun.(*ast.Ident); ok && id.Name == "delete" && len(x.Args) > 0 {
					docRow("delete", x.Args[0], x.Pos())
				}
				if se, ok := x.Fun.(*ast.SelectorExpr); ok && (se.Sel.Name == "Set" || se.Sel.Name == "Delete") {
					docRow("set", se.X, x.Pos())
				}
			}
			return true
		})
		// every statement that can change a Ref text
		ast.Inspect(fd.Body, func(n ast.Node) bool {
			switch x := n.(type) {
			case *ast.AssignStmt:
				for i, l := range x.Lhs {
					rhs := ""
					if len(x.Rhs) == len(x.Lhs) {
						rhs = txt(x.Rhs[i])
					} else {
						rhs = "multi-value"
					}
					if len(rhs) > 60 {
						rhs = rhs[:60]
					}
					if se, ok := l.(*ast.SelectorExpr); ok && se.Sel.Name == "Ref" {
						kind := "ref"
						if x.Tok != token.ASSIGN || len(x.Rhs) != len(x.Lhs) {
							kind = "unrecognised"
						}
						writesOut = append(writesOut, fmt.Sprintf("  ⟨%q, %q, %q, %q, %s⟩ -- %s", fn, kind, txt(se.X), rhs, lb(accounted[x]), pos(x.Pos())))
					}
					if st, ok := l.(*ast.StarExpr); ok {
						writesOut = append(writesOut, fmt.Sprintf("  ⟨%q, \"deref\", %q, %q, %s⟩ -- %s", fn, txt(st.X), rhs, lb(accounted[x]), pos(x.Pos())))
					}
				}
			case *ast.IncDecStmt:
				if se, ok := x.X.(*ast.SelectorExpr); ok && se.Sel.Name == "Ref" {
					writesOut = append(writesOut, fmt.Sprintf("  ⟨%q, \"unrecognised\", %q, \"inc/dec\", false⟩ -- %s", fn, txt(se.X), pos(x.Pos())))
				}
			case *ast.UnaryExpr:
				if x.Op == token.AND {
					if se, ok := x.X.(*ast.SelectorExpr); ok && se.Sel.Name == "Ref" {
						writesOut = append(writesOut, fmt.Sprintf("  ⟨%q, \"unrecognised\", %q, \"address taken\", false⟩ -- %s", fn, txt(se.X), pos(x.Pos())))
					}
				}
			}
			return true
		})
	}
	join := func(rows []string) string {
		// the separating comma goes before the trailing comment
		var b strings.Builder
		for i, r := range rows {
			if i < len(rows)-1 {
				k := strings.LastIndex(r, " -- ")
				r = r[:k] + "," + r[k:]
			}
			b.WriteString(r + "\n")
		}
		return b.String()
	}
	var b strings.Builder
	b.WriteString("-- GENERATED by go/cmd/extract (table C03RefWrites) from openapi3/loader.go — do not edit\n")
	b.WriteString("namespace KinModel.Gen\n\n")
	b.WriteString("structure C03RefTop where\n  fn : String\n  owner : String\n  idx : Nat\n  overwrite : Bool\n  retAfter : Bool\n  hasReturn : Bool\n  restore : Bool\n  litCopy : Bool\n  deriving DecidableEq, Repr\n\n")
	b.WriteString("structure C03DocWrite where\n  fn : String\n  kind : String\n  base : String\n  lhs : String\n  inOwnerBlock : Bool\n  deriving DecidableEq, Repr\n\n")
	b.WriteString("structure C03RefWrite where\n  fn : String\n  kind : String\n  target : String\n  rhs : String\n  accounted : Bool\n  deriving DecidableEq, Repr\n\n")
	fmt.Fprintf(&b, "-- rows: %d\n", len(blocksOut)+len(keysOut)+len(topsOut)+len(writesOut)+len(docOut))
	b.WriteString("def c03RefBlocks : List (String × String × String × Nat) := [\n" + join(blocksOut) + "]\n\n")
	b.WriteString("def c03RefKeys : List (String × String × String × String × Nat) := [\n" + join(keysOut) + "]\n\n")
	b.WriteString("def c03RefTops : List C03RefTop := [\n" + join(topsOut) + "]\n\n")
	b.WriteString("def c03RefWrites : List C03RefWrite := [\n" + join(writesOut) + "]\n\n")
	b.WriteString("def c03DocWrites : List C03DocWrite := [\n" + join(docOut) + "]\n\nend KinModel.Gen\n")
	return b.String(), nil
}
