package main

// Table VisitSites (C19, C12): every call of (*openapi3.Schema).VisitJSON in openapi3filter (non-test files) with the
// schema validation options that reach it. For the options slice handed to the call, the rule lists every
// `x = append(x, openapi3.<Option>(…))` that DOMINATES the call: a top-level statement of the function body placed
// before the statement containing the call, either unconditional ("always") or the single statement of an `if`
// without else ("if <condition>"); plus the options appended in the call expression itself. When the slice is a
// parameter of the function, the rule follows every call of that function inside the package and reports one row per
// caller. Anything else (a slice built in a nested block, a helper returning options, a second assignment) is
// reported as status "unrecognised" (position in the row comment), never skipped.
// Rows carry no line numbers.

import (
	"bytes"
	"fmt"
	"go/ast"
	"go/parser"
	"go/printer"
	"go/token"
	"os"
	"path/filepath"
	"sort"
	"strings"
)

func init() { register("VisitSites", extractVisitSites) }

type visitRow struct {
	fn   string   // function containing the VisitJSON call
	via  string   // "" or the caller that supplies the options
	opts []string // "Option=status", in source order
	pos  string
}

func vsExprText(fset *token.FileSet, e ast.Node) string {
	var b bytes.Buffer
	printer.Fprint(&b, fset, e)
	return strings.Join(strings.Fields(b.String()), " ")
}

// optionCall: openapi3.<Name>(…) → Name
func optionCall(e ast.Expr) (string, bool) {
	call, ok := e.(*ast.CallExpr)
	if !ok {
		return "", false
	}
	sel, ok := call.Fun.(*ast.SelectorExpr)
	if !ok {
		return "", false
	}
	if x, ok := sel.X.(*ast.Ident); !ok || x.Name != "openapi3" {
		return "", false
	}
	return sel.Sel.Name, true
}

// appendTo: `name = append(name, e1, e2…)` → e1, e2…
func appendTo(st ast.Stmt, name string) ([]ast.Expr, bool) {
	as, ok := st.(*ast.AssignStmt)
	if !ok || len(as.Lhs) != 1 || len(as.Rhs) != 1 {
		return nil, false
	}
	if id, ok := as.Lhs[0].(*ast.Ident); !ok || id.Name != name {
		return nil, false
	}
	call, ok := as.Rhs[0].(*ast.CallExpr)
	if !ok {
		return nil, false
	}
	if f, ok := call.Fun.(*ast.Ident); !ok || f.Name != "append" || len(call.Args) < 1 {
		return nil, false
	}
	if b, ok := call.Args[0].(*ast.Ident); !ok || b.Name != name {
		return nil, false
	}
	return call.Args[1:], true
}

func mentions(n ast.Node, name string) bool {
	found := false
	ast.Inspect(n, func(x ast.Node) bool {
		if id, ok := x.(*ast.Ident); ok && id.Name == name {
			found = true
		}
		return !found
	})
	return found
}

// assigns: the statement (or something nested in it) assigns to `name` or takes its address
func assigns(n ast.Node, name string) bool {
	found := false
	ast.Inspect(n, func(x ast.Node) bool {
		switch y := x.(type) {
		case *ast.AssignStmt:
			for _, l := range y.Lhs {
				if id, ok := l.(*ast.Ident); ok && id.Name == name {
					found = true
				}
			}
		case *ast.UnaryExpr:
			if id, ok := y.X.(*ast.Ident); ok && y.Op == token.AND && id.Name == name {
				found = true
			}
		case *ast.RangeStmt:
			for _, e := range []ast.Expr{y.Key, y.Value} {
				if id, ok := e.(*ast.Ident); ok && id.Name == name {
					found = true
				}
			}
		}
		return !found
	})
	return found
}

// unrec: an option status the rule cannot read; the position goes to stderr and into the row comment
var unrecAt []string

func unrec(pos string) string {
	unrecAt = append(unrecAt, pos)
	return "unrecognised"
}

type vsPkg struct {
	fset  *token.FileSet
	funcs map[string]*ast.FuncDecl
}

// optsAt lists the options that the slice expression `e` carries at position `at` inside fd; `depth` bounds the caller chase.
func (p *vsPkg) optsAt(fd *ast.FuncDecl, e ast.Expr, at token.Pos, depth int) [][]string {
	pos := func(n ast.Node) string {
		q := p.fset.Position(n.Pos())
		return fmt.Sprintf("%s:%d", filepath.Base(q.Filename), q.Line)
	}
	switch x := e.(type) {
	case *ast.CallExpr: // append(base, more…)
		if f, ok := x.Fun.(*ast.Ident); ok && f.Name == "append" && len(x.Args) >= 1 {
			bases := p.optsAt(fd, x.Args[0], at, depth)
			var extra []string
			for _, a := range x.Args[1:] {
				if n, ok := optionCall(a); ok {
					extra = append(extra, n+"=always")
				} else {
					extra = append(extra, unrec(pos(a)))
				}
			}
			var out [][]string
			for _, b := range bases {
				out = append(out, append(append([]string{}, b...), extra...))
			}
			return out
		}
		return [][]string{{unrec(pos(x))}}
	case *ast.Ident:
		name := x.Name
		// a parameter: follow the callers
		for i, f := range flatParams(fd) {
			if f == name {
				if depth <= 0 {
					return [][]string{{unrec(pos(x))}}
				}
				var out [][]string
				names := make([]string, 0, len(p.funcs))
				for n := range p.funcs {
					names = append(names, n)
				}
				sort.Strings(names)
				for _, cn := range names {
					caller := p.funcs[cn]
					ast.Inspect(caller.Body, func(n ast.Node) bool {
						call, ok := n.(*ast.CallExpr)
						if !ok {
							return true
						}
						if id, ok := call.Fun.(*ast.Ident); ok && id.Name == fd.Name.Name && i < len(call.Args) {
							for _, o := range p.optsAt(caller, call.Args[i], call.Pos(), depth-1) {
								out = append(out, append([]string{"via=" + cn}, o...))
							}
						}
						return true
					})
				}
				if len(out) == 0 {
					return [][]string{{unrec(pos(x))}}
				}
				return out
			}
		}
		// a local slice: walk the top-level statements before `at`
		var out []string
		declared := false
		for _, st := range fd.Body.List {
			if st.Pos() >= at {
				break
			}
			if st.End() > at { // the statement containing the call: appends inside it are not followed
				break
			}
			switch s := st.(type) {
			case *ast.AssignStmt:
				if args, ok := appendTo(s, name); ok {
					for _, a := range args {
						if n, ok := optionCall(a); ok {
							out = append(out, n+"=always")
						} else {
							out = append(out, unrec(pos(a)))
						}
					}
					continue
				}
				for _, l := range s.Lhs {
					if id, ok := l.(*ast.Ident); ok && id.Name == name {
						if declared {
							out = append(out, unrec(pos(s)))
						}
						declared = true
					}
				}
			case *ast.DeclStmt:
				if mentions(s, name) {
					declared = true
				}
			case *ast.IfStmt:
				if !mentions(s, name) {
					continue
				}
				ok := s.Else == nil && s.Init == nil
				var found []string
				if ok {
					for _, inner := range s.Body.List {
						if args, isApp := appendTo(inner, name); isApp {
							for _, a := range args {
								if n, isOpt := optionCall(a); isOpt {
									found = append(found, n+"=if "+vsExprText(p.fset, s.Cond))
								} else {
									ok = false
								}
							}
						} else if as, isAs := inner.(*ast.AssignStmt); isAs && len(as.Lhs) == 1 && mentions(as.Lhs[0], name) && !mentions(as.Rhs[0], "append") {
							// `opts = make(…)` inside the guard: allocation only
						} else if mentions(inner, name) {
							ok = false
						}
					}
				}
				if ok {
					out = append(out, found...)
				} else {
					out = append(out, unrec(pos(s)))
				}
			default:
				if assigns(st, name) { // reading the slice (e.g. handing `append(opts, …)` to a callee) does not change it
					out = append(out, unrec(pos(st)))
				}
			}
		}
		// an append to the slice AFTER the call is reported too: that is how an option arrives too late
		for _, st := range fd.Body.List {
			if st.Pos() <= at {
				continue
			}
			ast.Inspect(st, func(n ast.Node) bool {
				if s, ok := n.(ast.Stmt); ok {
					if args, isApp := appendTo(s, name); isApp {
						for _, a := range args {
							if nm, isOpt := optionCall(a); isOpt {
								out = append(out, nm+"=after the call")
							}
						}
					}
				}
				return true
			})
		}
		return [][]string{out}
	}
	return [][]string{{unrec(pos(e))}}
}

func flatParams(fd *ast.FuncDecl) []string {
	var out []string
	for _, f := range fd.Type.Params.List {
		if len(f.Names) == 0 {
			out = append(out, "_")
		}
		for _, n := range f.Names {
			out = append(out, n.Name)
		}
	}
	return out
}

func extractVisitSites(repo string) (string, error) {
	dir := filepath.Join(repo, "openapi3filter")
	ents, err := os.ReadDir(dir)
	if err != nil {
		return "", err
	}
	p := &vsPkg{fset: token.NewFileSet(), funcs: map[string]*ast.FuncDecl{}}
	var decls []*ast.FuncDecl
	for _, e := range ents {
		if e.IsDir() || !strings.HasSuffix(e.Name(), ".go") || strings.HasSuffix(e.Name(), "_test.go") {
			continue
		}
		f, err := parser.ParseFile(p.fset, filepath.Join(dir, e.Name()), nil, 0)
		if err != nil {
			return "", err
		}
		for _, d := range f.Decls {
			if fd, ok := d.(*ast.FuncDecl); ok && fd.Body != nil {
				decls = append(decls, fd)
				if fd.Recv == nil {
					p.funcs[fd.Name.Name] = fd
				}
			}
		}
	}
	var rows []visitRow
	for _, fd := range decls {
		ast.Inspect(fd.Body, func(n ast.Node) bool {
			call, ok := n.(*ast.CallExpr)
			if !ok {
				return true
			}
			sel, ok := call.Fun.(*ast.SelectorExpr)
			if !ok || sel.Sel.Name != "VisitJSON" {
				return true
			}
			q := p.fset.Position(call.Pos())
			where := fmt.Sprintf("%s:%d", filepath.Base(q.Filename), q.Line)
			if len(call.Args) < 2 {
				rows = append(rows, visitRow{fn: fd.Name.Name, opts: []string{}, pos: where})
				return true
			}
			if len(call.Args) != 2 || !call.Ellipsis.IsValid() {
				// options listed one by one
				var o []string
				for _, a := range call.Args[1:] {
					if nm, ok := optionCall(a); ok {
						o = append(o, nm+"=always")
					} else {
						o = append(o, unrec(where))
					}
				}
				rows = append(rows, visitRow{fn: fd.Name.Name, opts: o, pos: where})
				return true
			}
			for _, o := range p.optsAt(fd, call.Args[1], call.Pos(), 2) {
				r := visitRow{fn: fd.Name.Name, pos: where}
				for _, x := range o {
					if strings.HasPrefix(x, "via=") {
						r.via = strings.TrimPrefix(x, "via=")
					} else {
						r.opts = append(r.opts, x)
					}
				}
				rows = append(rows, r)
			}
			return true
		})
	}
	sort.SliceStable(rows, func(i, j int) bool {
		if rows[i].fn != rows[j].fn {
			return rows[i].fn < rows[j].fn
		}
		return rows[i].via < rows[j].via
	})
	var b strings.Builder
	b.WriteString("/- GENERATED by go/cmd/extract (table VisitSites) from openapi3filter/*.go — do not edit -/\n")
	b.WriteString("namespace KinModel.Gen\n\nstructure VisitSite where\n  fn : String\n  via : String\n  opts : List String\n  deriving DecidableEq, Repr\n\n")
	fmt.Fprintf(&b, "-- rows: %d\n", len(rows))
	b.WriteString("def visitSites : List VisitSite := [\n")
	for i, r := range rows {
		var as []string
		for _, a := range r.opts {
			as = append(as, rsLeanStr(a))
		}
		sep := ","
		if i == len(rows)-1 {
			sep = ""
		}
		fmt.Fprintf(&b, "  ⟨%s, %s, [%s]⟩%s  -- %s\n", rsLeanStr(r.fn), rsLeanStr(r.via), strings.Join(as, ", "), sep, r.pos)
	}
	if len(unrecAt) > 0 {
		fmt.Fprintf(&b, "-- unrecognised shapes at: %s\n", strings.Join(unrecAt, " "))
	}
	b.WriteString("]\n\nend KinModel.Gen\n")
	return b.String(), nil
}
