package main

// Table "LoaderPositions" (C02), two lists read from openapi3/*.go:
//
//   walked — for each resolve*Ref routine, each walk helper (resolve*Refs) and ResolveRefsIn ("Document"): the child
//            positions it hands to a resolver or helper, as a token list in source order
//              ("each", "", path)   a `for … range` statement; path = JSON path from the enclosing loop element (or the
//                                   routine's value) to the loop element; ("each", "skipNil", path) when the body
//                                   begins with `if <element> == nil { continue }`
//              ("callUnguarded", …) a call on a single pointer field that is not inside `if <it> != nil`
//              ("call", callee, path) loader.resolve<callee>(doc, <position>, documentPath…)
//              ("guard", "", [])    a `return` of a new error
//              ("end", "", [])      end of the loop body
//            The position expression is evaluated symbolically (local variables, `X[name]` under
//            `for _, name := range componentNames(X)`, `X.Map()`, `pathItem.Operations()`), field selectors are
//            translated to their JSON names by the struct tags.
//            Path segments: a JSON key; "*" every member of an object; "~" every member of a maplike object (Paths,
//            Callback, Responses: members that are not x- extensions); "#" every array element; "{op}" every operation
//            of a path item.
//   refs   — from the TYPE declarations: for each of the ten kinds, the helper element types (MediaType …) being
//            looked through, every JSON path from a value of that kind to a field that holds a reference-capable
//            object (*XRef, *PathItem), with the kind found there.
//
// Anything the rule cannot read is an `unrecognised` row.

import (
	"fmt"
	"go/ast"
	"go/parser"
	"go/token"
	"path/filepath"
	"reflect"
	"sort"
	"strings"
)

func init() { register("LoaderPositions", extractLoaderPositions) }

type lpField struct {
	name     string
	typ      ast.Expr
	json     string
	embedded bool
}

type lpTypes struct {
	structs map[string][]lpField
	named   map[string]ast.Expr
}

// lpTy: a resolved type
type lpTy struct {
	kind string // "struct", "map", "slice", "other"
	name string // struct name
	elem *lpTy
	wild string // for maps: "*", "~" (maplike), "{op}"
}

func (t *lpTypes) resolve(e ast.Expr) lpTy {
	switch x := e.(type) {
	case *ast.StarExpr:
		return t.resolve(x.X)
	case *ast.Ident:
		if _, ok := t.structs[x.Name]; ok {
			return lpTy{kind: "struct", name: x.Name}
		}
		if u, ok := t.named[x.Name]; ok {
			return t.resolve(u)
		}
	case *ast.MapType:
		el := t.resolve(x.Value)
		return lpTy{kind: "map", elem: &el, wild: "*"}
	case *ast.ArrayType:
		el := t.resolve(x.Elt)
		return lpTy{kind: "slice", elem: &el}
	}
	return lpTy{kind: "other"}
}

func (t *lpTypes) field(structName, fieldName string) (lpField, bool) {
	for _, f := range t.structs[structName] {
		if f.name == fieldName && !f.embedded {
			return f, true
		}
	}
	for _, f := range t.structs[structName] {
		if f.embedded {
			if et := t.resolve(f.typ); et.kind == "struct" {
				if g, ok := t.field(et.name, fieldName); ok {
					return g, true
				}
			}
		}
	}
	return lpField{}, false
}

var lpKinds = []string{"Callback", "Example", "Header", "Link", "Parameter", "PathItem", "RequestBody", "Response", "Schema", "SecurityScheme"}

// reference-capable wrapper types -> kind
func lpRefKind(structName string) (string, bool) {
	if structName == "PathItem" {
		return "PathItem", true
	}
	if strings.HasSuffix(structName, "Ref") {
		k := strings.TrimSuffix(structName, "Ref")
		for _, x := range lpKinds {
			if x == k {
				return k, true
			}
		}
	}
	return "", false
}

// maplike structs (private map m + Map()): element type
var lpMaplike = map[string]string{"Paths": "PathItem", "Callback": "PathItem", "Responses": "ResponseRef"}

type lpSym struct {
	nonNil bool // tested `!= nil` in an enclosing if
	path   []string
	ty     lpTy
	isKey  bool     // a key variable of `range componentNames(X)`
	coll   []string // for a key: the path of X
	collT  lpTy
}

type lpTok struct {
	op, callee string
	path       []string
}

type lpWalker struct {
	fset *token.FileSet
	t    *lpTypes
	toks []lpTok
	bad  string
	ctx  string // name of the context argument child calls must pass on
}

func (w *lpWalker) fail(pos token.Pos, format string, a ...any) {
	if w.bad == "" {
		w.bad = fmt.Sprintf(format, a...) + " at " + w.fset.Position(pos).String()
	}
}

func lpJSONName(tag string) string {
	// `json:"items,omitempty" yaml:"…"`
	st := reflect.StructTag(strings.Trim(tag, "`"))
	j := st.Get("json")
	return strings.Split(j, ",")[0]
}

func (w *lpWalker) eval(env map[string]lpSym, e ast.Expr) (lpSym, bool) {
	switch x := e.(type) {
	case *ast.Ident:
		s, ok := env[x.Name]
		return s, ok
	case *ast.ParenExpr:
		return w.eval(env, x.X)
	case *ast.SelectorExpr:
		sx, ok := w.eval(env, x.X)
		if !ok || sx.isKey || sx.ty.kind != "struct" {
			return lpSym{}, false
		}
		// the Value of a reference wrapper is the object itself
		if _, isRef := lpRefKind(sx.ty.name); isRef && sx.ty.name != "PathItem" && x.Sel.Name == "Value" {
			f, ok := w.t.field(sx.ty.name, "Value")
			if !ok {
				return lpSym{}, false
			}
			return lpSym{path: sx.path, ty: w.t.resolve(f.typ)}, true
		}
		f, ok := w.t.field(sx.ty.name, x.Sel.Name)
		if !ok {
			return lpSym{}, false
		}
		seg := f.json
		if sx.ty.name == "AdditionalProperties" && f.name == "Schema" {
			// AdditionalProperties marshals as the schema itself (or a boolean)
			return lpSym{path: sx.path, ty: w.t.resolve(f.typ)}, true
		}
		if seg == "" || seg == "-" {
			return lpSym{}, false
		}
		return lpSym{path: append(append([]string{}, sx.path...), seg), ty: w.t.resolve(f.typ)}, true
	case *ast.CallExpr:
		se, ok := x.Fun.(*ast.SelectorExpr)
		if !ok || len(x.Args) != 0 {
			return lpSym{}, false
		}
		sx, ok := w.eval(env, se.X)
		if !ok || sx.ty.kind != "struct" {
			return lpSym{}, false
		}
		switch se.Sel.Name {
		case "Map":
			if el, ok := lpMaplike[sx.ty.name]; ok {
				et := w.t.resolve(ast.NewIdent(el))
				return lpSym{path: sx.path, ty: lpTy{kind: "map", elem: &et, wild: "~"}}, true
			}
		case "Operations":
			if sx.ty.name == "PathItem" {
				et := w.t.resolve(ast.NewIdent("Operation"))
				return lpSym{path: sx.path, ty: lpTy{kind: "map", elem: &et, wild: "{op}"}}, true
			}
		}
		return lpSym{}, false
	case *ast.IndexExpr:
		sx, ok := w.eval(env, x.X)
		if !ok || sx.ty.kind != "map" {
			return lpSym{}, false
		}
		k, ok := x.Index.(*ast.Ident)
		if !ok {
			return lpSym{}, false
		}
		ks, ok := env[k.Name]
		if !ok || !ks.isKey || !reflect.DeepEqual(ks.coll, sx.path) || ks.collT.wild != sx.ty.wild {
			return lpSym{}, false
		}
		return lpSym{path: append(append([]string{}, sx.path...), sx.ty.wild), ty: *sx.ty.elem}, true
	}
	return lpSym{}, false
}

func lpRel(base, p []string) ([]string, bool) {
	if len(p) < len(base) {
		return nil, false
	}
	for i := range base {
		if base[i] != p[i] {
			return nil, false
		}
	}
	return append([]string{}, p[len(base):]...), true
}

func lpCopyEnv(env map[string]lpSym) map[string]lpSym {
	o := map[string]lpSym{}
	for k, v := range env {
		o[k] = v
	}
	return o
}

// calls scans an expression / simple statement for resolver calls, in source order
func (w *lpWalker) calls(env map[string]lpSym, base []string, n ast.Node) {
	if n == nil {
		return
	}
	ast.Inspect(n, func(n ast.Node) bool {
		switch x := n.(type) {
		case *ast.FuncLit:
			return false
		case *ast.CallExpr:
			se, ok := x.Fun.(*ast.SelectorExpr)
			if !ok || !rsIsResolverName(se.Sel.Name) {
				return true
			}
			if id, ok := se.X.(*ast.Ident); !ok || id.Name != "loader" {
				return true
			}
			if len(x.Args) < 3 || rsText(w.fset, x.Args[0]) != "doc" || rsText(w.fset, x.Args[2]) != w.ctx {
				w.fail(x.Pos(), "child call does not pass (doc, _, %s)", w.ctx)
				return true
			}
			s, ok := w.eval(env, x.Args[1])
			if !ok || s.isKey {
				w.fail(x.Pos(), "position expression %s cannot be read", rsText(w.fset, x.Args[1]))
				return true
			}
			rel, ok := lpRel(base, s.path)
			if !ok {
				w.fail(x.Pos(), "position %v is not below the loop element %v", s.path, base)
				return true
			}
			// a position that is a single (pointer) field must be tested against nil before the call; loop elements
			// and the maps handed to the helpers need no test
			op := "call"
			if len(rel) > 0 && s.ty.kind == "struct" {
				id, isID := x.Args[1].(*ast.Ident)
				if !isID || !env[id.Name].nonNil {
					op = "callUnguarded"
				}
			}
			w.toks = append(w.toks, lpTok{op, rsShort(se.Sel.Name), rel})
		}
		return true
	})
}

func (w *lpWalker) stmts(env map[string]lpSym, base []string, list []ast.Stmt) {
	for _, st := range list {
		w.stmt(env, base, st)
	}
}

func (w *lpWalker) assign(env map[string]lpSym, st ast.Stmt) {
	as, ok := st.(*ast.AssignStmt)
	if !ok || len(as.Lhs) != 1 || len(as.Rhs) != 1 {
		return
	}
	id, ok := as.Lhs[0].(*ast.Ident)
	if !ok {
		return
	}
	if s, ok := w.eval(env, as.Rhs[0]); ok {
		env[id.Name] = s
	} else if as.Tok == token.DEFINE {
		delete(env, id.Name)
	}
}

func (w *lpWalker) stmt(env map[string]lpSym, base []string, st ast.Stmt) {
	switch x := st.(type) {
	case *ast.BlockStmt:
		w.stmts(lpCopyEnv(env), base, x.List)
	case *ast.IfStmt:
		e2 := lpCopyEnv(env)
		if x.Init != nil {
			w.calls(e2, base, x.Init)
			w.assign(e2, x.Init)
		}
		w.calls(e2, base, x.Cond)
		e4 := lpCopyEnv(e2)
		if be, ok := x.Cond.(*ast.BinaryExpr); ok && be.Op == token.NEQ && rsText(w.fset, be.Y) == "nil" {
			if id, ok := be.X.(*ast.Ident); ok {
				if sy, ok := e4[id.Name]; ok {
					sy.nonNil = true
					e4[id.Name] = sy
				}
			}
		}
		w.stmts(e4, base, x.Body.List)
		if x.Else != nil {
			w.stmt(e2, base, x.Else)
		}
	case *ast.RangeStmt:
		e2 := lpCopyEnv(env)
		val, _ := x.Value.(*ast.Ident)
		if val == nil {
			w.fail(x.Pos(), "range statement without a value variable")
			return
		}
		var elemPath []string
		if ce, ok := x.X.(*ast.CallExpr); ok && rsText(w.fset, ce.Fun) == "componentNames" && len(ce.Args) == 1 {
			s, ok := w.eval(env, ce.Args[0])
			if !ok || s.ty.kind != "map" {
				w.fail(x.Pos(), "range over the names of %s: not a map the rule can read", rsText(w.fset, ce.Args[0]))
				return
			}
			e2[val.Name] = lpSym{isKey: true, coll: s.path, collT: s.ty}
			elemPath = append(append([]string{}, s.path...), s.ty.wild)
		} else {
			s, ok := w.eval(env, x.X)
			if !ok || s.ty.kind != "slice" {
				w.fail(x.Pos(), "range over %s: not a slice the rule can read", rsText(w.fset, x.X))
				return
			}
			elemPath = append(append([]string{}, s.path...), "#")
			e2[val.Name] = lpSym{path: elemPath, ty: *s.ty.elem}
		}
		rel, ok := lpRel(base, elemPath)
		if !ok {
			w.fail(x.Pos(), "loop over %v is not below the enclosing loop element %v", elemPath, base)
			return
		}
		// `if <element> == nil { continue }` as the first statement that is not the binding of the element
		skip := ""
		e3 := lpCopyEnv(e2)
		for _, bs := range x.Body.List {
			if as, ok := bs.(*ast.AssignStmt); ok {
				w.assign(e3, as)
				continue
			}
			if is, ok := bs.(*ast.IfStmt); ok && is.Init == nil && is.Else == nil && rsText(w.fset, is.Body) == "{ continue }" {
				if be, ok := is.Cond.(*ast.BinaryExpr); ok && be.Op == token.EQL && rsText(w.fset, be.Y) == "nil" {
					if sy, ok := w.eval(e3, be.X); ok && !sy.isKey && reflect.DeepEqual(sy.path, elemPath) {
						skip = "skipNil"
					}
				}
			}
			break
		}
		w.toks = append(w.toks, lpTok{"each", skip, rel})
		w.stmts(e2, elemPath, x.Body.List)
		w.toks = append(w.toks, lpTok{"end", "", nil})
	case *ast.ReturnStmt:
		for _, e := range x.Results {
			t := rsText(w.fset, e)
			if t != "nil" && t != "err" && !strings.HasPrefix(t, "loader.resolve") {
				w.toks = append(w.toks, lpTok{"guard", "", nil})
			}
		}
		w.calls(env, base, x)
	case *ast.AssignStmt:
		w.calls(env, base, x)
		w.assign(env, x)
	case *ast.BranchStmt, *ast.EmptyStmt:
	case *ast.ExprStmt, *ast.DeclStmt, *ast.IncDecStmt:
		w.calls(env, base, x)
	default:
		w.fail(st.Pos(), "statement of a kind the rule does not read (%T)", st)
	}
}

// refPositions: JSON paths from a value of struct `name` to reference-capable fields, looking through
// plain element structs (MediaType, Encoding, Operation, Components …)
func (t *lpTypes) refPositions(name string, prefix []string, depth int, out *[][2]string, seen map[string]bool) {
	if depth > 6 || seen[name] {
		return
	}
	seen[name] = true
	defer delete(seen, name)
	var visit func(ty lpTy, path []string)
	visit = func(ty lpTy, path []string) {
		switch ty.kind {
		case "struct":
			if k, ok := lpRefKind(ty.name); ok {
				*out = append(*out, [2]string{strings.Join(path, "/"), k})
				return
			}
			if el, ok := lpMaplike[ty.name]; ok {
				visit(t.resolve(ast.NewIdent(el)), append(append([]string{}, path...), "~"))
				return
			}
			t.refPositions(ty.name, path, depth+1, out, seen)
		case "map":
			visit(*ty.elem, append(append([]string{}, path...), "*"))
		case "slice":
			visit(*ty.elem, append(append([]string{}, path...), "#"))
		}
	}
	var fields func(sn string)
	fields = func(sn string) {
		for _, f := range t.structs[sn] {
			if f.embedded {
				if et := t.resolve(f.typ); et.kind == "struct" {
					fields(et.name)
				}
				continue
			}
			if sn == "AdditionalProperties" && f.name == "Schema" {
				visit(t.resolve(f.typ), prefix)
				continue
			}
			if f.json == "" || f.json == "-" {
				continue
			}
			visit(t.resolve(f.typ), append(append([]string{}, prefix...), f.json))
		}
	}
	fields(name)
}

func extractLoaderPositions(repo string) (string, error) {
	fset := token.NewFileSet()
	dir := filepath.Join(repo, "openapi3")
	pkgs, err := parser.ParseDir(fset, dir, nil, 0)
	if err != nil {
		return "", err
	}
	t := &lpTypes{structs: map[string][]lpField{}, named: map[string]ast.Expr{}}
	var loaderFile *ast.File
	for _, pkg := range pkgs {
		names := []string{}
		for fn := range pkg.Files {
			names = append(names, fn)
		}
		sort.Strings(names)
		for _, fn := range names {
			if strings.HasSuffix(fn, "_test.go") {
				continue
			}
			f := pkg.Files[fn]
			if filepath.Base(fn) == "loader.go" {
				loaderFile = f
			}
			for _, d := range f.Decls {
				gd, ok := d.(*ast.GenDecl)
				if !ok || gd.Tok != token.TYPE {
					continue
				}
				for _, sp := range gd.Specs {
					ts := sp.(*ast.TypeSpec)
					if st, ok := ts.Type.(*ast.StructType); ok {
						var fs []lpField
						for _, fl := range st.Fields.List {
							tag := ""
							if fl.Tag != nil {
								tag = lpJSONName(fl.Tag.Value)
							}
							if len(fl.Names) == 0 {
								fs = append(fs, lpField{typ: fl.Type, embedded: true})
								continue
							}
							for _, n := range fl.Names {
								fs = append(fs, lpField{name: n.Name, typ: fl.Type, json: tag})
							}
						}
						t.structs[ts.Name.Name] = fs
					} else {
						t.named[ts.Name.Name] = ts.Type
					}
				}
			}
		}
	}
	if loaderFile == nil {
		return "", fmt.Errorf("openapi3/loader.go not found")
	}

	type row struct {
		name string
		toks []lpTok
		bad  string
	}
	var rows []row
	for _, d := range loaderFile.Decls {
		fd, ok := d.(*ast.FuncDecl)
		if !ok || fd.Recv == nil || fd.Body == nil {
			continue
		}
		name := fd.Name.Name
		params := fd.Type.Params.List
		w := &lpWalker{fset: fset, t: t, ctx: "documentPath"}
		env := map[string]lpSym{}
		body := fd.Body.List
		var rname string
		switch {
		case name == "ResolveRefsIn":
			rname = "Document"
			w.ctx = "location"
			env["doc"] = lpSym{ty: t.resolve(ast.NewIdent("T"))}
		case rsIsResolverName(name) && strings.HasSuffix(name, "Refs"):
			rname = rsShort(name)
			if len(params) < 3 || len(params[1].Names) != 1 {
				rows = append(rows, row{name: rname, bad: "parameter list"})
				continue
			}
			env[params[1].Names[0].Name] = lpSym{ty: t.resolve(params[1].Type)}
		case rsIsResolverName(name):
			rname = rsShort(name)
			if len(params) < 3 || len(params[1].Names) != 1 {
				rows = append(rows, row{name: rname, bad: "parameter list"})
				continue
			}
			comp := params[1].Names[0].Name
			env[comp] = lpSym{ty: t.resolve(params[1].Type)}
			// the statements after the `if ref := …` block
			i := 0
			for ; i < len(body); i++ {
				if is, ok := body[i].(*ast.IfStmt); ok && is.Init != nil && rsText(fset, is.Init) == "ref := "+comp+".Ref" {
					break
				}
			}
			if i == len(body) {
				rows = append(rows, row{name: rname, bad: "no `if ref := …` block"})
				continue
			}
			body = body[i+1:]
		default:
			continue
		}
		w.stmts(env, nil, body)
		rows = append(rows, row{name: rname, toks: w.toks, bad: w.bad})
	}
	sort.Slice(rows, func(i, j int) bool { return rows[i].name < rows[j].name })

	// reference-capable positions by type
	type refRow struct{ kind, path, child string }
	var refs []refRow
	valueStruct := func(kind string) string { return kind } // the value struct of a kind has the kind's name
	for _, k := range append(append([]string{}, lpKinds...), "T") {
		var out [][2]string
		t.refPositions(valueStruct(k), nil, 0, &out, map[string]bool{})
		if el, ok := lpMaplike[k]; ok { // Callback: its members are path items
			if ck, ok := lpRefKind(el); ok {
				out = append(out, [2]string{"~", ck})
			}
		}
		sort.Slice(out, func(i, j int) bool { return out[i][0] < out[j][0] })
		name := k
		if k == "T" {
			name = "Document"
		}
		for _, o := range out {
			refs = append(refs, refRow{name, o[0], o[1]})
		}
	}

	ql := func(l []string) string {
		o := []string{}
		for _, c := range l {
			o = append(o, fmt.Sprintf("%q", c))
		}
		return "[" + strings.Join(o, ", ") + "]"
	}
	var b strings.Builder
	b.WriteString("/- GENERATED by go/cmd/extract (table LoaderPositions) from openapi3/*.go — do not edit -/\n")
	b.WriteString("namespace KinModel.Gen\n\n")
	b.WriteString("inductive WalkRow\n  | row (routine : String) (toks : List (String × String × List String))\n  | unrecognised (whereAt : String)\n  deriving DecidableEq, Repr\n\ndef WalkRow.isRow : WalkRow → Bool\n  | .row _ _ => true\n  | .unrecognised _ => false\n\n")
	fmt.Fprintf(&b, "-- rows: %d\n", len(rows)+len(refs))
	b.WriteString("def loaderWalked : List WalkRow := [\n")
	for i, r := range rows {
		sep := ","
		if i == len(rows)-1 {
			sep = ""
		}
		if r.bad != "" {
			fmt.Fprintf(&b, "  .unrecognised %q%s\n", r.name+": "+r.bad, sep)
			continue
		}
		ts := []string{}
		for _, tk := range r.toks {
			ts = append(ts, fmt.Sprintf("(%q, %q, %s)", tk.op, tk.callee, ql(tk.path)))
		}
		fmt.Fprintf(&b, "  .row %q [%s]%s\n", r.name, strings.Join(ts, ", "), sep)
	}
	b.WriteString("]\n\n")
	b.WriteString("/-- (kind, JSON path from a value of that kind, kind of the reference-capable object there) -/\n")
	b.WriteString("def loaderRefPositions : List (String × String × String) := [\n")
	for i, r := range refs {
		sep := ","
		if i == len(refs)-1 {
			sep = ""
		}
		fmt.Fprintf(&b, "  (%q, %q, %q)%s\n", r.kind, r.path, r.child, sep)
	}
	b.WriteString("]\n\nend KinModel.Gen\n")
	return b.String(), nil
}
