package main

// Table C20Guards (round 5): two families of "cannot fail / cannot block" side conditions of package openapi3
// (non-test files), read with go/ast.
//
//	c20TypeAsserts : every type assertion x.(T) outside a type switch: (function, "T", form) with form
//	                 "commaok" (v, ok := x.(T) / v, ok = x.(T) / var v, ok = x.(T)) or "unchecked" (panics when
//	                 the dynamic type differs).
//	c20LockPaths   : every function (declaration or literal) that calls <m>.Lock() or <m>.RLock(): for each way out
//	                 of it (every return statement and the end of the body) what is still held there:
//	                 (function, "line N", held) with held = "" when every acquisition was released (directly or by
//	                 a deferred Unlock/RUnlock), else the list of what is held, e.g. "uriMu.RLock". A statement
//	                 shape the rule cannot follow (a lock call below a loop, switch, select, go or a nested
//	                 literal in the middle of a path) becomes an "unrecognised" row.

import (
	"bytes"
	"fmt"
	"go/ast"
	"go/printer"
	"go/token"
	"sort"
	"strings"
)

func init() { register("C20Guards", extractC20Guards) }

func c20Expr(fset *token.FileSet, n ast.Node) string {
	var b bytes.Buffer
	printer.Fprint(&b, fset, n)
	return strings.Join(strings.Fields(b.String()), " ")
}

func c20FnName(fd *ast.FuncDecl) string {
	if fd.Recv != nil && len(fd.Recv.List) == 1 {
		t := fd.Recv.List[0].Type
		if s, ok := t.(*ast.StarExpr); ok {
			t = s.X
		}
		if ix, ok := t.(*ast.IndexExpr); ok {
			t = ix.X
		}
		if id, ok := t.(*ast.Ident); ok {
			return id.Name + "." + fd.Name.Name
		}
	}
	return fd.Name.Name
}

// lock call: <m>.Lock / RLock / Unlock / RUnlock with no arguments
func c20LockCall(fset *token.FileSet, x ast.Expr) (mu, op string, ok bool) {
	c, isCall := x.(*ast.CallExpr)
	if !isCall || len(c.Args) != 0 {
		return
	}
	s, isSel := c.Fun.(*ast.SelectorExpr)
	if !isSel {
		return
	}
	switch s.Sel.Name {
	case "Lock", "RLock", "Unlock", "RUnlock":
		return c20Expr(fset, s.X), s.Sel.Name, true
	}
	return
}

func c20HasLockCall(fset *token.FileSet, n ast.Node) bool {
	found := false
	ast.Inspect(n, func(m ast.Node) bool {
		if e, ok := m.(ast.Expr); ok {
			if _, op, ok := c20LockCall(fset, e); ok && (op == "Lock" || op == "RLock") {
				found = true
			}
		}
		return !found
	})
	return found
}

type c20LockState struct {
	held     []string // "mu.RLock" …, in acquisition order
	deferred []string // releases that run at every exit after the defer statement
}

func (s c20LockState) clone() c20LockState {
	return c20LockState{append([]string{}, s.held...), append([]string{}, s.deferred...)}
}

func (s *c20LockState) release(what string) bool {
	for i := len(s.held) - 1; i >= 0; i-- {
		if s.held[i] == what {
			s.held = append(s.held[:i], s.held[i+1:]...)
			return true
		}
	}
	return false
}

func (s c20LockState) atExit() string {
	t := s.clone()
	for _, d := range t.deferred {
		t.release(d)
	}
	return strings.Join(t.held, " ")
}

type c20LockWalk struct {
	fset *token.FileSet
	fn   string
	rows *[]string
}

func (w *c20LockWalk) row(n ast.Node, held string) {
	*w.rows = append(*w.rows, fmt.Sprintf("(%q, %q, %q)", w.fn, fmt.Sprintf("line %d", w.fset.Position(n.Pos()).Line), held))
}

// block follows a statement list; it returns the state at its end and whether the end is reachable.
func (w *c20LockWalk) block(list []ast.Stmt, st c20LockState) (c20LockState, bool) {
	for _, s := range list {
		switch x := s.(type) {
		case *ast.ExprStmt:
			if mu, op, ok := c20LockCall(w.fset, x.X); ok {
				switch op {
				case "Lock", "RLock":
					st.held = append(st.held, mu+"."+op)
				case "Unlock":
					if !st.release(mu + ".Lock") {
						w.row(x, "unrecognised: Unlock without Lock")
					}
				case "RUnlock":
					if !st.release(mu + ".RLock") {
						w.row(x, "unrecognised: RUnlock without RLock")
					}
				}
				continue
			}
		case *ast.DeferStmt:
			if mu, op, ok := c20LockCall(w.fset, x.Call); ok && (op == "Unlock" || op == "RUnlock") {
				st.deferred = append(st.deferred, mu+"."+strings.TrimSuffix(op, "Unlock")+"Lock")
				continue
			}
		case *ast.ReturnStmt:
			w.row(x, st.atExit())
			return st, false
		case *ast.BlockStmt:
			var live bool
			if st, live = w.block(x.List, st); !live {
				return st, false
			}
			continue
		case *ast.IfStmt:
			if x.Init != nil && c20HasLockCall(w.fset, x.Init) || c20HasLockCall(w.fset, x.Cond) {
				w.row(x, "unrecognised: lock call in an if header")
			}
			a, aLive := w.block(x.Body.List, st.clone())
			b, bLive := st.clone(), true
			switch e := x.Else.(type) {
			case *ast.BlockStmt:
				b, bLive = w.block(e.List, st.clone())
			case *ast.IfStmt:
				b, bLive = w.block([]ast.Stmt{e}, st.clone())
			}
			switch {
			case aLive && bLive:
				if a.atExit() != b.atExit() || strings.Join(a.held, " ") != strings.Join(b.held, " ") {
					w.row(x, "unrecognised: the branches of an if hold different locks")
				}
				st = a
			case aLive:
				st = a
			case bLive:
				st = b
			default:
				return st, false
			}
			continue
		}
		// any other statement: it must not take or release a lock, or the state is still followed only when nothing is held
		if c20HasLockCall(w.fset, s) {
			w.row(s, "unrecognised: lock call below "+fmt.Sprintf("%T", s))
		}
	}
	return st, true
}

func extractC20Guards(repo string) (string, error) {
	env, files, err := c20LoadPackage(repo)
	if err != nil {
		return "", err
	}
	var names []string
	for n := range files {
		names = append(names, n)
	}
	sort.Strings(names)
	var asserts, locks []string
	for _, fn := range names {
		f := files[fn]
		for _, d := range f.Decls {
			fd, ok := d.(*ast.FuncDecl)
			if !ok || fd.Body == nil {
				continue
			}
			name := c20FnName(fd)
			// --- type assertions: comma-ok iff the assertion is the only right-hand side of a two-valued assignment / declaration
			commaOk := map[*ast.TypeAssertExpr]bool{}
			ast.Inspect(fd.Body, func(n ast.Node) bool {
				switch x := n.(type) {
				case *ast.AssignStmt:
					if len(x.Lhs) == 2 && len(x.Rhs) == 1 {
						if ta, ok := x.Rhs[0].(*ast.TypeAssertExpr); ok {
							commaOk[ta] = true
						}
					}
				case *ast.ValueSpec:
					if len(x.Names) == 2 && len(x.Values) == 1 {
						if ta, ok := x.Values[0].(*ast.TypeAssertExpr); ok {
							commaOk[ta] = true
						}
					}
				}
				return true
			})
			ast.Inspect(fd.Body, func(n ast.Node) bool {
				if ta, ok := n.(*ast.TypeAssertExpr); ok && ta.Type != nil {
					form := "unchecked"
					if commaOk[ta] {
						form = "commaok"
					}
					asserts = append(asserts, fmt.Sprintf("(%q, %q, %q)", name, c20Expr(env.fset, ta.Type), form))
				}
				return true
			})
			// --- lock paths: the declaration's own body and every function literal inside it
			var bodies []struct {
				nm   string
				body *ast.BlockStmt
			}
			bodies = append(bodies, struct {
				nm   string
				body *ast.BlockStmt
			}{name, fd.Body})
			ast.Inspect(fd.Body, func(n ast.Node) bool {
				if fl, ok := n.(*ast.FuncLit); ok {
					bodies = append(bodies, struct {
						nm   string
						body *ast.BlockStmt
					}{fmt.Sprintf("%s.func@%d", name, env.fset.Position(fl.Pos()).Line-env.fset.Position(fd.Pos()).Line), fl.Body})
				}
				return true
			})
			for _, b := range bodies {
				// only the statements of this body itself (a nested literal is a body of its own)
				direct := false
				for _, s := range b.body.List {
					ast.Inspect(s, func(n ast.Node) bool {
						if _, ok := n.(*ast.FuncLit); ok {
							return false
						}
						if e, ok := n.(ast.Expr); ok {
							if _, op, ok := c20LockCall(env.fset, e); ok && (op == "Lock" || op == "RLock") {
								direct = true
							}
						}
						return true
					})
				}
				if !direct {
					continue
				}
				w := &c20LockWalk{fset: env.fset, fn: b.nm, rows: &locks}
				if st, live := w.block(b.body.List, c20LockState{}); live {
					*w.rows = append(*w.rows, fmt.Sprintf("(%q, %q, %q)", b.nm, "end", st.atExit()))
				}
			}
		}
	}
	var sb strings.Builder
	sb.WriteString("-- generated by go/cmd/extract (table C20Guards) from openapi3/*.go — do not edit\n")
	sb.WriteString("namespace KinModel.Gen\n\n")
	fmt.Fprintf(&sb, "-- rows: %d\n", len(asserts)+len(locks))
	sb.WriteString("def c20TypeAsserts : List (String × String × String) := [\n  " + strings.Join(asserts, ",\n  ") + "]\n\n")
	sb.WriteString("def c20LockPaths : List (String × String × String) := [\n  " + strings.Join(locks, ",\n  ") + "]\n\nend KinModel.Gen\n")
	return sb.String(), nil
}
