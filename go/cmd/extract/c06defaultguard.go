package main

// Table C06DefaultGuard: under which condition Schema.visitJSONObject (openapi3/schema.go) writes a property's
// `default` into the value, and how the two flags it consults are defined.
//
// Rule (syntactic, go/ast only) over the body of `func (schema *Schema) visitJSONObject` (function literals are not entered):
//   * `reqRO := <conj>` / `repWO := <conj>` (short variable declarations of exactly these names)  → .define .reqRO [atoms] / .define .repWO [atoms]
//   * every assignment `value[<X>] = <rhs>` is a WRITE into the value. Its enclosing `if` statements up to the loop
//     body give the condition: their conditions, outermost first, split at `&&`                    → .injectIf [atoms]
//     (an `else` on any of them, or an enclosing statement between the loop and the write other than `if` → .unrecognised;
//      the rhs must be `deepcopy.Copy(dflt)` with `dflt := propSchema.Value.Default` as Init of the innermost `if`,
//      `_, present := value[propName]` as Init of an enclosing one, else .unrecognised)
//   * atoms: settings.asreq → .asreq, settings.asrep → .asrep, propSchema.Value.ReadOnly → .readOnly,
//     propSchema.Value.WriteOnly → .writeOnly, !settings.readOnlyValidationDisabled → .notRODisabled,
//     !settings.writeOnlyValidationDisabled → .notWODisabled, dflt != nil → .dfltNotNil, !present → .absent,
//     settings.defaultsSet != nil → .defaultsSet, !reqRO → .notVar .reqRO, !repWO → .notVar .repWO,
//     anything else (||, a negated parenthesis, other names) → .unreadable "<file:line>"
//   * `delete(value, …)` or any other statement assigning to `value` / `value[…]`                  → .unrecognised
// No write found → .unrecognised.

import (
	"bytes"
	"fmt"
	"go/ast"
	"go/parser"
	"go/printer"
	"go/token"
	"path/filepath"
	"regexp"
	"strings"
)

func init() { register("C06DefaultGuard", extractC06DefaultGuard) }

func extractC06DefaultGuard(repo string) (string, error) {
	const rel = "openapi3/schema.go"
	fset := token.NewFileSet()
	f, err := parser.ParseFile(fset, filepath.Join(repo, rel), nil, 0)
	if err != nil {
		return "", err
	}
	ws := regexp.MustCompile(`\s+`)
	text := func(n ast.Node) string {
		var b bytes.Buffer
		_ = printer.Fprint(&b, fset, n)
		return strings.TrimSpace(ws.ReplaceAllString(b.String(), " "))
	}
	site := func(p token.Pos) string { return fmt.Sprintf("%q", fmt.Sprintf("%s:%d", rel, fset.Position(p).Line)) }
	var rows []string
	unrec := func(p token.Pos) { rows = append(rows, ".unrecognised "+site(p)) }
	var fn *ast.FuncDecl
	for _, d := range f.Decls {
		if fd, ok := d.(*ast.FuncDecl); ok && fd.Recv != nil && fd.Name.Name == "visitJSONObject" && fd.Body != nil {
			fn = fd
		}
	}
	if fn == nil {
		return c06dgEmit([]string{fmt.Sprintf(".unrecognised %q", rel+": visitJSONObject not found")}), nil
	}
	atomOf := map[string]string{
		"settings.asreq": ".asreq", "settings.asrep": ".asrep",
		"propSchema.Value.ReadOnly": ".readOnly", "propSchema.Value.WriteOnly": ".writeOnly",
		"!settings.readOnlyValidationDisabled": ".notRODisabled", "!settings.writeOnlyValidationDisabled": ".notWODisabled",
		"dflt != nil": ".dfltNotNil", "!present": ".absent", "settings.defaultsSet != nil": ".defaultsSet",
		"!reqRO": ".notVar .reqRO", "!repWO": ".notVar .repWO",
	}
	var conj func(e ast.Expr, out *[]string)
	conj = func(e ast.Expr, out *[]string) {
		switch x := e.(type) {
		case *ast.ParenExpr:
			conj(x.X, out)
			return
		case *ast.BinaryExpr:
			if x.Op == token.LAND {
				conj(x.X, out)
				conj(x.Y, out)
				return
			}
		}
		if a, ok := atomOf[text(e)]; ok {
			*out = append(*out, a)
		} else {
			*out = append(*out, ".unreadable "+site(e.Pos()))
		}
	}
	isValueIndex := func(e ast.Expr) bool {
		ix, ok := e.(*ast.IndexExpr)
		if !ok {
			return false
		}
		id, ok := ix.X.(*ast.Ident)
		return ok && id.Name == "value"
	}
	writes := 0
	// walk with the stack of enclosing statements
	var walk func(n ast.Node, stack []ast.Node)
	walk = func(n ast.Node, stack []ast.Node) {
		if n == nil {
			return
		}
		switch x := n.(type) {
		case *ast.FuncLit:
			return
		case *ast.AssignStmt:
			if x.Tok == token.DEFINE && len(x.Lhs) == 1 && len(x.Rhs) == 1 {
				if id, ok := x.Lhs[0].(*ast.Ident); ok && (id.Name == "reqRO" || id.Name == "repWO") {
					var as []string
					conj(x.Rhs[0], &as)
					rows = append(rows, fmt.Sprintf(".define .%s [%s]", id.Name, strings.Join(as, ", ")))
				}
			}
			for _, l := range x.Lhs {
				if id, ok := l.(*ast.Ident); ok && id.Name == "value" && x.Tok == token.ASSIGN {
					unrec(x.Pos())
				}
				if !isValueIndex(l) || x.Tok != token.ASSIGN {
					continue
				}
				writes++
				ok := len(x.Lhs) == 1 && len(x.Rhs) == 1 && text(x.Rhs[0]) == "deepcopy.Copy(dflt)"
				var as []string
				sawDflt, sawPresent := false, false
				// enclosing statements from the innermost range/for loop inwards
				start := -1
				for i := len(stack) - 1; i >= 0; i-- {
					if _, isLoop := stack[i].(*ast.RangeStmt); isLoop {
						start = i
						break
					}
					if _, isLoop := stack[i].(*ast.ForStmt); isLoop {
						start = i
						break
					}
				}
				if start < 0 {
					ok = false
				}
				for i := start + 1; ok && i < len(stack); i++ {
					switch s := stack[i].(type) {
					case *ast.BlockStmt:
					case *ast.IfStmt:
						if s.Else != nil {
							ok = false
						}
						if s.Init != nil {
							switch text(s.Init) {
							case "dflt := propSchema.Value.Default":
								sawDflt = true
							case "_, present := value[propName]":
								sawPresent = true
							default:
								ok = false
							}
						}
						conj(s.Cond, &as)
					default:
						ok = false
					}
				}
				if ok && sawDflt && sawPresent {
					rows = append(rows, fmt.Sprintf(".injectIf [%s]", strings.Join(as, ", ")))
				} else {
					unrec(x.Pos())
				}
			}
		case *ast.ExprStmt:
			if call, ok := x.X.(*ast.CallExpr); ok {
				if id, ok := call.Fun.(*ast.Ident); ok && id.Name == "delete" && len(call.Args) > 0 {
					if a, ok := call.Args[0].(*ast.Ident); ok && a.Name == "value" {
						unrec(x.Pos())
					}
				}
			}
		}
		stack = append(stack, n)
		ast.Inspect(n, func(c ast.Node) bool {
			if c == nil || c == n {
				return c == n
			}
			walk(c, stack)
			return false
		})
	}
	walk(fn.Body, nil)
	if writes == 0 {
		rows = append(rows, fmt.Sprintf(".unrecognised %q", rel+": no write of a default into the value in visitJSONObject"))
	}
	return c06dgEmit(rows), nil
}

func c06dgEmit(rows []string) string {
	var b strings.Builder
	b.WriteString("/- GENERATED by go/cmd/extract (table C06DefaultGuard) from openapi3/schema.go — do not edit. -/\n")
	b.WriteString("namespace KinModel.Gen\n\n")
	b.WriteString("inductive C06DVar\n  | reqRO\n  | repWO\n  deriving DecidableEq, Repr\n\n")
	b.WriteString("inductive C06DAtom\n  | asreq\n  | asrep\n  | readOnly\n  | writeOnly\n  | notRODisabled\n  | notWODisabled\n  | dfltNotNil\n  | absent\n  | defaultsSet\n  | notVar (v : C06DVar)\n  | unreadable (site : String)\n  deriving DecidableEq, Repr\n\n")
	b.WriteString("inductive C06DRow\n  | define (v : C06DVar) (conj : List C06DAtom)\n  | injectIf (conj : List C06DAtom)\n  | unrecognised (site : String)\n  deriving DecidableEq, Repr\n\n")
	b.WriteString("def c06DefaultGuard : List C06DRow := [\n")
	for i, r := range rows {
		sep := ","
		if i == len(rows)-1 {
			sep = ""
		}
		b.WriteString("  " + r + sep + "\n")
	}
	b.WriteString("]\n\n")
	b.WriteString(fmt.Sprintf("-- rows: %d\n\nend KinModel.Gen\n", len(rows)))
	return b.String()
}
