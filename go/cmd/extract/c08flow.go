package main

// Table C08Flow (property C08): the control flow of openapi3filter/validate_response.go — the two functions
// ValidateResponse and validateResponseHeader — as two step programs which the model interprets
// (lean/KinModel/ResponseFlow.lean: `runResp`, `runHdr`). `Props/C08.lean` proves by `decide` that every statement was
// recognised and that the table IS the program whose interpretation equals the model `validateResponse` / `checkHeader`
// (`validateResponse_is_table_program`, `checkHeader_is_table_program`).
//
// Rule (syntactic, go/ast; every top-level statement of the two bodies is consumed in source order; statements are
// compared as whitespace-normalised text, the parts that vary are the row's parameters):
//
// func ValidateResponse(ctx, input):
//   req := input.RequestValidationInput.Request ; switch req.Method { case <lits>: return nil }       → .skipMethods [lits]
//   status := input.Status ; switch status { case http.Status<N>, …: return nil }                     → .skipStatuses [codes]
//   route := input.RequestValidationInput.Route                                                        (alias; no row)
//   options := input.Options ; if options == nil { options = &Options{} }                             → .optionsDefault
//   responses := route.Operation.Responses                                                             (alias; no row)
//   if <conds joined by &&> { return nil }     conds ∈ responses.Len() == 0 → .mapEmpty, !options.IncludeResponseStatus → .notStrict
//                                                                                                       → .emptyMapOk [conds]
//   responseRef := responses.Status(status)                                                            → .lookupStatus
//   if responseRef == nil { responseRef = responses.Default() }                                        → .fallbackDefault
//   if responseRef == nil { if !options.IncludeResponseStatus { return nil } ; return &ResponseError{Input: input, Reason: <lit>} }
//                                                                                                       → .undefinedStatus <lit>
//   response := responseRef.Value ; if response == nil { return &ResponseError{Input: input, Reason: <lit>} }
//                                                                                                       → .unresolvedFails <lit>
//   opts := make([]openapi3.SchemaValidationOption, 0, <n>)                                            → .optsEmpty
//   if options.<F> { opts = append(opts, openapi3.<G>()) }                                             → .optIf <F> <G>
//   if options.customSchemaErrorFunc != nil { opts = append(opts, openapi3.SetSchemaErrorMessageCustomizer(options.customSchemaErrorFunc)) }
//                                                                                                       → .optCustomizer
//   headers := make([]string, 0, len(response.Headers)) ; for k := range response.Headers { if k != headerCT { headers = append(headers, k) } }
//   sort.Strings(headers)                                                                              → .sortedHeaderNames
//   for _, headerName := range headers { headerRef := response.Headers[headerName] ;
//       if err := validateResponseHeader(headerName, headerRef, input, <OPTS>); err != nil { return err } }
//                                                                                                       → .headerLoop <asResponse>
//       (OPTS = append(opts, openapi3.VisitAsResponse()) → true, opts → false)
//   if options.ExcludeResponseBody { return nil }                                                      → .excludeBodyOk
//   content := response.Content ; if len(content) == 0 { return nil }                                  → .noContentOk
//   inputMIME := input.Header.Get(headerCT) ; contentType := content.Get(inputMIME) ;
//   if contentType == nil { return &ResponseError{ Input: input, Reason: fmt.Sprintf("response %s: %q", prefixInvalidCT, inputMIME), } }
//                                                                                                       → .contentTypeLookup
//   if contentType.Schema == nil { return nil }                                                        → .noSchemaOk
//   body := input.Body ; input.Body = nil ; defer body.Close() ; data, err := io.ReadAll(body) ;
//   if err != nil { return &ResponseError{ Input: input, Reason: <lit>, Err: err, } }                  → .readBody <lit>
//   input.SetBodyBytes(data)                                                                           → .restoreBody
//   encFn := … ; _, value, err := decodeBody(bytes.NewBuffer(data), input.Header, contentType.Schema, encFn) ;
//   if err != nil { return &ResponseError{ Input: input, Reason: <lit>, Err: err, } }                  → .decodeBody <lit>
//   if err := contentType.Schema.Value.VisitJSON(value, <OPTS>...); err != nil { …; return &ResponseError{…} }
//                                                                                                       → .visitBody <asResponse>
//   return nil                                                                                         → .retNil
//
// func validateResponseHeader(headerName, headerRef, input, opts):
//   var err error ; var decodedValue any ; var found bool ; var sm *openapi3.SerializationMethod ; dec := &headerParamDecoder{header: input.Header}
//                                                                                                       → .locals
//   if headerRef.Value.Schema == nil { if _, found = input.Header[http.CanonicalHeaderKey(headerName)]; !found && headerRef.Value.Required {
//        return &ResponseError{… "response header %q missing" …} } ; return nil }                       → .presenceOnly
//   if sm, err = headerRef.Value.SerializationMethod(); err != nil { return &ResponseError{…} }        → .serialization
//   if decodedValue, found, err = decodeValue(dec, headerName, sm, headerRef.Value.Schema, headerRef.Value.Required); err != nil { return … }
//                                                                                                       → .decode
//   if found { if err = headerRef.Value.Schema.Value.VisitJSON(decodedValue, opts...); err != nil { return … } }
//   else if headerRef.Value.Required { return … "response header %q missing" … }                       → .visitFoundElseRequired
//   return nil                                                                                         → .retNil
//
// Any other statement, and any recognised statement where the rule does not expect it, becomes
// `.unrecognised "<file:line>"` (never skipped silently).

import (
	"bytes"
	"fmt"
	"go/ast"
	"go/parser"
	"go/printer"
	"go/token"
	"path/filepath"
	"regexp"
	"strconv"
	"strings"
)

func init() { register("C08Flow", extractC08Flow) }

const c08File = "openapi3filter/validate_response.go"

var c08ws = regexp.MustCompile(`\s+`)

type c08x struct {
	fset *token.FileSet
	list []ast.Stmt
	txt  []string
	i    int
	rows []string
}

func c08text(fset *token.FileSet, n ast.Node) string {
	var b bytes.Buffer
	_ = printer.Fprint(&b, fset, n)
	return strings.TrimSpace(c08ws.ReplaceAllString(b.String(), " "))
}

func c08new(fset *token.FileSet, fd *ast.FuncDecl) *c08x {
	c := &c08x{fset: fset, list: fd.Body.List}
	for _, s := range c.list {
		c.txt = append(c.txt, c08text(fset, s))
	}
	return c
}

func (c *c08x) unrec() {
	c.rows = append(c.rows, fmt.Sprintf(".unrecognised %q", fmt.Sprintf("%s:%d", c08File, c.fset.Position(c.list[c.i].Pos()).Line)))
	c.i++
}

// seq reports whether the next statements have exactly the given texts (a regexp each, anchored); the submatches of
// all of them are returned in order.
func (c *c08x) seq(pats ...string) ([]string, bool) {
	if c.i+len(pats) > len(c.list) {
		return nil, false
	}
	var subs []string
	for k, p := range pats {
		m := regexp.MustCompile(`^` + p + `$`).FindStringSubmatch(c.txt[c.i+k])
		if m == nil {
			return nil, false
		}
		subs = append(subs, m[1:]...)
	}
	return subs, true
}

func c08q(s string) string { return regexp.QuoteMeta(s) }

const c08lit = `("(?:[^"\\]|\\.)*")`

func c08unq(s string) string {
	u, err := strconv.Unquote(s)
	if err != nil {
		return s
	}
	return u
}

func c08asResp(s string) (string, bool) {
	switch s {
	case "append(opts, openapi3.VisitAsResponse())":
		return "true", true
	case "opts":
		return "false", true
	}
	return "", false
}

func (c *c08x) validateResponse() []string {
	for c.i < len(c.list) {
		s := c.list[c.i]
		// switch req.Method / switch status
		if _, ok := c.seq(c08q("req := input.RequestValidationInput.Request"), `switch req\.Method \{.*\}`); ok {
			if lits, ok := c08cases(c, c.list[c.i+1].(*ast.SwitchStmt), false); ok {
				c.rows = append(c.rows, ".skipMethods ["+strings.Join(lits, ", ")+"]")
				c.i += 2
				continue
			}
		}
		if _, ok := c.seq(c08q("status := input.Status"), `switch status \{.*\}`); ok {
			if lits, ok := c08cases(c, c.list[c.i+1].(*ast.SwitchStmt), true); ok {
				c.rows = append(c.rows, ".skipStatuses ["+strings.Join(lits, ", ")+"]")
				c.i += 2
				continue
			}
		}
		if _, ok := c.seq(c08q("route := input.RequestValidationInput.Route")); ok {
			c.i++
			continue
		}
		if _, ok := c.seq(c08q("responses := route.Operation.Responses")); ok {
			c.i++
			continue
		}
		if _, ok := c.seq(c08q("options := input.Options"), c08q("if options == nil { options = &Options{} }")); ok {
			c.rows = append(c.rows, ".optionsDefault")
			c.i += 2
			continue
		}
		if x, ok := s.(*ast.IfStmt); ok && x.Init == nil && x.Else == nil && c08text(c.fset, x.Body) == "{ return nil }" {
			var conds []string
			good := true
			for _, e := range c08conj(x.Cond) {
				switch c08text(c.fset, e) {
				case "responses.Len() == 0":
					conds = append(conds, ".mapEmpty")
				case "!options.IncludeResponseStatus":
					conds = append(conds, ".notStrict")
				default:
					good = false
				}
			}
			if good {
				c.rows = append(c.rows, ".emptyMapOk ["+strings.Join(conds, ", ")+"]")
				c.i++
				continue
			}
		}
		if _, ok := c.seq(c08q("responseRef := responses.Status(status)")); ok {
			c.rows = append(c.rows, ".lookupStatus")
			c.i++
			continue
		}
		if _, ok := c.seq(c08q("if responseRef == nil { responseRef = responses.Default() }")); ok {
			c.rows = append(c.rows, ".fallbackDefault")
			c.i++
			continue
		}
		if m, ok := c.seq(c08q("if responseRef == nil { if !options.IncludeResponseStatus { return nil } return &ResponseError{Input: input, Reason: ") + c08lit + c08q("} }")); ok {
			c.rows = append(c.rows, fmt.Sprintf(".undefinedStatus %q", c08unq(m[0])))
			c.i++
			continue
		}
		if m, ok := c.seq(c08q("response := responseRef.Value"), c08q("if response == nil { return &ResponseError{Input: input, Reason: ")+c08lit+c08q("} }")); ok {
			c.rows = append(c.rows, fmt.Sprintf(".unresolvedFails %q", c08unq(m[0])))
			c.i += 2
			continue
		}
		if _, ok := c.seq(c08q("opts := make([]openapi3.SchemaValidationOption, 0, ") + `\d+` + c08q(")")); ok {
			c.rows = append(c.rows, ".optsEmpty")
			c.i++
			continue
		}
		if m, ok := c.seq(`if options\.(\w+) \{ opts = append\(opts, openapi3\.(\w+)\(\)\) \}`); ok {
			c.rows = append(c.rows, fmt.Sprintf(".optIf %q %q", m[0], m[1]))
			c.i++
			continue
		}
		if _, ok := c.seq(c08q("if options.customSchemaErrorFunc != nil { opts = append(opts, openapi3.SetSchemaErrorMessageCustomizer(options.customSchemaErrorFunc)) }")); ok {
			c.rows = append(c.rows, ".optCustomizer")
			c.i++
			continue
		}
		if _, ok := c.seq(c08q("headers := make([]string, 0, len(response.Headers))"),
			c08q("for k := range response.Headers { if k != headerCT { headers = append(headers, k) } }"),
			c08q("sort.Strings(headers)")); ok {
			c.rows = append(c.rows, ".sortedHeaderNames")
			c.i += 3
			continue
		}
		if m, ok := c.seq(c08q("for _, headerName := range headers { headerRef := response.Headers[headerName] if err := validateResponseHeader(headerName, headerRef, input, ") + `(.*)` + c08q("); err != nil { return err } }")); ok {
			if a, ok := c08asResp(m[0]); ok {
				c.rows = append(c.rows, ".headerLoop "+a)
				c.i++
				continue
			}
		}
		if _, ok := c.seq(c08q("if options.ExcludeResponseBody { return nil }")); ok {
			c.rows = append(c.rows, ".excludeBodyOk")
			c.i++
			continue
		}
		if _, ok := c.seq(c08q("content := response.Content"), c08q("if len(content) == 0 { return nil }")); ok {
			c.rows = append(c.rows, ".noContentOk")
			c.i += 2
			continue
		}
		if _, ok := c.seq(c08q("inputMIME := input.Header.Get(headerCT)"), c08q("contentType := content.Get(inputMIME)"),
			c08q(`if contentType == nil { return &ResponseError{ Input: input, Reason: fmt.Sprintf("response %s: %q", prefixInvalidCT, inputMIME), } }`)); ok {
			c.rows = append(c.rows, ".contentTypeLookup")
			c.i += 3
			continue
		}
		if _, ok := c.seq(c08q("if contentType.Schema == nil { return nil }")); ok {
			c.rows = append(c.rows, ".noSchemaOk")
			c.i++
			continue
		}
		if m, ok := c.seq(c08q("body := input.Body"), c08q("input.Body = nil"), c08q("defer body.Close()"), c08q("data, err := io.ReadAll(body)"),
			c08q("if err != nil { return &ResponseError{ Input: input, Reason: ")+c08lit+c08q(", Err: err, } }")); ok {
			c.rows = append(c.rows, fmt.Sprintf(".readBody %q", c08unq(m[0])))
			c.i += 5
			continue
		}
		if _, ok := c.seq(c08q("input.SetBodyBytes(data)")); ok {
			c.rows = append(c.rows, ".restoreBody")
			c.i++
			continue
		}
		if m, ok := c.seq(c08q("encFn := func(name string) *openapi3.Encoding { return contentType.Encoding[name] }"),
			c08q("_, value, err := decodeBody(bytes.NewBuffer(data), input.Header, contentType.Schema, encFn)"),
			c08q("if err != nil { return &ResponseError{ Input: input, Reason: ")+c08lit+c08q(", Err: err, } }")); ok {
			c.rows = append(c.rows, fmt.Sprintf(".decodeBody %q", c08unq(m[0])))
			c.i += 3
			continue
		}
		if m, ok := c.seq(c08q("if err := contentType.Schema.Value.VisitJSON(value, ") + `(.*)` + c08q("...); err != nil { schemaId := getSchemaIdentifier(contentType.Schema) schemaId = prependSpaceIfNeeded(schemaId) return &ResponseError{ Input: input, Reason: fmt.Sprintf(\"response body doesn't match schema%s\", schemaId), Err: err, } }")); ok {
			if a, ok := c08asResp(m[0]); ok {
				c.rows = append(c.rows, ".visitBody "+a)
				c.i++
				continue
			}
		}
		if _, ok := c.seq(c08q("return nil")); ok {
			c.rows = append(c.rows, ".retNil")
			c.i++
			continue
		}
		c.unrec()
	}
	return c.rows
}

func c08conj(e ast.Expr) []ast.Expr {
	if b, ok := e.(*ast.BinaryExpr); ok && b.Op == token.LAND {
		return append(c08conj(b.X), c08conj(b.Y)...)
	}
	if p, ok := e.(*ast.ParenExpr); ok {
		return c08conj(p.X)
	}
	return []ast.Expr{e}
}

// the case values of `switch … { case a, b: return nil }` (one or more clauses, each returning nil, no default)
func c08cases(c *c08x, sw *ast.SwitchStmt, status bool) ([]string, bool) {
	if sw.Init != nil {
		return nil, false
	}
	var out []string
	for _, cl := range sw.Body.List {
		cc := cl.(*ast.CaseClause)
		if cc.List == nil || len(cc.Body) != 1 || c08text(c.fset, cc.Body[0]) != "return nil" {
			return nil, false
		}
		for _, e := range cc.List {
			t := c08text(c.fset, e)
			if status {
				if v, ok := respHTTPStatus[strings.TrimPrefix(t, "http.")]; ok && strings.HasPrefix(t, "http.") {
					out = append(out, strconv.Itoa(v))
					continue
				}
				if _, err := strconv.Atoi(t); err == nil {
					out = append(out, t)
					continue
				}
				return nil, false
			}
			if l, ok := e.(*ast.BasicLit); !ok || l.Kind != token.STRING {
				return nil, false
			}
			out = append(out, fmt.Sprintf("%q", c08unq(t)))
		}
	}
	return out, true
}

func (c *c08x) validateHeader() []string {
	missing := `return &ResponseError{ Input: input, Reason: fmt.Sprintf("response header %q missing", headerName), }`
	for c.i < len(c.list) {
		if _, ok := c.seq(c08q("var err error"), c08q("var decodedValue any"), c08q("var found bool"), c08q("var sm *openapi3.SerializationMethod"),
			c08q("dec := &headerParamDecoder{header: input.Header}")); ok && c.i == 0 {
			c.rows = append(c.rows, ".locals")
			c.i += 5
			continue
		}
		if _, ok := c.seq(c08q("if headerRef.Value.Schema == nil { if _, found = input.Header[http.CanonicalHeaderKey(headerName)]; !found && headerRef.Value.Required { " + missing + " } return nil }")); ok {
			c.rows = append(c.rows, ".presenceOnly")
			c.i++
			continue
		}
		if _, ok := c.seq(c08q(`if sm, err = headerRef.Value.SerializationMethod(); err != nil { return &ResponseError{ Input: input, Reason: fmt.Sprintf("unable to get header %q serialization method", headerName), Err: err, } }`)); ok {
			c.rows = append(c.rows, ".serialization")
			c.i++
			continue
		}
		if _, ok := c.seq(c08q(`if decodedValue, found, err = decodeValue(dec, headerName, sm, headerRef.Value.Schema, headerRef.Value.Required); err != nil { return &ResponseError{ Input: input, Reason: fmt.Sprintf("unable to decode header %q value", headerName), Err: err, } }`)); ok {
			c.rows = append(c.rows, ".decode")
			c.i++
			continue
		}
		if _, ok := c.seq(c08q(`if found { if err = headerRef.Value.Schema.Value.VisitJSON(decodedValue, opts...); err != nil { return &ResponseError{ Input: input, Reason: fmt.Sprintf("response header %q doesn't match schema", headerName), Err: err, } } } else if headerRef.Value.Required { ` + missing + ` }`)); ok {
			c.rows = append(c.rows, ".visitFoundElseRequired")
			c.i++
			continue
		}
		if _, ok := c.seq(c08q("return nil")); ok {
			c.rows = append(c.rows, ".retNil")
			c.i++
			continue
		}
		c.unrec()
	}
	return c.rows
}

const c08Types = `inductive C08Cond | mapEmpty | notStrict
  deriving DecidableEq, Repr
inductive C08Row
  | skipMethods (ms : List String)
  | skipStatuses (codes : List Int)
  | optionsDefault
  | emptyMapOk (conds : List C08Cond)
  | lookupStatus
  | fallbackDefault
  | undefinedStatus (reason : String)
  | unresolvedFails (reason : String)
  | optsEmpty
  | optIf (field ctor : String)
  | optCustomizer
  | sortedHeaderNames
  | headerLoop (asResponse : Bool)
  | excludeBodyOk
  | noContentOk
  | contentTypeLookup
  | noSchemaOk
  | readBody (reason : String)
  | restoreBody
  | decodeBody (reason : String)
  | visitBody (asResponse : Bool)
  | retNil
  | locals
  | presenceOnly
  | serialization
  | decode
  | visitFoundElseRequired
  | unrecognised (site : String)
  deriving DecidableEq, Repr
`

func extractC08Flow(repo string) (string, error) {
	fset := token.NewFileSet()
	f, err := parser.ParseFile(fset, filepath.Join(repo, filepath.FromSlash(c08File)), nil, 0)
	if err != nil {
		return "", err
	}
	decls := map[string]*ast.FuncDecl{}
	for _, d := range f.Decls {
		if fd, ok := d.(*ast.FuncDecl); ok && fd.Recv == nil && fd.Body != nil {
			decls[fd.Name.Name] = fd
		}
	}
	params := func(fd *ast.FuncDecl) string {
		var ns []string
		for _, p := range fd.Type.Params.List {
			for _, n := range p.Names {
				ns = append(ns, n.Name)
			}
		}
		return strings.Join(ns, ",")
	}
	type fn struct {
		name, def, params string
		run               func(*c08x) []string
	}
	fns := []fn{
		{"ValidateResponse", "c08ValidateResponse", "ctx,input", (*c08x).validateResponse},
		{"validateResponseHeader", "c08ValidateHeader", "headerName,headerRef,input,opts", (*c08x).validateHeader},
	}
	var b strings.Builder
	b.WriteString("/- GENERATED by go/cmd/extract (table C08Flow) from " + c08File + " — do not edit. -/\n")
	b.WriteString("namespace KinModel.Gen\n\n" + c08Types + "\n")
	total := 0
	for _, x := range fns {
		var rows []string
		fd := decls[x.name]
		switch {
		case fd == nil:
			rows = []string{fmt.Sprintf(".unrecognised %q", c08File+": func "+x.name+" not found")}
		case params(fd) != x.params:
			rows = []string{fmt.Sprintf(".unrecognised %q", fmt.Sprintf("%s:%d parameters", c08File, fset.Position(fd.Pos()).Line))}
		default:
			rows = x.run(c08new(fset, fd))
		}
		fmt.Fprintf(&b, "/-- `%s` -/\ndef %s : List C08Row := [\n  %s\n]\n\n", x.name, x.def, strings.Join(rows, ",\n  "))
		total += len(rows)
	}
	fmt.Fprintf(&b, "-- rows: %d\n\nend KinModel.Gen\n", total)
	return b.String(), nil
}
