package main

// Table ReaderGuards (property C11): the conditions under which the library's own readers (openapi3/loader_uri_reader.go)
// touch a medium, as expression trees over the fields of the location:
//   is_file            role "return"      the returned boolean expression
//   ReadFromHTTP       role "decline-if"  condition of the if whose body returns ErrURINotSupported (inside the returned func literal)
//   ReadFromHTTP       role "fetches"     text of the URL argument of http.NewRequest
//   ReadFromFile       role "decline-if"  condition of the if whose body returns ErrURINotSupported
//   ReadFromFile       role "reads"       text of the argument of os.ReadFile
//   DefaultReadFromURI role "compose"     text of the initialiser
// Expression trees: == / != of location.<Field> with a string literal, &&, ||, !, a call f(location) (by name).
// Anything else is an `unrecognised` leaf.

import (
	"fmt"
	"go/ast"
	"go/parser"
	"go/token"
	"path/filepath"
	"strconv"
	"strings"
)

func init() { register("ReaderGuards", extractReaderGuards) }

func c11GExp(fset *token.FileSet, e ast.Expr) string {
	switch x := e.(type) {
	case *ast.ParenExpr:
		return c11GExp(fset, x.X)
	case *ast.UnaryExpr:
		if x.Op == token.NOT {
			return "(.not " + c11GExp(fset, x.X) + ")"
		}
	case *ast.BinaryExpr:
		switch x.Op {
		case token.LAND:
			return "(.and " + c11GExp(fset, x.X) + " " + c11GExp(fset, x.Y) + ")"
		case token.LOR:
			return "(.or " + c11GExp(fset, x.X) + " " + c11GExp(fset, x.Y) + ")"
		case token.EQL, token.NEQ:
			se, ok1 := x.X.(*ast.SelectorExpr)
			lit, ok2 := x.Y.(*ast.BasicLit)
			if ok1 && ok2 && lit.Kind == token.STRING {
				if id, ok := se.X.(*ast.Ident); ok && id.Name == "location" {
					s, err := strconv.Unquote(lit.Value)
					if err == nil {
						op := ".eq"
						if x.Op == token.NEQ {
							op = ".ne"
						}
						return fmt.Sprintf("(%s %q %q)", op, se.Sel.Name, s)
					}
				}
			}
		}
	case *ast.CallExpr:
		if id, ok := x.Fun.(*ast.Ident); ok && len(x.Args) == 1 {
			if a, ok := x.Args[0].(*ast.Ident); ok && a.Name == "location" {
				return fmt.Sprintf("(.call %q)", id.Name)
			}
		}
	}
	p := fset.Position(e.Pos())
	return fmt.Sprintf("(.unrecognised %q)", fmt.Sprintf("%s:%d", filepath.Base(p.Filename), p.Line))
}

func c11ReturnsNotSupported(b *ast.BlockStmt) bool {
	for _, st := range b.List {
		if rs, ok := st.(*ast.ReturnStmt); ok {
			for _, r := range rs.Results {
				if id, ok := r.(*ast.Ident); ok && id.Name == "ErrURINotSupported" {
					return true
				}
			}
		}
	}
	return false
}

func extractReaderGuards(repo string) (string, error) {
	fset := token.NewFileSet()
	file, err := parser.ParseFile(fset, filepath.Join(repo, "openapi3", "loader_uri_reader.go"), nil, 0)
	if err != nil {
		return "", err
	}
	type row struct{ fn, role, exp, text, pos string }
	var rows []row
	line := func(n ast.Node) string { return fmt.Sprintf("loader_uri_reader.go:%d", fset.Position(n.Pos()).Line) }
	none := `(.eq "" "")`
	for _, decl := range file.Decls {
		switch d := decl.(type) {
		case *ast.GenDecl:
			for _, sp := range d.Specs {
				vs, ok := sp.(*ast.ValueSpec)
				if !ok {
					continue
				}
				for i, n := range vs.Names {
					if n.Name == "DefaultReadFromURI" && i < len(vs.Values) {
						rows = append(rows, row{"DefaultReadFromURI", "compose", none, read_exprText(fset, vs.Values[i]), line(vs)})
					}
				}
			}
		case *ast.FuncDecl:
			name := d.Name.Name
			if d.Body == nil || (name != "is_file" && name != "ReadFromHTTP" && name != "ReadFromFile") {
				continue
			}
			if name == "is_file" {
				found := false
				for _, st := range d.Body.List {
					if rs, ok := st.(*ast.ReturnStmt); ok && len(rs.Results) == 1 {
						rows = append(rows, row{name, "return", c11GExp(fset, rs.Results[0]), "", line(rs)})
						found = true
					} else {
						rows = append(rows, row{name, "return", fmt.Sprintf("(.unrecognised %q)", line(st)), "", line(st)})
					}
				}
				if !found {
					rows = append(rows, row{name, "return", fmt.Sprintf("(.unrecognised %q)", line(d)), "", line(d)})
				}
				continue
			}
			// every if (at any depth) whose body returns ErrURINotSupported; every http.NewRequest / os.ReadFile call
			ast.Inspect(d.Body, func(n ast.Node) bool {
				switch x := n.(type) {
				case *ast.IfStmt:
					if c11ReturnsNotSupported(x.Body) {
						exp := c11GExp(fset, x.Cond)
						if x.Init != nil || x.Else != nil {
							exp = fmt.Sprintf("(.unrecognised %q)", line(x))
						}
						rows = append(rows, row{name, "decline-if", exp, "", line(x)})
					}
				case *ast.CallExpr:
					switch read_exprText(fset, x.Fun) {
					case "http.NewRequest":
						if len(x.Args) == 3 {
							rows = append(rows, row{name, "fetches", none, read_exprText(fset, x.Args[0]) + " " + read_exprText(fset, x.Args[1]), line(x)})
						}
					case "os.ReadFile", "os.Open", "ioutil.ReadFile":
						if len(x.Args) == 1 {
							rows = append(rows, row{name, "reads", none, read_exprText(fset, x.Args[0]), line(x)})
						}
					}
				}
				return true
			})
		}
	}
	var b strings.Builder
	b.WriteString("-- GENERATED by go/cmd/extract (table ReaderGuards) from openapi3/loader_uri_reader.go — do not edit\n")
	b.WriteString("namespace KinModel.Gen\n\n")
	b.WriteString("inductive GExp where\n  | eq (field lit : String)\n  | ne (field lit : String)\n  | and (a b : GExp)\n  | or (a b : GExp)\n  | not (a : GExp)\n  | call (fn : String)\n  | unrecognised (pos : String)\n  deriving DecidableEq, Repr\n\n")
	b.WriteString("structure ReaderGuardRow where\n  fn : String\n  role : String\n  exp : GExp\n  text : String\n  deriving DecidableEq, Repr\n\n")
	fmt.Fprintf(&b, "-- rows: %d\n", len(rows))
	b.WriteString("def readerGuards : List ReaderGuardRow := [\n")
	for i, r := range rows {
		sep := ","
		if i == len(rows)-1 {
			sep = ""
		}
		fmt.Fprintf(&b, "  ⟨%q, %q, %s, %q⟩%s -- %s\n", r.fn, r.role, r.exp, r.text, sep, r.pos)
	}
	b.WriteString("]\n\nend KinModel.Gen\n")
	return b.String(), nil
}
