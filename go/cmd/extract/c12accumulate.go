package main

// Table C12Accumulate (C12): the multi-error accumulation sites of openapi3/schema.go. In every visit function each
// failing check ends with `if !settings.multiError { return err }` followed by the code that keeps the error for the
// MultiError returned at the end. A row per such `if`: the enclosing function and the SHAPE of what follows it:
//
//	plain             me = append(me, <ident>)                                       — the error is kept as it is
//	flatten-else      if v, ok := err.(MultiError); ok { me = append(me, v...) } else { me = append(me, err) }
//	flatten-continue  if v, ok := err.(MultiError); ok { me = append(me, v...); continue }; me = append(me, err)
//
// In all three shapes EVERY error reaching the site ends up in `me`, whatever its dynamic type (a *SchemaError, a nested
// MultiError, the errSchema sentinel of FailFast, ErrSchemaInputNaN/Inf, a plain error). Any other continuation (a type
// switch, an assertion without an else, a conditional append) is an `unrecognised:<file:line>` row.
// `others`: uses of settings.multiError that are not such an `if` (none today).

import (
	"fmt"
	"go/ast"
	"go/parser"
	"go/token"
	"path/filepath"
	"strings"
)

func init() { register("C12Accumulate", extractC12Accumulate) }

func c12IsAppendMe(s ast.Stmt, spread bool) (string, bool) {
	as, ok := s.(*ast.AssignStmt)
	if !ok || as.Tok != token.ASSIGN || len(as.Lhs) != 1 || len(as.Rhs) != 1 {
		return "", false
	}
	l, ok := as.Lhs[0].(*ast.Ident)
	if !ok || l.Name != "me" {
		return "", false
	}
	c, ok := as.Rhs[0].(*ast.CallExpr)
	if !ok || len(c.Args) != 2 || c.Ellipsis.IsValid() != spread {
		return "", false
	}
	if f, ok := c.Fun.(*ast.Ident); !ok || f.Name != "append" {
		return "", false
	}
	if a0, ok := c.Args[0].(*ast.Ident); !ok || a0.Name != "me" {
		return "", false
	}
	a1, ok := c.Args[1].(*ast.Ident)
	if !ok {
		return "", false
	}
	return a1.Name, true
}

func c12IsMultiGate(s ast.Stmt) bool {
	is, ok := s.(*ast.IfStmt)
	if !ok || is.Init != nil || is.Else != nil {
		return false
	}
	u, ok := is.Cond.(*ast.UnaryExpr)
	if !ok || u.Op != token.NOT {
		return false
	}
	sel, ok := u.X.(*ast.SelectorExpr)
	if !ok || sel.Sel.Name != "multiError" {
		return false
	}
	if len(is.Body.List) != 1 {
		return false
	}
	_, ok = is.Body.List[0].(*ast.ReturnStmt)
	return ok
}

func c12TailShape(tail []ast.Stmt) string {
	if len(tail) == 0 {
		return ""
	}
	if _, ok := c12IsAppendMe(tail[0], false); ok {
		return "plain"
	}
	is, ok := tail[0].(*ast.IfStmt)
	if !ok || is.Init == nil {
		return ""
	}
	init, ok := is.Init.(*ast.AssignStmt)
	if !ok || init.Tok != token.DEFINE || len(init.Lhs) != 2 || len(init.Rhs) != 1 {
		return ""
	}
	ta, ok := init.Rhs[0].(*ast.TypeAssertExpr)
	if !ok || ta.Type == nil {
		return ""
	}
	src, ok := ta.X.(*ast.Ident)
	if !ok {
		return ""
	}
	if t, ok := ta.Type.(*ast.Ident); !ok || t.Name != "MultiError" {
		return ""
	}
	v, ok1 := init.Lhs[0].(*ast.Ident)
	okv, ok2 := init.Lhs[1].(*ast.Ident)
	cond, ok3 := is.Cond.(*ast.Ident)
	if !ok1 || !ok2 || !ok3 || cond.Name != okv.Name || len(is.Body.List) == 0 {
		return ""
	}
	if n, ok := c12IsAppendMe(is.Body.List[0], true); !ok || n != v.Name {
		return ""
	}
	if is.Else != nil {
		eb, ok := is.Else.(*ast.BlockStmt)
		if !ok || len(eb.List) != 1 || len(is.Body.List) != 1 {
			return ""
		}
		if n, ok := c12IsAppendMe(eb.List[0], false); ok && n == src.Name {
			return "flatten-else"
		}
		return ""
	}
	if len(is.Body.List) == 2 && len(tail) >= 2 {
		if br, ok := is.Body.List[1].(*ast.BranchStmt); ok && br.Tok == token.CONTINUE && br.Label == nil {
			if n, ok := c12IsAppendMe(tail[1], false); ok && n == src.Name {
				return "flatten-continue"
			}
		}
	}
	return ""
}

func extractC12Accumulate(repo string) (string, error) {
	fset := token.NewFileSet()
	f, err := parser.ParseFile(fset, filepath.Join(repo, "openapi3", "schema.go"), nil, 0)
	if err != nil {
		return "", err
	}
	type row struct{ fn, shape string }
	var rows []row
	others := 0
	for _, d := range f.Decls {
		fd, ok := d.(*ast.FuncDecl)
		if !ok || fd.Body == nil {
			continue
		}
		fn := fd.Name.Name
		gates := map[ast.Node]bool{}
		lists := func(list []ast.Stmt) {
			for i, s := range list {
				if c12IsMultiGate(s) {
					gates[s.(*ast.IfStmt).Cond.(*ast.UnaryExpr).X] = true
					shape := c12TailShape(list[i+1:])
					if shape == "" {
						p := fset.Position(s.Pos())
						shape = fmt.Sprintf("unrecognised:openapi3/schema.go:%d", p.Line)
					}
					rows = append(rows, row{fn, shape})
				}
			}
		}
		ast.Inspect(fd.Body, func(n ast.Node) bool {
			switch x := n.(type) {
			case *ast.BlockStmt:
				lists(x.List)
			case *ast.CaseClause:
				lists(x.Body)
			case *ast.CommClause:
				lists(x.Body)
			}
			return true
		})
		ast.Inspect(fd.Body, func(n ast.Node) bool {
			if sel, ok := n.(*ast.SelectorExpr); ok && sel.Sel.Name == "multiError" && !gates[sel] {
				others++
				p := fset.Position(sel.Pos())
				rows = append(rows, row{fn, fmt.Sprintf("unrecognised:openapi3/schema.go:%d", p.Line)})
			}
			return true
		})
	}
	var b strings.Builder
	b.WriteString("/- GENERATED by go/cmd/extract (table C12Accumulate) from openapi3/schema.go — do not edit -/\n")
	b.WriteString("namespace KinModel.Gen\n\nstructure C12AccumulateRow where\n  fn : String\n  shape : String\n  deriving DecidableEq, Repr\n\n")
	fmt.Fprintf(&b, "-- rows: %d\n", len(rows))
	b.WriteString("def c12Accumulate : List C12AccumulateRow := [\n")
	for i, r := range rows {
		sep := ","
		if i == len(rows)-1 {
			sep = ""
		}
		fmt.Fprintf(&b, "  ⟨%s, %s⟩%s\n", rsLeanStr(r.fn), rsLeanStr(r.shape), sep)
	}
	b.WriteString("]\n\nend KinModel.Gen\n")
	return b.String(), nil
}
