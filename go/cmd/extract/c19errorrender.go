package main

// Table ErrorRender (C19): what `(*SchemaError).Error()` (package openapi3) prints, and under which conditions.
// One row per use of a field of the receiver inside the method body, in source order:
//   field  — the selected field (`Value`, `Schema`, `Reason`, `Origin`, `reversePath`, `SchemaField`, `customizeMessageError`)
//   guards — the conditions of the enclosing `if` statements, outermost first (`else` branches as "!(<cond>)"; an `if`
//            with an init statement as "<init>; <cond>")
//   after  — "after-customizer" when the use lies behind the first top-level statement, else "in-customizer"
// plus one row ⟨"<return>", guards, …⟩ for every `return` inside the first top-level statement (the customizer block).
// A receiver passed on as a whole (`f(err)`) is a row with field "<whole>". Anything the rule cannot read (the receiver has
// no name, a field use inside a closure) is a row with field "<unrecognised>". Rows carry no line numbers.
// Second list `filterErrorRender`: the same for `RequestError.Error()` and `ResponseError.Error()` of openapi3filter/errors.go
// (column `after` holds the type name): the texts the request / response validator wrap around a schema error.

import (
	"fmt"
	"go/ast"
	"go/parser"
	"go/token"
	"path/filepath"
	"strings"
)

func init() { register("ErrorRender", extractErrorRender) }

type c19erRow struct {
	field  string
	guards []string
	after  string
	pos    string
}

// c19MethodUses: the rows of method `(*typ).Error` in file; the first top-level statement is labelled labelFirst, the rest labelRest
func c19MethodUses(file string, typ string, labelFirst, labelRest string) ([]c19erRow, error) {
	fset := token.NewFileSet()
	f, err := parser.ParseFile(fset, file, nil, 0)
	if err != nil {
		return nil, err
	}
	type row = c19erRow
	var rows []row
	where := func(p token.Pos) string {
		q := fset.Position(p)
		return fmt.Sprintf("%s:%d", filepath.Base(q.Filename), q.Line)
	}
	found := false
	for _, d := range f.Decls {
		fd, ok := d.(*ast.FuncDecl)
		if !ok || fd.Name.Name != "Error" || fd.Recv == nil || len(fd.Recv.List) != 1 || fd.Body == nil {
			continue
		}
		var tid *ast.Ident
		switch t := fd.Recv.List[0].Type.(type) {
		case *ast.StarExpr:
			tid, _ = t.X.(*ast.Ident)
		case *ast.Ident:
			tid = t
		}
		if tid == nil || tid.Name != typ {
			continue
		}
		found = true
		if len(fd.Recv.List[0].Names) != 1 {
			rows = append(rows, row{"<unrecognised>", nil, "", where(fd.Pos())})
			continue
		}
		recv := fd.Recv.List[0].Names[0].Name
		var walk func(n ast.Node, guards []string, after string)
		walkExpr := func(n ast.Node, guards []string, after string) {
			if n == nil {
				return
			}
			// selectors of the receiver; the receiver on its own
			sels := map[*ast.Ident]bool{}
			ast.Inspect(n, func(x ast.Node) bool {
				switch e := x.(type) {
				case *ast.FuncLit:
					rows = append(rows, row{"<unrecognised>", guards, after, where(e.Pos())})
					return false
				case *ast.SelectorExpr:
					if id, ok := e.X.(*ast.Ident); ok && id.Name == recv {
						sels[id] = true
						rows = append(rows, row{e.Sel.Name, guards, after, where(e.Pos())})
					}
				case *ast.Ident:
					if e.Name == recv && !sels[e] {
						rows = append(rows, row{"<whole>", guards, after, where(e.Pos())})
					}
				}
				return true
			})
		}
		walk = func(n ast.Node, guards []string, after string) {
			switch s := n.(type) {
			case nil:
				return
			case *ast.BlockStmt:
				for _, x := range s.List {
					walk(x, guards, after)
				}
			case *ast.IfStmt:
				cond := vsExprText(fset, s.Cond)
				if s.Init != nil {
					walkExpr(s.Init, guards, after)
					cond = vsExprText(fset, s.Init) + "; " + cond
				}
				walkExpr(s.Cond, guards, after)
				walk(s.Body, append(append([]string{}, guards...), cond), after)
				if s.Else != nil {
					walk(s.Else, append(append([]string{}, guards...), "!("+cond+")"), after)
				}
			case *ast.ForStmt:
				walkExpr(s.Init, guards, after)
				walkExpr(s.Cond, guards, after)
				walkExpr(s.Post, guards, after)
				walk(s.Body, guards, after)
			case *ast.RangeStmt:
				walkExpr(s.X, guards, after)
				walk(s.Body, guards, after)
			case *ast.ReturnStmt:
				if after == "in-customizer" {
					rows = append(rows, row{"<return>", guards, after, where(s.Pos())})
				}
				walkExpr(s, guards, after)
			case *ast.ExprStmt, *ast.AssignStmt, *ast.DeclStmt, *ast.IncDecStmt:
				walkExpr(s, guards, after)
			default:
				rows = append(rows, row{"<unrecognised>", guards, after, where(n.Pos())})
			}
		}
		for i, s := range fd.Body.List {
			after := labelRest
			if i == 0 {
				after = labelFirst
			}
			walk(s, nil, after)
		}
	}
	if !found {
		rows = append(rows, row{"<unrecognised>", nil, "", filepath.Base(file) + ": no method (" + typ + ").Error"})
	}
	return rows, nil
}

func extractErrorRender(repo string) (string, error) {
	rows, err := c19MethodUses(filepath.Join(repo, "openapi3", "schema.go"), "SchemaError", "in-customizer", "after-customizer")
	if err != nil {
		return "", err
	}
	var frows []c19erRow
	for _, typ := range []string{"RequestError", "ResponseError"} {
		r, err := c19MethodUses(filepath.Join(repo, "openapi3filter", "errors.go"), typ, typ, typ)
		if err != nil {
			return "", err
		}
		frows = append(frows, r...)
	}
	var b strings.Builder
	b.WriteString("/- GENERATED by go/cmd/extract (table ErrorRender) from openapi3/schema.go — do not edit -/\n")
	b.WriteString("namespace KinModel.Gen\n\nstructure ErrorUse where\n  field : String\n  guards : List String\n  after : String\n  deriving DecidableEq, Repr\n\n")
	fmt.Fprintf(&b, "-- rows: %d\n", len(rows))
	b.WriteString("def errorRender : List ErrorUse := [\n")
	for i, r := range rows {
		var gs []string
		for _, g := range r.guards {
			gs = append(gs, rsLeanStr(g))
		}
		sep := ","
		if i == len(rows)-1 {
			sep = ""
		}
		fmt.Fprintf(&b, "  ⟨%s, [%s], %s⟩%s  -- %s\n", rsLeanStr(r.field), strings.Join(gs, ", "), rsLeanStr(r.after), sep, r.pos)
	}
	b.WriteString("]\n\n")
	fmt.Fprintf(&b, "-- rows: %d\n", len(frows))
	b.WriteString("def filterErrorRender : List ErrorUse := [\n")
	for i, r := range frows {
		var gs []string
		for _, g := range r.guards {
			gs = append(gs, rsLeanStr(g))
		}
		sep := ","
		if i == len(frows)-1 {
			sep = ""
		}
		fmt.Fprintf(&b, "  ⟨%s, [%s], %s⟩%s  -- %s\n", rsLeanStr(r.field), strings.Join(gs, ", "), rsLeanStr(r.after), sep, r.pos)
	}
	b.WriteString("]\n\nend KinModel.Gen\n")
	return b.String(), nil
}
