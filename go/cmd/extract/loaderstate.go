package main

// Table LoaderState (property C11): every mention, in package openapi3 (non-test files), of the unexported state fields
// of Loader — rootDir, rootLocation, visitedPathItemRefs, visitedDocuments, visitedRefs, visitedPath, backtrack — and every
// call of resetVisitedPathItemRefs.  Per row: enclosing function, field, access:
//   assign  the field itself is the left-hand side of an assignment (detail = text of the right-hand side)
//   store   an element of the field is assigned (field[k] = …)
//   delete  delete(field, k)
//   read    any other mention (comparison with nil, lookup, append argument, range, …)
//   call    a call of resetVisitedPathItemRefs (field = "resetVisitedPathItemRefs")
//   field   a declared field of struct Loader (fn = "Loader", field = "<decl>", detail = "<name> <type>"); every declared
//           field except Context is tracked, the exported switches IsExternalRefsAllowed / ReadFromURIFunc included
// This is what a load leaves behind in the Loader for the next one: the model of histories (KinModel/Reads.lean: carry)
// keeps visitedDocuments, resets the in-progress state, and has no use for rootDir / rootLocation because no row reads them.

import (
	"fmt"
	"go/ast"
	"go/parser"
	"go/token"
	"os"
	"path/filepath"
	"sort"
	"strings"
)

func init() { register("LoaderState", extractLoaderState) }

var loaderStateFields = map[string]bool{"rootDir": true, "rootLocation": true, "visitedPathItemRefs": true, "visitedDocuments": true,
	"visitedRefs": true, "visitedPath": true, "backtrack": true}

func extractLoaderState(repo string) (string, error) {
	dir := filepath.Join(repo, "openapi3")
	ents, err := os.ReadDir(dir)
	if err != nil {
		return "", err
	}
	fset := token.NewFileSet()
	type row struct{ fn, field, access, detail, pos string }
	var rows []row
	names := []string{}
	for _, e := range ents {
		if e.IsDir() || !strings.HasSuffix(e.Name(), ".go") || strings.HasSuffix(e.Name(), "_test.go") {
			continue
		}
		names = append(names, e.Name())
	}
	sort.Strings(names)
	// the declared fields of struct Loader (rows fn "Loader", access "field", detail = type): every field — exported switches
	// and private state alike — is tracked (except Context, whose name is shared with other types), so that a NEW piece of
	// state kept between calls, or a copy of a switch, shows up in the table
	tracked := map[string]bool{}
	for k := range loaderStateFields {
		tracked[k] = true
	}
	for _, name := range names {
		file, err := parser.ParseFile(fset, filepath.Join(dir, name), nil, 0)
		if err != nil {
			return "", err
		}
		for _, decl := range file.Decls {
			gd, ok := decl.(*ast.GenDecl)
			if !ok {
				continue
			}
			for _, sp := range gd.Specs {
				ts, ok := sp.(*ast.TypeSpec)
				if !ok || ts.Name.Name != "Loader" {
					continue
				}
				st, ok := ts.Type.(*ast.StructType)
				if !ok {
					rows = append(rows, row{"Loader", "unrecognised", "field", "", fmt.Sprintf("%s:%d", name, fset.Position(ts.Pos()).Line)})
					continue
				}
				for _, f := range st.Fields.List {
					if len(f.Names) == 0 {
						rows = append(rows, row{"Loader", "<decl>", "field", "embedded " + read_exprText(fset, f.Type), fmt.Sprintf("%s:%d", name, fset.Position(f.Pos()).Line)})
					}
					for _, n := range f.Names {
						rows = append(rows, row{"Loader", "<decl>", "field", n.Name + " " + read_exprText(fset, f.Type), fmt.Sprintf("%s:%d", name, fset.Position(f.Pos()).Line)})
						if n.Name != "Context" {
							tracked[n.Name] = true
						}
					}
				}
			}
		}
	}
	loaderStateFields := tracked
	for _, name := range names {
		file, err := parser.ParseFile(fset, filepath.Join(dir, name), nil, 0)
		if err != nil {
			return "", err
		}
		for _, decl := range file.Decls {
			fd, ok := decl.(*ast.FuncDecl)
			if !ok || fd.Body == nil {
				continue
			}
			classified := map[*ast.SelectorExpr]bool{}
			isField := func(e ast.Expr) (*ast.SelectorExpr, bool) {
				se, ok := e.(*ast.SelectorExpr)
				if !ok || !loaderStateFields[se.Sel.Name] {
					return nil, false
				}
				return se, true
			}
			add := func(se *ast.SelectorExpr, access, detail string) {
				classified[se] = true
				if len(detail) > 60 {
					detail = detail[:60]
				}
				rows = append(rows, row{fd.Name.Name, se.Sel.Name, access, detail, fmt.Sprintf("%s:%d", name, fset.Position(se.Pos()).Line)})
			}
			ast.Inspect(fd.Body, func(n ast.Node) bool {
				switch x := n.(type) {
				case *ast.AssignStmt:
					for i, l := range x.Lhs {
						if se, ok := isField(l); ok {
							d := ""
							if len(x.Rhs) == len(x.Lhs) {
								d = read_exprText(fset, x.Rhs[i])
							}
							add(se, "assign", d)
						} else if ix, ok := l.(*ast.IndexExpr); ok {
							if se, ok := isField(ix.X); ok {
								add(se, "store", "")
							}
						}
					}
				case *ast.CallExpr:
					if id, ok := x.Fun.(*ast.Ident); ok && id.Name == "delete" && len(x.Args) > 0 {
						if se, ok := isField(x.Args[0]); ok {
							add(se, "delete", "")
						}
					}
					if calleeName(x) == "resetVisitedPathItemRefs" {
						rows = append(rows, row{fd.Name.Name, "resetVisitedPathItemRefs", "call", "", fmt.Sprintf("%s:%d", name, fset.Position(x.Pos()).Line)})
					}
				}
				return true
			})
			ast.Inspect(fd.Body, func(n ast.Node) bool {
				if se, ok := n.(*ast.SelectorExpr); ok && loaderStateFields[se.Sel.Name] && !classified[se] {
					add(se, "read", "")
				}
				return true
			})
		}
	}
	var b strings.Builder
	b.WriteString("-- GENERATED by go/cmd/extract (table LoaderState) from openapi3/*.go — do not edit\n")
	b.WriteString("namespace KinModel.Gen\n\n")
	b.WriteString("structure LoaderStateRow where\n  fn : String\n  field : String\n  access : String\n  detail : String\n  deriving DecidableEq, Repr\n\n")
	fmt.Fprintf(&b, "-- rows: %d\n", len(rows))
	b.WriteString("def loaderState : List LoaderStateRow := [\n")
	for i, r := range rows {
		sep := ","
		if i == len(rows)-1 {
			sep = ""
		}
		fmt.Fprintf(&b, "  ⟨%q, %q, %q, %q⟩%s -- %s\n", r.fn, r.field, r.access, r.detail, sep, r.pos)
	}
	b.WriteString("]\n\nend KinModel.Gen\n")
	return b.String(), nil
}
