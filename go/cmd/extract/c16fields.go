package main

// Table `C16RefFields` (C16): every struct field of package openapi3 through which a reference position — one of the
// `*XRef` wrappers or a PathItem (the struct types that have a `Ref string` field) — can be reached from openapi3.T,
// together with whether the descent of (*T).InternalizeRefs READS that field: a field selector `x.F` on that struct
// type inside InternalizeRefs or one of the deref* methods of internalize_refs.go, or inside the body of a method of
// this package those functions call (one level: Operations(), Map(), …).
// A ref-bearing field the descent does not read is a position InternalizeRefs cannot internalise.
// Rows are sorted by (struct, field). A ref-bearing field of a type that is not a named struct of the package
// becomes `unrecognised`.

import (
	"fmt"
	"go/ast"
	"go/types"
	"sort"
	"strings"

	"golang.org/x/tools/go/packages"
)

func init() { register("C16RefFields", extractC16RefFields) }

func extractC16RefFields(repo string) (string, error) {
	cfg := &packages.Config{Mode: packages.NeedName | packages.NeedFiles | packages.NeedSyntax | packages.NeedTypes | packages.NeedTypesInfo | packages.NeedDeps | packages.NeedImports, Dir: repo}
	pkgs, err := packages.Load(cfg, "./openapi3")
	if err != nil {
		return "", err
	}
	if len(pkgs) != 1 {
		return "", fmt.Errorf("expected one package, got %d", len(pkgs))
	}
	pkg := pkgs[0]
	if len(pkg.Errors) > 0 {
		return "", fmt.Errorf("package errors: %v", pkg.Errors)
	}
	info := pkg.TypesInfo
	own := func(n *types.Named) bool { return n.Obj() != nil && n.Obj().Pkg() == pkg.Types }

	// base: struct types with a field `Ref string` (the wrappers and PathItem), except the bare `Ref` type
	isBase := func(n *types.Named) bool {
		if !own(n) || n.Obj().Name() == "Ref" {
			return false
		}
		st, ok := n.Underlying().(*types.Struct)
		if !ok {
			return false
		}
		for i := 0; i < st.NumFields(); i++ {
			f := st.Field(i)
			if f.Name() == "Ref" {
				if b, ok := f.Type().(*types.Basic); ok && b.Kind() == types.String {
					return true
				}
			}
		}
		return false
	}
	// reaches(t): a value of type t can contain a reference position (least fixpoint)
	reach := map[*types.Named]bool{}
	var reaches func(t types.Type, seen map[*types.Named]bool) bool
	reaches = func(t types.Type, seen map[*types.Named]bool) bool {
		switch x := t.(type) {
		case *types.Named:
			if !own(x) {
				return false
			}
			if isBase(x) || reach[x] {
				return true
			}
			if seen[x] {
				return false
			}
			seen[x] = true
			return reaches(x.Underlying(), seen)
		case *types.Pointer:
			return reaches(x.Elem(), seen)
		case *types.Slice:
			return reaches(x.Elem(), seen)
		case *types.Array:
			return reaches(x.Elem(), seen)
		case *types.Map:
			return reaches(x.Elem(), seen)
		case *types.Struct:
			for i := 0; i < x.NumFields(); i++ {
				if reaches(x.Field(i).Type(), seen) {
					return true
				}
			}
		}
		return false
	}
	for changed := true; changed; {
		changed = false
		for _, name := range pkg.Types.Scope().Names() {
			if tn, ok := pkg.Types.Scope().Lookup(name).(*types.TypeName); ok {
				if n, ok := tn.Type().(*types.Named); ok && !reach[n] && reaches(n, map[*types.Named]bool{}) {
					reach[n] = true
					changed = true
				}
			}
		}
	}
	// named struct types met below a type (through pointers, slices, maps, named non-struct types)
	var structsOf func(t types.Type, out *[]*types.Named, seen map[*types.Named]bool, bad *[]string, where string)
	structsOf = func(t types.Type, out *[]*types.Named, seen map[*types.Named]bool, bad *[]string, where string) {
		switch x := t.(type) {
		case *types.Named:
			if !own(x) || seen[x] {
				return
			}
			seen[x] = true
			if _, ok := x.Underlying().(*types.Struct); ok {
				*out = append(*out, x)
				return
			}
			structsOf(x.Underlying(), out, seen, bad, where)
		case *types.Pointer:
			structsOf(x.Elem(), out, seen, bad, where)
		case *types.Slice:
			structsOf(x.Elem(), out, seen, bad, where)
		case *types.Array:
			structsOf(x.Elem(), out, seen, bad, where)
		case *types.Map:
			structsOf(x.Elem(), out, seen, bad, where)
		case *types.Struct:
			*bad = append(*bad, where+": anonymous struct type")
		}
	}
	tObj, _ := pkg.Types.Scope().Lookup("T").(*types.TypeName)
	if tObj == nil {
		return "", fmt.Errorf("type T not found")
	}
	type row struct{ s, f string }
	rowSet := map[row]bool{}
	var unrec []string
	done := map[*types.Named]bool{}
	queue := []*types.Named{tObj.Type().(*types.Named)}
	for len(queue) > 0 {
		n := queue[0]
		queue = queue[1:]
		if done[n] {
			continue
		}
		done[n] = true
		st := n.Underlying().(*types.Struct)
		for i := 0; i < st.NumFields(); i++ {
			f := st.Field(i)
			if !reaches(f.Type(), map[*types.Named]bool{}) {
				continue
			}
			rowSet[row{n.Obj().Name(), f.Name()}] = true
			var next []*types.Named
			structsOf(f.Type(), &next, map[*types.Named]bool{}, &unrec, n.Obj().Name()+"."+f.Name())
			queue = append(queue, next...)
		}
	}

	// fields the descent reads
	read := map[row]bool{}
	methodDecl := map[*types.Func]*ast.FuncDecl{}
	var descent []*ast.FuncDecl
	for _, f := range pkg.Syntax {
		fn := pkg.Fset.Position(f.Pos()).Filename
		if strings.HasSuffix(fn, "_test.go") {
			continue
		}
		for _, d := range f.Decls {
			fd, ok := d.(*ast.FuncDecl)
			if !ok || fd.Body == nil {
				continue
			}
			if obj, ok := info.Defs[fd.Name].(*types.Func); ok {
				methodDecl[obj] = fd
			}
			if strings.HasSuffix(fn, "/internalize_refs.go") && fd.Recv != nil && (fd.Name.Name == "InternalizeRefs" || strings.HasPrefix(fd.Name.Name, "deref")) {
				descent = append(descent, fd)
			}
		}
	}
	if len(descent) == 0 {
		return "", fmt.Errorf("no descent functions found in internalize_refs.go")
	}
	named := func(t types.Type) *types.Named {
		for {
			if p, ok := t.(*types.Pointer); ok {
				t = p.Elem()
				continue
			}
			n, _ := t.(*types.Named)
			return n
		}
	}
	var scan func(body *ast.BlockStmt, depth int)
	scan = func(body *ast.BlockStmt, depth int) {
		ast.Inspect(body, func(nd ast.Node) bool {
			se, ok := nd.(*ast.SelectorExpr)
			if !ok {
				return true
			}
			sel := info.Selections[se]
			if sel == nil {
				return true
			}
			switch sel.Kind() {
			case types.FieldVal:
				// follow the (possibly promoted) path of the selection
				t := sel.Recv()
				for _, idx := range sel.Index() {
					n := named(t)
					if n == nil {
						break
					}
					st, ok := n.Underlying().(*types.Struct)
					if !ok {
						break
					}
					f := st.Field(idx)
					if own(n) {
						read[row{n.Obj().Name(), f.Name()}] = true
					}
					t = f.Type()
				}
			case types.MethodVal:
				if depth == 0 {
					if fn, ok := sel.Obj().(*types.Func); ok && fn.Pkg() == pkg.Types {
						if fd := methodDecl[fn]; fd != nil && !strings.HasPrefix(fn.Name(), "deref") && !strings.HasPrefix(fn.Name(), "add") {
							scan(fd.Body, 1)
						}
					}
				}
			}
			return true
		})
	}
	for _, fd := range descent {
		scan(fd.Body, 0)
	}

	rows := make([]row, 0, len(rowSet))
	for r := range rowSet {
		rows = append(rows, r)
	}
	sort.Slice(rows, func(i, j int) bool {
		if rows[i].s != rows[j].s {
			return rows[i].s < rows[j].s
		}
		return rows[i].f < rows[j].f
	})
	sort.Strings(unrec)
	var b strings.Builder
	b.WriteString("-- generated by go/cmd/extract (table C16RefFields) from the type declarations of package openapi3 and internalize_refs.go; do not edit\n")
	b.WriteString("namespace KinModel.Gen\n\ninductive RFRow\n  | field (struct field : String) (readByDescent : Bool)\n  | unrecognised (pos : String)\n  deriving DecidableEq, Repr\n\n")
	fmt.Fprintf(&b, "-- rows: %d\ndef c16RefFields : List RFRow := [\n", len(rows)+len(unrec))
	var lines []string
	for _, r := range rows {
		lines = append(lines, fmt.Sprintf("  RFRow.field %q %q %v", r.s, r.f, read[r]))
	}
	for _, u := range unrec {
		lines = append(lines, fmt.Sprintf("  RFRow.unrecognised %q", u))
	}
	b.WriteString(strings.Join(lines, ",\n"))
	b.WriteString("\n]\n\nend KinModel.Gen\n")
	return b.String(), nil
}
