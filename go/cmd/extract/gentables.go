package main

// Table `GenKinds` (C18): what openapi3gen reads off the source for each Go kind, each struct tag and each option.
//
//   genKinds        the `switch t.Kind()` of generateWithoutSaving: for every case whose body consists only of
//                   assignments to schema.Type / Format / Min / Max: (kind, type, format, minimum, maximum);
//                   the bounds are package-level variables whose initialisers are constant expressions: they are
//                   resolved through go/types and must be integers.
//   genKindsOther   the kinds whose case has other code (Func, Chan, Slice, Map, Struct) — modelled by hand.
//   genTagKeys      every struct-tag key read in the package (`x.Tag.Get("k")`, `x.Tag.Lookup("k")`), with the
//                   function it is read in.
//   genTagOptions   the `json` tag options appendFields recognises (cases of its `switch part`).
//   genOptFields    the fields of `generatorOpt` and of `ExportComponentSchemasOptions` (the option set).
// Any code shape that cannot be read becomes an entry of `genUnrecognised`.

import (
	"fmt"
	"go/ast"
	"go/constant"
	"go/token"
	"go/types"
	"strconv"
	"strings"

	"golang.org/x/tools/go/packages"
)

func init() { register("GenKinds", extractGenKinds) }

func extractGenKinds(repo string) (string, error) {
	cfg := &packages.Config{Mode: packages.NeedName | packages.NeedFiles | packages.NeedSyntax | packages.NeedTypes | packages.NeedTypesInfo | packages.NeedDeps | packages.NeedImports, Dir: repo}
	pkgs, err := packages.Load(cfg, "./openapi3gen")
	if err != nil {
		return "", err
	}
	if len(pkgs) != 1 || len(pkgs[0].Errors) > 0 {
		return "", fmt.Errorf("cannot load openapi3gen: %v", pkgs[0].Errors)
	}
	pkg := pkgs[0]
	info := pkg.TypesInfo
	pos := func(n ast.Node) string {
		p := pkg.Fset.Position(n.Pos())
		f := p.Filename
		if i := strings.LastIndex(f, "/"); i >= 0 {
			f = f[i+1:]
		}
		return fmt.Sprintf("%s:%d", f, p.Line)
	}
	var unrec []string

	// package-level variables with constant initialisers
	varConst := map[string]constant.Value{}
	for _, f := range pkg.Syntax {
		for _, d := range f.Decls {
			gd, ok := d.(*ast.GenDecl)
			if !ok || gd.Tok != token.VAR {
				continue
			}
			for _, sp := range gd.Specs {
				vs := sp.(*ast.ValueSpec)
				for i, n := range vs.Names {
					if i < len(vs.Values) {
						if tv, ok := info.Types[vs.Values[i]]; ok && tv.Value != nil {
							varConst[n.Name] = tv.Value
						}
					}
				}
			}
		}
	}
	intOf := func(e ast.Expr) (string, bool) { // `&minInt8` -> "-128"
		u, ok := e.(*ast.UnaryExpr)
		if !ok || u.Op != token.AND {
			return "", false
		}
		id, ok := u.X.(*ast.Ident)
		if !ok {
			return "", false
		}
		v, ok := varConst[id.Name]
		if !ok {
			return "", false
		}
		iv := constant.ToInt(v)
		if iv.Kind() != constant.Int {
			return "", false
		}
		return iv.ExactString(), true
	}

	type krow struct{ kind, ty, format, lo, hi string }
	var rows []krow
	var other []string
	type trow struct{ fn, key, how string }
	var tags []trow
	var tagOpts []string
	var optFields []string
	foundSwitch := false

	for _, f := range pkg.Syntax {
		if strings.HasSuffix(pkg.Fset.Position(f.Pos()).Filename, "_test.go") {
			continue
		}
		for _, d := range f.Decls {
			switch x := d.(type) {
			case *ast.GenDecl:
				for _, sp := range x.Specs {
					ts, ok := sp.(*ast.TypeSpec)
					if !ok || (ts.Name.Name != "generatorOpt" && ts.Name.Name != "ExportComponentSchemasOptions") {
						continue
					}
					st, ok := ts.Type.(*ast.StructType)
					if !ok {
						unrec = append(unrec, pos(ts))
						continue
					}
					for _, fl := range st.Fields.List {
						for _, n := range fl.Names {
							optFields = append(optFields, ts.Name.Name+"."+n.Name)
						}
					}
				}
			case *ast.FuncDecl:
				fname := x.Name.Name
				ast.Inspect(x, func(n ast.Node) bool {
					switch y := n.(type) {
					case *ast.CallExpr: // x.Tag.Get("k") / x.Tag.Lookup("k") / tag.Get("k")
						sel, ok := y.Fun.(*ast.SelectorExpr)
						if !ok || (sel.Sel.Name != "Get" && sel.Sel.Name != "Lookup") || len(y.Args) != 1 {
							return true
						}
						tv, ok := info.Types[sel.X]
						if !ok || tv.Type == nil || tv.Type.String() != "reflect.StructTag" {
							return true
						}
						if av, ok := info.Types[y.Args[0]]; ok && av.Value != nil && av.Value.Kind() == constant.String {
							tags = append(tags, trow{fname, constant.StringVal(av.Value), sel.Sel.Name})
						} else {
							unrec = append(unrec, pos(y))
						}
					case *ast.SwitchStmt:
						// appendFields: `switch part { case "omitempty": … case "string": … }`
						if id, ok := y.Tag.(*ast.Ident); ok && id.Name == "part" && fname == "appendFields" {
							for _, c := range y.Body.List {
								for _, e := range c.(*ast.CaseClause).List {
									if av, ok := info.Types[e]; ok && av.Value != nil && av.Value.Kind() == constant.String {
										tagOpts = append(tagOpts, constant.StringVal(av.Value))
									} else {
										unrec = append(unrec, pos(e))
									}
								}
							}
							return true
						}
						// generateWithoutSaving: `switch t.Kind() {`
						call, ok := y.Tag.(*ast.CallExpr)
						if !ok || fname != "generateWithoutSaving" {
							return true
						}
						if sel, ok := call.Fun.(*ast.SelectorExpr); !ok || sel.Sel.Name != "Kind" {
							return true
						}
						foundSwitch = true
						for _, c := range y.Body.List {
							cc := c.(*ast.CaseClause)
							var kinds []string
							for _, e := range cc.List {
								if tv, ok := info.Types[e]; ok && tv.Type != nil && tv.Type.String() == "reflect.Kind" {
									if s, ok := e.(*ast.SelectorExpr); ok {
										kinds = append(kinds, s.Sel.Name)
										continue
									}
								}
								unrec = append(unrec, pos(e))
							}
							if cc.List == nil {
								kinds = []string{"default"}
							}
							r := krow{lo: "none", hi: "none"}
							plain := true
							for _, st := range cc.Body {
								as, ok := st.(*ast.AssignStmt)
								if !ok || len(as.Lhs) != 1 || len(as.Rhs) != 1 || as.Tok != token.ASSIGN {
									plain = false
									break
								}
								sel, ok := as.Lhs[0].(*ast.SelectorExpr)
								if !ok {
									plain = false
									break
								}
								if id, ok := sel.X.(*ast.Ident); !ok || id.Name != "schema" {
									plain = false
									break
								}
								switch sel.Sel.Name {
								case "Type": // &openapi3.Types{"integer"}
									u, ok := as.Rhs[0].(*ast.UnaryExpr)
									var lit *ast.CompositeLit
									if ok {
										lit, ok = u.X.(*ast.CompositeLit)
									}
									if !ok || len(lit.Elts) != 1 {
										plain = false
										break
									}
									tv, ok := info.Types[lit.Elts[0]]
									if !ok || tv.Value == nil {
										plain = false
										break
									}
									r.ty = constant.StringVal(tv.Value)
								case "Format":
									tv, ok := info.Types[as.Rhs[0]]
									if !ok || tv.Value == nil {
										plain = false
										break
									}
									r.format = constant.StringVal(tv.Value)
								case "Min":
									v, ok := intOf(as.Rhs[0])
									if !ok {
										plain = false
										break
									}
									r.lo = "(some (" + v + "))"
								case "Max":
									v, ok := intOf(as.Rhs[0])
									if !ok {
										plain = false
										break
									}
									r.hi = "(some (" + v + "))"
								default:
									plain = false
								}
								if !plain {
									break
								}
							}
							for _, k := range kinds {
								if plain && len(cc.Body) > 0 {
									rr := r
									rr.kind = k
									rows = append(rows, rr)
								} else {
									other = append(other, k)
								}
							}
						}
					}
					return true
				})
			}
		}
	}
	if !foundSwitch {
		unrec = append(unrec, "generateWithoutSaving: no `switch t.Kind()`")
	}
	_ = types.Typ
	var b strings.Builder
	b.WriteString("-- GENERATED by go/cmd/extract (table GenKinds) from the repository under test. Do not edit.\n")
	fmt.Fprintf(&b, "-- rows: %d\n", len(rows)+len(other)+len(tags)+len(tagOpts)+len(optFields))
	b.WriteString("namespace KinModel.Gen\n\n")
	b.WriteString("/-- generateWithoutSaving, `switch t.Kind()`: (kind, type, format, minimum, maximum) of the cases that only set keywords -/\n")
	b.WriteString("def genKinds : List (String × String × String × Option Int × Option Int) := [\n")
	for i, r := range rows {
		sep := ","
		if i == len(rows)-1 {
			sep = ""
		}
		fmt.Fprintf(&b, "  (%s, %s, %s, %s, %s)%s\n", strconv.Quote(r.kind), strconv.Quote(r.ty), strconv.Quote(r.format), r.lo, r.hi, sep)
	}
	b.WriteString("]\n\n")
	list := func(name, doc string, xs []string) {
		fmt.Fprintf(&b, "/-- %s -/\ndef %s : List String := [", doc, name)
		for i, x := range xs {
			if i > 0 {
				b.WriteString(", ")
			}
			b.WriteString(strconv.Quote(x))
		}
		b.WriteString("]\n\n")
	}
	list("genKindsOther", "the kinds whose case contains other code", other)
	b.WriteString("/-- struct-tag keys read in the package: (function, key, method) -/\ndef genTagKeys : List (String × String × String) := [")
	for i, t := range tags {
		if i > 0 {
			b.WriteString(", ")
		}
		fmt.Fprintf(&b, "(%s, %s, %s)", strconv.Quote(t.fn), strconv.Quote(t.key), strconv.Quote(t.how))
	}
	b.WriteString("]\n\n")
	list("genTagOptions", "`json` tag options recognised by appendFields", tagOpts)
	list("genOptFields", "the option set: fields of generatorOpt and ExportComponentSchemasOptions", optFields)
	list("genUnrecognised", "code shapes the translator could not read", unrec)
	b.WriteString("end KinModel.Gen\n")
	return b.String(), nil
}
