package main

// Table RequestLoops (property C05): the parameter loops of openapi3filter.ValidateRequest (validate_request.go), read
// syntactically, so that which declared parameters reach ValidateParameter — and that the document's parameter lists
// are only read — is the code's:
//   * `v := <expr>` where the text of a side mentions a parameter list (…Parameters)           → .bind v expr
//   * `for _, v := range <expr>` over an expression that mentions a parameter list             → .range v expr
//     and inside its body, in source order
//       - `v := <expr>`                                                                        → .bind v expr
//       - `if options.ExcludeRequestQueryParams && <e> == openapi3.ParameterInQuery { continue }` → .skipIf loop (.excludeQuery e)
//       - `if <r> != nil { if override := <r>.GetByInAndName(<args>); override != nil { continue } }`
//                                                                                              → .skipIf loop (.overridden r args)
//       - `if err := ValidateParameter(ctx, input, <a>); err != nil { … }`                      → .validate loop a
//   * any other statement in such a loop, any other assignment that mentions a parameter list (a write), any call
//     outside these shapes that is handed a parameter list                                      → .unrecognised "<file:line>"

import (
	"fmt"
	"go/ast"
	"go/parser"
	"go/token"
	"path/filepath"
	"strings"
)

func init() { register("RequestLoops", extractRequestLoops) }

// c05rlExpr prints an expression; ok=false when a node kind is not covered.
func c05rlExpr(e ast.Expr) (string, bool) {
	switch x := e.(type) {
	case nil:
		return "", true
	case *ast.Ident:
		return x.Name, true
	case *ast.BasicLit:
		return x.Value, true
	case *ast.SelectorExpr:
		s, ok := c05rlExpr(x.X)
		return s + "." + x.Sel.Name, ok
	case *ast.ParenExpr:
		s, ok := c05rlExpr(x.X)
		return "(" + s + ")", ok
	case *ast.StarExpr:
		s, ok := c05rlExpr(x.X)
		return "*" + s, ok
	case *ast.UnaryExpr:
		s, ok := c05rlExpr(x.X)
		return x.Op.String() + s, ok
	case *ast.BinaryExpr:
		a, ok1 := c05rlExpr(x.X)
		b, ok2 := c05rlExpr(x.Y)
		return a + " " + x.Op.String() + " " + b, ok1 && ok2
	case *ast.IndexExpr:
		a, ok1 := c05rlExpr(x.X)
		b, ok2 := c05rlExpr(x.Index)
		return a + "[" + b + "]", ok1 && ok2
	case *ast.SliceExpr:
		a, ok1 := c05rlExpr(x.X)
		lo, ok2 := c05rlExpr(x.Low)
		hi, ok3 := c05rlExpr(x.High)
		return a + "[" + lo + ":" + hi + "]", ok1 && ok2 && ok3 && !x.Slice3
	case *ast.CallExpr:
		f, ok := c05rlExpr(x.Fun)
		args := []string{}
		for _, a := range x.Args {
			s, ok1 := c05rlExpr(a)
			ok = ok && ok1
			args = append(args, s)
		}
		return f + "(" + strings.Join(args, ", ") + ")", ok
	}
	return "?", false
}

func c05rlMentions(s string) bool { return strings.Contains(s, "Parameters") }

func c05rlIsContinue(b *ast.BlockStmt) bool {
	if b == nil || len(b.List) != 1 {
		return false
	}
	br, ok := b.List[0].(*ast.BranchStmt)
	return ok && br.Tok == token.CONTINUE && br.Label == nil
}

func c05rlStrList(xs []string) string {
	q := []string{}
	for _, x := range xs {
		q = append(q, fmt.Sprintf("%q", x))
	}
	return "[" + strings.Join(q, ", ") + "]"
}

func extractRequestLoops(repo string) (string, error) {
	rel := "openapi3filter/validate_request.go"
	fset := token.NewFileSet()
	f, err := parser.ParseFile(fset, filepath.Join(repo, rel), nil, 0)
	if err != nil {
		return "", err
	}
	at := func(p token.Pos) string { return fmt.Sprintf("%s:%d", rel, fset.Position(p).Line) }
	var rows []string
	unrec := func(p token.Pos) { rows = append(rows, fmt.Sprintf(".unrecognised %q", at(p))) }
	var fn *ast.FuncDecl
	for _, d := range f.Decls {
		if fd, ok := d.(*ast.FuncDecl); ok && fd.Recv == nil && fd.Name.Name == "ValidateRequest" {
			fn = fd
		}
	}
	if fn == nil || fn.Body == nil {
		rows = append(rows, fmt.Sprintf(".unrecognised %q", rel+": no func ValidateRequest"))
	} else {
		handled := map[ast.Node]bool{}
		// one loop body
		loopBody := func(loop string, body *ast.BlockStmt) {
			for _, st := range body.List {
				switch x := st.(type) {
				case *ast.AssignStmt:
					handled[x] = true
					if x.Tok == token.DEFINE && len(x.Lhs) == 1 && len(x.Rhs) == 1 {
						l, ok1 := c05rlExpr(x.Lhs[0])
						r, ok2 := c05rlExpr(x.Rhs[0])
						if ok1 && ok2 {
							rows = append(rows, fmt.Sprintf(".bind %q %q", l, r))
							continue
						}
					}
					unrec(x.Pos())
				case *ast.IfStmt:
					ast.Inspect(x, func(n ast.Node) bool {
						if n != nil {
							handled[n] = true
						}
						return true
					})
					if x.Else != nil {
						unrec(x.Pos())
						continue
					}
					// if err := ValidateParameter(ctx, input, a); err != nil { … }
					if as, ok := x.Init.(*ast.AssignStmt); ok && as.Tok == token.DEFINE && len(as.Lhs) == 1 && len(as.Rhs) == 1 && scIdent(as.Lhs[0]) == "err" {
						if call, ok := as.Rhs[0].(*ast.CallExpr); ok && scIdent(call.Fun) == "ValidateParameter" && len(call.Args) == 3 &&
							scIdent(call.Args[0]) == "ctx" && scIdent(call.Args[1]) == "input" {
							c, _ := c05rlExpr(x.Cond)
							a, ok := c05rlExpr(call.Args[2])
							if ok && c == "err != nil" {
								rows = append(rows, fmt.Sprintf(".validate %q %q", loop, a))
								continue
							}
						}
						unrec(x.Pos())
						continue
					}
					// if options.ExcludeRequestQueryParams && e == openapi3.ParameterInQuery { continue }
					if x.Init == nil && c05rlIsContinue(x.Body) {
						if b, ok := x.Cond.(*ast.BinaryExpr); ok && b.Op == token.LAND && scIdent(b.X) == "options.ExcludeRequestQueryParams" {
							if eq, ok := b.Y.(*ast.BinaryExpr); ok && eq.Op == token.EQL && scIdent(eq.Y) == "openapi3.ParameterInQuery" {
								if e, ok := c05rlExpr(eq.X); ok {
									rows = append(rows, fmt.Sprintf(".skipIf %q (.excludeQuery %q)", loop, e))
									continue
								}
							}
						}
						unrec(x.Pos())
						continue
					}
					// if r != nil { if override := r.GetByInAndName(args); override != nil { continue } }
					if x.Init == nil && len(x.Body.List) == 1 {
						if inner, ok := x.Body.List[0].(*ast.IfStmt); ok && inner.Else == nil && c05rlIsContinue(inner.Body) {
							oc, ok1 := c05rlExpr(x.Cond)
							ic, ok2 := c05rlExpr(inner.Cond)
							as, ok3 := inner.Init.(*ast.AssignStmt)
							if ok1 && ok2 && ok3 && as.Tok == token.DEFINE && len(as.Lhs) == 1 && len(as.Rhs) == 1 && ic == scIdent(as.Lhs[0])+" != nil" {
								if call, ok := as.Rhs[0].(*ast.CallExpr); ok {
									if sel, ok := call.Fun.(*ast.SelectorExpr); ok && sel.Sel.Name == "GetByInAndName" {
										recv, okr := c05rlExpr(sel.X)
										args := []string{}
										oka := true
										for _, a := range call.Args {
											s, ok := c05rlExpr(a)
											oka = oka && ok
											args = append(args, s)
										}
										if okr && oka && oc == recv+" != nil" {
											rows = append(rows, fmt.Sprintf(".skipIf %q (.overridden %q %s)", loop, recv, c05rlStrList(args)))
											continue
										}
									}
								}
							}
						}
					}
					unrec(x.Pos())
				default:
					unrec(st.Pos())
				}
			}
		}
		ast.Inspect(fn.Body, func(n ast.Node) bool {
			if n == nil || handled[n] {
				return !handled[n]
			}
			switch x := n.(type) {
			case *ast.RangeStmt:
				over, ok := c05rlExpr(x.X)
				if !c05rlMentions(over) {
					return true
				}
				handled[x] = true
				v := scIdent(x.Value)
				if !ok || v == "" || x.Tok != token.DEFINE || (x.Key != nil && scIdent(x.Key) != "_") {
					unrec(x.Pos())
					return false
				}
				rows = append(rows, fmt.Sprintf(".range %q %q", v, over))
				loopBody(over, x.Body)
				return false
			case *ast.AssignStmt:
				mention := false
				for _, e := range append(append([]ast.Expr{}, x.Lhs...), x.Rhs...) {
					s, _ := c05rlExpr(e)
					mention = mention || c05rlMentions(s)
				}
				if !mention {
					return true
				}
				if x.Tok == token.DEFINE && len(x.Lhs) == 1 && len(x.Rhs) == 1 {
					l, ok1 := c05rlExpr(x.Lhs[0])
					r, ok2 := c05rlExpr(x.Rhs[0])
					if _, isCall := x.Rhs[0].(*ast.CallExpr); ok1 && ok2 && !isCall {
						rows = append(rows, fmt.Sprintf(".bind %q %q", l, r))
						return false
					}
				}
				unrec(x.Pos()) // a write to / a derived copy of a parameter list
				return false
			case *ast.CallExpr:
				for _, a := range x.Args {
					if s, _ := c05rlExpr(a); c05rlMentions(s) {
						unrec(x.Pos()) // a parameter list handed to another function
						return false
					}
				}
			case *ast.IncDecStmt, *ast.GoStmt, *ast.DeferStmt:
				_ = x
			}
			return true
		})
	}
	var sb strings.Builder
	sb.WriteString("-- generated by go/cmd/extract (table RequestLoops) from openapi3filter/validate_request.go; do not edit\n")
	sb.WriteString("import KinModel.Lemmas.C05Req\nnamespace KinModel.Gen\nopen KinModel.Style\n\n")
	fmt.Fprintf(&sb, "-- rows: %d\n", len(rows))
	sb.WriteString("/-- the parameter loops of ValidateRequest, in source order -/\ndef requestLoops : List LoopRow := [\n")
	for i, c := range rows {
		sep := ","
		if i == len(rows)-1 {
			sep = ""
		}
		fmt.Fprintf(&sb, "  %s%s\n", c, sep)
	}
	sb.WriteString("]\n\nend KinModel.Gen\n")
	return sb.String(), nil
}
