// Command extract is the translator: it regenerates table-shaped facts from the repository's
// current source as Lean data (lean/KinModel/Gen/<table>.lean). One file per table registers itself.
package main

import (
	"flag"
	"fmt"
	"os"
	"sort"
)

// A table extractor reads the repository at repo and returns the text of a Lean file.
// It must emit a line "-- rows: N" and must turn every code shape it cannot read into an explicit
// `unrecognised` row (never skip silently).
type extractor func(repo string) (string, error)

var tables = map[string]extractor{}

func register(name string, f extractor) { tables[name] = f }

func main() {
	table := flag.String("table", "", "table name")
	repo := flag.String("repo", "/repo", "repository root")
	out := flag.String("out", "", "output .lean file")
	flag.Parse()
	f, ok := tables[*table]
	if !ok {
		names := []string{}
		for n := range tables {
			names = append(names, n)
		}
		sort.Strings(names)
		fmt.Fprintf(os.Stderr, "unknown table %q (have %v)\n", *table, names)
		os.Exit(2)
	}
	txt, err := f(*repo)
	if err != nil {
		fmt.Fprintf(os.Stderr, "extract %s: %v\n", *table, err)
		os.Exit(1)
	}
	if *out == "" {
		fmt.Print(txt)
		return
	}
	if err := os.WriteFile(*out, []byte(txt), 0o644); err != nil {
		fmt.Fprintln(os.Stderr, err)
		os.Exit(1)
	}
}
