package main

// Table C20Loader (syntactic, go/ast) — facts about openapi3/loader.go, schema.go and internalize_refs.go
// that the C20 theorems rely on:
//   c20Resolvers        per resolve*Ref routine: the type of `var resolved …`, the type asserted in the
//                       backtrack callback handed to shouldVisitRef, comma-ok or not
//   c20Readable         the cases of readableType's type switch
//   c20OtherAsserts     every other unchecked type assertion of loader.go (function, text)
//   c20ExplicitPanics   panic(...) calls of loader.go / internalize_refs.go (function)
//   c20ValidateEdges    the calls `<x>.validate(...)` / `<x>.Validate(...)` inside (*Schema).validate:
//                       where x comes from, the method, whether `stack` is passed and assigned back
//   c20LoaderSelectors / c20InternalizeSelectors
//                       names of struct fields of non-scalar type selected in the reference walk of the
//                       loader (ResolveRefsIn and every resolve… routine it reaches, the drill machinery
//                       excluded) and of InternalizeRefs (the positions each of them descends into)
//   c20WalkFuncs        the functions of the loader's walk found by that closure
//   c20EmptyChecks      per resolve*Ref routine: the condition of its first statement when that is an `if`
//   c20DrillConds       every `if` condition inside the drill closure of resolveComponent (source text)
//   c20IsNilPointer     the body of isNilPointer (statements joined by "; ")
//   c20VisitKeys        per resolve*Ref routine: the definition of `key` and the first arguments of its calls of
//                       shouldVisitRef / visitRef / unvisitRef (since 7245059 the in-progress set is keyed by kind and text)
//   c20SwallowConds     per resolve*Ref routine: the condition under which the errMUST… sentinel of the chain call is
//                       swallowed (`return nil`); since 3c3716e it also demands `resolved.isEmpty()`
//   c20AddToSpecConds   per add<Kind>ToSpec function of internalize_refs.go: the condition of its first `if`
//                       (since 05c5875 a reference without value is left alone)
//   c20HeaderStack      the `if` / `range` texts of (*Header).Validate that mention its validation stack (4c7d612)
//   c20PathItemIsEmpty  the fields (*PathItem).isEmpty looks at, in order (path_item.go)
//   c20PathItemOps      the operation fields (*PathItem).Operations() collects, in order
//   c20DerefCalls       (caller, callee) between InternalizeRefs / deref… functions of internalize_refs.go
//   c20DerefGuards      (function, isVisited… method) for every deref… function that consults a visited set

import (
	"fmt"
	"go/ast"
	"go/parser"
	"go/token"
	"os"
	"path/filepath"
	"sort"
	"strings"
)

func init() { register("C20Loader", extractC20Loader) }

func c20Src(fset *token.FileSet, src []byte, n ast.Node) string {
	return string(src[fset.Position(n.Pos()).Offset:fset.Position(n.End()).Offset])
}

func extractC20Loader(repo string) (string, error) {
	env, _, err := c20LoadPackage(repo)
	if err != nil {
		return "", err
	}
	// Go names of struct fields of non-scalar type
	nonScalar := map[string]bool{}
	for _, ts := range env.specs {
		st, ok := ts.Type.(*ast.StructType)
		if !ok {
			continue
		}
		for _, f := range st.Fields.List {
			t := env.ty(f.Type, 0)
			if t == ".scalar" || t == ".any" || t == "(.ptr .scalar)" || t == "(.sliceOf .scalar)" || t == "(.mapOf .scalar)" || t == "(.mapOf .any)" || t == "(.sliceOf .any)" {
				continue
			}
			for _, n := range f.Names {
				if ast.IsExported(n.Name) && n.Name != "Extensions" && n.Name != "Origin" {
					nonScalar[n.Name] = true
				}
			}
		}
	}
	parse := func(name string) (*token.FileSet, *ast.File, []byte, error) {
		fn := filepath.Join(repo, "openapi3", name)
		src, err := os.ReadFile(fn)
		if err != nil {
			return nil, nil, nil, err
		}
		fset := token.NewFileSet()
		f, err := parser.ParseFile(fset, fn, src, 0)
		return fset, f, src, err
	}
	var resolvers, readable, otherAsserts, panics, edges, emptyChecks, drillConds, derefCalls, derefGuards, visitKeys, swallow, addConds, headerStack []string
	isNilBody := ""
	oneLine := func(t string) string { return strings.Join(strings.Fields(t), " ") }
	selectors := func(f *ast.File, want func(fn string) bool) []string {
		set := map[string]bool{}
		for _, d := range f.Decls {
			fd, ok := d.(*ast.FuncDecl)
			if !ok || fd.Body == nil || !want(fd.Name.Name) {
				continue
			}
			ast.Inspect(fd.Body, func(n ast.Node) bool {
				if se, ok := n.(*ast.SelectorExpr); ok && nonScalar[se.Sel.Name] {
					set[se.Sel.Name] = true
				}
				return true
			})
		}
		out := make([]string, 0, len(set))
		for k := range set {
			out = append(out, fmt.Sprintf("%q", k))
		}
		sort.Strings(out)
		return out
	}

	// ---- loader.go
	fset, lf, src, err := parse("loader.go")
	if err != nil {
		return "", err
	}
	pos := func(n ast.Node) string {
		p := fset.Position(n.Pos())
		return fmt.Sprintf("loader.go:%d", p.Line)
	}
	for _, d := range lf.Decls {
		fd, ok := d.(*ast.FuncDecl)
		if !ok || fd.Body == nil {
			continue
		}
		name := fd.Name.Name
		isResolver := strings.HasPrefix(name, "resolve") && strings.HasSuffix(name, "Ref") && fd.Recv != nil && name != "resolveRef"
		resolvedTy, asserted, commaOk := "", "", false
		nAssertInCallback := 0
		var stack []ast.Node
		ast.Inspect(fd.Body, func(n ast.Node) bool {
			if n == nil {
				stack = stack[:len(stack)-1]
				return true
			}
			stack = append(stack, n)
			switch x := n.(type) {
			case *ast.ValueSpec:
				if len(x.Names) == 1 && x.Names[0].Name == "resolved" && x.Type != nil {
					resolvedTy = c20Src(fset, src, x.Type)
				}
			case *ast.TypeAssertExpr:
				if x.Type == nil {
					break // type switch
				}
				ok2 := false
				if len(stack) >= 2 {
					switch p := stack[len(stack)-2].(type) {
					case *ast.AssignStmt:
						ok2 = len(p.Lhs) == 2 && len(p.Rhs) == 1
					case *ast.ValueSpec:
						ok2 = len(p.Names) == 2
					}
				}
				inCallback := false
				for _, s := range stack {
					if _, isLit := s.(*ast.FuncLit); isLit {
						inCallback = true
					}
				}
				if isResolver && inCallback {
					nAssertInCallback++
					asserted = c20Src(fset, src, x.Type)
					commaOk = ok2
				} else if !ok2 {
					otherAsserts = append(otherAsserts, fmt.Sprintf("(%q, %q)", name, c20Src(fset, src, x)))
				}
			case *ast.CallExpr:
				if id, ok := x.Fun.(*ast.Ident); ok && id.Name == "panic" {
					panics = append(panics, fmt.Sprintf("(%q, %q)", "loader.go", name))
				}
			}
			return true
		})
		if isResolver {
			keyDef := ""
			var keyArgs []string
			ast.Inspect(fd.Body, func(n ast.Node) bool {
				switch x := n.(type) {
				case *ast.AssignStmt:
					if x.Tok == token.DEFINE && len(x.Lhs) == 1 && len(x.Rhs) == 1 {
						if id, ok := x.Lhs[0].(*ast.Ident); ok && id.Name == "key" {
							keyDef = oneLine(c20Src(fset, src, x.Rhs[0]))
						}
					}
				case *ast.CallExpr:
					if se, ok := x.Fun.(*ast.SelectorExpr); ok && len(x.Args) > 0 {
						if se.Sel.Name == "shouldVisitRef" || se.Sel.Name == "visitRef" || se.Sel.Name == "unvisitRef" {
							keyArgs = append(keyArgs, se.Sel.Name+"("+oneLine(c20Src(fset, src, x.Args[0]))+")")
						}
					}
				}
				return true
			})
			visitKeys = append(visitKeys, fmt.Sprintf("(%q, %q, %q)", name, keyDef, strings.Join(keyArgs, " ")))
			ast.Inspect(fd.Body, func(n ast.Node) bool {
				if is, ok := n.(*ast.IfStmt); ok {
					c := oneLine(c20Src(fset, src, is.Cond))
					if strings.HasPrefix(c, "err == errMUST") {
						swallow = append(swallow, fmt.Sprintf("(%q, %q)", name, c))
					}
				}
				return true
			})
		}
		if isResolver {
			cond := ""
			if len(fd.Body.List) > 0 {
				if is, ok := fd.Body.List[0].(*ast.IfStmt); ok && is.Init == nil {
					cond = oneLine(c20Src(fset, src, is.Cond))
				}
			}
			emptyChecks = append(emptyChecks, fmt.Sprintf("(%q, %q)", name, cond))
		}
		if name == "resolveComponent" {
			ast.Inspect(fd.Body, func(n ast.Node) bool {
				as, ok := n.(*ast.AssignStmt)
				if !ok || len(as.Lhs) != 1 || len(as.Rhs) != 1 {
					return true
				}
				id, ok := as.Lhs[0].(*ast.Ident)
				fl, ok2 := as.Rhs[0].(*ast.FuncLit)
				if !ok || !ok2 || id.Name != "drill" {
					return true
				}
				ast.Inspect(fl.Body, func(m ast.Node) bool {
					if is, ok := m.(*ast.IfStmt); ok {
						drillConds = append(drillConds, fmt.Sprintf("%q", oneLine(c20Src(fset, src, is.Cond))))
					}
					return true
				})
				return false
			})
		}
		if name == "isNilPointer" {
			var parts []string
			for _, st := range fd.Body.List {
				parts = append(parts, oneLine(c20Src(fset, src, st)))
			}
			isNilBody = strings.Join(parts, "; ")
		}
		if isResolver {
			if resolvedTy == "" || nAssertInCallback != 1 {
				resolvers = append(resolvers, fmt.Sprintf("⟨%q, \"unrecognised\", %q, false⟩", name, pos(fd)+" "+asserted))
			} else {
				resolvers = append(resolvers, fmt.Sprintf("⟨%q, %q, %q, %v⟩", name, resolvedTy, asserted, commaOk))
			}
		}
		if name == "readableType" {
			ast.Inspect(fd.Body, func(n ast.Node) bool {
				if cc, ok := n.(*ast.CaseClause); ok {
					for _, e := range cc.List {
						readable = append(readable, fmt.Sprintf("%q", c20Src(fset, src, e)))
					}
				}
				return true
			})
		}
	}
	// the loader's walk: ResolveRefsIn and every resolve… method it reaches, without the drill machinery
	machinery := map[string]bool{"resolveComponent": true, "resolveRefAndDocument": true, "resolveRef": true, "resolveRefPath": true}
	bodies := map[string]*ast.FuncDecl{}
	for _, d := range lf.Decls {
		if fd, ok := d.(*ast.FuncDecl); ok && fd.Body != nil {
			bodies[fd.Name.Name] = fd
		}
	}
	walk := map[string]bool{}
	var visit func(fn string)
	visit = func(fn string) {
		fd, ok := bodies[fn]
		if !ok || walk[fn] {
			return
		}
		walk[fn] = true
		ast.Inspect(fd.Body, func(n ast.Node) bool {
			if ce, ok := n.(*ast.CallExpr); ok {
				if se, ok := ce.Fun.(*ast.SelectorExpr); ok && strings.HasPrefix(se.Sel.Name, "resolve") && !machinery[se.Sel.Name] {
					visit(se.Sel.Name)
				}
			}
			return true
		})
	}
	visit("ResolveRefsIn")
	var walkFuncs []string
	for fn := range walk {
		walkFuncs = append(walkFuncs, fmt.Sprintf("%q", fn))
	}
	sort.Strings(walkFuncs)
	loaderSel := selectors(lf, func(fn string) bool { return walk[fn] })

	// ---- internalize_refs.go
	ifset, inf, isrc, err := parse("internalize_refs.go")
	if err != nil {
		return "", err
	}
	for _, d := range inf.Decls {
		fd, ok := d.(*ast.FuncDecl)
		if !ok || fd.Body == nil {
			continue
		}
		if strings.HasPrefix(fd.Name.Name, "add") && strings.HasSuffix(fd.Name.Name, "ToSpec") {
			cond := ""
			if len(fd.Body.List) > 0 {
				if is, ok := fd.Body.List[0].(*ast.IfStmt); ok {
					cond = oneLine(c20Src(ifset, isrc, is.Cond))
				}
			}
			addConds = append(addConds, fmt.Sprintf("(%q, %q)", fd.Name.Name, cond))
		}
		isWalk := fd.Name.Name == "InternalizeRefs" || strings.HasPrefix(fd.Name.Name, "deref")
		seenCallee := map[string]bool{}
		ast.Inspect(fd.Body, func(n ast.Node) bool {
			if ce, ok := n.(*ast.CallExpr); ok {
				if id, ok := ce.Fun.(*ast.Ident); ok && id.Name == "panic" {
					panics = append(panics, fmt.Sprintf("(%q, %q)", "internalize_refs.go", fd.Name.Name))
				}
				if se, ok := ce.Fun.(*ast.SelectorExpr); ok && isWalk {
					if strings.HasPrefix(se.Sel.Name, "deref") && !seenCallee[se.Sel.Name] {
						seenCallee[se.Sel.Name] = true
						derefCalls = append(derefCalls, fmt.Sprintf("(%q, %q)", fd.Name.Name, se.Sel.Name))
					}
					if strings.HasPrefix(se.Sel.Name, "isVisited") && !seenCallee[se.Sel.Name] {
						seenCallee[se.Sel.Name] = true
						derefGuards = append(derefGuards, fmt.Sprintf("(%q, %q)", fd.Name.Name, se.Sel.Name))
					}
				}
			}
			return true
		})
	}
	internSel := selectors(inf, func(fn string) bool {
		return fn == "InternalizeRefs" || strings.HasPrefix(fn, "deref") || (strings.HasPrefix(fn, "add") && strings.HasSuffix(fn, "ToSpec"))
	})

	// ---- header.go: the validation stack of (*Header).Validate
	if hfset, hf, hsrc, err := parse("header.go"); err == nil {
		for _, d := range hf.Decls {
			fd, ok := d.(*ast.FuncDecl)
			if !ok || fd.Body == nil || fd.Recv == nil || fd.Name.Name != "Validate" || c20Src(hfset, hsrc, fd.Recv.List[0].Type) != "*Header" {
				continue
			}
			for _, st := range fd.Body.List {
				t := oneLine(c20Src(hfset, hsrc, st))
				if strings.Contains(t, "headerValidationStackKey") || strings.HasPrefix(t, "for _, h := range stack") {
					headerStack = append(headerStack, fmt.Sprintf("%q", t))
				}
			}
		}
	} else {
		return "", err
	}

	// ---- path_item.go: isEmpty and Operations
	var piEmpty, piOps []string
	if _, pf, _, err := parse("path_item.go"); err == nil {
		for _, d := range pf.Decls {
			fd, ok := d.(*ast.FuncDecl)
			if !ok || fd.Body == nil || fd.Recv == nil {
				continue
			}
			if fd.Name.Name != "isEmpty" && fd.Name.Name != "Operations" {
				continue
			}
			ast.Inspect(fd.Body, func(n ast.Node) bool {
				if se, ok := n.(*ast.SelectorExpr); ok {
					if id, ok := se.X.(*ast.Ident); ok && id.Name == "pathItem" {
						if fd.Name.Name == "isEmpty" {
							piEmpty = append(piEmpty, fmt.Sprintf("%q", se.Sel.Name))
						} else {
							piOps = append(piOps, fmt.Sprintf("%q", se.Sel.Name))
						}
					}
				}
				return true
			})
		}
	} else {
		return "", err
	}

	// ---- schema.go: (*Schema).validate
	sfset, sf, ssrc, err := parse("schema.go")
	if err != nil {
		return "", err
	}
	foundValidate := false
	for _, d := range sf.Decls {
		fd, ok := d.(*ast.FuncDecl)
		if !ok || fd.Body == nil || fd.Name.Name != "validate" || fd.Recv == nil {
			continue
		}
		if c20Src(sfset, ssrc, fd.Recv.List[0].Type) != "*Schema" {
			continue
		}
		foundValidate = true
		// last definition `v := <expr>` seen before each call, in source order
		lastDef := map[string]string{}
		var stack []ast.Node
		ast.Inspect(fd.Body, func(n ast.Node) bool {
			if n == nil {
				stack = stack[:len(stack)-1]
				return true
			}
			stack = append(stack, n)
			switch x := n.(type) {
			case *ast.AssignStmt:
				if x.Tok == token.DEFINE && len(x.Lhs) == 1 && len(x.Rhs) == 1 {
					if id, ok := x.Lhs[0].(*ast.Ident); ok {
						lastDef[id.Name] = c20Src(sfset, ssrc, x.Rhs[0])
					}
				}
			case *ast.CallExpr:
				se, ok := x.Fun.(*ast.SelectorExpr)
				if !ok || (se.Sel.Name != "validate" && se.Sel.Name != "Validate") {
					break
				}
				recv := c20Src(sfset, ssrc, se.X)
				from := recv
				if id, ok := se.X.(*ast.Ident); ok {
					if d, ok := lastDef[id.Name]; ok {
						from = d
					}
				}
				if i := strings.LastIndex(from, "."); i >= 0 {
					from = from[i+1:]
				}
				threads := false
				for _, a := range x.Args {
					if id, ok := a.(*ast.Ident); ok && id.Name == "stack" {
						threads = true
					}
				}
				assigns := false
				if len(stack) >= 2 {
					if as, ok := stack[len(stack)-2].(*ast.AssignStmt); ok && len(as.Lhs) >= 1 {
						if id, ok := as.Lhs[0].(*ast.Ident); ok && id.Name == "stack" {
							assigns = true
						}
					}
				}
				edges = append(edges, fmt.Sprintf("⟨%q, %q, %v, %v⟩", from, se.Sel.Name, threads, assigns))
			}
			return true
		})
	}
	if !foundValidate {
		edges = append(edges, "⟨\"unrecognised\", \"schema.go: (*Schema).validate not found\", false, false⟩")
	}

	var sb strings.Builder
	sb.WriteString("-- generated by go/cmd/extract (table C20Loader) from openapi3/loader.go, schema.go, internalize_refs.go — do not edit\n")
	sb.WriteString("import KinModel.LoadTypes\nnamespace KinModel.Gen\nopen KinModel.LoadTypes\n\n")
	fmt.Fprintf(&sb, "-- rows: %d\n", len(resolvers)+len(readable)+len(otherAsserts)+len(panics)+len(edges)+len(loaderSel)+len(internSel)+
		len(walkFuncs)+len(emptyChecks)+len(drillConds)+1+len(derefCalls)+len(derefGuards)+len(piEmpty)+len(piOps)+len(visitKeys)+len(swallow)+len(addConds)+len(headerStack))
	sb.WriteString("def c20Resolvers : List ResolverRow := [\n  " + strings.Join(resolvers, ",\n  ") + "]\n\n")
	sb.WriteString("def c20Readable : List String := [" + strings.Join(readable, ", ") + "]\n\n")
	sb.WriteString("def c20OtherAsserts : List (String × String) := [\n  " + strings.Join(otherAsserts, ",\n  ") + "]\n\n")
	sb.WriteString("def c20ExplicitPanics : List (String × String) := [\n  " + strings.Join(panics, ",\n  ") + "]\n\n")
	sb.WriteString("def c20ValidateEdges : List EdgeRow := [\n  " + strings.Join(edges, ",\n  ") + "]\n\n")
	sb.WriteString("def c20LoaderSelectors : List String := [" + strings.Join(loaderSel, ", ") + "]\n\n")
	sb.WriteString("def c20InternalizeSelectors : List String := [" + strings.Join(internSel, ", ") + "]\n\n")
	sb.WriteString("def c20WalkFuncs : List String := [" + strings.Join(walkFuncs, ", ") + "]\n\n")
	sb.WriteString("def c20EmptyChecks : List (String × String) := [\n  " + strings.Join(emptyChecks, ",\n  ") + "]\n\n")
	sb.WriteString("def c20DrillConds : List String := [\n  " + strings.Join(drillConds, ",\n  ") + "]\n\n")
	fmt.Fprintf(&sb, "def c20IsNilPointer : String := %q\n\n", isNilBody)
	sb.WriteString("def c20VisitKeys : List (String × String × String) := [\n  " + strings.Join(visitKeys, ",\n  ") + "]\n\n")
	sb.WriteString("def c20SwallowConds : List (String × String) := [\n  " + strings.Join(swallow, ",\n  ") + "]\n\n")
	sb.WriteString("def c20AddToSpecConds : List (String × String) := [\n  " + strings.Join(addConds, ",\n  ") + "]\n\n")
	sb.WriteString("def c20HeaderStack : List String := [\n  " + strings.Join(headerStack, ",\n  ") + "]\n\n")
	sb.WriteString("def c20PathItemIsEmpty : List String := [" + strings.Join(piEmpty, ", ") + "]\n\n")
	sb.WriteString("def c20PathItemOps : List String := [" + strings.Join(piOps, ", ") + "]\n\n")
	sb.WriteString("def c20DerefCalls : List (String × String) := [\n  " + strings.Join(derefCalls, ",\n  ") + "]\n\n")
	sb.WriteString("def c20DerefGuards : List (String × String) := [\n  " + strings.Join(derefGuards, ",\n  ") + "]\n\nend KinModel.Gen\n")
	return sb.String(), nil
}
