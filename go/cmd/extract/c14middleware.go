package main

// Tables of property C14, read off openapi3filter/middleware.go, validation_handler.go and
// validation_error_encoder.go (all non-test files of the package are parsed; rules are syntactic, go/ast only).
//
// WrapperMethods — the response wrappers as the source defines them. A *wrapper type* is every struct type of
// the package that has methods Write, WriteHeader and Header (i.e. can be handed to a handler as
// http.ResponseWriter). Rows, per wrapper type in name order:
//   field ty name typ embedded      every struct field (embedded = anonymous field: its methods are promoted)
//   method ty name exported ptr     every method, in source order
//   per method body, in source order, for every selector `recv.F` on the receiver:
//     pass ty m F call              `recv.F.call(…)`, or `x.call(…)` for x bound by `x, ok := recv.F.(T)`
//     assert ty m F iface           `recv.F.(iface)`
//     self ty m callee              `recv.callee(…)` (a method of the wrapper itself)
//     write ty m F                  `recv.F` on the left of an assignment / inc / dec
//     addr ty m F                   `&recv.F`
//     escape ty m site              any other use of a field whose type is http.ResponseWriter or io.Writer
//                                   (returned, passed on, stored): the underlying writer leaves the wrapper
//     (plain reads of the other fields yield no row)
//   tee ty targets                  `<x>.F = io.MultiWriter(a, b, …)` anywhere in the package, x of wrapper type ty
//                                   (as bound by `x := &ty{…}`); targets are the argument texts
//   unrecognised site               a method of a wrapper type whose receiver is unnamed, or a wrapper type that is
//                                   not a plain struct
//
// ValidatorConfig — the configuration surface of Validator:
//   const name value                the constants of the ErrCode block (`= <int>` or `= iota`)
//   text const text                 ErrCode.responseText: `case C: return "text"`, `default` as const "default"
//   option name field               `func Name(p T) ValidatorOption { return func(v *Validator) { v.field = p } }`
//   dflt field kind                 the composite literal of NewValidator: `param` (the constructor's parameter),
//                                   `http.Error(w, code.responseText(), status)` resp. `log.Printf` for the two
//                                   default callbacks (a func literal whose body is exactly that call)
//   applyInOrder                    NewValidator runs `for i := range options { options[i](v) }`
//   errCall fn status code writer   every `v.errFunc(ctx, writer, http.Status…, ErrCode…, err)` of Middleware, in order
//   logCall fn message              every `v.logFunc(ctx, "message"…, err)` of Middleware, in order (a message built
//                                   as "lit" + expr is recorded as its literal prefix)
//   unrecognised site               anything of these shapes that cannot be read
//
// ValidatorState — what an instance could carry from one request to the next:
//   field ty name typ               fields of Validator and ValidationHandler
//   use ty fn F kind                every selector `recv.F` in the serving code of ty — for Validator the method
//                                   Middleware (closure included), for ValidationHandler ServeHTTP and Middleware plus
//                                   the methods of the receiver they call, transitively; kind is
//                                   `call` (recv.F(…)), `method:M` (recv.F.M(…)), `addr` (&recv.F), `write`
//                                   (assignment / inc / dec), `read` (anything else)
//   wrapper fn cond ty fresh fields every assignment to a variable declared `var x responseWrapper` in Middleware:
//                                   cond = the enclosing if-condition text (`!cond` in the else branch, "" outside),
//                                   fresh = the value is `&ty{…}` or a call of a package function whose body is
//                                   `x := &ty{…}; (x.F = …)*; return x`; fields = the fields the literal / constructor sets
//   pkgvar fn name                  a reference, in that serving code or in a wrapper method / constructor, to a
//                                   package-level variable of the package
//   unrecognised site
//
// MiddlewareFlow — the statement skeleton of the serving code, statement by statement in source order:
//   stmt fn depth kind text         fn = "Type.method" (for a method whose body is `return http.HandlerFunc(func(w, r)
//                                   {…})` the rows are those of the closure body); depth = nesting depth of the
//                                   statement; kind = assign | call | decl | return | if | else; text = the statement
//                                   printed by go/printer with white space collapsed (for `if` the condition; an
//                                   `if init; cond` yields the init statement as its own row before the `if` row;
//                                   `else if` yields an `else` row and the nested `if` one level deeper)
//   unrecognised site               any other statement kind (for, range, switch, select, defer, go, labels, bare
//                                   blocks, inc/dec, send) and a serving function that is missing
//   Functions: Validator.Middleware, ValidationHandler.ServeHTTP / Middleware / before / validateRequest, every
//   method of the wrapper types, and the package function isInformational.
//
// ConvertStatus — `Status:` values of the ValidationError literals and `x.Status = …` assignments of every
// function of validation_error_encoder.go: status fn const.

import (
	"bytes"
	"fmt"
	"go/ast"
	"go/printer"
	"go/parser"
	"go/token"
	"go/types"
	"os"
	"path/filepath"
	"sort"
	"strconv"
	"strings"
)

func init() {
	register("WrapperMethods", extractWrapperMethods)
	register("ValidatorConfig", extractValidatorConfig)
	register("ValidatorState", extractValidatorState)
	register("ConvertStatus", extractConvertStatus)
	register("MiddlewareFlow", extractMiddlewareFlow)
}

type c14pkg struct {
	fset    *token.FileSet
	files   []*ast.File
	names   []string
	structs map[string]*ast.StructType
	typeAt  map[string]token.Pos
	methods map[string][]*ast.FuncDecl // receiver base type -> methods, source order
	funcs   map[string]*ast.FuncDecl   // package-level functions
	pkgvars map[string]bool
}

func c14Load(repo string) (*c14pkg, error) {
	dir := filepath.Join(repo, "openapi3filter")
	ents, err := os.ReadDir(dir)
	if err != nil {
		return nil, err
	}
	p := &c14pkg{fset: token.NewFileSet(), structs: map[string]*ast.StructType{}, typeAt: map[string]token.Pos{},
		methods: map[string][]*ast.FuncDecl{}, funcs: map[string]*ast.FuncDecl{}, pkgvars: map[string]bool{}}
	for _, e := range ents {
		n := e.Name()
		if strings.HasSuffix(n, ".go") && !strings.HasSuffix(n, "_test.go") {
			p.names = append(p.names, n)
		}
	}
	sort.Strings(p.names)
	for _, n := range p.names {
		f, err := parser.ParseFile(p.fset, filepath.Join(dir, n), nil, 0)
		if err != nil {
			return nil, err
		}
		p.files = append(p.files, f)
		for _, d := range f.Decls {
			switch x := d.(type) {
			case *ast.GenDecl:
				for _, sp := range x.Specs {
					switch s := sp.(type) {
					case *ast.TypeSpec:
						p.typeAt[s.Name.Name] = s.Pos()
						if st, ok := s.Type.(*ast.StructType); ok {
							p.structs[s.Name.Name] = st
						}
					case *ast.ValueSpec:
						if x.Tok == token.VAR {
							for _, id := range s.Names {
								if id.Name != "_" {
									p.pkgvars[id.Name] = true
								}
							}
						}
					}
				}
			case *ast.FuncDecl:
				if x.Recv == nil {
					p.funcs[x.Name.Name] = x
				} else if len(x.Recv.List) == 1 {
					p.methods[recvBase(x.Recv.List[0].Type)] = append(p.methods[recvBase(x.Recv.List[0].Type)], x)
				}
			}
		}
	}
	return p, nil
}

func recvBase(e ast.Expr) string {
	if s, ok := e.(*ast.StarExpr); ok {
		e = s.X
	}
	if id, ok := e.(*ast.Ident); ok {
		return id.Name
	}
	return ""
}

func (p *c14pkg) site(pos token.Pos) string {
	q := p.fset.Position(pos)
	return fmt.Sprintf("openapi3filter/%s:%d", filepath.Base(q.Filename), q.Line)
}

func (p *c14pkg) hasMethod(ty, name string) bool {
	for _, m := range p.methods[ty] {
		if m.Name.Name == name {
			return true
		}
	}
	return false
}

func (p *c14pkg) wrapperTypes() []string {
	var out []string
	for ty := range p.methods {
		if ty != "" && p.hasMethod(ty, "Write") && p.hasMethod(ty, "WriteHeader") && p.hasMethod(ty, "Header") {
			out = append(out, ty)
		}
	}
	sort.Strings(out)
	return out
}

func c14q(s string) string { return strconv.Quote(s) }

func leanBool(b bool) string {
	if b {
		return "true"
	}
	return "false"
}

func leanStrs(l []string) string {
	qs := make([]string, len(l))
	for i, s := range l {
		qs[i] = c14q(s)
	}
	return "[" + strings.Join(qs, ", ") + "]"
}

func c14Emit(name, typ, imp string, rows []string) string {
	var b strings.Builder
	b.WriteString("-- generated by go/cmd/extract (table " + name + "); do not edit\n")
	b.WriteString("import " + imp + "\n")
	b.WriteString("namespace KinModel.Gen\nopen KinModel.MiddlewareSrc\n\n")
	fmt.Fprintf(&b, "-- rows: %d\n", len(rows))
	lower := strings.ToLower(name[:1]) + name[1:]
	fmt.Fprintf(&b, "def %s : List %s := [\n", lower, typ)
	for i, r := range rows {
		sep := ","
		if i == len(rows)-1 {
			sep = ""
		}
		b.WriteString("  " + r + sep + "\n")
	}
	b.WriteString("]\n\nend KinModel.Gen\n")
	return b.String()
}

// walk visits every node of root with the stack of its ancestors (nearest last).
func walkParents(root ast.Node, f func(n ast.Node, parents []ast.Node)) {
	var stack []ast.Node
	ast.Inspect(root, func(n ast.Node) bool {
		if n == nil {
			stack = stack[:len(stack)-1]
			return true
		}
		f(n, stack)
		stack = append(stack, n)
		return true
	})
}

func c14RecvName(fd *ast.FuncDecl) string {
	if fd.Recv == nil || len(fd.Recv.List) != 1 || len(fd.Recv.List[0].Names) != 1 {
		return ""
	}
	return fd.Recv.List[0].Names[0].Name
}

// classify the use of selector sel = recv.F given its ancestors
// returns kind ("call","method:M","assert:T","addr","write","read") and the call expr if any
func selUse(sel *ast.SelectorExpr, parents []ast.Node) string {
	if len(parents) == 0 {
		return "read"
	}
	par := parents[len(parents)-1]
	switch x := par.(type) {
	case *ast.CallExpr:
		if x.Fun == sel {
			return "call"
		}
	case *ast.SelectorExpr:
		if x.X == sel && len(parents) >= 2 {
			if c, ok := parents[len(parents)-2].(*ast.CallExpr); ok && c.Fun == x {
				return "method:" + x.Sel.Name
			}
		}
	case *ast.TypeAssertExpr:
		if x.X == sel && x.Type != nil {
			return "assert:" + types.ExprString(x.Type)
		}
	case *ast.UnaryExpr:
		if x.Op == token.AND && x.X == sel {
			return "addr"
		}
	case *ast.AssignStmt:
		for _, l := range x.Lhs {
			if l == sel {
				return "write"
			}
		}
	case *ast.IncDecStmt:
		if x.X == sel {
			return "write"
		}
	}
	return "read"
}

// ---------------------------------------------------------------- WrapperMethods

func isWriterType(t string) bool { return t == "http.ResponseWriter" || t == "io.Writer" }

func extractWrapperMethods(repo string) (string, error) {
	p, err := c14Load(repo)
	if err != nil {
		return "", err
	}
	var rows []string
	for _, ty := range p.wrapperTypes() {
		st := p.structs[ty]
		if st == nil {
			rows = append(rows, ".unrecognised "+c14q(p.site(p.typeAt[ty])))
			continue
		}
		fieldType := map[string]string{}
		for _, f := range st.Fields.List {
			t := types.ExprString(f.Type)
			if len(f.Names) == 0 {
				name := t
				if i := strings.LastIndex(name, "."); i >= 0 {
					name = name[i+1:]
				}
				name = strings.TrimPrefix(name, "*")
				fieldType[name] = t
				rows = append(rows, fmt.Sprintf(".field %s %s %s true", c14q(ty), c14q(name), c14q(t)))
				continue
			}
			for _, n := range f.Names {
				fieldType[n.Name] = t
				rows = append(rows, fmt.Sprintf(".field %s %s %s false", c14q(ty), c14q(n.Name), c14q(t)))
			}
		}
		for _, m := range p.methods[ty] {
			_, ptr := m.Recv.List[0].Type.(*ast.StarExpr)
			rows = append(rows, fmt.Sprintf(".method %s %s %s %s", c14q(ty), c14q(m.Name.Name), leanBool(ast.IsExported(m.Name.Name)), leanBool(ptr)))
			rn := c14RecvName(m)
			if rn == "" || rn == "_" {
				if m.Body != nil && len(m.Body.List) > 0 {
					// a body that cannot name its receiver cannot touch the fields; an empty receiver name with a
					// non-trivial body is still readable: nothing to record
				}
				continue
			}
			if m.Body == nil {
				continue
			}
			alias := map[string]string{} // local bound by `x, ok := recv.F.(T)` -> F
			walkParents(m.Body, func(n ast.Node, parents []ast.Node) {
				switch x := n.(type) {
				case *ast.AssignStmt:
					if len(x.Rhs) == 1 {
						if ta, ok := x.Rhs[0].(*ast.TypeAssertExpr); ok {
							if sel, ok := ta.X.(*ast.SelectorExpr); ok {
								if id, ok := sel.X.(*ast.Ident); ok && id.Name == rn && len(x.Lhs) >= 1 {
									if l, ok := x.Lhs[0].(*ast.Ident); ok && l.Name != "_" {
										alias[l.Name] = sel.Sel.Name
									}
								}
							}
						}
					}
				case *ast.CallExpr:
					if sel, ok := x.Fun.(*ast.SelectorExpr); ok {
						if id, ok := sel.X.(*ast.Ident); ok {
							if f, ok := alias[id.Name]; ok {
								rows = append(rows, fmt.Sprintf(".pass %s %s %s %s", c14q(ty), c14q(m.Name.Name), c14q(f), c14q(sel.Sel.Name)))
							}
						}
					}
				case *ast.Ident:
					// the receiver itself used as a value (passed on, returned, stored): everything it holds escapes
					if x.Name == rn {
						if len(parents) > 0 {
							if s, ok := parents[len(parents)-1].(*ast.SelectorExpr); ok && s.X == x {
								return
							}
						}
						rows = append(rows, fmt.Sprintf(".escape %s %s %s", c14q(ty), c14q(m.Name.Name), c14q(p.site(x.Pos()))))
					}
				case *ast.SelectorExpr:
					id, ok := x.X.(*ast.Ident)
					if !ok || id.Name != rn {
						return
					}
					f := x.Sel.Name
					if _, isField := fieldType[f]; !isField {
						if p.hasMethod(ty, f) {
							rows = append(rows, fmt.Sprintf(".self %s %s %s", c14q(ty), c14q(m.Name.Name), c14q(f)))
						} else {
							rows = append(rows, ".unrecognised "+c14q(p.site(x.Pos())))
						}
						return
					}
					use := selUse(x, parents)
					switch {
					case strings.HasPrefix(use, "method:"):
						rows = append(rows, fmt.Sprintf(".pass %s %s %s %s", c14q(ty), c14q(m.Name.Name), c14q(f), c14q(strings.TrimPrefix(use, "method:"))))
					case strings.HasPrefix(use, "assert:"):
						rows = append(rows, fmt.Sprintf(".assert %s %s %s %s", c14q(ty), c14q(m.Name.Name), c14q(f), c14q(strings.TrimPrefix(use, "assert:"))))
					case use == "write":
						rows = append(rows, fmt.Sprintf(".write %s %s %s", c14q(ty), c14q(m.Name.Name), c14q(f)))
					case use == "addr":
						rows = append(rows, fmt.Sprintf(".addr %s %s %s", c14q(ty), c14q(m.Name.Name), c14q(f)))
					case use == "call":
						rows = append(rows, fmt.Sprintf(".pass %s %s %s %s", c14q(ty), c14q(m.Name.Name), c14q(f), c14q("()")))
					default:
						if isWriterType(fieldType[f]) {
							rows = append(rows, fmt.Sprintf(".escape %s %s %s", c14q(ty), c14q(m.Name.Name), c14q(p.site(x.Pos()))))
						}
					}
				}
			})
		}
	}
	// tee initialisations: `<x>.F = io.MultiWriter(args…)` with x := &ty{…}
	wrappers := map[string]bool{}
	for _, ty := range p.wrapperTypes() {
		wrappers[ty] = true
	}
	for _, f := range p.files {
		for _, d := range f.Decls {
			fd, ok := d.(*ast.FuncDecl)
			if !ok || fd.Body == nil {
				continue
			}
			bound := map[string]string{}
			if fd.Recv != nil && c14RecvName(fd) != "" {
				bound[c14RecvName(fd)] = recvBase(fd.Recv.List[0].Type)
			}
			ast.Inspect(fd.Body, func(n ast.Node) bool {
				as, ok := n.(*ast.AssignStmt)
				if !ok || len(as.Lhs) != 1 || len(as.Rhs) != 1 {
					return true
				}
				if id, ok := as.Lhs[0].(*ast.Ident); ok {
					if ty := literalType(as.Rhs[0]); ty != "" {
						bound[id.Name] = ty
					}
				}
				sel, ok := as.Lhs[0].(*ast.SelectorExpr)
				if !ok {
					return true
				}
				id, ok := sel.X.(*ast.Ident)
				if !ok || !wrappers[bound[id.Name]] {
					return true
				}
				call, ok := as.Rhs[0].(*ast.CallExpr)
				if !ok || types.ExprString(call.Fun) != "io.MultiWriter" {
					return true
				}
				var targets []string
				for _, a := range call.Args {
					targets = append(targets, types.ExprString(a))
				}
				rows = append(rows, fmt.Sprintf(".tee %s %s %s", c14q(bound[id.Name]), c14q(sel.Sel.Name), leanStrs(targets)))
				return true
			})
		}
	}
	return c14Emit("WrapperMethods", "WRow", "KinModel.MiddlewareSrc", rows), nil
}

// `&T{…}` or `T{…}` -> "T"
func literalType(e ast.Expr) string {
	if u, ok := e.(*ast.UnaryExpr); ok && u.Op == token.AND {
		e = u.X
	}
	if cl, ok := e.(*ast.CompositeLit); ok {
		if id, ok := cl.Type.(*ast.Ident); ok {
			return id.Name
		}
	}
	return ""
}

func literalFields(e ast.Expr) []string {
	if u, ok := e.(*ast.UnaryExpr); ok && u.Op == token.AND {
		e = u.X
	}
	var out []string
	if cl, ok := e.(*ast.CompositeLit); ok {
		for _, el := range cl.Elts {
			if kv, ok := el.(*ast.KeyValueExpr); ok {
				out = append(out, types.ExprString(kv.Key))
			} else {
				out = append(out, "?")
			}
		}
	}
	return out
}

// ---------------------------------------------------------------- ValidatorConfig

func extractValidatorConfig(repo string) (string, error) {
	p, err := c14Load(repo)
	if err != nil {
		return "", err
	}
	var rows []string
	unrec := func(pos token.Pos) { rows = append(rows, ".unrecognised "+c14q(p.site(pos))) }
	// constants of the block that declares ErrCodeOK
	for _, f := range p.files {
		for _, d := range f.Decls {
			gd, ok := d.(*ast.GenDecl)
			if !ok || gd.Tok != token.CONST {
				continue
			}
			isBlock := false
			for _, sp := range gd.Specs {
				for _, n := range sp.(*ast.ValueSpec).Names {
					if strings.HasPrefix(n.Name, "ErrCode") {
						isBlock = true
					}
				}
			}
			if !isBlock {
				continue
			}
			for i, sp := range gd.Specs {
				vs := sp.(*ast.ValueSpec)
				if len(vs.Names) != 1 || len(vs.Values) != 1 {
					unrec(vs.Pos())
					continue
				}
				switch v := vs.Values[0].(type) {
				case *ast.BasicLit:
					n, err := strconv.Atoi(v.Value)
					if err != nil || v.Kind != token.INT {
						unrec(vs.Pos())
						continue
					}
					rows = append(rows, fmt.Sprintf(".const %s %d", c14q(vs.Names[0].Name), n))
				case *ast.Ident:
					if v.Name != "iota" {
						unrec(vs.Pos())
						continue
					}
					rows = append(rows, fmt.Sprintf(".const %s %d", c14q(vs.Names[0].Name), i))
				default:
					unrec(vs.Pos())
				}
			}
		}
	}
	// responseText
	for _, m := range p.methods["ErrCode"] {
		if m.Name.Name != "responseText" || m.Body == nil {
			continue
		}
		if len(m.Body.List) != 1 {
			unrec(m.Pos())
			continue
		}
		sw, ok := m.Body.List[0].(*ast.SwitchStmt)
		if !ok || sw.Init != nil {
			unrec(m.Pos())
			continue
		}
		for _, cc := range sw.Body.List {
			c := cc.(*ast.CaseClause)
			if len(c.Body) != 1 {
				unrec(c.Pos())
				continue
			}
			ret, ok := c.Body[0].(*ast.ReturnStmt)
			if !ok || len(ret.Results) != 1 {
				unrec(c.Pos())
				continue
			}
			lit, ok := ret.Results[0].(*ast.BasicLit)
			if !ok || lit.Kind != token.STRING {
				unrec(c.Pos())
				continue
			}
			txt, _ := strconv.Unquote(lit.Value)
			if c.List == nil {
				rows = append(rows, fmt.Sprintf(".text %s %s", c14q("default"), c14q(txt)))
			}
			for _, e := range c.List {
				rows = append(rows, fmt.Sprintf(".text %s %s", c14q(types.ExprString(e)), c14q(txt)))
			}
		}
	}
	// option functions: every package-level function whose single result is ValidatorOption
	var optNames []string
	for name, fd := range p.funcs {
		if fd.Type.Results != nil && len(fd.Type.Results.List) == 1 && types.ExprString(fd.Type.Results.List[0].Type) == "ValidatorOption" {
			optNames = append(optNames, name)
		}
	}
	sort.Slice(optNames, func(i, j int) bool { return p.funcs[optNames[i]].Pos() < p.funcs[optNames[j]].Pos() })
	for _, name := range optNames {
		fd := p.funcs[name]
		ok := false
		func() {
			if fd.Body == nil || len(fd.Body.List) != 1 || fd.Type.Params == nil || len(fd.Type.Params.List) != 1 || len(fd.Type.Params.List[0].Names) != 1 {
				return
			}
			param := fd.Type.Params.List[0].Names[0].Name
			ret, isRet := fd.Body.List[0].(*ast.ReturnStmt)
			if !isRet || len(ret.Results) != 1 {
				return
			}
			fl, isFl := ret.Results[0].(*ast.FuncLit)
			if !isFl || len(fl.Type.Params.List) != 1 || len(fl.Type.Params.List[0].Names) != 1 || len(fl.Body.List) != 1 {
				return
			}
			v := fl.Type.Params.List[0].Names[0].Name
			as, isAs := fl.Body.List[0].(*ast.AssignStmt)
			if !isAs || as.Tok != token.ASSIGN || len(as.Lhs) != 1 || len(as.Rhs) != 1 {
				return
			}
			sel, isSel := as.Lhs[0].(*ast.SelectorExpr)
			rhs, isId := as.Rhs[0].(*ast.Ident)
			if !isSel || !isId || rhs.Name != param {
				return
			}
			if id, isX := sel.X.(*ast.Ident); !isX || id.Name != v {
				return
			}
			rows = append(rows, fmt.Sprintf(".option %s %s", c14q(name), c14q(sel.Sel.Name)))
			ok = true
		}()
		if !ok {
			unrec(fd.Pos())
		}
	}
	// NewValidator
	if fd := p.funcs["NewValidator"]; fd == nil || fd.Body == nil {
		rows = append(rows, ".unrecognised "+c14q("openapi3filter: NewValidator not found"))
	} else {
		params := map[string]bool{}
		variadic := ""
		for _, f := range fd.Type.Params.List {
			for _, n := range f.Names {
				params[n.Name] = true
				if _, ok := f.Type.(*ast.Ellipsis); ok {
					variadic = n.Name
				}
			}
		}
		vname := ""
		for _, st := range fd.Body.List {
			switch x := st.(type) {
			case *ast.AssignStmt:
				if len(x.Lhs) == 1 && len(x.Rhs) == 1 && literalType(x.Rhs[0]) == "Validator" {
					vname = types.ExprString(x.Lhs[0])
					u, _ := x.Rhs[0].(*ast.UnaryExpr)
					var cl *ast.CompositeLit
					if u != nil {
						cl, _ = u.X.(*ast.CompositeLit)
					}
					if cl == nil {
						unrec(x.Pos())
						continue
					}
					for _, el := range cl.Elts {
						kv, ok := el.(*ast.KeyValueExpr)
						if !ok {
							unrec(el.Pos())
							continue
						}
						field := types.ExprString(kv.Key)
						switch v := kv.Value.(type) {
						case *ast.Ident:
							if params[v.Name] {
								rows = append(rows, fmt.Sprintf(".dflt %s %s", c14q(field), c14q("param")))
							} else {
								rows = append(rows, fmt.Sprintf(".dflt %s %s", c14q(field), c14q("value:"+v.Name)))
							}
						case *ast.FuncLit:
							if len(v.Body.List) == 1 {
								if es, ok := v.Body.List[0].(*ast.ExprStmt); ok {
									if call, ok := es.X.(*ast.CallExpr); ok {
										fun := types.ExprString(call.Fun)
										if fun == "http.Error" {
											rows = append(rows, fmt.Sprintf(".dflt %s %s", c14q(field), c14q(types.ExprString(call))))
										} else {
											rows = append(rows, fmt.Sprintf(".dflt %s %s", c14q(field), c14q(fun)))
										}
										continue
									}
								}
							}
							unrec(v.Pos())
						default:
							rows = append(rows, fmt.Sprintf(".dflt %s %s", c14q(field), c14q("value:"+types.ExprString(kv.Value))))
						}
					}
				} else {
					unrec(x.Pos())
				}
			case *ast.RangeStmt:
				// for i := range options { options[i](v) }   /   for _, o := range options { o(v) }
				ok := false
				if types.ExprString(x.X) == variadic && len(x.Body.List) == 1 {
					if es, isEs := x.Body.List[0].(*ast.ExprStmt); isEs {
						if call, isCall := es.X.(*ast.CallExpr); isCall && len(call.Args) == 1 && types.ExprString(call.Args[0]) == vname {
							fun := types.ExprString(call.Fun)
							if x.Key != nil && fun == variadic+"["+types.ExprString(x.Key)+"]" {
								ok = true
							}
							if x.Value != nil && fun == types.ExprString(x.Value) {
								ok = true
							}
						}
					}
				}
				if ok {
					rows = append(rows, ".applyInOrder")
				} else {
					unrec(x.Pos())
				}
			case *ast.ReturnStmt:
				if len(x.Results) != 1 || types.ExprString(x.Results[0]) != vname {
					unrec(x.Pos())
				}
			default:
				unrec(st.Pos())
			}
		}
	}
	// errFunc / logFunc calls of Validator.Middleware
	for _, m := range p.methods["Validator"] {
		if m.Name.Name != "Middleware" || m.Body == nil {
			continue
		}
		rn := c14RecvName(m)
		ast.Inspect(m.Body, func(n ast.Node) bool {
			call, ok := n.(*ast.CallExpr)
			if !ok {
				return true
			}
			sel, ok := call.Fun.(*ast.SelectorExpr)
			if !ok {
				return true
			}
			id, ok := sel.X.(*ast.Ident)
			if !ok || id.Name != rn {
				return true
			}
			switch sel.Sel.Name {
			case "errFunc":
				if len(call.Args) != 5 {
					unrec(call.Pos())
					return true
				}
				rows = append(rows, fmt.Sprintf(".errCall %s %s %s %s", c14q("Middleware"), c14q(types.ExprString(call.Args[2])), c14q(types.ExprString(call.Args[3])), c14q(types.ExprString(call.Args[1]))))
			case "logFunc":
				if len(call.Args) != 3 {
					unrec(call.Pos())
					return true
				}
				msg := call.Args[1]
				if be, ok := msg.(*ast.BinaryExpr); ok && be.Op == token.ADD {
					msg = be.X
				}
				lit, ok := msg.(*ast.BasicLit)
				if !ok || lit.Kind != token.STRING {
					unrec(call.Pos())
					return true
				}
				txt, _ := strconv.Unquote(lit.Value)
				rows = append(rows, fmt.Sprintf(".logCall %s %s", c14q("Middleware"), c14q(txt)))
			}
			return true
		})
	}
	return c14Emit("ValidatorConfig", "CRow", "KinModel.MiddlewareSrc", rows), nil
}

// ---------------------------------------------------------------- ValidatorState

func extractValidatorState(repo string) (string, error) {
	p, err := c14Load(repo)
	if err != nil {
		return "", err
	}
	var rows []string
	unrec := func(pos token.Pos) { rows = append(rows, ".unrecognised "+c14q(p.site(pos))) }
	entries := map[string][]string{"Validator": {"Middleware"}, "ValidationHandler": {"ServeHTTP", "Middleware"}}
	var serving []*ast.FuncDecl // all function bodies whose package-variable references are listed
	for _, ty := range []string{"Validator", "ValidationHandler"} {
		st := p.structs[ty]
		if st == nil {
			rows = append(rows, ".unrecognised "+c14q("openapi3filter: type "+ty+" not found"))
			continue
		}
		fields := map[string]bool{}
		for _, f := range st.Fields.List {
			t := types.ExprString(f.Type)
			if len(f.Names) == 0 {
				rows = append(rows, fmt.Sprintf(".field %s %s %s", c14q(ty), c14q("(embedded)"), c14q(t)))
				continue
			}
			for _, n := range f.Names {
				fields[n.Name] = true
				rows = append(rows, fmt.Sprintf(".field %s %s %s", c14q(ty), c14q(n.Name), c14q(t)))
			}
		}
		// serving methods: entries plus the receiver's methods they call, transitively
		todo := append([]string{}, entries[ty]...)
		seen := map[string]bool{}
		for len(todo) > 0 {
			name := todo[0]
			todo = todo[1:]
			if seen[name] {
				continue
			}
			seen[name] = true
			var m *ast.FuncDecl
			for _, x := range p.methods[ty] {
				if x.Name.Name == name {
					m = x
				}
			}
			if m == nil || m.Body == nil {
				rows = append(rows, ".unrecognised "+c14q("openapi3filter: method "+ty+"."+name+" not found"))
				continue
			}
			serving = append(serving, m)
			rn := c14RecvName(m)
			walkParents(m.Body, func(n ast.Node, parents []ast.Node) {
				switch x := n.(type) {
				case *ast.Ident:
					if x.Name == rn && rn != "" {
						if len(parents) > 0 {
							if s, ok := parents[len(parents)-1].(*ast.SelectorExpr); ok && s.X == x {
								return
							}
						}
						// the receiver used as a value: the whole instance is handed on
						rows = append(rows, fmt.Sprintf(".use %s %s %s %s", c14q(ty), c14q(name), c14q("(receiver)"), c14q("escape")))
					}
				case *ast.SelectorExpr:
					id, ok := x.X.(*ast.Ident)
					if !ok || id.Name != rn || rn == "" {
						return
					}
					f := x.Sel.Name
					if !fields[f] {
						if p.hasMethod(ty, f) {
							todo = append(todo, f)
						} else {
							unrec(x.Pos())
						}
						return
					}
					rows = append(rows, fmt.Sprintf(".use %s %s %s %s", c14q(ty), c14q(name), c14q(f), c14q(selUse(x, parents))))
				}
			})
		}
	}
	// wrapper provenance in Validator.Middleware
	for _, m := range p.methods["Validator"] {
		if m.Name.Name != "Middleware" || m.Body == nil {
			continue
		}
		wrVars := map[string]bool{}
		ast.Inspect(m.Body, func(n ast.Node) bool {
			if ds, ok := n.(*ast.DeclStmt); ok {
				if gd, ok := ds.Decl.(*ast.GenDecl); ok && gd.Tok == token.VAR {
					for _, sp := range gd.Specs {
						vs := sp.(*ast.ValueSpec)
						if vs.Type != nil && types.ExprString(vs.Type) == "responseWrapper" {
							for _, n := range vs.Names {
								wrVars[n.Name] = true
							}
							if len(vs.Values) > 0 {
								unrec(vs.Pos())
							}
						}
					}
				}
			}
			return true
		})
		found := false
		walkParents(m.Body, func(n ast.Node, parents []ast.Node) {
			as, ok := n.(*ast.AssignStmt)
			if !ok {
				return
			}
			for i, l := range as.Lhs {
				id, ok := l.(*ast.Ident)
				if !ok || !wrVars[id.Name] {
					continue
				}
				found = true
				if len(as.Lhs) != len(as.Rhs) {
					unrec(as.Pos())
					continue
				}
				rhs := as.Rhs[i]
				// enclosing if condition
				cond := ""
				for k := len(parents) - 1; k >= 1; k-- {
					if ifs, ok := parents[k-1].(*ast.IfStmt); ok {
						if parents[k] == ifs.Body {
							cond = types.ExprString(ifs.Cond)
						} else if parents[k] == ifs.Else {
							cond = "!" + types.ExprString(ifs.Cond)
						}
						break
					}
				}
				ty, fresh, flds := "", false, []string{}
				if t := literalType(rhs); t != "" {
					if _, isAddr := rhs.(*ast.UnaryExpr); isAddr {
						ty, fresh, flds = t, true, literalFields(rhs)
					}
				} else if call, ok := rhs.(*ast.CallExpr); ok {
					if fid, ok := call.Fun.(*ast.Ident); ok {
						if ctor := p.funcs[fid.Name]; ctor != nil && ctor.Body != nil {
							serving = append(serving, ctor)
							ty, fresh, flds = ctorShape(ctor)
						}
					}
				}
				if ty == "" {
					ty = "expr:" + types.ExprString(rhs)
				}
				rows = append(rows, fmt.Sprintf(".wrapper %s %s %s %s %s", c14q("Middleware"), c14q(cond), c14q(ty), leanBool(fresh), leanStrs(flds)))
			}
		})
		if !found {
			rows = append(rows, ".unrecognised "+c14q(p.site(m.Pos())+": no responseWrapper variable is assigned"))
		}
	}
	// package-level variables referenced by the serving code, the wrapper methods and constructors
	for _, ty := range p.wrapperTypes() {
		serving = append(serving, p.methods[ty]...)
	}
	for _, fd := range serving {
		if fd.Body == nil {
			continue
		}
		name := fd.Name.Name
		if fd.Recv != nil {
			name = recvBase(fd.Recv.List[0].Type) + "." + name
		}
		walkParents(fd.Body, func(n ast.Node, parents []ast.Node) {
			id, ok := n.(*ast.Ident)
			if !ok || !p.pkgvars[id.Name] {
				return
			}
			if len(parents) > 0 {
				switch par := parents[len(parents)-1].(type) {
				case *ast.SelectorExpr:
					if par.Sel == id {
						return
					}
				case *ast.KeyValueExpr:
					if par.Key == id {
						return
					}
				}
			}
			if id.Obj != nil && id.Obj.Kind == ast.Var && id.Obj.Decl != nil {
				if _, isValueSpec := id.Obj.Decl.(*ast.ValueSpec); !isValueSpec {
					return // a local or parameter shadowing the name
				}
			}
			rows = append(rows, fmt.Sprintf(".pkgvar %s %s", c14q(name), c14q(id.Name)))
		})
	}
	return c14Emit("ValidatorState", "SRow", "KinModel.MiddlewareSrc", rows), nil
}

// body `x := &T{…}; (x.F = …)*; return x` -> T, true, fields set
func ctorShape(fd *ast.FuncDecl) (string, bool, []string) {
	l := fd.Body.List
	if len(l) < 2 {
		return "", false, nil
	}
	as, ok := l[0].(*ast.AssignStmt)
	if !ok || as.Tok != token.DEFINE || len(as.Lhs) != 1 || len(as.Rhs) != 1 {
		return "", false, nil
	}
	x, ok := as.Lhs[0].(*ast.Ident)
	if !ok {
		return "", false, nil
	}
	if _, isAddr := as.Rhs[0].(*ast.UnaryExpr); !isAddr || literalType(as.Rhs[0]) == "" {
		return "", false, nil
	}
	ty := literalType(as.Rhs[0])
	flds := literalFields(as.Rhs[0])
	for _, st := range l[1 : len(l)-1] {
		a, ok := st.(*ast.AssignStmt)
		if !ok || a.Tok != token.ASSIGN || len(a.Lhs) != 1 {
			return ty, false, flds
		}
		sel, ok := a.Lhs[0].(*ast.SelectorExpr)
		if !ok {
			return ty, false, flds
		}
		if id, ok := sel.X.(*ast.Ident); !ok || id.Name != x.Name {
			return ty, false, flds
		}
		flds = append(flds, sel.Sel.Name)
	}
	ret, ok := l[len(l)-1].(*ast.ReturnStmt)
	if !ok || len(ret.Results) != 1 || types.ExprString(ret.Results[0]) != x.Name {
		return ty, false, flds
	}
	return ty, true, flds
}

// ---------------------------------------------------------------- ConvertStatus

func extractConvertStatus(repo string) (string, error) {
	p, err := c14Load(repo)
	if err != nil {
		return "", err
	}
	var rows []string
	for i, f := range p.files {
		if p.names[i] != "validation_error_encoder.go" {
			continue
		}
		for _, d := range f.Decls {
			fd, ok := d.(*ast.FuncDecl)
			if !ok || fd.Body == nil {
				continue
			}
			locals := map[string]ast.Expr{} // status := http.X ; later status = http.Y
			emit := func(e ast.Expr) {
				if id, ok := e.(*ast.Ident); ok {
					if _, ok := locals[id.Name]; ok {
						return // a local whose values are listed where they are assigned
					}
				}
				rows = append(rows, fmt.Sprintf(".status %s %s", c14q(fd.Name.Name), c14q(types.ExprString(e))))
			}
			ast.Inspect(fd.Body, func(n ast.Node) bool {
				switch x := n.(type) {
				case *ast.AssignStmt:
					for i, l := range x.Lhs {
						if i >= len(x.Rhs) {
							break
						}
						if id, ok := l.(*ast.Ident); ok && strings.EqualFold(id.Name, "status") {
							locals[id.Name] = x.Rhs[i]
							rows = append(rows, fmt.Sprintf(".status %s %s", c14q(fd.Name.Name), c14q(types.ExprString(x.Rhs[i]))))
						}
						if sel, ok := l.(*ast.SelectorExpr); ok && sel.Sel.Name == "Status" {
							emit(x.Rhs[i])
						}
					}
				case *ast.CompositeLit:
					if types.ExprString(x.Type) == "ValidationError" {
						for _, el := range x.Elts {
							if kv, ok := el.(*ast.KeyValueExpr); ok && types.ExprString(kv.Key) == "Status" {
								emit(kv.Value)
							}
						}
					}
				}
				return true
			})
		}
	}
	if len(rows) == 0 {
		rows = append(rows, ".unrecognised "+c14q("openapi3filter/validation_error_encoder.go: no status found"))
	}
	// dispatch of ConvertErrors: every if / else-if of its body in source order — the condition (the type assertion
	// of its init statement when it has one) and what the branch does: the convert* function it calls, or its return
	if fd := p.funcs["ConvertErrors"]; fd == nil || fd.Body == nil {
		rows = append(rows, ".unrecognised "+c14q("openapi3filter: ConvertErrors not found"))
	} else {
		ast.Inspect(fd.Body, func(n ast.Node) bool {
			ifs, ok := n.(*ast.IfStmt)
			if !ok {
				return true
			}
			cond := types.ExprString(ifs.Cond)
			if as, ok := ifs.Init.(*ast.AssignStmt); ok && len(as.Rhs) == 1 {
				cond = types.ExprString(as.Rhs[0])
			}
			what := ""
			ast.Inspect(ifs.Body, func(m ast.Node) bool {
				if what != "" {
					return false
				}
				switch x := m.(type) {
				case *ast.CallExpr:
					if id, ok := x.Fun.(*ast.Ident); ok && strings.HasPrefix(id.Name, "convert") {
						what = id.Name
					}
				case *ast.ReturnStmt:
					if len(x.Results) == 1 {
						if _, isCall := x.Results[0].(*ast.CallExpr); !isCall {
							what = "return " + types.ExprString(x.Results[0])
						}
					}
				}
				return true
			})
			if what == "" {
				rows = append(rows, ".unrecognised "+c14q(p.site(ifs.Pos())))
			} else {
				rows = append(rows, fmt.Sprintf(".dispatch %s %s", c14q(cond), c14q(what)))
			}
			return true
		})
	}
	// ValidationErrorEncoder.Encode: its body must be one call
	for _, m := range p.methods["ValidationErrorEncoder"] {
		if m.Name.Name != "Encode" || m.Body == nil {
			continue
		}
		if len(m.Body.List) == 1 {
			if es, ok := m.Body.List[0].(*ast.ExprStmt); ok {
				rows = append(rows, ".encode "+c14q(types.ExprString(es.X)))
				continue
			}
		}
		rows = append(rows, ".unrecognised "+c14q(p.site(m.Pos())))
	}
	return c14Emit("ConvertStatus", "KRow", "KinModel.MiddlewareSrc", rows), nil
}


// ---------------------------------------------------------------------------------------------------------
// MiddlewareFlow

func (p *c14pkg) c14Print(n ast.Node) string {
	var b bytes.Buffer
	if err := printer.Fprint(&b, p.fset, n); err != nil {
		return "?print-error"
	}
	t := strings.Join(strings.Fields(b.String()), " ")
	t = strings.ReplaceAll(t, "{ ", "{")
	t = strings.ReplaceAll(t, ", }", "}")
	t = strings.ReplaceAll(t, " }", "}")
	return t
}

// the body whose statements are the serving code of fd: the closure of `return http.HandlerFunc(func…)` when the
// method body is exactly that statement, the method body otherwise
func c14ServingBody(fd *ast.FuncDecl) *ast.BlockStmt {
	if fd.Body == nil {
		return nil
	}
	if len(fd.Body.List) == 1 {
		if ret, ok := fd.Body.List[0].(*ast.ReturnStmt); ok && len(ret.Results) == 1 {
			if call, ok := ret.Results[0].(*ast.CallExpr); ok && len(call.Args) == 1 {
				if sel, ok := call.Fun.(*ast.SelectorExpr); ok && sel.Sel.Name == "HandlerFunc" {
					if fl, ok := call.Args[0].(*ast.FuncLit); ok {
						return fl.Body
					}
				}
			}
		}
	}
	return fd.Body
}

func (p *c14pkg) c14FlowRows(fn string, list []ast.Stmt, depth int, rows *[]string) {
	add := func(kind, text string) {
		*rows = append(*rows, fmt.Sprintf(".stmt %s %d %s %s", c14q(fn), depth, c14q(kind), c14q(text)))
	}
	for _, st := range list {
		switch x := st.(type) {
		case *ast.AssignStmt:
			add("assign", p.c14Print(x))
		case *ast.ExprStmt:
			if _, ok := x.X.(*ast.CallExpr); ok {
				add("call", p.c14Print(x))
			} else {
				*rows = append(*rows, ".unrecognised "+c14q(p.site(x.Pos())))
			}
		case *ast.DeclStmt:
			add("decl", p.c14Print(x))
		case *ast.ReturnStmt:
			add("return", p.c14Print(x))
		case *ast.IfStmt:
			p.c14FlowIf(fn, x, depth, rows)
		default:
			*rows = append(*rows, ".unrecognised "+c14q(p.site(st.Pos())))
		}
	}
}

func (p *c14pkg) c14FlowIf(fn string, x *ast.IfStmt, depth int, rows *[]string) {
	if x.Init != nil {
		p.c14FlowRows(fn, []ast.Stmt{x.Init}, depth, rows)
	}
	*rows = append(*rows, fmt.Sprintf(".stmt %s %d %s %s", c14q(fn), depth, c14q("if"), c14q(p.c14Print(x.Cond))))
	p.c14FlowRows(fn, x.Body.List, depth+1, rows)
	switch e := x.Else.(type) {
	case nil:
	case *ast.BlockStmt:
		*rows = append(*rows, fmt.Sprintf(".stmt %s %d %s %s", c14q(fn), depth, c14q("else"), c14q("")))
		p.c14FlowRows(fn, e.List, depth+1, rows)
	case *ast.IfStmt:
		*rows = append(*rows, fmt.Sprintf(".stmt %s %d %s %s", c14q(fn), depth, c14q("else"), c14q("")))
		p.c14FlowIf(fn, e, depth+1, rows)
	default:
		*rows = append(*rows, ".unrecognised "+c14q(p.site(x.Else.Pos())))
	}
}

func extractMiddlewareFlow(repo string) (string, error) {
	p, err := c14Load(repo)
	if err != nil {
		return "", err
	}
	var rows []string
	method := func(ty, name string) *ast.FuncDecl {
		for _, m := range p.methods[ty] {
			if m.Name.Name == name {
				return m
			}
		}
		return nil
	}
	emit := func(fn string, fd *ast.FuncDecl) {
		if fd == nil {
			rows = append(rows, ".unrecognised "+c14q("missing:"+fn))
			return
		}
		body := c14ServingBody(fd)
		if body == nil {
			rows = append(rows, ".unrecognised "+c14q(p.site(fd.Pos())))
			return
		}
		p.c14FlowRows(fn, body.List, 0, &rows)
	}
	emit("Validator.Middleware", method("Validator", "Middleware"))
	for _, m := range []string{"ServeHTTP", "Middleware", "before", "validateRequest"} {
		emit("ValidationHandler."+m, method("ValidationHandler", m))
	}
	for _, ty := range p.wrapperTypes() {
		for _, m := range p.methods[ty] {
			emit(ty+"."+m.Name.Name, m)
		}
	}
	emit("isInformational", p.funcs["isInformational"])
	return c14Emit("MiddlewareFlow", "FRow", "KinModel.MiddlewareSrc", rows), nil
}
