package main

// Table "CopyTables" (C17): the field copies of openapi2conv, read syntactically from
// openapi2conv/openapi2_conv.go and expressed in JSON keys (struct tags of the openapi2/openapi3 types).
//
// Rules (everything else becomes an entry of `copyTablesUnrecognised`, which must be empty):
//   * a site is the largest composite literal of a given type inside a given function, or the
//     assignments `result.X = <src>.Y` inside a function (FromV3Parameter), or, for
//     FromV3SecurityScheme, the assignments `result.X = …` inside each `case flows.F != nil` clause;
//   * a row is (JSON key of the destination field, source), where source is
//       - the JSON key of the field `F` when the value is `<src>.F` or `f(<src>.F)` (one-argument call),
//       - "<local>" for a local identifier, "<const>" for a literal, "=<text>" for a string literal in the
//         security-scheme switch, "<make>" for `make(…)`, "<call>" for other calls on non-source values;
//   * fields tagged `json:"-"` (Extensions) are skipped;
//   * `nullableTable`: see nullableRows (the nullable copy reads the VALUE of the extension x-nullable);
//   * `ref2To3` and `bodyParamNameRows`: the string literals of the package-level variables `ref2To3` (prefix map of
//     ToV3Ref / FromV3Ref) and `attemptedBodyParameterNames`;
//   * `requestBodiesUpdates`: how fromV3RequestBodies updates its results formParameters / bodyOrRefParameters inside the
//     media-type loop (replace by a call / append one / append many), see resultUpdates;
//   * `<fn>Assigned` lists (ToV3SchemaRef, FromV3SchemaRef, ToV3Operation, FromV3Operation): the JSON keys of the fields of the destination
//     variable that statements of the function assign outside the literal (`v.F = …`, `v.F, _ = …`,
//     `v.F[k] = …`), in source order without repetition — the typed fields (discriminator, items, …).

import (
	"fmt"
	"go/ast"
	"go/parser"
	"go/token"
	"path/filepath"
	"reflect"
	"sort"
	"strings"
)

func init() { register("CopyTables", extractCopyTables) }

type ctx17 struct {
	repo   string
	fset   *token.FileSet
	tags   map[string]map[string]string // "openapi2.Schema" -> Go field -> JSON key
	unrec  []string
	convFn map[string]*ast.FuncDecl
}

func (c *ctx17) structTags(pkg, typ string) (map[string]string, error) {
	key := pkg + "." + typ
	if m, ok := c.tags[key]; ok {
		return m, nil
	}
	files, err := filepath.Glob(filepath.Join(c.repo, pkg, "*.go"))
	if err != nil {
		return nil, err
	}
	for _, fn := range files {
		if strings.HasSuffix(fn, "_test.go") {
			continue
		}
		f, err := parser.ParseFile(c.fset, fn, nil, 0)
		if err != nil {
			return nil, err
		}
		for _, d := range f.Decls {
			gd, ok := d.(*ast.GenDecl)
			if !ok {
				continue
			}
			for _, s := range gd.Specs {
				ts, ok := s.(*ast.TypeSpec)
				if !ok || ts.Name.Name != typ {
					continue
				}
				st, ok := ts.Type.(*ast.StructType)
				if !ok {
					continue
				}
				m := map[string]string{}
				for _, fld := range st.Fields.List {
					if fld.Tag == nil {
						continue
					}
					tag := reflect.StructTag(strings.Trim(fld.Tag.Value, "`")).Get("json")
					name := strings.Split(tag, ",")[0]
					for _, n := range fld.Names {
						m[n.Name] = name
					}
				}
				c.tags[key] = m
				return m, nil
			}
		}
	}
	return nil, fmt.Errorf("struct %s not found", key)
}

func exprText(e ast.Expr) string {
	switch x := e.(type) {
	case *ast.Ident:
		return x.Name
	case *ast.SelectorExpr:
		return exprText(x.X) + "." + x.Sel.Name
	}
	return "?"
}

// source classifies a value expression against the source prefix (e.g. "schema.Value").
func (c *ctx17) source(e ast.Expr, srcPrefix string, srcTags map[string]string, where string) string {
	switch x := e.(type) {
	case *ast.SelectorExpr:
		if exprText(x.X) == srcPrefix {
			if k, ok := srcTags[x.Sel.Name]; ok {
				return k
			}
			c.unrec = append(c.unrec, where+": unknown source field "+x.Sel.Name)
			return "<unknown>"
		}
		return "<other:" + exprText(x) + ">"
	case *ast.Ident:
		if x.Name == "true" || x.Name == "false" || x.Name == "nil" {
			return "<const>"
		}
		return "<local>"
	case *ast.BasicLit:
		return "<const>"
	case *ast.CallExpr:
		if id, ok := x.Fun.(*ast.Ident); ok && id.Name == "make" {
			return "<make>"
		}
		if len(x.Args) == 1 {
			if sel, ok := x.Args[0].(*ast.SelectorExpr); ok && exprText(sel.X) == srcPrefix {
				return c.source(sel, srcPrefix, srcTags, where)
			}
		}
		return "<call>"
	case *ast.UnaryExpr, *ast.CompositeLit:
		return "<const>"
	}
	c.unrec = append(c.unrec, where+": unreadable value")
	return "<unreadable>"
}

func typeName(e ast.Expr) string {
	if s, ok := e.(*ast.SelectorExpr); ok {
		return exprText(s)
	}
	return ""
}

// largestLit finds the composite literal of type `typ` with the most fields inside fn.
func largestLit(fn *ast.FuncDecl, typ string) *ast.CompositeLit {
	var best *ast.CompositeLit
	ast.Inspect(fn.Body, func(n ast.Node) bool {
		if cl, ok := n.(*ast.CompositeLit); ok && typeName(cl.Type) == typ {
			if best == nil || len(cl.Elts) > len(best.Elts) {
				best = cl
			}
		}
		return true
	})
	return best
}

type row17 struct{ dst, src string }

func (c *ctx17) litTable(fnName, dstType, srcPrefix, srcType string) []row17 {
	fn := c.convFn[fnName]
	if fn == nil {
		c.unrec = append(c.unrec, "function "+fnName+" not found")
		return nil
	}
	cl := largestLit(fn, dstType)
	if cl == nil {
		c.unrec = append(c.unrec, fnName+": no literal of type "+dstType)
		return nil
	}
	dp := strings.SplitN(dstType, ".", 2)
	sp := strings.SplitN(srcType, ".", 2)
	dstTags, err1 := c.structTags(dp[0], dp[1])
	srcTags, err2 := c.structTags(sp[0], sp[1])
	if err1 != nil || err2 != nil {
		c.unrec = append(c.unrec, fmt.Sprintf("%s: tags: %v %v", fnName, err1, err2))
		return nil
	}
	var rows []row17
	for _, el := range cl.Elts {
		pos := c.fset.Position(el.Pos())
		where := fmt.Sprintf("%s:%d", filepath.Base(pos.Filename), pos.Line)
		kv, ok := el.(*ast.KeyValueExpr)
		if !ok {
			c.unrec = append(c.unrec, where+": positional element")
			continue
		}
		id, ok := kv.Key.(*ast.Ident)
		if !ok {
			c.unrec = append(c.unrec, where+": key is not an identifier")
			continue
		}
		dk, ok := dstTags[id.Name]
		if !ok {
			c.unrec = append(c.unrec, where+": unknown destination field "+id.Name)
			continue
		}
		if dk == "-" {
			continue
		}
		rows = append(rows, row17{dk, c.source(kv.Value, srcPrefix, srcTags, where)})
	}
	return rows
}

// assignTable: `dstVar.X = srcPrefix.Y` assignments anywhere in fn.
func (c *ctx17) assignTable(fnName, dstVar, dstType, srcPrefix, srcType string) []row17 {
	fn := c.convFn[fnName]
	if fn == nil {
		c.unrec = append(c.unrec, "function "+fnName+" not found")
		return nil
	}
	dp := strings.SplitN(dstType, ".", 2)
	sp := strings.SplitN(srcType, ".", 2)
	dstTags, err1 := c.structTags(dp[0], dp[1])
	srcTags, err2 := c.structTags(sp[0], sp[1])
	if err1 != nil || err2 != nil {
		c.unrec = append(c.unrec, fmt.Sprintf("%s: tags: %v %v", fnName, err1, err2))
		return nil
	}
	var rows []row17
	ast.Inspect(fn.Body, func(n ast.Node) bool {
		as, ok := n.(*ast.AssignStmt)
		if !ok || len(as.Lhs) != 1 || len(as.Rhs) != 1 || as.Tok != token.ASSIGN {
			return true
		}
		ls, ok := as.Lhs[0].(*ast.SelectorExpr)
		if !ok || exprText(ls.X) != dstVar {
			return true
		}
		rs, ok := as.Rhs[0].(*ast.SelectorExpr)
		if !ok || exprText(rs.X) != srcPrefix {
			return true
		}
		pos := c.fset.Position(as.Pos())
		where := fmt.Sprintf("%s:%d", filepath.Base(pos.Filename), pos.Line)
		dk, ok := dstTags[ls.Sel.Name]
		if !ok {
			c.unrec = append(c.unrec, where+": unknown destination field "+ls.Sel.Name)
			return true
		}
		rows = append(rows, row17{dk, c.source(rs, srcPrefix, srcTags, where)})
		return true
	})
	return rows
}

// secBackTable: FromV3SecurityScheme, per `case flows.F != nil:` the assignments to result.
func (c *ctx17) secBackTable() []row17 {
	fn := c.convFn["FromV3SecurityScheme"]
	if fn == nil {
		c.unrec = append(c.unrec, "function FromV3SecurityScheme not found")
		return nil
	}
	dstTags, err1 := c.structTags("openapi2", "SecurityScheme")
	srcTags, err2 := c.structTags("openapi3", "OAuthFlow")
	flowTags, err3 := c.structTags("openapi3", "OAuthFlows")
	if err1 != nil || err2 != nil || err3 != nil {
		c.unrec = append(c.unrec, fmt.Sprintf("FromV3SecurityScheme: tags: %v %v %v", err1, err2, err3))
		return nil
	}
	var rows []row17
	ast.Inspect(fn.Body, func(n ast.Node) bool {
		cc, ok := n.(*ast.CaseClause)
		if !ok || len(cc.List) != 1 {
			return true
		}
		be, ok := cc.List[0].(*ast.BinaryExpr)
		if !ok || be.Op != token.NEQ {
			return true
		}
		sel, ok := be.X.(*ast.SelectorExpr)
		if !ok || exprText(sel.X) != "flows" {
			return true
		}
		fk, ok := flowTags[sel.Sel.Name]
		if !ok {
			c.unrec = append(c.unrec, "FromV3SecurityScheme: unknown flow "+sel.Sel.Name)
			return true
		}
		for _, st := range cc.Body {
			as, ok := st.(*ast.AssignStmt)
			if !ok || len(as.Lhs) != 1 || len(as.Rhs) != 1 {
				continue
			}
			ls, ok := as.Lhs[0].(*ast.SelectorExpr)
			if !ok || exprText(ls.X) != "result" {
				continue
			}
			pos := c.fset.Position(as.Pos())
			where := fmt.Sprintf("%s:%d", filepath.Base(pos.Filename), pos.Line)
			dk, ok := dstTags[ls.Sel.Name]
			if !ok {
				c.unrec = append(c.unrec, where+": unknown destination field "+ls.Sel.Name)
				continue
			}
			var src string
			if bl, ok := as.Rhs[0].(*ast.BasicLit); ok && bl.Kind == token.STRING {
				src = "=" + strings.Trim(bl.Value, `"`)
			} else {
				src = c.source(as.Rhs[0], "flow", srcTags, where)
			}
			rows = append(rows, row17{fk + "." + dk, src})
		}
		return true
	})
	return rows
}

// assignedFields: JSON keys of the fields of dstVar assigned by statements of fn (see the rules above).
func (c *ctx17) assignedFields(fnName, dstVar, dstType string) []string {
	fn := c.convFn[fnName]
	if fn == nil {
		c.unrec = append(c.unrec, "function "+fnName+" not found")
		return nil
	}
	dp := strings.SplitN(dstType, ".", 2)
	dstTags, err := c.structTags(dp[0], dp[1])
	if err != nil {
		c.unrec = append(c.unrec, fmt.Sprintf("%s: tags: %v", fnName, err))
		return nil
	}
	var out []string
	seen := map[string]bool{}
	ast.Inspect(fn.Body, func(n ast.Node) bool {
		as, ok := n.(*ast.AssignStmt)
		if !ok {
			return true
		}
		for _, l := range as.Lhs {
			if ix, ok := l.(*ast.IndexExpr); ok {
				l = ix.X
			}
			ls, ok := l.(*ast.SelectorExpr)
			if !ok || exprText(ls.X) != dstVar {
				continue
			}
			pos := c.fset.Position(as.Pos())
			dk, ok := dstTags[ls.Sel.Name]
			if !ok {
				c.unrec = append(c.unrec, fmt.Sprintf("%s:%d: unknown destination field %s", filepath.Base(pos.Filename), pos.Line, ls.Sel.Name))
				continue
			}
			if dk == "-" || seen[dk] {
				continue
			}
			seen[dk] = true
			out = append(out, dk)
		}
		return true
	})
	return out
}

// nullableRows: where the nullability of a schema comes from, in both directions.
//   ToV3SchemaRef:   `v3Schema.Nullable = <rhs>` — the row ("nullable", S) with S =
//       "ext[x-nullable].(bool)" when <rhs> is an identifier bound by `<rhs>, _ := V.(bool)` and V is (bound by
//       `V, _ := …` to) the index expression `schema.Value.Extensions["x-nullable"]`: the VALUE of the extension;
//       "<const>" when <rhs> is a literal: the value of the extension is not read.
//   FromV3SchemaRef: `v2Schema.Extensions["x-nullable"] = <lit>` inside `if schema.Value.PermitsNull() {…}` — the row
//       ("x-nullable", "=<lit> if PermitsNull").
func (c *ctx17) nullableRows() []row17 {
	var rows []row17
	if fn := c.convFn["ToV3SchemaRef"]; fn != nil {
		// definitions `a, b := rhs` by first name
		defs := map[string]ast.Expr{}
		ast.Inspect(fn.Body, func(n ast.Node) bool {
			if as, ok := n.(*ast.AssignStmt); ok && as.Tok == token.DEFINE && len(as.Rhs) == 1 {
				if id, ok := as.Lhs[0].(*ast.Ident); ok {
					defs[id.Name] = as.Rhs[0]
				}
			}
			return true
		})
		isExt := func(e ast.Expr) bool {
			if id, ok := e.(*ast.Ident); ok {
				e = defs[id.Name]
			}
			ix, ok := e.(*ast.IndexExpr)
			if !ok || exprText(ix.X) != "schema.Value.Extensions" {
				return false
			}
			bl, ok := ix.Index.(*ast.BasicLit)
			return ok && bl.Value == `"x-nullable"`
		}
		found := false
		ast.Inspect(fn.Body, func(n ast.Node) bool {
			as, ok := n.(*ast.AssignStmt)
			if !ok || len(as.Lhs) != 1 || len(as.Rhs) != 1 || exprText(as.Lhs[0]) != "v3Schema.Nullable" {
				return true
			}
			found = true
			pos := c.fset.Position(as.Pos())
			src := "<unreadable>"
			switch r := as.Rhs[0].(type) {
			case *ast.Ident:
				if r.Name == "true" || r.Name == "false" {
					src = "<const>"
				} else if ta, ok := defs[r.Name].(*ast.TypeAssertExpr); ok && exprText(ta.Type) == "bool" && isExt(ta.X) {
					src = "ext[x-nullable].(bool)"
				}
			case *ast.BasicLit:
				src = "<const>"
			}
			if src == "<unreadable>" {
				c.unrec = append(c.unrec, fmt.Sprintf("%s:%d: source of v3Schema.Nullable", filepath.Base(pos.Filename), pos.Line))
			}
			rows = append(rows, row17{"nullable", src})
			return true
		})
		if !found {
			c.unrec = append(c.unrec, "ToV3SchemaRef: no assignment to v3Schema.Nullable")
		}
	}
	if fn := c.convFn["FromV3SchemaRef"]; fn != nil {
		found := false
		ast.Inspect(fn.Body, func(n ast.Node) bool {
			is, ok := n.(*ast.IfStmt)
			if !ok {
				return true
			}
			call, ok := is.Cond.(*ast.CallExpr)
			if !ok || exprText(call.Fun) != "schema.Value.PermitsNull" {
				return true
			}
			for _, st := range is.Body.List {
				as, ok := st.(*ast.AssignStmt)
				if !ok || len(as.Lhs) != 1 || len(as.Rhs) != 1 {
					continue
				}
				ix, ok := as.Lhs[0].(*ast.IndexExpr)
				if !ok || exprText(ix.X) != "v2Schema.Extensions" {
					continue
				}
				bl, ok := ix.Index.(*ast.BasicLit)
				if !ok || bl.Value != `"x-nullable"` {
					continue
				}
				found = true
				rows = append(rows, row17{"x-nullable", "=" + exprText(as.Rhs[0]) + " if PermitsNull"})
			}
			return true
		})
		if !found {
			c.unrec = append(c.unrec, "FromV3SchemaRef: no x-nullable assignment under PermitsNull")
		}
	}
	return rows
}

// resultUpdates: how the slice-typed named results of fn (fromV3RequestBodies: formParameters, bodyOrRefParameters) are
// updated, in source order — one row per assignment `<result> = <rhs>`:
//   (<result>, "init:<callee>")     for `if <result> == nil { <result> = <callee>(…) }`: assigned once, by the first pass;
//   (<result>, "replace:<callee>")  for `<result> = <callee>(…)` (a call other than append): the earlier value is dropped;
//   (<result>, "append")            for `<result> = append(<result>, x)`;
//   (<result>, "append...")         for `<result> = append(<result>, xs...)`;
// any other right-hand side is unreadable.
func (c *ctx17) resultUpdates(fnName string, results []string) []row17 {
	fn := c.convFn[fnName]
	if fn == nil {
		c.unrec = append(c.unrec, "function "+fnName+" not found")
		return nil
	}
	isRes := map[string]bool{}
	for _, r := range results {
		isRes[r] = true
	}
	// assignments that are the whole body of `if <result> == nil { … }`: executed at most once (while the result is nil)
	guarded := map[*ast.AssignStmt]string{}
	ast.Inspect(fn.Body, func(n ast.Node) bool {
		is, ok := n.(*ast.IfStmt)
		if !ok || is.Init != nil || is.Else != nil || len(is.Body.List) != 1 {
			return true
		}
		be, ok := is.Cond.(*ast.BinaryExpr)
		if !ok || be.Op != token.EQL || exprText(be.Y) != "nil" || !isRes[exprText(be.X)] {
			return true
		}
		if as, ok := is.Body.List[0].(*ast.AssignStmt); ok {
			guarded[as] = exprText(be.X)
		}
		return true
	})
	var rows []row17
	ast.Inspect(fn.Body, func(n ast.Node) bool {
		as, ok := n.(*ast.AssignStmt)
		if !ok {
			return true
		}
		for i, l := range as.Lhs {
			id, ok := l.(*ast.Ident)
			if !ok || !isRes[id.Name] {
				continue
			}
			pos := c.fset.Position(as.Pos())
			where := fmt.Sprintf("%s:%d: update of %s", filepath.Base(pos.Filename), pos.Line, id.Name)
			if len(as.Lhs) != len(as.Rhs) || as.Tok != token.ASSIGN {
				c.unrec = append(c.unrec, where)
				continue
			}
			call, ok := as.Rhs[i].(*ast.CallExpr)
			if !ok {
				c.unrec = append(c.unrec, where)
				continue
			}
			callee := exprText(call.Fun)
			if callee != "append" {
				if guarded[as] == id.Name && len(as.Lhs) == 1 {
					rows = append(rows, row17{id.Name, "init:" + callee})
				} else {
					rows = append(rows, row17{id.Name, "replace:" + callee})
				}
				continue
			}
			if len(call.Args) != 2 || exprText(call.Args[0]) != id.Name {
				c.unrec = append(c.unrec, where)
				continue
			}
			if call.Ellipsis.IsValid() {
				rows = append(rows, row17{id.Name, "append..."})
			} else {
				rows = append(rows, row17{id.Name, "append"})
			}
		}
		return true
	})
	if len(rows) == 0 {
		c.unrec = append(c.unrec, fnName+": no update of "+strings.Join(results, ", "))
	}
	return rows
}

// stringVar reads a package-level `var name = map[string]string{…}` (rows key → value, source order) or
// `var name = []string{…}` (rows element → "") whose keys / elements are string literals.
func (c *ctx17) stringVar(f *ast.File, name string) []row17 {
	for _, d := range f.Decls {
		gd, ok := d.(*ast.GenDecl)
		if !ok || gd.Tok != token.VAR {
			continue
		}
		for _, sp := range gd.Specs {
			vs, ok := sp.(*ast.ValueSpec)
			if !ok || len(vs.Names) != 1 || vs.Names[0].Name != name || len(vs.Values) != 1 {
				continue
			}
			cl, ok := vs.Values[0].(*ast.CompositeLit)
			if !ok {
				c.unrec = append(c.unrec, "var "+name+": not a composite literal")
				return nil
			}
			lit := func(e ast.Expr) (string, bool) {
				bl, ok := e.(*ast.BasicLit)
				if !ok || bl.Kind != token.STRING {
					return "", false
				}
				return strings.Trim(bl.Value, `"`), true
			}
			var rows []row17
			for _, el := range cl.Elts {
				if kv, ok := el.(*ast.KeyValueExpr); ok {
					k, ok1 := lit(kv.Key)
					v, ok2 := lit(kv.Value)
					if !ok1 || !ok2 {
						c.unrec = append(c.unrec, "var "+name+": element is not a pair of string literals")
						continue
					}
					rows = append(rows, row17{k, v})
					continue
				}
				v, ok := lit(el)
				if !ok {
					c.unrec = append(c.unrec, "var "+name+": element is not a string literal")
					continue
				}
				rows = append(rows, row17{v, ""})
			}
			return rows
		}
	}
	c.unrec = append(c.unrec, "var "+name+" not found")
	return nil
}

func leanStr(s string) string {
	return `"` + strings.ReplaceAll(strings.ReplaceAll(s, `\`, `\\`), `"`, `\"`) + `"`
}

func extractCopyTables(repo string) (string, error) {
	c := &ctx17{repo: repo, fset: token.NewFileSet(), tags: map[string]map[string]string{}, convFn: map[string]*ast.FuncDecl{}}
	f, err := parser.ParseFile(c.fset, filepath.Join(repo, "openapi2conv", "openapi2_conv.go"), nil, 0)
	if err != nil {
		return "", err
	}
	for _, d := range f.Decls {
		if fd, ok := d.(*ast.FuncDecl); ok && fd.Recv == nil && fd.Body != nil {
			c.convFn[fd.Name.Name] = fd
		}
	}
	type tab struct {
		name string
		rows []row17
	}
	tabs := []tab{
		{"toV3SchemaTable", c.litTable("ToV3SchemaRef", "openapi3.Schema", "schema.Value", "openapi2.Schema")},
		{"fromV3SchemaTable", c.litTable("FromV3SchemaRef", "openapi2.Schema", "schema.Value", "openapi3.Schema")},
		{"toV3ParamTable", c.litTable("ToV3Parameter", "openapi2.Schema", "parameter", "openapi2.Parameter")},
		{"toV3FormTable", c.litTable("ToV3Parameter", "openapi3.Schema", "parameter", "openapi2.Parameter")},
		{"fromV3ParamTable", c.assignTable("FromV3Parameter", "result", "openapi2.Parameter", "schema", "openapi2.Schema")},
		{"fromV3FormTable", c.litTable("FromV3RequestBodyFormData", "openapi2.Parameter", "val", "openapi3.Schema")},
		{"fromV3FileTable", c.litTable("FromV3SchemaRef", "openapi2.Parameter", "schema.Value", "openapi3.Schema")},
		{"toV3FlowTable", c.litTable("ToV3SecurityScheme", "openapi3.OAuthFlow", "securityScheme", "openapi2.SecurityScheme")},
		{"fromV3SecTable", c.secBackTable()},
		{"toV3OpTable", c.litTable("ToV3Operation", "openapi3.Operation", "operation", "openapi2.Operation")},
		{"fromV3OpTable", c.litTable("FromV3Operation", "openapi2.Operation", "operation", "openapi3.Operation")},
		{"nullableTable", c.nullableRows()},
		{"ref2To3", c.stringVar(f, "ref2To3")},
		{"bodyParamNameRows", c.stringVar(f, "attemptedBodyParameterNames")},
		{"requestBodiesUpdates", c.resultUpdates("fromV3RequestBodies", []string{"formParameters", "bodyOrRefParameters"})},
	}
	var b strings.Builder
	b.WriteString("-- generated by go/cmd/extract (table CopyTables) from openapi2conv/openapi2_conv.go — do not edit\n")
	b.WriteString("namespace KinModel.Gen\n\n")
	n := 0
	for _, t := range tabs {
		fmt.Fprintf(&b, "def %s : List (String × String) := [\n", t.name)
		for i, r := range t.rows {
			sep := ","
			if i == len(t.rows)-1 {
				sep = ""
			}
			fmt.Fprintf(&b, "  (%s, %s)%s\n", leanStr(r.dst), leanStr(r.src), sep)
			n++
		}
		b.WriteString("]\n\n")
	}
	for _, t := range []struct {
		name string
		keys []string
	}{
		{"toV3SchemaAssigned", c.assignedFields("ToV3SchemaRef", "v3Schema", "openapi3.Schema")},
		{"fromV3SchemaAssigned", c.assignedFields("FromV3SchemaRef", "v2Schema", "openapi2.Schema")},
		{"toV3OpAssigned", c.assignedFields("ToV3Operation", "doc3", "openapi3.Operation")},
		{"fromV3OpAssigned", c.assignedFields("FromV3Operation", "result", "openapi2.Operation")},
	} {
		fmt.Fprintf(&b, "def %s : List String := [", t.name)
		for i, k := range t.keys {
			if i > 0 {
				b.WriteString(", ")
			}
			b.WriteString(leanStr(k))
			n++
		}
		b.WriteString("]\n\n")
	}
	sort.Strings(c.unrec)
	b.WriteString("def copyTablesUnrecognised : List String := [")
	for i, u := range c.unrec {
		if i > 0 {
			b.WriteString(", ")
		}
		b.WriteString(leanStr(u))
	}
	b.WriteString("]\n\nend KinModel.Gen\n")
	fmt.Fprintf(&b, "-- rows: %d\n", n)
	return b.String(), nil
}
