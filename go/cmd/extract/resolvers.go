package main

// Table "ResolverSkeleton" (C02): one row per resolve*Ref routine of openapi3/loader.go, one per walk helper
// (resolve*Refs), one for ResolveRefsIn ("Document"), and one "fn:<name>" row per function the one-step layer of
// the model was written from (its text, or a digest of its text):
//   steps — the statements of the `if ref := X.Ref; ref != "" { … }` block (and the isEmpty test before it),
//           statement by statement in source order, each classified by its exact (whitespace-normalised) text
//           modulo the kind name and the name of the element variable;
//   calls — the resolvers / helpers called on child positions after that block, in source order; a `return` of a
//           new error among them appears as "!error".
// Purely syntactic (go/ast + go/printer). A statement that is none of the expected shapes, or a child call that
// does not pass (doc, <x>, documentPath|location …) on, makes the row `unrecognised` — nothing is skipped.

import (
	"bytes"
	"crypto/sha256"
	"encoding/hex"
	"fmt"
	"go/ast"
	"go/parser"
	"go/printer"
	"go/token"
	"path/filepath"
	"regexp"
	"sort"
	"strings"
)

func init() { register("ResolverSkeleton", extractResolverSkeleton) }

var rsSpace = regexp.MustCompile(`\s+`)

func rsText(fset *token.FileSet, n ast.Node) string {
	var buf bytes.Buffer
	printer.Fprint(&buf, fset, n)
	return strings.TrimSpace(rsSpace.ReplaceAllString(buf.String(), " "))
}

type rsRow struct {
	name  string
	steps []string
	calls []string
	bad   string
}

// rsPat: statement text (with K = kind name, C = the component parameter) -> token
type rsPat struct {
	re  string
	tok string
}

func rsMatch(pats []rsPat, kind, comp, text string) (string, bool) {
	for _, p := range pats {
		re := strings.NewReplacer("‹K›", regexp.QuoteMeta(kind), "‹C›", regexp.QuoteMeta(comp), "‹ID›", `[A-Za-z_][A-Za-z0-9_]*`).Replace(p.re)
		if regexp.MustCompile("^" + re + "$").MatchString(text) {
			return p.tok, true
		}
	}
	return "", false
}

func q(s string) string {
	// quote a literal Go fragment for use inside a pattern, keeping the ‹…› placeholders
	parts := regexp.MustCompile(`‹[A-Z]+›`).FindAllStringIndex(s, -1)
	var b strings.Builder
	last := 0
	for _, p := range parts {
		b.WriteString(regexp.QuoteMeta(s[last:p[0]]))
		b.WriteString(s[p[0]:p[1]])
		last = p[1]
	}
	b.WriteString(regexp.QuoteMeta(s[last:]))
	return b.String()
}

var rsTop = []rsPat{
	{q(`if ‹C›.isEmpty() { return errMUST‹K› }`), "empty"},
	{q(`if ‹C› == nil { err = errMUST‹K› return }`), "empty"},
}

var rsBlock = []rsPat{
	{q(`if ‹C›.Value != nil { return nil }`), "value"},
	{q(`if !‹C›.isEmpty() { return }`), "value"},
	{q(`key := "‹K› " + ref`), "key:own-kind"},
	{q(`loader.visitRef(key)`), "visit"},
	{q(`loader.visitRef(ref)`), "visit:textOnly"},
	{q(`‹C›.Ref = ref`), "keepRef"},
	{q(`defer loader.unvisitRef(key, ‹C›.Value)`), "defer:unvisit"},
	{q(`defer loader.unvisitRef(key, ‹C›)`), "defer:unvisit"},
	{q(`defer loader.unvisitRef(ref, ‹C›.Value)`), "defer:unvisit:textOnly"},
	{q(`defer loader.unvisitRef(ref, ‹C›)`), "defer:unvisit:textOnly"},
}

// the body of the backtrack callback
var rsCallback = []rsPat{
	{q(`v, ok := value.(*‹K›) if !ok { return } ‹C›.Value = v refPath, _ := loader.resolveRefPath(ref, documentPath) ‹C›.setRefPath(refPath)`), "checked"},
	{q(`if v, ok := value.(*‹K›); ok && v != nil { *‹C› = *v }`), "checked"},
	{q(`‹C›.Value = value.(*‹K›) refPath, _ := loader.resolveRefPath(ref, documentPath) ‹C›.setRefPath(refPath)`), "unchecked"},
	{q(`*‹C› = *value.(*‹K›)`), "unchecked"},
}

var rsSingle = []rsPat{
	{q(`var ‹ID› ‹K›`), "elem"},
	{q(`if documentPath, err = loader.loadSingleElementFromURI(ref, documentPath, &‹ID›); err != nil { return err }`), "load:moves"},
	{q(`if documentPath, err = loader.loadSingleElementFromURI(ref, documentPath, &‹ID›); err != nil { return }`), "load:moves"},
	{q(`if _, err = loader.loadSingleElementFromURI(ref, documentPath, &‹ID›); err != nil { return err }`), "load:stays"},
	{q(`if _, err = loader.loadSingleElementFromURI(ref, documentPath, &‹ID›); err != nil { return }`), "load:stays"},
	{q(`if ‹ID›.Ref != "" { if err = loader.resolve‹K›Ref(doc, &‹ID›, documentPath); err != nil { return } }`), "recurse:ifRef"},
	{q(`‹C›.Value = &‹ID›`), "setValue"},
	{q(`*‹C› = ‹ID›`), "setValue"},
	{q(`‹C›.setRefPath(documentPath)`), "setRefPath:moved"},
}

var rsFragment = []rsPat{
	{q(`var resolved ‹K›Ref`), "copy"},
	{q(`var resolved ‹K›`), "copy"},
	{q(`doc, componentPath, err := loader.resolveComponent(doc, ref, documentPath, &resolved)`), "component:local"},
	{q(`if err != nil { return err }`), "fail"},
	{q(`if doc, documentPath, err = loader.resolveComponent(doc, ref, documentPath, &resolved); err != nil { if err == errMUST‹K› { return nil } return }`), "component:switch"},
	{`if err :?= loader\.resolve‹K›Ref\(doc, &resolved, componentPath(, visited)?\); err != nil \{ if err == errMUST‹K› && resolved\.isEmpty\(\) \{ return nil \} return err \}`, "recurse:swallowEmptyTarget"},
	{`if err :?= loader\.resolve‹K›Ref\(doc, &resolved, componentPath(, visited)?\); err != nil \{ if err == errMUST‹K› \{ return nil \} return err \}`, "recurse:swallowAnyEmptyBelow"},
	{q(`if resolved.Ref != "" { if err = loader.resolve‹K›Ref(doc, &resolved, documentPath); err != nil { return } }`), "recurse:ifRef"},
	{q(`‹C›.Value = resolved.Value`), "setValue"},
	{q(`*‹C› = resolved`), "setValue"},
	{q(`‹C›.setRefPath(resolved.RefPath())`), "setRefPath:target"},
}

// the functions the model's one-step layer (`stepGo`, `docLoadGo`) and visit bookkeeping were written from: the two
// shortest as text, the others as a digest of their signature and body (comments and layout do not count)
var rsFrozenText = map[string]bool{"unescapeRefString": true, "isSingleRefElement": true}
var rsFrozenHash = map[string]bool{"resolveComponent": true, "drillIntoField": true, "resolveRefAndDocument": true, "resolveRef": true,
	"resolveRefPath": true, "resolvePathWithRef": true, "resolvePath": true, "join": true, "loadSingleElementFromURI": true,
	"loadFromURIInternal": true, "loadFromDataWithPathInternal": true, "visitRef": true, "unvisitRef": true, "shouldVisitRef": true, "resetVisitedPathItemRefs": true, "readURL": true}

func rsIsResolverName(n string) bool {
	if rsFrozenText[n] || rsFrozenHash[n] {
		return false
	}
	return strings.HasPrefix(n, "resolve") && (strings.HasSuffix(n, "Ref") || strings.HasSuffix(n, "Refs")) && n != "resolveRef"
}

func rsShort(n string) string {
	n = strings.TrimPrefix(n, "resolve")
	if strings.HasSuffix(n, "Refs") {
		return n // helper: ContentRefs, ExampleRefs
	}
	return strings.TrimSuffix(n, "Ref")
}

// rsCalls lists, in source order, the resolver/helper calls in the statements and the returns of new errors
func rsCalls(fset *token.FileSet, stmts []ast.Stmt, ctxArg string, r *rsRow) {
	for _, st := range stmts {
		ast.Inspect(st, func(n ast.Node) bool {
			switch x := n.(type) {
			case *ast.FuncLit:
				return false
			case *ast.ReturnStmt:
				for _, e := range x.Results {
					t := rsText(fset, e)
					if t != "nil" && t != "err" && !strings.HasPrefix(t, "loader.resolve") {
						r.calls = append(r.calls, "!error")
					}
				}
			case *ast.CallExpr:
				se, ok := x.Fun.(*ast.SelectorExpr)
				if !ok || !rsIsResolverName(se.Sel.Name) {
					return true
				}
				if id, ok := se.X.(*ast.Ident); !ok || id.Name != "loader" {
					return true
				}
				if len(x.Args) < 3 || rsText(fset, x.Args[0]) != "doc" || rsText(fset, x.Args[2]) != ctxArg {
					r.bad = fmt.Sprintf("child call does not pass (doc, _, %s) at %s", ctxArg, fset.Position(x.Pos()))
					return true
				}
				if _, isAddr := x.Args[1].(*ast.UnaryExpr); isAddr {
					r.bad = fmt.Sprintf("child call on an address at %s", fset.Position(x.Pos()))
					return true
				}
				r.calls = append(r.calls, rsShort(se.Sel.Name))
			}
			return true
		})
	}
}

func rsClassify(fset *token.FileSet, pats []rsPat, kind, comp string, stmts []ast.Stmt, r *rsRow, what string) {
	for _, st := range stmts {
		t := rsText(fset, st)
		tok, ok := rsMatch(pats, kind, comp, t)
		if !ok {
			if r.bad == "" {
				r.bad = fmt.Sprintf("%s statement of unexpected shape at %s: %s", what, fset.Position(st.Pos()), t)
			}
			return
		}
		r.steps = append(r.steps, tok)
	}
}

// rsEntry: an exported entry point of the Loader — in source order: "reset" (a call of resetVisitedPathItemRefs that is
// not inside an if), "resetIfNil" (inside one), "delegate:<Load…>" (a call of another exported entry point),
// "internal:<name>" (the unexported loader method / ResolveRefsIn it hands the document to)
func rsEntry(fset *token.FileSet, fd *ast.FuncDecl) rsRow {
	r := rsRow{name: "entry:" + fd.Name.Name}
	seen := map[string]bool{}
	var visit func(n ast.Node, inIf bool)
	visit = func(n ast.Node, inIf bool) {
		ast.Inspect(n, func(n ast.Node) bool {
			switch x := n.(type) {
			case *ast.IfStmt:
				if x.Init != nil {
					visit(x.Init, inIf)
				}
				visit(x.Cond, inIf)
				visit(x.Body, true)
				if x.Else != nil {
					visit(x.Else, true)
				}
				return false
			case *ast.CallExpr:
				se, ok := x.Fun.(*ast.SelectorExpr)
				if !ok {
					return true
				}
				if id, ok := se.X.(*ast.Ident); !ok || id.Name != "loader" {
					return true
				}
				tok := ""
				switch m := se.Sel.Name; {
				case m == "resetVisitedPathItemRefs" && !inIf:
					tok = "reset"
				case m == "resetVisitedPathItemRefs":
					tok = "resetIfNil"
				case strings.HasPrefix(m, "Load") && ast.IsExported(m):
					tok = "delegate:" + m
				case m == "ResolveRefsIn" || m == "loadFromURIInternal" || m == "loadFromDataWithPathInternal":
					tok = "internal:" + m
				}
				if tok != "" && !seen[tok] {
					seen[tok] = true
					r.steps = append(r.steps, tok)
				}
			}
			return true
		})
	}
	visit(fd.Body, false)
	return r
}

func rsResolver(fset *token.FileSet, fd *ast.FuncDecl) rsRow {
	name := fd.Name.Name
	kind := rsShort(name)
	r := rsRow{name: kind}
	params := fd.Type.Params.List
	fieldIs := func(f *ast.Field, name, typ string) bool {
		return len(f.Names) == 1 && f.Names[0].Name == name && rsText(fset, f.Type) == typ
	}
	if len(params) < 3 || len(params[1].Names) != 1 || !fieldIs(params[0], "doc", "*T") || !fieldIs(params[2], "documentPath", "*url.URL") {
		r.bad = "parameter list"
		return r
	}
	comp := params[1].Names[0].Name
	body := fd.Body.List
	// statements before the `if ref := …` block
	i := 0
	for ; i < len(body); i++ {
		if is, ok := body[i].(*ast.IfStmt); ok && is.Init != nil && rsText(fset, is.Init) == "ref := "+comp+".Ref" && rsText(fset, is.Cond) == `ref != ""` && is.Else == nil {
			break
		}
		rsClassify(fset, rsTop, kind, comp, body[i:i+1], &r, "leading")
	}
	if i == len(body) {
		r.bad = "no `if ref := " + comp + ".Ref; ref != \"\"` block"
		return r
	}
	for _, st := range body[i].(*ast.IfStmt).Body.List {
		is, isIf := st.(*ast.IfStmt)
		t := rsText(fset, st)
		switch {
		case isIf && (strings.HasPrefix(t, "if !loader.shouldVisitRef(key, func(value any) {") || strings.HasPrefix(t, "if !loader.shouldVisitRef(ref, func(value any) {")):
			// if !loader.shouldVisitRef(ref, func(value any) { CB }) { return nil }
			ue, _ := is.Cond.(*ast.UnaryExpr)
			var ce *ast.CallExpr
			if ue != nil {
				ce, _ = ue.X.(*ast.CallExpr)
			}
			var fl *ast.FuncLit
			if ce != nil && len(ce.Args) == 2 {
				fl, _ = ce.Args[1].(*ast.FuncLit)
			}
			if fl == nil || is.Init != nil || is.Else != nil || rsText(fset, is.Body) != "{ return nil }" {
				r.bad = "shouldVisitRef statement shape at " + fset.Position(st.Pos()).String()
				return r
			}
			parts := []string{}
			for _, s := range fl.Body.List {
				parts = append(parts, rsText(fset, s))
			}
			tok, ok := rsMatch(rsCallback, kind, comp, strings.Join(parts, " "))
			if !ok {
				r.bad = "backtrack callback of unexpected shape at " + fset.Position(fl.Pos()).String() + ": " + strings.Join(parts, " ")
				return r
			}
			if strings.HasPrefix(t, "if !loader.shouldVisitRef(ref,") {
				tok += ":textOnly"
			}
			r.steps = append(r.steps, "shouldVisit:"+tok)
		case isIf && rsText(fset, is.Cond) == "isSingleRefElement(ref)" && is.Init == nil:
			eb, ok := is.Else.(*ast.BlockStmt)
			if !ok {
				r.bad = "single-element branch without else block"
				return r
			}
			r.steps = append(r.steps, "single(")
			rsClassify(fset, rsSingle, kind, comp, is.Body.List, &r, "single-element")
			r.steps = append(r.steps, ")", "fragment(")
			rsClassify(fset, rsFragment, kind, comp, eb.List, &r, "fragment")
			r.steps = append(r.steps, ")")
		default:
			rsClassify(fset, rsBlock, kind, comp, []ast.Stmt{st}, &r, "block")
		}
		if r.bad != "" {
			return r
		}
	}
	rsCalls(fset, body[i+1:], "documentPath", &r)
	return r
}

func extractResolverSkeleton(repo string) (string, error) {
	fset := token.NewFileSet()
	fn := filepath.Join(repo, "openapi3", "loader.go")
	f, err := parser.ParseFile(fset, fn, nil, 0)
	if err != nil {
		return "", err
	}
	var rows []rsRow
	for _, d := range f.Decls {
		fd, ok := d.(*ast.FuncDecl)
		if !ok || fd.Body == nil {
			continue
		}
		name := fd.Name.Name
		if fd.Recv == nil && !rsFrozenText[name] && !rsFrozenHash[name] {
			continue
		}
		if fd.Recv != nil && ast.IsExported(name) && (strings.HasPrefix(name, "Load") || name == "ResolveRefsIn") {
			rows = append(rows, rsEntry(fset, fd))
		}
		switch {
		case name == "ResolveRefsIn":
			r := rsRow{name: "Document"}
			rsCalls(fset, fd.Body.List, "location", &r)
			rows = append(rows, r)
		case rsIsResolverName(name) && strings.HasSuffix(name, "Refs"):
			r := rsRow{name: rsShort(name)}
			rsCalls(fset, fd.Body.List, "documentPath", &r)
			rows = append(rows, r)
		case rsIsResolverName(name):
			rows = append(rows, rsResolver(fset, fd))
		case rsFrozenText[name]:
			rows = append(rows, rsRow{name: "fn:" + name, steps: []string{rsText(fset, fd.Body)}})
		case rsFrozenHash[name]:
			sum := sha256.Sum256([]byte(rsText(fset, fd.Type) + " " + rsText(fset, fd.Body)))
			rows = append(rows, rsRow{name: "fn:" + name, steps: []string{"sha256:" + hex.EncodeToString(sum[:8])}})
		}
	}
	sort.Slice(rows, func(i, j int) bool { return rows[i].name < rows[j].name })
	var b strings.Builder
	b.WriteString("/- GENERATED by go/cmd/extract (table ResolverSkeleton) from openapi3/loader.go — do not edit -/\n")
	b.WriteString("namespace KinModel.Gen\n\n")
	b.WriteString("inductive ResolverRow\n  | row (kind : String) (steps : List String) (calls : List String)\n  | unrecognised (whereAt : String)\n  deriving DecidableEq, Repr\n\ndef ResolverRow.isRow : ResolverRow → Bool\n  | .row _ _ _ => true\n  | .unrecognised _ => false\n\n")
	fmt.Fprintf(&b, "-- rows: %d\n", len(rows))
	b.WriteString("def resolverSkeleton : List ResolverRow := [\n")
	for i, r := range rows {
		sep := ","
		if i == len(rows)-1 {
			sep = ""
		}
		if r.bad != "" {
			fmt.Fprintf(&b, "  .unrecognised %q%s\n", r.name+": "+r.bad, sep)
			continue
		}
		ql := func(l []string) string {
			o := []string{}
			for _, c := range l {
				o = append(o, fmt.Sprintf("%q", c))
			}
			return strings.Join(o, ", ")
		}
		fmt.Fprintf(&b, "  .row %q [%s] [%s]%s\n", r.name, ql(r.steps), ql(r.calls), sep)
	}
	b.WriteString("]\n\nend KinModel.Gen\n")
	return b.String(), nil
}
