package main

// Table SubVisits (C01): on WHICH value every sub-schema visit of the validator runs. A row is one call
// `<sub-schema>.visitJSON(settings, <arg>)` inside a function of package openapi3 (non-test files) other than visitJSON
// itself and the exported entry points (functions without a `settings` parameter build the settings and are not sub-visits):
//   (function, arg, guard) in source order, where
//     arg = "value"      the visited value itself (what the sub-visit writes — injected defaults — reaches the caller's value)
//     arg = "elem"       a range variable, or a local `id := value[k]` (an item / a member of the value); guard = the identifier
//     arg = "copy"       a local that is initialised with `value` and, in an `if G { <id> = deepcopy.Copy(value); … }` that
//                        directly precedes the call in the same block, replaced by a deep copy; guard = the text of G, with an
//                        identifier G resolved through its `G := <expr>` in the same block
// Anything else (another argument shape, a copy whose guard the rule cannot read, a second assignment to the local) is an
// `unrecognised` row. The model (KinModel/Schema/Defaults.lean) says: `not`, the oneOf candidates and the anyOf candidates
// run on a private copy exactly under the request / response reading, whatever the JSON type of the value; the re-run of the
// matched candidate, the allOf members, items, properties and additionalProperties run on the value itself. That claim is an
// obligation over this table.

import (
	"fmt"
	"go/ast"
	"go/parser"
	"go/token"
	"os"
	"path/filepath"
	"strings"
)

func init() { register("SubVisits", extractSubVisits) }

func c01SameObj(e ast.Expr, id *ast.Ident) bool {
	x, ok := e.(*ast.Ident)
	return ok && x.Obj != nil && x.Obj == id.Obj
}

// `id := value[<index>]`
func c01IsIndexOfValue(fset *token.FileSet, n ast.Node) bool {
	a, ok := n.(*ast.AssignStmt)
	if !ok || a.Tok != token.DEFINE || len(a.Lhs) != 1 || len(a.Rhs) != 1 {
		return false
	}
	ix, ok := a.Rhs[0].(*ast.IndexExpr)
	return ok && vsExprText(fset, ix.X) == "value"
}

func extractSubVisits(repo string) (string, error) {
	dir := filepath.Join(repo, "openapi3")
	ents, err := os.ReadDir(dir)
	if err != nil {
		return "", err
	}
	type row struct{ fn, arg, guard, pos string }
	var rows []row
	fset := token.NewFileSet()
	for _, e := range ents {
		if e.IsDir() || !strings.HasSuffix(e.Name(), ".go") || strings.HasSuffix(e.Name(), "_test.go") {
			continue
		}
		f, err := parser.ParseFile(fset, filepath.Join(dir, e.Name()), nil, 0)
		if err != nil {
			return "", err
		}
		where := func(n ast.Node) string {
			q := fset.Position(n.Pos())
			return fmt.Sprintf("%s:%d", filepath.Base(q.Filename), q.Line)
		}
		for _, d := range f.Decls {
			fd, ok := d.(*ast.FuncDecl)
			if !ok || fd.Body == nil || fd.Name.Name == "visitJSON" {
				continue
			}
			hasSettings := false
			for _, p := range fd.Type.Params.List {
				for _, n := range p.Names {
					if n.Name == "settings" {
						hasSettings = true
					}
				}
			}
			// range variables of the function (over anything: the rule only names them)
			rangeVars := map[*ast.Object]bool{}
			// every assignment to an identifier, by name: the statements that assign it
			assigns := map[*ast.Object][]ast.Node{}
			ast.Inspect(fd.Body, func(n ast.Node) bool {
				switch x := n.(type) {
				case *ast.RangeStmt:
					for _, kv := range []ast.Expr{x.Key, x.Value} {
						if id, ok := kv.(*ast.Ident); ok && id.Name != "_" && id.Obj != nil {
							rangeVars[id.Obj] = true
						}
					}
				case *ast.AssignStmt:
					for _, l := range x.Lhs {
						if id, ok := l.(*ast.Ident); ok && id.Obj != nil {
							assigns[id.Obj] = append(assigns[id.Obj], x)
						}
					}
				case *ast.ValueSpec:
					for _, id := range x.Names {
						if id.Obj != nil {
							assigns[id.Obj] = append(assigns[id.Obj], x)
						}
					}
				}
				return true
			})
			// walk blocks so that the statements preceding a call in its own block are at hand
			var walkBlock func(list []ast.Stmt)
			visitCall := func(call *ast.CallExpr, list []ast.Stmt, idx int) {
				if !hasSettings {
					return
				}
				if len(call.Args) != 2 || vsExprText(fset, call.Args[0]) != "settings" {
					rows = append(rows, row{fd.Name.Name, "unrecognised", vsExprText(fset, call), where(call)})
					return
				}
				id, ok := call.Args[1].(*ast.Ident)
				if !ok {
					rows = append(rows, row{fd.Name.Name, "unrecognised", vsExprText(fset, call.Args[1]), where(call)})
					return
				}
				switch {
				case id.Name == "value" && id.Obj != nil && len(assigns[id.Obj]) == 0: // the parameter, never re-assigned
					rows = append(rows, row{fd.Name.Name, "value", "", where(call)})
				case rangeVars[id.Obj]:
					rows = append(rows, row{fd.Name.Name, "elem", id.Name, where(call)})
				case id.Obj != nil && len(assigns[id.Obj]) == 1 && c01IsIndexOfValue(fset, assigns[id.Obj][0]): // `v := value[k]`
					rows = append(rows, row{fd.Name.Name, "elem", id.Name, where(call)})
				default:
					// a local copy: initialised with `value`, assigned exactly once more, by `id = deepcopy.Copy(value)` in the
					// `if G {…}` directly before the call
					as := assigns[id.Obj]
					bad := func(why string) {
						rows = append(rows, row{fd.Name.Name, "unrecognised", id.Name + ": " + why, where(call)})
					}
					nInit, nCopy := 0, 0
					for _, a := range as {
						switch x := a.(type) {
						case *ast.AssignStmt:
							if len(x.Lhs) == 1 && len(x.Rhs) == 1 {
								switch vsExprText(fset, x.Rhs[0]) {
								case "value":
									nInit++
								case "deepcopy.Copy(value)":
									nCopy++
								default:
									nInit += 100
								}
							} else {
								nInit += 100
							}
						case *ast.ValueSpec:
							ix := -1
							for i, n := range x.Names {
								if n.Name == id.Name {
									ix = i
								}
							}
							if ix >= 0 && ix < len(x.Values) && vsExprText(fset, x.Values[ix]) == "value" {
								nInit++
							} else {
								nInit += 100
							}
						}
					}
					if nInit != 1 {
						bad("not initialised with `value` exactly once")
						return
					}
					// the guard: the nearest preceding `if` of the block whose body assigns the copy
					guard := ""
					found := false
					for k := idx - 1; k >= 0 && !found; k-- {
						is, ok := list[k].(*ast.IfStmt)
						if !ok || is.Init != nil || is.Else != nil {
							continue
						}
						for _, st := range is.Body.List {
							if a, ok := st.(*ast.AssignStmt); ok && len(a.Lhs) == 1 && len(a.Rhs) == 1 && a.Tok == token.ASSIGN &&
								c01SameObj(a.Lhs[0], id) && vsExprText(fset, a.Rhs[0]) == "deepcopy.Copy(value)" {
								found = true
							}
						}
						if found {
							guard = vsExprText(fset, is.Cond)
							if g, ok := is.Cond.(*ast.Ident); ok {
								guard = ""
								for q := k - 1; q >= 0; q-- {
									if a, ok := list[q].(*ast.AssignStmt); ok && a.Tok == token.DEFINE && len(a.Lhs) == 1 && len(a.Rhs) == 1 &&
										vsExprText(fset, a.Lhs[0]) == g.Name {
										guard = vsExprText(fset, a.Rhs[0])
										break
									}
								}
								if guard == "" || g.Obj == nil || len(assigns[g.Obj]) != 1 {
									bad("guard " + g.Name + " is not a single `:=` of the same block")
									return
								}
							}
						}
					}
					if !found || nCopy != 1 {
						bad("no single guarded `deepcopy.Copy(value)` directly before the call")
						return
					}
					rows = append(rows, row{fd.Name.Name, "copy", guard, where(call)})
				}
			}
			walkBlock = func(list []ast.Stmt) {
				for idx, st := range list {
					// calls in this statement that are not inside a nested block
					ast.Inspect(st, func(n ast.Node) bool {
						switch x := n.(type) {
						case *ast.BlockStmt:
							walkBlock(x.List)
							return false
						case *ast.CaseClause:
							walkBlock(x.Body)
							return false
						case *ast.CommClause:
							walkBlock(x.Body)
							return false
						case *ast.FuncLit:
							walkBlock(x.Body.List)
							return false
						case *ast.CallExpr:
							if sel, ok := x.Fun.(*ast.SelectorExpr); ok && sel.Sel.Name == "visitJSON" {
								visitCall(x, list, idx)
							}
						}
						return true
					})
				}
			}
			walkBlock(fd.Body.List)
		}
	}
	var b strings.Builder
	b.WriteString("/- GENERATED by go/cmd/extract (table SubVisits) from openapi3/*.go — do not edit -/\n")
	b.WriteString("namespace KinModel.Gen\n\nstructure SubVisit where\n  fn : String\n  arg : String\n  guard : String\n  deriving DecidableEq, Repr\n\n")
	fmt.Fprintf(&b, "-- rows: %d\n", len(rows))
	b.WriteString("def subVisits : List SubVisit := [\n")
	for i, r := range rows {
		sep := ","
		if i == len(rows)-1 {
			sep = ""
		}
		fmt.Fprintf(&b, "  ⟨%s, %s, %s⟩%s  -- %s\n", rsLeanStr(r.fn), rsLeanStr(r.arg), rsLeanStr(r.guard), sep, r.pos)
	}
	b.WriteString("]\n\nend KinModel.Gen\n")
	return b.String(), nil
}
