package main

// Table SettingsFlow (C19): how the validation settings — which carry the schema-error message customizer — travel
// through the schema visitor of package openapi3 (non-test files).
//
// A HOLDER is a function with a parameter of type *schemaValidationSettings. For every holder the rule lists, in source order:
//   kind "call":   every call of a function/method declared in the package that (a) itself is a holder — status "passes" when the
//                  argument at the settings position is the holder's own parameter, else "other:<expression>"; or (b) builds
//                  FRESH settings (its body calls newSchemaValidationSettings: the exported VisitJSON*/IsMatching* wrappers, or
//                  newSchemaValidationSettings itself) — status "fresh": everything below such a call is validated without the
//                  caller's options and its errors carry no customizer;
//   kind "assign": every assignment to the settings parameter or copy of the struct it points to — status "reassigned";
//   kind "lit":    every SchemaError composite literal — status "carries" when it has the field
//                  `customizeMessageError: <param>.customizeMessageError`, "empty" for the literal without any field
//                  (`&SchemaError{}`, the target of an errors.As), else "missing" / "other:<expression>".
// SchemaError literals in functions that hold no settings are listed with status "no-settings" (validator errors, which the
// visitor wraps), so that the table is complete over the literals of the package.
// Callees are resolved by NAME within the package (no go/types): a method of another type with the name of a holder would be
// listed too — that can only add rows. Rows carry no line numbers.

import (
	"fmt"
	"go/ast"
	"go/parser"
	"go/token"
	"os"
	"path/filepath"
	"sort"
	"strings"
)

func init() { register("SettingsFlow", extractSettingsFlow) }

type c19sfRow struct{ kind, fn, callee, status, pos string }

func c19sfSettingsParam(fd *ast.FuncDecl) (name string, idx int) {
	i := 0
	for _, f := range fd.Type.Params.List {
		isSet := false
		if st, ok := f.Type.(*ast.StarExpr); ok {
			if id, ok := st.X.(*ast.Ident); ok && id.Name == "schemaValidationSettings" {
				isSet = true
			}
		}
		n := len(f.Names)
		if n == 0 {
			n = 1
		}
		if isSet {
			if len(f.Names) == 1 {
				return f.Names[0].Name, i
			}
			return "<unnamed>", i
		}
		i += n
	}
	return "", -1
}

func c19sfCallee(call *ast.CallExpr) string {
	switch f := call.Fun.(type) {
	case *ast.Ident:
		return f.Name
	case *ast.SelectorExpr:
		return f.Sel.Name
	}
	return ""
}

func extractSettingsFlow(repo string) (string, error) {
	dir := filepath.Join(repo, "openapi3")
	ents, err := os.ReadDir(dir)
	if err != nil {
		return "", err
	}
	fset := token.NewFileSet()
	type fn struct {
		fd    *ast.FuncDecl
		file  string
		param string
		idx   int
	}
	var fns []*fn
	names := []string{}
	for _, e := range ents {
		if e.IsDir() || !strings.HasSuffix(e.Name(), ".go") || strings.HasSuffix(e.Name(), "_test.go") {
			continue
		}
		names = append(names, e.Name())
	}
	sort.Strings(names)
	for _, n := range names {
		f, err := parser.ParseFile(fset, filepath.Join(dir, n), nil, 0)
		if err != nil {
			return "", err
		}
		for _, d := range f.Decls {
			if fd, ok := d.(*ast.FuncDecl); ok && fd.Body != nil {
				p, i := c19sfSettingsParam(fd)
				fns = append(fns, &fn{fd: fd, file: n, param: p, idx: i})
			}
		}
	}
	holderIdx := map[string]int{} // function name → position of its settings parameter
	fresh := map[string]bool{"newSchemaValidationSettings": true}
	for _, f := range fns {
		if f.param != "" {
			holderIdx[f.fd.Name.Name] = f.idx
			continue
		}
		ast.Inspect(f.fd.Body, func(n ast.Node) bool {
			if call, ok := n.(*ast.CallExpr); ok && c19sfCallee(call) == "newSchemaValidationSettings" {
				fresh[f.fd.Name.Name] = true
			}
			return true
		})
	}
	var rows []c19sfRow
	isSchemaErrLit := func(cl *ast.CompositeLit) bool {
		id, ok := cl.Type.(*ast.Ident)
		return ok && id.Name == "SchemaError"
	}
	litField := func(cl *ast.CompositeLit) string {
		for _, el := range cl.Elts {
			if kv, ok := el.(*ast.KeyValueExpr); ok {
				if k, ok := kv.Key.(*ast.Ident); ok && k.Name == "SchemaField" {
					if bl, ok := kv.Value.(*ast.BasicLit); ok {
						return strings.Trim(bl.Value, "\"")
					}
					return "<computed>"
				}
			}
		}
		return ""
	}
	for _, f := range fns {
		f := f
		where := func(p token.Pos) string {
			q := fset.Position(p)
			return fmt.Sprintf("%s:%d", filepath.Base(q.Filename), q.Line)
		}
		name := f.fd.Name.Name
		if f.param == "" {
			ast.Inspect(f.fd.Body, func(n ast.Node) bool {
				if cl, ok := n.(*ast.CompositeLit); ok && isSchemaErrLit(cl) {
					rows = append(rows, c19sfRow{"lit", name, litField(cl), "no-settings", where(cl.Pos())})
				}
				return true
			})
			continue
		}
		if f.param == "<unnamed>" {
			rows = append(rows, c19sfRow{"call", name, "", "other:unnamed settings parameter", where(f.fd.Pos())})
			continue
		}
		ast.Inspect(f.fd.Body, func(n ast.Node) bool {
			switch x := n.(type) {
			case *ast.FuncLit:
				// a closure inside a holder: its body is walked like the rest (the parameter is captured)
				return true
			case *ast.CallExpr:
				cn := c19sfCallee(x)
				if cn == "" {
					return true
				}
				if fresh[cn] {
					rows = append(rows, c19sfRow{"call", name, cn, "fresh", where(x.Pos())})
					return true
				}
				if k, ok := holderIdx[cn]; ok {
					st := "other:too few arguments"
					if k < len(x.Args) {
						if id, ok := x.Args[k].(*ast.Ident); ok && id.Name == f.param {
							st = "passes"
						} else {
							st = "other:" + vsExprText(fset, x.Args[k])
						}
					}
					rows = append(rows, c19sfRow{"call", name, cn, st, where(x.Pos())})
				}
			case *ast.AssignStmt:
				for _, l := range x.Lhs {
					if id, ok := l.(*ast.Ident); ok && id.Name == f.param {
						rows = append(rows, c19sfRow{"assign", name, "", "reassigned", where(x.Pos())})
					}
				}
				for _, r := range x.Rhs {
					if st, ok := r.(*ast.StarExpr); ok {
						if id, ok := st.X.(*ast.Ident); ok && id.Name == f.param {
							rows = append(rows, c19sfRow{"assign", name, "", "reassigned", where(x.Pos())})
						}
					}
				}
			case *ast.CompositeLit:
				if !isSchemaErrLit(x) {
					return true
				}
				st := "missing"
				if len(x.Elts) == 0 {
					st = "empty" // `&SchemaError{}`: the target of an errors.As, carries nothing at all
				}
				for _, el := range x.Elts {
					kv, ok := el.(*ast.KeyValueExpr)
					if !ok {
						continue
					}
					if k, ok := kv.Key.(*ast.Ident); !ok || k.Name != "customizeMessageError" {
						continue
					}
					if sel, ok := kv.Value.(*ast.SelectorExpr); ok && sel.Sel.Name == "customizeMessageError" {
						if id, ok := sel.X.(*ast.Ident); ok && id.Name == f.param {
							st = "carries"
							continue
						}
					}
					st = "other:" + vsExprText(fset, kv.Value)
				}
				rows = append(rows, c19sfRow{"lit", name, litField(x), st, where(x.Pos())})
			}
			return true
		})
	}
	var b strings.Builder
	b.WriteString("/- GENERATED by go/cmd/extract (table SettingsFlow) from openapi3/*.go — do not edit -/\n")
	b.WriteString("namespace KinModel.Gen\n\nstructure SettingsSite where\n  kind : String\n  fn : String\n  callee : String\n  status : String\n  deriving DecidableEq, Repr\n\n")
	fmt.Fprintf(&b, "-- rows: %d\n", len(rows))
	b.WriteString("def settingsFlow : List SettingsSite := [\n")
	for i, r := range rows {
		sep := ","
		if i == len(rows)-1 {
			sep = ""
		}
		fmt.Fprintf(&b, "  ⟨%s, %s, %s, %s⟩%s  -- %s\n", rsLeanStr(r.kind), rsLeanStr(r.fn), rsLeanStr(r.callee), rsLeanStr(r.status), sep, r.pos)
	}
	b.WriteString("]\n\nend KinModel.Gen\n")
	return b.String(), nil
}
