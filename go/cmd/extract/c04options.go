package main

// Tables `OptionCtors` and `PatternCache` (C04).
//
// OptionCtors: every function of openapi3/validation_options.go that returns a ValidationOption, with the field
// of ValidationOptions its closure writes and what it writes there:
//   "true" / "false"  — `options.F = true|false`
//   "arg"             — `options.F = <the constructor's parameter>`
//   "add-args"        — `options.F[x] = struct{}{}` for every x of the (variadic) parameter, the map being made
//                       on first use
// plus the way WithValidationOptions combines a list of options: "foldl-from-zero" when it is
// `options := &ValidationOptions{}; for _, opt := range opts { opt(options) }`.
// Any other shape becomes an `unrecognised` entry.
//
// PatternCache: every use of the package-level `compiledPatterns` (the process-wide cache of compiled patterns):
// enclosing function, sync.Map method, and for CompareAndSwap whether the expected old value is the literal nil
// (such a call never creates an entry).

import (
	"fmt"
	"go/ast"
	"go/parser"
	"go/token"
	"os"
	"path/filepath"
	"sort"
	"strings"
)

func init() {
	register("OptionCtors", extractOptionCtors)
	register("C04PatternCache", extractC04PatternCache)
}

func extractOptionCtors(repo string) (string, error) {
	fset := token.NewFileSet()
	fn := filepath.Join(repo, "openapi3", "validation_options.go")
	f, err := parser.ParseFile(fset, fn, nil, 0)
	if err != nil {
		return "", err
	}
	type row struct{ name, field, value string }
	var rows []row
	var unrec []string
	fold := ""
	where := func(n ast.Node) string { return fmt.Sprintf("validation_options.go:%d", fset.Position(n.Pos()).Line) }
	optField := func(e ast.Expr) (string, bool) { // options.F
		sel, ok := e.(*ast.SelectorExpr)
		if !ok {
			return "", false
		}
		id, ok := sel.X.(*ast.Ident)
		if !ok || id.Name != "options" {
			return "", false
		}
		return sel.Sel.Name, true
	}
	for _, d := range f.Decls {
		fd, ok := d.(*ast.FuncDecl)
		if !ok || fd.Recv != nil || fd.Body == nil {
			continue
		}
		if fd.Name.Name == "WithValidationOptions" {
			// expected: if len(opts) == 0 { return ctx }; options := &ValidationOptions{}; for _, opt := range opts { opt(options) }; return …
			okZero, okLoop := false, false
			for _, st := range fd.Body.List {
				switch s := st.(type) {
				case *ast.AssignStmt:
					if len(s.Lhs) == 1 && len(s.Rhs) == 1 {
						if id, ok := s.Lhs[0].(*ast.Ident); ok && id.Name == "options" {
							if u, ok := s.Rhs[0].(*ast.UnaryExpr); ok && u.Op == token.AND {
								if cl, ok := u.X.(*ast.CompositeLit); ok && len(cl.Elts) == 0 {
									okZero = true
								}
							}
						}
					}
				case *ast.RangeStmt:
					if id, ok := s.X.(*ast.Ident); ok && id.Name == "opts" && len(s.Body.List) == 1 {
						if es, ok := s.Body.List[0].(*ast.ExprStmt); ok {
							if call, ok := es.X.(*ast.CallExpr); ok && len(call.Args) == 1 {
								if a, ok := call.Args[0].(*ast.Ident); ok && a.Name == "options" {
									if v, ok := s.Value.(*ast.Ident); ok {
										if fnid, ok := call.Fun.(*ast.Ident); ok && fnid.Name == v.Name {
											okLoop = true
										}
									}
								}
							}
						}
					}
				}
			}
			if okZero && okLoop {
				fold = "foldl-from-zero"
			} else {
				unrec = append(unrec, where(fd)+" (WithValidationOptions is not a left fold from the zero value)")
			}
			continue
		}
		if fd.Type.Results == nil || len(fd.Type.Results.List) != 1 {
			continue
		}
		if id, ok := fd.Type.Results.List[0].Type.(*ast.Ident); !ok || id.Name != "ValidationOption" {
			continue
		}
		// parameter name (if any)
		param := ""
		if fd.Type.Params != nil && len(fd.Type.Params.List) == 1 && len(fd.Type.Params.List[0].Names) == 1 {
			param = fd.Type.Params.List[0].Names[0].Name
		}
		var lit *ast.FuncLit
		if len(fd.Body.List) == 1 {
			if ret, ok := fd.Body.List[0].(*ast.ReturnStmt); ok && len(ret.Results) == 1 {
				lit, _ = ret.Results[0].(*ast.FuncLit)
			}
		}
		if lit == nil {
			unrec = append(unrec, where(fd))
			continue
		}
		recognised := false
		body := lit.Body.List
		if len(body) == 1 {
			if as, ok := body[0].(*ast.AssignStmt); ok && as.Tok == token.ASSIGN && len(as.Lhs) == 1 && len(as.Rhs) == 1 {
				if fld, ok := optField(as.Lhs[0]); ok {
					if id, ok := as.Rhs[0].(*ast.Ident); ok {
						switch {
						case id.Name == "true" || id.Name == "false":
							rows = append(rows, row{fd.Name.Name, fld, id.Name})
							recognised = true
						case param != "" && id.Name == param:
							rows = append(rows, row{fd.Name.Name, fld, "arg"})
							recognised = true
						}
					}
				}
			}
		}
		if !recognised && len(body) == 2 && param != "" {
			// if options.F == nil && len(param) != 0 { options.F = make(…) }; for _, x := range param { options.F[x] = struct{}{} }
			fld1, fld2 := "", ""
			if is, ok := body[0].(*ast.IfStmt); ok && is.Else == nil && len(is.Body.List) == 1 {
				if as, ok := is.Body.List[0].(*ast.AssignStmt); ok && len(as.Lhs) == 1 && len(as.Rhs) == 1 {
					if call, ok := as.Rhs[0].(*ast.CallExpr); ok {
						if mk, ok := call.Fun.(*ast.Ident); ok && mk.Name == "make" {
							fld1, _ = optField(as.Lhs[0])
						}
					}
				}
			}
			if rs, ok := body[1].(*ast.RangeStmt); ok && len(rs.Body.List) == 1 {
				if id, ok := rs.X.(*ast.Ident); ok && id.Name == param {
					if as, ok := rs.Body.List[0].(*ast.AssignStmt); ok && len(as.Lhs) == 1 {
						if ix, ok := as.Lhs[0].(*ast.IndexExpr); ok {
							if v, ok := rs.Value.(*ast.Ident); ok {
								if k, ok := ix.Index.(*ast.Ident); ok && k.Name == v.Name {
									fld2, _ = optField(ix.X)
								}
							}
						}
					}
				}
			}
			if fld1 != "" && fld1 == fld2 {
				rows = append(rows, row{fd.Name.Name, fld1, "add-args"})
				recognised = true
			}
		}
		if !recognised {
			unrec = append(unrec, where(fd))
		}
	}
	if fold == "" && len(unrec) == 0 {
		unrec = append(unrec, "validation_options.go: WithValidationOptions not found")
	}
	sort.Slice(rows, func(i, j int) bool { return rows[i].name < rows[j].name })
	var b strings.Builder
	b.WriteString("-- GENERATED by go/cmd/extract (table OptionCtors) from the repository under test. Do not edit.\n")
	fmt.Fprintf(&b, "-- rows: %d\n", len(rows)+1+len(unrec))
	b.WriteString("namespace KinModel.Gen\n\n/-- a constructor of a ValidationOption: the field of ValidationOptions it writes, and what -/\n")
	b.WriteString("structure OptionCtorRow where\n  name : String\n  field : String\n  value : String\n  deriving DecidableEq, Repr\n\n")
	b.WriteString("def optionCtors : List OptionCtorRow := [\n")
	for i, r := range rows {
		sep := ","
		if i == len(rows)-1 {
			sep = ""
		}
		fmt.Fprintf(&b, "  ⟨%q, %q, %q⟩%s\n", r.name, r.field, r.value, sep)
	}
	fmt.Fprintf(&b, "]\n\n/-- how WithValidationOptions combines a list of options -/\ndef optionFold : String := %q\n\n", fold)
	b.WriteString("def optionCtorsUnrecognised : List String := [")
	for i, u := range unrec {
		if i > 0 {
			b.WriteString(", ")
		}
		fmt.Fprintf(&b, "%q", u)
	}
	b.WriteString("]\n\nend KinModel.Gen\n")
	return b.String(), nil
}

func extractC04PatternCache(repo string) (string, error) {
	fset := token.NewFileSet()
	dir := filepath.Join(repo, "openapi3")
	ents, err := os.ReadDir(dir)
	if err != nil {
		return "", err
	}
	type row struct{ fn, op, detail, pos string }
	var rows []row
	var unrec []string
	declared := false
	for _, e := range ents {
		if e.IsDir() || !strings.HasSuffix(e.Name(), ".go") || strings.HasSuffix(e.Name(), "_test.go") {
			continue
		}
		f, err := parser.ParseFile(fset, filepath.Join(dir, e.Name()), nil, 0)
		if err != nil {
			return "", err
		}
		for _, d := range f.Decls {
			switch x := d.(type) {
			case *ast.GenDecl:
				for _, sp := range x.Specs {
					if vs, ok := sp.(*ast.ValueSpec); ok {
						for _, n := range vs.Names {
							if n.Name == "compiledPatterns" {
								declared = true
							}
						}
					}
				}
			case *ast.FuncDecl:
				if x.Body == nil {
					continue
				}
				name := x.Name.Name
				if x.Recv != nil && len(x.Recv.List) == 1 {
					t := x.Recv.List[0].Type
					if st, ok := t.(*ast.StarExpr); ok {
						t = st.X
					}
					if id, ok := t.(*ast.Ident); ok {
						name = id.Name + "." + name
					}
				}
				// every mention of the identifier must be the receiver of a method call
				mentions, calls := 0, 0
				ast.Inspect(x.Body, func(n ast.Node) bool {
					if id, ok := n.(*ast.Ident); ok && id.Name == "compiledPatterns" {
						mentions++
					}
					call, ok := n.(*ast.CallExpr)
					if !ok {
						return true
					}
					sel, ok := call.Fun.(*ast.SelectorExpr)
					if !ok {
						return true
					}
					id, ok := sel.X.(*ast.Ident)
					if !ok || id.Name != "compiledPatterns" {
						return true
					}
					calls++
					detail := ""
					if sel.Sel.Name == "CompareAndSwap" && len(call.Args) == 3 {
						if o, ok := call.Args[1].(*ast.Ident); ok && o.Name == "nil" {
							detail = "old=nil"
						} else {
							detail = "old=value"
						}
					}
					rows = append(rows, row{name, sel.Sel.Name, detail, fmt.Sprintf("%s:%d", e.Name(), fset.Position(call.Pos()).Line)})
					return true
				})
				if mentions != calls {
					unrec = append(unrec, fmt.Sprintf("%s: %s mentions compiledPatterns outside a method call", e.Name(), name))
				}
			}
		}
	}
	if !declared {
		unrec = append(unrec, "package-level compiledPatterns not found")
	}
	sort.Slice(rows, func(i, j int) bool { return rows[i].pos < rows[j].pos })
	var b strings.Builder
	b.WriteString("-- GENERATED by go/cmd/extract (table C04PatternCache) from the repository under test. Do not edit.\n")
	fmt.Fprintf(&b, "-- rows: %d\n", len(rows)+len(unrec))
	b.WriteString("namespace KinModel.Gen\n\n/-- a use of the process-wide cache of compiled patterns -/\n")
	b.WriteString("structure C04PatternCacheRow where\n  fn : String\n  op : String\n  detail : String\n  deriving DecidableEq, Repr\n\n")
	b.WriteString("def c04PatternCache : List C04PatternCacheRow := [\n")
	for i, r := range rows {
		sep := ","
		if i == len(rows)-1 {
			sep = ""
		}
		fmt.Fprintf(&b, "  ⟨%q, %q, %q⟩%s -- %s\n", r.fn, r.op, r.detail, sep, r.pos)
	}
	b.WriteString("]\n\ndef c04PatternCacheUnrecognised : List String := [")
	for i, u := range unrec {
		if i > 0 {
			b.WriteString(", ")
		}
		fmt.Fprintf(&b, "%q", u)
	}
	b.WriteString("]\n\nend KinModel.Gen\n")
	return b.String(), nil
}

// Table C04OptionState: where the settings record (`*ValidationOptions`) a validation method works on comes from, and
// who writes to it after the option list has been folded.
//   ("fallback", "getValidationOptions", "fresh-zero")   — without a record in the context the function's last statement
//                                                           is `return &ValidationOptions{}`: a new zero record per call
//   ("fallback", "getValidationOptions", "other: <text>") — anything else (e.g. a package-level instance)
//   ("global", <name>, <type/value text>)                 — a package-level variable whose type or initial value mentions
//                                                           ValidationOptions (a record that outlives a call)
//   ("write", <function>, "<field>=<value>")              — an assignment to a field of ValidationOptions outside the
//                                                           closures of the option constructors
//   ("read", <function>, <field>)                         — a read of a field that no constructor writes (the example
//                                                           reading mode examplesValidationAsReq / …AsRes)
func init() { register("C04OptionState", extractC04OptionState) }

func extractC04OptionState(repo string) (string, error) {
	fset := token.NewFileSet()
	dir := filepath.Join(repo, "openapi3")
	ents, err := os.ReadDir(dir)
	if err != nil {
		return "", err
	}
	type row struct{ kind, fn, detail, pos string }
	var rows []row
	var unrec []string
	text := func(e ast.Expr) string {
		if e == nil {
			return ""
		}
		return vsExprText(fset, e)
	}
	files := map[string]*ast.File{}
	var names []string
	for _, e := range ents {
		if e.IsDir() || !strings.HasSuffix(e.Name(), ".go") || strings.HasSuffix(e.Name(), "_test.go") {
			continue
		}
		f, err := parser.ParseFile(fset, filepath.Join(dir, e.Name()), nil, 0)
		if err != nil {
			return "", err
		}
		files[e.Name()] = f
		names = append(names, e.Name())
	}
	sort.Strings(names)
	// the fields of ValidationOptions
	fields := map[string]bool{}
	if f := files["validation_options.go"]; f != nil {
		for _, d := range f.Decls {
			if gd, ok := d.(*ast.GenDecl); ok {
				for _, sp := range gd.Specs {
					if ts, ok := sp.(*ast.TypeSpec); ok && ts.Name.Name == "ValidationOptions" {
						if st, ok := ts.Type.(*ast.StructType); ok {
							for _, fl := range st.Fields.List {
								for _, n := range fl.Names {
									fields[n.Name] = true
								}
							}
						}
					}
				}
			}
		}
	}
	if len(fields) == 0 {
		unrec = append(unrec, "struct ValidationOptions not found")
	}
	// fields written by the constructors (table OptionCtors reads them); every other field is "mode" state
	ctorFields := map[string]bool{}
	foundFallback := false
	for _, fname := range names {
		f := files[fname]
		pos := func(n ast.Node) string { return fmt.Sprintf("%s:%d", fname, fset.Position(n.Pos()).Line) }
		for _, d := range f.Decls {
			switch x := d.(type) {
			case *ast.GenDecl:
				if x.Tok != token.VAR {
					continue
				}
				for _, sp := range x.Specs {
					vs, ok := sp.(*ast.ValueSpec)
					if !ok {
						continue
					}
					t := text(vs.Type)
					for _, v := range vs.Values {
						t += " = " + text(v)
					}
					if strings.Contains(t, "ValidationOptions") {
						for _, n := range vs.Names {
							rows = append(rows, row{"global", n.Name, strings.TrimSpace(t), pos(vs)})
						}
					}
				}
			case *ast.FuncDecl:
				if x.Body == nil {
					continue
				}
				name := x.Name.Name
				if x.Recv != nil && len(x.Recv.List) == 1 {
					t := x.Recv.List[0].Type
					if st, ok := t.(*ast.StarExpr); ok {
						t = st.X
					}
					if id, ok := t.(*ast.Ident); ok {
						name = id.Name + "." + name
					}
				}
				isCtor := false
				if fname == "validation_options.go" && x.Recv == nil && x.Type.Results != nil && len(x.Type.Results.List) == 1 {
					if id, ok := x.Type.Results.List[0].Type.(*ast.Ident); ok && id.Name == "ValidationOption" {
						isCtor = true
					}
				}
				if fname == "validation_options.go" && name == "getValidationOptions" {
					foundFallback = true
					detail := "other: no final return"
					if n := len(x.Body.List); n > 0 {
						if ret, ok := x.Body.List[n-1].(*ast.ReturnStmt); ok && len(ret.Results) == 1 {
							detail = "other: " + text(ret.Results[0])
							if u, ok := ret.Results[0].(*ast.UnaryExpr); ok && u.Op == token.AND {
								if cl, ok := u.X.(*ast.CompositeLit); ok && len(cl.Elts) == 0 {
									if id, ok := cl.Type.(*ast.Ident); ok && id.Name == "ValidationOptions" {
										detail = "fresh-zero"
									}
								}
							}
						}
					}
					rows = append(rows, row{"fallback", name, detail, pos(x)})
				}
				written := map[*ast.SelectorExpr]bool{}
				ast.Inspect(x.Body, func(n ast.Node) bool {
					switch s := n.(type) {
					case *ast.AssignStmt:
						for i, l := range s.Lhs {
							target := l
							if ix, ok := l.(*ast.IndexExpr); ok {
								target = ix.X
							}
							sel, ok := target.(*ast.SelectorExpr)
							if !ok || !fields[sel.Sel.Name] {
								continue
							}
							written[sel] = true
							if isCtor {
								ctorFields[sel.Sel.Name] = true
								continue
							}
							val := "?"
							if len(s.Rhs) == len(s.Lhs) {
								val = text(s.Rhs[i])
							}
							rows = append(rows, row{"write", name, sel.Sel.Name + "=" + val, pos(s)})
						}
					case *ast.IncDecStmt:
						if sel, ok := s.X.(*ast.SelectorExpr); ok && fields[sel.Sel.Name] {
							unrec = append(unrec, pos(s)+" (increment of a settings field)")
						}
					case *ast.UnaryExpr:
						if s.Op == token.AND {
							if sel, ok := s.X.(*ast.SelectorExpr); ok && fields[sel.Sel.Name] {
								unrec = append(unrec, pos(s)+" (address of a settings field taken)")
							}
						}
					}
					return true
				})
				_ = written
			}
		}
	}
	// reads of the fields no constructor writes
	for _, fname := range names {
		f := files[fname]
		for _, d := range f.Decls {
			x, ok := d.(*ast.FuncDecl)
			if !ok || x.Body == nil {
				continue
			}
			name := x.Name.Name
			if x.Recv != nil && len(x.Recv.List) == 1 {
				t := x.Recv.List[0].Type
				if st, ok := t.(*ast.StarExpr); ok {
					t = st.X
				}
				if id, ok := t.(*ast.Ident); ok {
					name = id.Name + "." + name
				}
			}
			lhs := map[ast.Expr]bool{}
			ast.Inspect(x.Body, func(n ast.Node) bool {
				if s, ok := n.(*ast.AssignStmt); ok {
					for _, l := range s.Lhs {
						lhs[l] = true
					}
				}
				return true
			})
			ast.Inspect(x.Body, func(n ast.Node) bool {
				sel, ok := n.(*ast.SelectorExpr)
				if !ok || !fields[sel.Sel.Name] || ctorFields[sel.Sel.Name] || lhs[sel] {
					return true
				}
				rows = append(rows, row{"read", name, sel.Sel.Name, fmt.Sprintf("%s:%d", fname, fset.Position(sel.Pos()).Line)})
				return true
			})
		}
	}
	if !foundFallback {
		unrec = append(unrec, "getValidationOptions not found")
	}
	sort.SliceStable(rows, func(i, j int) bool {
		if rows[i].kind != rows[j].kind {
			return rows[i].kind < rows[j].kind
		}
		if rows[i].fn != rows[j].fn {
			return rows[i].fn < rows[j].fn
		}
		return rows[i].detail < rows[j].detail
	})
	var b strings.Builder
	b.WriteString("-- GENERATED by go/cmd/extract (table C04OptionState) from the repository under test. Do not edit.\n")
	fmt.Fprintf(&b, "-- rows: %d\n", len(rows)+len(unrec))
	b.WriteString("namespace KinModel.Gen\n\n/-- origin of the settings record and the writes / reads of its fields outside the option constructors -/\n")
	b.WriteString("structure C04OptionStateRow where\n  kind : String\n  fn : String\n  detail : String\n  deriving DecidableEq, Repr\n\n")
	b.WriteString("def c04OptionState : List C04OptionStateRow := [\n")
	for i, r := range rows {
		sep := ","
		if i == len(rows)-1 {
			sep = ""
		}
		fmt.Fprintf(&b, "  ⟨%q, %q, %q⟩%s -- %s\n", r.kind, r.fn, r.detail, sep, r.pos)
	}
	b.WriteString("]\n\ndef c04OptionStateUnrecognised : List String := [")
	for i, u := range unrec {
		if i > 0 {
			b.WriteString(", ")
		}
		fmt.Fprintf(&b, "%q", u)
	}
	b.WriteString("]\n\nend KinModel.Gen\n")
	return b.String(), nil
}
