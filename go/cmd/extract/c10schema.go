package main

// Two small tables for C10, read with go/parser only.
//
// SubSchemaFields — why `visitJSON` may call `Schema.IsEmpty` (which follows sub-schemas without a visited set and so
// does not terminate on a reference cycle): it does so only behind `!schema.hasSubSchemas() &&`. Rows:
//   .field "hasSubSchemas" <path>   every field path of the receiver the function tests (Not, AdditionalProperties.Schema, …)
//   .field "IsEmpty" <path>         every field path through which IsEmpty calls IsEmpty again
//   .caller <function> <guarded>    every call of IsEmpty outside IsEmpty itself; guarded = it is the right operand of
//                                   `&&` whose left operand is `!<recv>.hasSubSchemas()`
// Obligations (Props/C10): every IsEmpty path is a hasSubSchemas path; every caller is guarded.
//
// SchemaErrorSites — every composite literal of openapi3.SchemaError in openapi3 and openapi3filter:
//   .lit <file> <function> <schemaField> <schemaSet>
// schemaField is the string literal given for SchemaField ("" when the key is absent, "?" when it is not a literal);
// schemaSet tells whether the key Schema is present. Obligation: a literal whose field is "enum" (or unknown) sets
// Schema — what `convertSchemaError` dereferences (`innerErr.Schema.Enum`).

import (
	"fmt"
	"go/ast"
	"go/parser"
	"go/token"
	"os"
	"path/filepath"
	"sort"
	"strconv"
	"strings"
)

func init() {
	register("SubSchemaFields", subSchemaFields)
	register("SchemaErrorSites", schemaErrorSites)
}

func c10ParseDir(repo, dir string) (*token.FileSet, []*ast.File, []string, error) {
	fset := token.NewFileSet()
	names, err := filepath.Glob(filepath.Join(repo, dir, "*.go"))
	if err != nil {
		return nil, nil, nil, err
	}
	sort.Strings(names)
	var files []*ast.File
	var kept []string
	for _, n := range names {
		if strings.HasSuffix(n, "_test.go") {
			continue
		}
		f, err := parser.ParseFile(fset, n, nil, 0)
		if err != nil {
			return nil, nil, nil, err
		}
		files = append(files, f)
		kept = append(kept, dir+"/"+filepath.Base(n))
	}
	return fset, files, kept, nil
}

// selector chain below an identifier: schema.AdditionalProperties.Schema -> ("schema", "AdditionalProperties.Schema")
func c10Chain(e ast.Expr) (root string, path string, ok bool) {
	var parts []string
	for {
		switch x := e.(type) {
		case *ast.SelectorExpr:
			parts = append([]string{x.Sel.Name}, parts...)
			e = x.X
		case *ast.Ident:
			return x.Name, strings.Join(parts, "."), true
		case *ast.ParenExpr:
			e = x.X
		case *ast.StarExpr:
			e = x.X
		default:
			return "", "", false
		}
	}
}

func subSchemaFields(repo string) (string, error) {
	_, files, _, err := c10ParseDir(repo, "openapi3")
	if err != nil {
		return "", err
	}
	var rows []string
	unrec := func(s string) { rows = append(rows, fmt.Sprintf("  .unrecognised %s", pani_leanStr(s))) }
	seenHas, seenEmpty := false, false
	for _, f := range files {
		for _, d := range f.Decls {
			fd, ok := d.(*ast.FuncDecl)
			if !ok || fd.Body == nil {
				continue
			}
			recv := ""
			if fd.Recv != nil && len(fd.Recv.List) == 1 && len(fd.Recv.List[0].Names) == 1 {
				recv = fd.Recv.List[0].Names[0].Name
			}
			fname := fd.Name.Name
			isSchemaMethod := fd.Recv != nil && len(fd.Recv.List) == 1 && psRecvName(fd.Recv.List[0].Type) == "Schema"
			switch {
			case isSchemaMethod && fname == "hasSubSchemas":
				seenHas = true
				paths := map[string]bool{}
				ast.Inspect(fd.Body, func(n ast.Node) bool {
					if se, ok := n.(*ast.SelectorExpr); ok {
						if root, p, ok := c10Chain(se); ok && root == recv && p != "" {
							paths[p] = true
							return false
						}
					}
					return true
				})
				var l []string
				for p := range paths {
					l = append(l, p)
				}
				sort.Strings(l)
				for _, p := range l {
					rows = append(rows, fmt.Sprintf("  .field \"hasSubSchemas\" %s", pani_leanStr(p)))
				}
			case isSchemaMethod && fname == "IsEmpty":
				seenEmpty = true
				// identifiers bound to a field path of the receiver (if x := schema.P; …, for _, s := range schema.P, if ss := s.Value; …)
				bound := map[string]string{}
				bind := func(lhs ast.Expr, rhs ast.Expr) {
					id, ok := lhs.(*ast.Ident)
					if !ok {
						return
					}
					root, p, ok := c10Chain(rhs)
					if !ok {
						return
					}
					if root == recv && p != "" {
						bound[id.Name] = p
					} else if q, ok := bound[root]; ok {
						bound[id.Name] = q // s.Value of a bound s: same field
					}
				}
				paths := map[string]bool{}
				// one pass in source order: the same identifiers (s, ss) are bound again by every loop
				ast.Inspect(fd.Body, func(n ast.Node) bool {
					switch x := n.(type) {
					case *ast.AssignStmt:
						if len(x.Lhs) == 1 && len(x.Rhs) == 1 {
							bind(x.Lhs[0], x.Rhs[0])
						}
					case *ast.RangeStmt:
						if x.Value != nil {
							bind(x.Value, x.X)
						}
					}
					c, ok := n.(*ast.CallExpr)
					if !ok {
						return true
					}
					se, ok := c.Fun.(*ast.SelectorExpr)
					if !ok || se.Sel.Name != "IsEmpty" {
						return true
					}
					root, p, ok := c10Chain(se.X)
					switch {
					case ok && root == recv && p != "":
						paths[strings.TrimSuffix(p, ".Value")] = true
					case ok && bound[root] != "":
						paths[bound[root]] = true
					default:
						unrec("IsEmpty: call through an expression the rule cannot trace")
					}
					return true
				})
				var l []string
				for p := range paths {
					l = append(l, p)
				}
				sort.Strings(l)
				for _, p := range l {
					rows = append(rows, fmt.Sprintf("  .field \"IsEmpty\" %s", pani_leanStr(p)))
				}
			default:
				// callers of IsEmpty elsewhere
				var stack []ast.Node
				ast.Inspect(fd.Body, func(n ast.Node) bool {
					if n == nil {
						stack = stack[:len(stack)-1]
						return true
					}
					stack = append(stack, n)
					c, ok := n.(*ast.CallExpr)
					if !ok {
						return true
					}
					se, ok := c.Fun.(*ast.SelectorExpr)
					if !ok || se.Sel.Name != "IsEmpty" || len(c.Args) != 0 {
						return true
					}
					guarded := false
					if len(stack) >= 2 {
						if be, ok := stack[len(stack)-2].(*ast.BinaryExpr); ok && be.Op == token.LAND && be.Y == ast.Expr(c) {
							if ue, ok := be.X.(*ast.UnaryExpr); ok && ue.Op == token.NOT {
								if lc, ok := ue.X.(*ast.CallExpr); ok {
									if ls, ok := lc.Fun.(*ast.SelectorExpr); ok && ls.Sel.Name == "hasSubSchemas" {
										r1, p1, ok1 := c10Chain(ls.X)
										r2, p2, ok2 := c10Chain(se.X)
										guarded = ok1 && ok2 && r1 == r2 && p1 == p2
									}
								}
							}
						}
					}
					name := fname
					if fd.Recv != nil && len(fd.Recv.List) == 1 {
						name = psRecvName(fd.Recv.List[0].Type) + "." + fname
					}
					rows = append(rows, fmt.Sprintf("  .caller %s %v", pani_leanStr(name), guarded))
					return true
				})
			}
		}
	}
	if !seenHas {
		unrec("Schema.hasSubSchemas not found")
	}
	if !seenEmpty {
		unrec("Schema.IsEmpty not found")
	}
	var sb strings.Builder
	sb.WriteString("/- GENERATED by go/cmd/extract (table SubSchemaFields) from the repository's current source. Do not edit. -/\n")
	sb.WriteString("import KinModel.SchemaSites\nnamespace KinModel.Gen\nopen KinModel.SchemaSites\n\n")
	fmt.Fprintf(&sb, "-- rows: %d\n", len(rows))
	sb.WriteString("def subSchemaFields : List FieldRow := [\n" + strings.Join(rows, ",\n") + "]\n\nend KinModel.Gen\n")
	return sb.String(), nil
}

func schemaErrorSites(repo string) (string, error) {
	var rows []string
	for _, dir := range []string{"openapi3", "openapi3filter"} {
		_, files, names, err := c10ParseDir(repo, dir)
		if err != nil {
			return "", err
		}
		for i, f := range files {
			for _, d := range f.Decls {
				fd, ok := d.(*ast.FuncDecl)
				if !ok || fd.Body == nil {
					continue
				}
				fname := fd.Name.Name
				if fd.Recv != nil && len(fd.Recv.List) == 1 {
					fname = psRecvName(fd.Recv.List[0].Type) + "." + fname
				}
				ast.Inspect(fd.Body, func(n ast.Node) bool {
					cl, ok := n.(*ast.CompositeLit)
					if !ok {
						return true
					}
					tn := ""
					switch t := cl.Type.(type) {
					case *ast.Ident:
						tn = t.Name
					case *ast.SelectorExpr:
						tn = t.Sel.Name
					}
					if tn != "SchemaError" {
						return true
					}
					field, schemaSet := "", false
					for _, el := range cl.Elts {
						kv, ok := el.(*ast.KeyValueExpr)
						if !ok {
							field = "?" // positional literal: the rule does not read it
							continue
						}
						k, _ := kv.Key.(*ast.Ident)
						if k == nil {
							continue
						}
						switch k.Name {
						case "Schema":
							schemaSet = true
						case "SchemaField":
							if bl, ok := kv.Value.(*ast.BasicLit); ok && bl.Kind == token.STRING {
								if v, err := strconv.Unquote(bl.Value); err == nil {
									field = v
								} else {
									field = "?"
								}
							} else {
								field = "?"
							}
						}
					}
					rows = append(rows, fmt.Sprintf("  .lit %s %s %s %v", pani_leanStr(names[i]), pani_leanStr(fname), pani_leanStr(field), schemaSet))
					return true
				})
			}
		}
	}
	if len(rows) == 0 {
		fmt.Fprintln(os.Stderr, "SchemaErrorSites: no literal found")
	}
	var sb strings.Builder
	sb.WriteString("/- GENERATED by go/cmd/extract (table SchemaErrorSites) from the repository's current source. Do not edit. -/\n")
	sb.WriteString("import KinModel.SchemaSites\nnamespace KinModel.Gen\nopen KinModel.SchemaSites\n\n")
	fmt.Fprintf(&sb, "-- rows: %d\n", len(rows))
	sb.WriteString("def schemaErrorSites : List ErrRow := [\n" + strings.Join(rows, ",\n") + "]\n\nend KinModel.Gen\n")
	return sb.String(), nil
}
