package main

// Table MapRanges (C10): every `range` over a map in the functions statically reachable from the traffic entry
// points (the call graph of table PanicSites). Go's map iteration order is random, so a loop whose effect depends
// on the order makes the outcome of one and the same exchange vary from run to run (finding #35: a panic in 80 %
// of the runs). Classes read syntactically:
//   sortedKeys  — the body only collects keys/values into a slice (`s = append(s, k)`) and the function later
//                 sorts that slice (sort.* / slices.Sort*);
//   mapCopy     — the body is `m2[k] = v` with the range's own key and value (distinct keys: order-free);
//   noVars      — `for range m` (only the number of entries matters);
//   unsorted    — everything else: must be discharged by the hand-written expectations in
//                 KinModel/MapRanges.lean (an order-insensitivity argument, or an open finding).
// Rows are groups (file, function, class) with a count, like PanicSites.

import (
	"fmt"
	"go/ast"
	"go/types"
	"os"
	"sort"
	"strings"
)

func init() { register("MapRanges", mapRanges) }

type mrKey struct{ file, fn, class string }

func mapRanges(repo string) (string, error) {
	w, err := psLoad(repo)
	if err != nil {
		return "", err
	}
	groups := map[mrKey][]string{}
	var names []*types.Func
	for o := range w.reach {
		names = append(names, o)
	}
	sort.Slice(names, func(i, j int) bool { return names[i].FullName() < names[j].FullName() })
	for _, o := range names {
		f := w.funcs[o]
		pkg := f.pkg
		info := pkg.TypesInfo
		fileName := pkg.Fset.Position(f.decl.Pos()).Filename
		short := fileName[strings.LastIndex(fileName, "/")+1:]
		dir := fileName[:strings.LastIndex(fileName, "/")]
		short = dir[strings.LastIndex(dir, "/")+1:] + "/" + short
		fname := f.decl.Name.Name
		if f.decl.Recv != nil && len(f.decl.Recv.List) > 0 {
			fname = psRecvName(f.decl.Recv.List[0].Type) + "." + fname
		}
		src, _ := os.ReadFile(fileName)
		text := func(e ast.Node) string {
			p, q := pkg.Fset.Position(e.Pos()), pkg.Fset.Position(e.End())
			if p.Offset < 0 || q.Offset > len(src) || p.Offset > q.Offset {
				return "?"
			}
			return strings.Join(strings.Fields(string(src[p.Offset:q.Offset])), " ")
		}
		// slices handed to a sorting function anywhere in this function
		sorted := map[string]bool{}
		ast.Inspect(f.decl.Body, func(n ast.Node) bool {
			c, ok := n.(*ast.CallExpr)
			if !ok {
				return true
			}
			se, ok := c.Fun.(*ast.SelectorExpr)
			if !ok {
				return true
			}
			id, ok := se.X.(*ast.Ident)
			if !ok || (id.Name != "sort" && id.Name != "slices") || len(c.Args) == 0 {
				return true
			}
			if !strings.HasPrefix(se.Sel.Name, "S") { // Strings, Slice, SliceStable, Sort, Stable, SortFunc, …
				return true
			}
			arg := c.Args[0]
			// sort.Sort(sort.StringSlice(x)) and the like
			if inner, ok := arg.(*ast.CallExpr); ok && len(inner.Args) == 1 {
				arg = inner.Args[0]
			}
			sorted[text(arg)] = true
			return true
		})
		ast.Inspect(f.decl.Body, func(n ast.Node) bool {
			rs, ok := n.(*ast.RangeStmt)
			if !ok {
				return true
			}
			tv, ok := info.Types[rs.X]
			if !ok {
				return true
			}
			if _, isMap := tv.Type.Underlying().(*types.Map); !isMap {
				return true
			}
			class := "unsorted"
			blank := func(e ast.Expr) bool {
				if e == nil {
					return true
				}
				id, ok := e.(*ast.Ident)
				return ok && id.Name == "_"
			}
			switch {
			case blank(rs.Key) && blank(rs.Value):
				class = "noVars"
			case len(rs.Body.List) == 1:
				st := rs.Body.List[0]
				// `if cond { s = append(s, k) }`: a filtered collection
				if is, ok := st.(*ast.IfStmt); ok && is.Else == nil && is.Init == nil && len(is.Body.List) == 1 {
					st = is.Body.List[0]
				}
				if as, ok := st.(*ast.AssignStmt); ok && len(as.Lhs) == 1 && len(as.Rhs) == 1 {
					// s = append(s, k)
					if call, ok := as.Rhs[0].(*ast.CallExpr); ok {
						if id, ok := call.Fun.(*ast.Ident); ok && id.Name == "append" && len(call.Args) == 2 &&
							text(call.Args[0]) == text(as.Lhs[0]) && sorted[text(as.Lhs[0])] {
							class = "sortedKeys"
						}
					}
					// m2[k] = v: entries copied into another map under the same key (distinct keys: any order gives the same map)
					if ix, ok := as.Lhs[0].(*ast.IndexExpr); ok && st == rs.Body.List[0] && rs.Key != nil && text(ix.Index) == text(rs.Key) {
						if tv2, ok := info.Types[ix.X]; ok {
							if _, isMap := tv2.Type.Underlying().(*types.Map); isMap {
								if rs.Value != nil && text(as.Rhs[0]) == text(rs.Value) {
									class = "mapCopy"
								}
							}
						}
					}
				}
			}
			k := mrKey{short, fname, class}
			groups[k] = append(groups[k], text(rs.X))
			return true
		})
	}
	var keys []mrKey
	for k := range groups {
		keys = append(keys, k)
	}
	sort.Slice(keys, func(i, j int) bool {
		a, b := keys[i], keys[j]
		if a.file != b.file {
			return a.file < b.file
		}
		if a.fn != b.fn {
			return a.fn < b.fn
		}
		return a.class < b.class
	})
	var sb strings.Builder
	sb.WriteString("/- GENERATED by go/cmd/extract (table MapRanges) from the repository's current source. Do not edit. -/\n")
	sb.WriteString("import KinModel.MapRanges\nnamespace KinModel.Gen\nopen KinModel.MapRanges\n\n")
	fmt.Fprintf(&sb, "-- rows: %d\n", len(keys)+len(w.unrec))
	fmt.Fprintf(&sb, "-- reachable functions: %d\n", len(w.reach))
	sb.WriteString("def mapRanges : List Row := [\n")
	first := true
	sep := func() {
		if !first {
			sb.WriteString(",\n")
		}
		first = false
	}
	for _, u := range w.unrec {
		sep()
		fmt.Fprintf(&sb, "  .unrecognised %s", pani_leanStr(u))
	}
	total := 0
	for _, k := range keys {
		sep()
		ex := groups[k]
		total += len(ex)
		sort.Strings(ex)
		var qs []string
		for _, e := range ex {
			if len(e) > 70 {
				e = e[:70] + "…"
			}
			qs = append(qs, pani_leanStr(e))
		}
		fmt.Fprintf(&sb, "  .range %s %s .%s %d [%s]", pani_leanStr(k.file), pani_leanStr(k.fn), k.class, len(ex), strings.Join(qs, ", "))
	}
	sb.WriteString("]\n\n")
	fmt.Fprintf(&sb, "-- individual range statements over maps: %d\n", total)
	sb.WriteString("end KinModel.Gen\n")
	return sb.String(), nil
}
