package main

// Table `Descent` (C04): for every Validate/validate method of package openapi3, the ordered list of
// child checks it calls (other Validate methods, validateExtensions, validateExampleValue, VisitJSON,
// ValidateIdentifier), each with
//   - the receiver type of the caller and of the callee,
//   - the *origin* of the value the callee is applied to (a syntactic path such as
//     "operation.Parameters" or "schema.OneOf[].Value", obtained by following `x := e` definitions and
//     `for _, x := range e` clauses inside the method),
//   - the validation-option flags that dominate the call, with polarity ("+flag" / "-flag"): enclosing
//     `if` conditions that are conjunctions of flag reads, and preceding `if flag { return … }` statements.
//   - what the caller does with the error the callee returns (`onErr`): "propagate" when the call is the operand
//     of a `return`, or sits in `if err := CALL; err != nil { …; return <non-nil> }` (or a naked return of the
//     named error result), or is `_, err := CALL` directly followed by `return err`; "swallow" when the
//     `err != nil` branch ends in `return nil` (the method then reports success and stops); "ignore" when that
//     branch is a bare `continue` (the error is dropped and the method goes on with the next element).
//   - the *structural* conditions that dominate the call, as literals starting with "@": "@nonnil:<origin>" /
//     "@isnil:<origin>" for `x != nil` / `x == nil` conjuncts of enclosing `if`s (negated in the else branch),
//     "@cond:<source text>" / "@not:cond:<…>" for any other non-flag conjunct. The test `err != nil` of the error
//     of a recorded call is not a structural condition (see onErr);
//   - an *accepting* early return (`return nil`, `return validateExtensions(…)`, `return x.Validate(…)`) that is
//     dominated by literals c1 ∧ … ∧ cn (flag or structural), at whatever nesting depth, ends the method when they
//     hold: every call recorded textually after it is reached only under ¬c1 ∨ … ∨ ¬cn, so its row is split into
//     one row per ¬ci (rows that already carry some ¬ci stay as they are, contradictory ones are dropped).
// Plus one row per method with the set of option flags the method reads at all.
// Everything the rules cannot read becomes an `unrecognised` row.

import (
	"fmt"
	"go/ast"
	"go/token"
	"go/types"
	"sort"
	"strings"

	"golang.org/x/tools/go/packages"
)

func init() { register("Descent", extractDescent) }

type descentEdge struct {
	src, dst, via string
	guards       []string
	onErr        string // what the caller does with the callee's error: "propagate" | "swallow" | "ignore"
	pos          string
}

func extractDescent(repo string) (string, error) {
	cfg := &packages.Config{Mode: packages.NeedName | packages.NeedFiles | packages.NeedSyntax | packages.NeedTypes | packages.NeedTypesInfo | packages.NeedDeps | packages.NeedImports, Dir: repo}
	pkgs, err := packages.Load(cfg, "./openapi3")
	if err != nil {
		return "", err
	}
	if len(pkgs) != 1 {
		return "", fmt.Errorf("expected one package, got %d", len(pkgs))
	}
	pkg := pkgs[0]
	if len(pkg.Errors) > 0 {
		return "", fmt.Errorf("package errors: %v", pkg.Errors)
	}
	var optStruct *types.Struct
	if o := pkg.Types.Scope().Lookup("ValidationOptions"); o != nil {
		optStruct, _ = o.Type().Underlying().(*types.Struct)
	}
	if optStruct == nil {
		return "", fmt.Errorf("ValidationOptions struct not found")
	}
	isFlag := func(obj types.Object) bool {
		for i := 0; i < optStruct.NumFields(); i++ {
			if optStruct.Field(i) == obj {
				return true
			}
		}
		return false
	}
	info := pkg.TypesInfo
	var edges []descentEdge
	var unrec []string
	reads := map[string][]string{}
	methods := []string{}

	files := append([]*ast.File{}, pkg.Syntax...)
	sort.Slice(files, func(i, j int) bool {
		return pkg.Fset.Position(files[i].Pos()).Filename < pkg.Fset.Position(files[j].Pos()).Filename
	})
	for _, f := range files {
		fn := pkg.Fset.Position(f.Pos()).Filename
		if strings.HasSuffix(fn, "_test.go") {
			continue
		}
		short := fn[strings.LastIndex(fn, "/")+1:]
		for _, d := range f.Decls {
			fd, ok := d.(*ast.FuncDecl)
			if !ok || fd.Recv == nil || (fd.Name.Name != "Validate" && fd.Name.Name != "validate") || fd.Body == nil {
				continue
			}
			// only the document validators: first parameter is a context.Context
			if fd.Type.Params == nil || len(fd.Type.Params.List) == 0 {
				continue
			}
			if pt := info.TypeOf(fd.Type.Params.List[0].Type); pt == nil || pt.String() != "context.Context" {
				continue
			}
			from := descTypeName(info.TypeOf(fd.Recv.List[0].Type))
			if fd.Name.Name == "validate" {
				from += ".validate"
			}
			methods = append(methods, from)
			where := func(n ast.Node) string { return fmt.Sprintf("%s:%d", short, pkg.Fset.Position(n.Pos()).Line) }

			// definitions: object -> defining expression (first definition wins), range values/keys
			defs := map[types.Object]ast.Expr{}
			rangeOf := map[types.Object]ast.Expr{}
			rangeKey := map[types.Object]ast.Expr{}
			appended := map[types.Object]ast.Expr{} // xs = append(xs, e): xs holds values e
			ast.Inspect(fd.Body, func(n ast.Node) bool {
				switch s := n.(type) {
				case *ast.AssignStmt:
					if s.Tok == token.ASSIGN && len(s.Lhs) == 1 && len(s.Rhs) == 1 {
						if id, ok := s.Lhs[0].(*ast.Ident); ok {
							if call, ok := s.Rhs[0].(*ast.CallExpr); ok && len(call.Args) == 2 {
								if f, ok := call.Fun.(*ast.Ident); ok && f.Name == "append" {
									if a0, ok := call.Args[0].(*ast.Ident); ok && a0.Name == id.Name {
										if obj := info.Uses[id]; obj != nil {
											if _, seen := appended[obj]; !seen {
												appended[obj] = call.Args[1]
											}
										}
									}
								}
							}
						}
					}
					if s.Tok == token.DEFINE && len(s.Lhs) == len(s.Rhs) {
						for i, l := range s.Lhs {
							if id, ok := l.(*ast.Ident); ok {
								if obj := info.Defs[id]; obj != nil {
									if _, seen := defs[obj]; !seen {
										defs[obj] = s.Rhs[i]
									}
								}
							}
						}
					}
				case *ast.RangeStmt:
					if s.Tok == token.DEFINE {
						if id, ok := s.Value.(*ast.Ident); ok && id != nil {
							if obj := info.Defs[id]; obj != nil {
								rangeOf[obj] = s.X
							}
						}
						if id, ok := s.Key.(*ast.Ident); ok && id != nil {
							if obj := info.Defs[id]; obj != nil {
								rangeKey[obj] = s.X
							}
						}
					}
				}
				return true
			})
			var origin func(e ast.Expr, depth int) string
			origin = func(e ast.Expr, depth int) string {
				if depth > 12 {
					return "?"
				}
				switch x := e.(type) {
				case *ast.Ident:
					obj := info.Uses[x]
					if obj == nil {
						obj = info.Defs[x]
					}
					if obj != nil {
						if r, ok := defs[obj]; ok {
							return origin(r, depth+1)
						}
						if r, ok := rangeOf[obj]; ok {
							// ranging over a slice that was filled by xs = append(xs, e) (the sorted-keys idiom)
							if rid, ok := r.(*ast.Ident); ok {
								if robj := info.Uses[rid]; robj != nil {
									if e, ok := appended[robj]; ok {
										return origin(e, depth+1)
									}
								}
							}
							return origin(r, depth+1) + "[]"
						}
						if r, ok := rangeKey[obj]; ok {
							return "key(" + origin(r, depth+1) + ")"
						}
					}
					return x.Name
				case *ast.SelectorExpr:
					return origin(x.X, depth+1) + "." + x.Sel.Name
				case *ast.IndexExpr:
					return origin(x.X, depth+1) + "[]"
				case *ast.StarExpr:
					return origin(x.X, depth+1)
				case *ast.ParenExpr:
					return origin(x.X, depth+1)
				case *ast.UnaryExpr:
					if x.Op == token.AND {
						return origin(x.X, depth+1)
					}
				case *ast.CallExpr:
					if sel, ok := x.Fun.(*ast.SelectorExpr); ok {
						return origin(sel.X, depth+1) + "." + sel.Sel.Name + "()"
					}
					if id, ok := x.Fun.(*ast.Ident); ok && id.Name == "getValidationOptions" {
						return "<opts>"
					}
				}
				return "?"
			}
			// flagOf: expression reads an option flag (directly or through a local bound to the options)
			flagOf := func(e ast.Expr) string {
				if sel, ok := e.(*ast.SelectorExpr); ok {
					if obj, ok := info.Uses[sel.Sel].(*types.Var); ok && obj.IsField() && isFlag(obj) {
						return obj.Name()
					}
				}
				return ""
			}
			isNilIdent := func(e ast.Expr) bool {
				id, ok := e.(*ast.Ident)
				if !ok || id.Name != "nil" {
					return false
				}
				_, isNil := info.Uses[id].(*types.Nil)
				return isNil
			}
			// literals of a condition: conjunction of (possibly negated) flag reads (lits) and structural
			// descriptors of the other conjuncts (structs); other = some conjunct is not a flag read
			var conj func(e ast.Expr) (lits []string, structs []string, other bool)
			structOf := func(e ast.Expr) string {
				if b, ok := e.(*ast.BinaryExpr); ok && (b.Op == token.NEQ || b.Op == token.EQL) && isNilIdent(b.Y) {
					o := origin(b.X, 0)
					if !strings.Contains(o, "?") {
						if b.Op == token.NEQ {
							return "@nonnil:" + o
						}
						return "@isnil:" + o
					}
				}
				return "@cond:" + types.ExprString(e)
			}
			conj = func(e ast.Expr) ([]string, []string, bool) {
				switch x := e.(type) {
				case *ast.ParenExpr:
					return conj(x.X)
				case *ast.BinaryExpr:
					if x.Op == token.LAND {
						a, sa, oa := conj(x.X)
						b, sb, ob := conj(x.Y)
						return append(a, b...), append(sa, sb...), oa || ob
					}
				case *ast.UnaryExpr:
					if x.Op == token.NOT {
						if f := flagOf(x.X); f != "" {
							return []string{"-" + f}, nil, false
						}
					}
				}
				if f := flagOf(e); f != "" {
					return []string{"+" + f}, nil, false
				}
				// any flag buried in an unreadable shape?
				buried := false
				ast.Inspect(e, func(n ast.Node) bool {
					if ex, ok := n.(ast.Expr); ok && flagOf(ex) != "" {
						buried = true
					}
					return true
				})
				if buried {
					return []string{"?"}, nil, true
				}
				return nil, []string{structOf(e)}, true
			}
			neg := func(l string) string {
				switch {
				case strings.HasPrefix(l, "+"):
					return "-" + l[1:]
				case strings.HasPrefix(l, "-"):
					return "+" + l[1:]
				case strings.HasPrefix(l, "@nonnil:"):
					return "@isnil:" + l[len("@nonnil:"):]
				case strings.HasPrefix(l, "@isnil:"):
					return "@nonnil:" + l[len("@isnil:"):]
				case strings.HasPrefix(l, "@not:"):
					return "@" + l[len("@not:"):]
				case strings.HasPrefix(l, "@"):
					return "@not:" + l[1:]
				}
				return l
			}
			endsWithReturn := func(b *ast.BlockStmt) bool {
				if b == nil || len(b.List) == 0 {
					return false
				}
				_, ok := b.List[len(b.List)-1].(*ast.ReturnStmt)
				return ok
			}

			// what happens to the error of a call: call expression -> "propagate" | "swallow" ("" = unreadable)
			callCtx := map[*ast.CallExpr]string{}
			namedErr := map[types.Object]bool{}
			if fd.Type.Results != nil {
				for _, fld := range fd.Type.Results.List {
					for _, nm := range fld.Names {
						if obj := info.Defs[nm]; obj != nil && obj.Type().String() == "error" {
							namedErr[obj] = true
						}
					}
				}
			}
			objOf := func(e ast.Expr) types.Object {
				id, ok := e.(*ast.Ident)
				if !ok {
					return nil
				}
				if o := info.Uses[id]; o != nil {
					return o
				}
				return info.Defs[id]
			}
			errTests := map[*ast.IfStmt]bool{} // `if err := CALL; err != nil {`: the test of a call's error
			ast.Inspect(fd.Body, func(n ast.Node) bool {
				switch s := n.(type) {
				case *ast.ReturnStmt:
					if len(s.Results) > 0 {
						if call, ok := s.Results[len(s.Results)-1].(*ast.CallExpr); ok {
							callCtx[call] = "propagate"
						}
					}
				case *ast.IfStmt:
					as, ok := s.Init.(*ast.AssignStmt)
					if !ok || len(as.Rhs) != 1 || len(as.Lhs) == 0 {
						return true
					}
					call, ok := as.Rhs[0].(*ast.CallExpr)
					if !ok {
						return true
					}
					errObj := objOf(as.Lhs[len(as.Lhs)-1])
					cond, ok := s.Cond.(*ast.BinaryExpr)
					if !ok || cond.Op != token.NEQ || errObj == nil || objOf(cond.X) != errObj || !isNilIdent(cond.Y) {
						return true
					}
					if s.Body == nil || len(s.Body.List) == 0 {
						return true
					}
					errTests[s] = true
					if br, isBr := s.Body.List[len(s.Body.List)-1].(*ast.BranchStmt); isBr && br.Tok == token.CONTINUE && br.Label == nil && len(s.Body.List) == 1 && s.Else == nil {
						callCtx[call] = "ignore" // `if err := CALL; err != nil { continue }`: the error is dropped, the method goes on
						return true
					}
					ret, ok := s.Body.List[len(s.Body.List)-1].(*ast.ReturnStmt)
					if !ok {
						return true
					}
					switch {
					case len(ret.Results) == 0:
						if namedErr[errObj] {
							callCtx[call] = "propagate"
						}
					case isNilIdent(ret.Results[len(ret.Results)-1]):
						callCtx[call] = "swallow"
					default:
						callCtx[call] = "propagate"
					}
				case *ast.BlockStmt:
					for i, st := range s.List {
						as, ok := st.(*ast.AssignStmt)
						if !ok || len(as.Rhs) != 1 || len(as.Lhs) == 0 || i+1 >= len(s.List) {
							continue
						}
						call, ok := as.Rhs[0].(*ast.CallExpr)
						if !ok {
							continue
						}
						ret, ok := s.List[i+1].(*ast.ReturnStmt)
						if !ok || len(ret.Results) == 0 {
							continue
						}
						if eo := objOf(as.Lhs[len(as.Lhs)-1]); eo != nil && objOf(ret.Results[len(ret.Results)-1]) == eo {
							callCtx[call] = "propagate"
						}
					}
				}
				return true
			})

			seenFlags := map[string]bool{}
			var pendingSkips [][]string // conjunctions of literals under which an accepting return was met earlier in the text
			acceptingReturn := func(r *ast.ReturnStmt) bool {
				if len(r.Results) == 0 {
					return false
				}
				switch x := r.Results[len(r.Results)-1].(type) {
				case *ast.Ident:
					return isNilIdent(x)
				case *ast.CallExpr:
					switch f := x.Fun.(type) {
					case *ast.Ident:
						return f.Name == "validateExtensions"
					case *ast.SelectorExpr:
						return f.Sel.Name == "Validate" || f.Sel.Name == "validate"
					}
				}
				return false
			}
			var walkStmts func(list []ast.Stmt, guards []string)
			var walkNode func(n ast.Node, guards []string)
			record := func(call *ast.CallExpr, guards []string) {
				var dst, via string
				switch fun := call.Fun.(type) {
				case *ast.SelectorExpr:
					switch fun.Sel.Name {
					case "Validate", "validate":
						t := info.TypeOf(fun.X)
						if t == nil {
							unrec = append(unrec, where(call))
							return
						}
						dst = descTypeName(t)
						if fun.Sel.Name == "validate" {
							dst += ".validate"
						}
						via = origin(fun.X, 0)
					case "VisitJSON":
						dst = "<VisitJSON>"
						via = origin(fun.X, 0)
						if len(call.Args) > 0 {
							via += " @ " + origin(call.Args[0], 0)
						}
					default:
						return
					}
				case *ast.Ident:
					switch fun.Name {
					case "validateExtensions", "ValidateIdentifier":
						dst = "<" + fun.Name + ">"
						via = origin(call.Args[len(call.Args)-1], 0)
					case "validateExampleValue":
						dst = "<validateExampleValue>"
						via = origin(call.Args[2], 0) + " @ " + origin(call.Args[1], 0)
					default:
						return
					}
				default:
					return
				}
				if strings.Contains(via, "?") {
					unrec = append(unrec, where(call))
					return
				}
				g := append([]string{}, guards...)
				for _, x := range g {
					if x == "?" {
						unrec = append(unrec, where(call))
						return
					}
				}
				has := func(r []string, y string) bool {
					for _, x := range r {
						if x == y {
							return true
						}
					}
					return false
				}
				rows := [][]string{g}
				for _, c := range pendingSkips {
					var next [][]string
					for _, r := range rows {
						already := false
						for _, l := range c {
							if has(r, neg(l)) {
								already = true
							}
						}
						if already {
							next = append(next, r)
							continue
						}
						for _, l := range c {
							if has(r, l) {
								continue // r ∧ ¬l would need l and ¬l … only if l is the whole conjunction is the row dead
							}
							next = append(next, append(append([]string{}, r...), neg(l)))
						}
					}
					rows = next
				}
				oe := callCtx[call]
				if oe == "" {
					unrec = append(unrec, where(call)+" (error of the call neither returned nor tested)")
					return
				}
				seenRow := map[string]bool{}
				for _, r := range rows {
					k := strings.Join(r, "\x00")
					if seenRow[k] {
						continue
					}
					seenRow[k] = true
					edges = append(edges, descentEdge{src: from, dst: dst, via: via, guards: r, onErr: oe, pos: where(call)})
				}
			}
			walkNode = func(n ast.Node, guards []string) {
				if n == nil {
					return
				}
				switch s := n.(type) {
				case *ast.BlockStmt:
					walkStmts(s.List, guards)
				case *ast.IfStmt:
					if s.Init != nil {
						walkNode(s.Init, guards)
					}
					lits, structs, other := conj(s.Cond)
					if errTests[s] {
						structs = nil // the test of a recorded call's error is not a structural condition
					}
					walkNode(s.Cond, guards)
					walkNode(s.Body, append(append(append([]string{}, guards...), lits...), structs...))
					if s.Else != nil {
						eg := append([]string{}, guards...)
						if len(lits) == 1 && !other {
							eg = append(eg, neg(lits[0]))
						} else if len(lits) > 0 {
							eg = append(eg, "?")
						} else if len(structs) == 1 {
							eg = append(eg, neg(structs[0]))
						} else if len(structs) > 1 {
							eg = append(eg, "@not:cond:"+types.ExprString(s.Cond))
						}
						walkNode(s.Else, eg)
					}
				case *ast.CallExpr:
					record(s, guards)
					for _, a := range s.Args {
						walkNode(a, guards)
					}
					walkNode(s.Fun, guards)
				case *ast.FuncLit:
					walkNode(s.Body, guards)
				case *ast.ReturnStmt:
					for _, r := range s.Results {
						walkNode(r, guards)
					}
					if acceptingReturn(s) {
						var c []string
						for _, l := range guards {
							if strings.HasPrefix(l, "+") || strings.HasPrefix(l, "-") || strings.HasPrefix(l, "@") {
								c = append(c, l)
							}
						}
						if len(c) > 0 {
							pendingSkips = append(pendingSkips, c)
						}
					}
				default:
					// generic traversal of direct children, keeping the guard set
					ast.Inspect(n, func(c ast.Node) bool {
						if c == n || c == nil {
							return true
						}
						switch c.(type) {
						case *ast.BlockStmt, *ast.IfStmt, *ast.CallExpr, *ast.FuncLit, *ast.ReturnStmt:
							walkNode(c, guards)
							return false
						}
						return true
					})
				}
			}
			walkStmts = func(list []ast.Stmt, guards []string) {
				g := append([]string{}, guards...)
				for _, st := range list {
					walkNode(st, g)
					if is, ok := st.(*ast.IfStmt); ok && is.Else == nil && endsWithReturn(is.Body) {
						lits, _, other := conj(is.Cond)
						if len(lits) == 1 && !other {
							g = append(append([]string{}, g...), neg(lits[0]))
						} else if len(lits) > 0 {
							// a flag inside a compound early-return condition: cannot be read
							g = append(append([]string{}, g...), "?")
						}
					}
				}
			}
			walkNode(fd.Body, nil)
			ast.Inspect(fd.Body, func(n ast.Node) bool {
				if e, ok := n.(ast.Expr); ok {
					if f := flagOf(e); f != "" {
						seenFlags[f] = true
					}
				}
				return true
			})
			fl := []string{}
			for k := range seenFlags {
				fl = append(fl, k)
			}
			sort.Strings(fl)
			reads[from] = fl
		}
	}
	sort.Strings(methods)

	q := func(s string) string { return fmt.Sprintf("%q", s) }
	ql := func(l []string) string {
		parts := make([]string, len(l))
		for i, s := range l {
			parts[i] = q(s)
		}
		return "[" + strings.Join(parts, ", ") + "]"
	}
	var b strings.Builder
	b.WriteString("-- GENERATED by go/cmd/extract (table Descent) from the repository under test. Do not edit.\n")
	fmt.Fprintf(&b, "-- rows: %d\n", len(edges)+len(methods)+len(unrec))
	b.WriteString("namespace KinModel.Gen\n\n")
	b.WriteString("/-- one child check called by a Validate method -/\n")
	b.WriteString("structure DescentRow where\n  src : String\n  dst : String\n  via : String\n  guards : List String\n  onErr : String\n  deriving DecidableEq, Repr\n\n")
	b.WriteString("def descent : List DescentRow := [\n")
	for i, e := range edges {
		sep := ","
		if i == len(edges)-1 {
			sep = ""
		}
		fmt.Fprintf(&b, "  ⟨%s, %s, %s, %s, %s⟩%s -- %s\n", q(e.src), q(e.dst), q(e.via), ql(e.guards), q(e.onErr), sep, e.pos)
	}
	b.WriteString("]\n\n")
	b.WriteString("/-- option flags read anywhere in the method -/\ndef descentReads : List (String × List String) := [\n")
	for i, m := range methods {
		sep := ","
		if i == len(methods)-1 {
			sep = ""
		}
		fmt.Fprintf(&b, "  (%s, %s)%s\n", q(m), ql(reads[m]), sep)
	}
	b.WriteString("]\n\n")
	b.WriteString("/-- call sites the extraction rules could not read -/\ndef descentUnrecognised : List String := " + ql(unrec) + "\n\n")
	b.WriteString("end KinModel.Gen\n")
	return b.String(), nil
}

func descTypeName(t types.Type) string {
	for {
		if p, ok := t.(*types.Pointer); ok {
			t = p.Elem()
			continue
		}
		break
	}
	s := t.String()
	if i := strings.LastIndex(s, "."); i >= 0 {
		s = s[i+1:]
	}
	return s
}
