package main

// Table `ParamStyles` (C04): the (in, style, explode) combinations accepted by Parameter.Validate — the case
// list of its `switch { case parameter.In == … && sm.Style == … && [!]sm.Explode, … : smSupported = true }`
// — and the defaults of Parameter.SerializationMethod (per `in`: default style, default explode).
// Likewise the (style, explode) lists of Header.Validate and Encoding.Validate with the defaults of their
// SerializationMethod. Constants are resolved to their string values through go/types. Any case expression or default
// assignment of another shape becomes an `unrecognised` entry.

import (
	"fmt"
	"go/ast"
	"go/constant"
	"go/token"
	"sort"
	"strings"

	"golang.org/x/tools/go/packages"
)

func init() { register("ParamStyles", extractParamStyles) }

func extractParamStyles(repo string) (string, error) {
	cfg := &packages.Config{Mode: packages.NeedName | packages.NeedFiles | packages.NeedSyntax | packages.NeedTypes | packages.NeedTypesInfo | packages.NeedDeps | packages.NeedImports, Dir: repo}
	pkgs, err := packages.Load(cfg, "./openapi3")
	if err != nil {
		return "", err
	}
	if len(pkgs) != 1 || len(pkgs[0].Errors) > 0 {
		return "", fmt.Errorf("cannot load openapi3: %v", pkgs[0].Errors)
	}
	pkg := pkgs[0]
	info := pkg.TypesInfo
	strConst := func(e ast.Expr) (string, bool) {
		if tv, ok := info.Types[e]; ok && tv.Value != nil && tv.Value.Kind() == constant.String {
			return constant.StringVal(tv.Value), true
		}
		return "", false
	}
	type row struct {
		in, style string
		explode   bool
	}
	var rows []row
	type dfl struct {
		in, style string
		explode   bool
	}
	var dfls []dfl
	var unrec []string
	found := 0
	// Header.Validate: `if smSupported := false || sm.Style == X && [!]sm.Explode || …; !smSupported {`
	type hrow struct {
		style   string
		explode bool
	}
	var hrows []hrow
	hdrDefaultStyle, hdrDefaultExplode, haveHdrStyle, haveHdrExplode := "", false, false, false
	hfound := 0
	for _, f := range pkg.Syntax {
		fn := pkg.Fset.Position(f.Pos()).Filename
		if !strings.HasSuffix(fn, "/header.go") {
			continue
		}
		where := func(n ast.Node) string { return fmt.Sprintf("header.go:%d", pkg.Fset.Position(n.Pos()).Line) }
		for _, d := range f.Decls {
			fd, ok := d.(*ast.FuncDecl)
			if !ok || fd.Recv == nil || fd.Body == nil || descTypeName(info.TypeOf(fd.Recv.List[0].Type)) != "Header" {
				continue
			}
			switch fd.Name.Name {
			case "Validate":
				ast.Inspect(fd.Body, func(n ast.Node) bool {
					as, ok := n.(*ast.AssignStmt)
					if !ok || len(as.Lhs) != 1 || len(as.Rhs) != 1 {
						return true
					}
					if id, ok := as.Lhs[0].(*ast.Ident); !ok || id.Name != "smSupported" {
						return true
					}
					hfound++
					var disj func(x ast.Expr)
					one := func(x ast.Expr) {
						var r hrow
						okAll, haveStyle, haveExpl := true, false, false
						var conj func(y ast.Expr)
						conj = func(y ast.Expr) {
							switch b := y.(type) {
							case *ast.ParenExpr:
								conj(b.X)
							case *ast.BinaryExpr:
								if b.Op == token.LAND {
									conj(b.X)
									conj(b.Y)
									return
								}
								if b.Op == token.EQL {
									if sel, ok := b.X.(*ast.SelectorExpr); ok && sel.Sel.Name == "Style" {
										if v, ok := strConst(b.Y); ok {
											r.style, haveStyle = v, true
											return
										}
									}
								}
								okAll = false
							case *ast.UnaryExpr:
								if sel, ok := b.X.(*ast.SelectorExpr); ok && b.Op == token.NOT && sel.Sel.Name == "Explode" {
									r.explode, haveExpl = false, true
									return
								}
								okAll = false
							case *ast.SelectorExpr:
								if b.Sel.Name == "Explode" {
									r.explode, haveExpl = true, true
									return
								}
								okAll = false
							default:
								okAll = false
							}
						}
						conj(x)
						if okAll && haveStyle && haveExpl {
							hrows = append(hrows, r)
						} else {
							unrec = append(unrec, where(x))
						}
					}
					disj = func(x ast.Expr) {
						switch b := x.(type) {
						case *ast.ParenExpr:
							disj(b.X)
							return
						case *ast.BinaryExpr:
							if b.Op == token.LOR {
								disj(b.X)
								disj(b.Y)
								return
							}
						case *ast.Ident:
							if b.Name == "false" {
								return
							}
						}
						one(x)
					}
					disj(as.Rhs[0])
					return true
				})
			case "SerializationMethod":
				hfound++
				ast.Inspect(fd.Body, func(m ast.Node) bool {
					as, ok := m.(*ast.AssignStmt)
					if !ok || len(as.Lhs) != 1 || len(as.Rhs) != 1 {
						return true
					}
					id, ok := as.Lhs[0].(*ast.Ident)
					if !ok {
						return true
					}
					if id.Name == "style" && as.Tok == token.ASSIGN {
						if v, ok := strConst(as.Rhs[0]); ok {
							hdrDefaultStyle, haveHdrStyle = v, true
						}
					}
					if id.Name == "explode" && as.Tok == token.DEFINE {
						if b, ok := as.Rhs[0].(*ast.Ident); ok && (b.Name == "true" || b.Name == "false") {
							hdrDefaultExplode, haveHdrExplode = b.Name == "true", true
						}
					}
					return true
				})
			}
		}
	}
	if hfound != 2 || !haveHdrStyle || !haveHdrExplode {
		unrec = append(unrec, fmt.Sprintf("header.go: expected the smSupported assignment and SerializationMethod with defaults, found %d", hfound))
	}
	// Encoding.Validate: `switch { case sm.Style == X && [!]sm.Explode, …: default: return … }` (the cases with an
	// empty body are the supported ones) and Encoding.SerializationMethod: `sm := &SerializationMethod{Style: X, Explode: b}`
	var erows []hrow
	encDefaultStyle, encDefaultExplode, haveEncDefault := "", false, false
	efound := 0
	for _, f := range pkg.Syntax {
		fn := pkg.Fset.Position(f.Pos()).Filename
		if !strings.HasSuffix(fn, "/encoding.go") {
			continue
		}
		where := func(n ast.Node) string { return fmt.Sprintf("encoding.go:%d", pkg.Fset.Position(n.Pos()).Line) }
		for _, d := range f.Decls {
			fd, ok := d.(*ast.FuncDecl)
			if !ok || fd.Recv == nil || fd.Body == nil || descTypeName(info.TypeOf(fd.Recv.List[0].Type)) != "Encoding" {
				continue
			}
			switch fd.Name.Name {
			case "Validate":
				ast.Inspect(fd.Body, func(n ast.Node) bool {
					sw, ok := n.(*ast.SwitchStmt)
					if !ok || sw.Tag != nil {
						return true
					}
					efound++
					sawDefault := false
					for _, cl := range sw.Body.List {
						cc := cl.(*ast.CaseClause)
						if cc.List == nil {
							// default: must end in a return of a non-nil error
							sawDefault = true
							okDefault := false
							if len(cc.Body) > 0 {
								if ret, ok := cc.Body[len(cc.Body)-1].(*ast.ReturnStmt); ok && len(ret.Results) == 1 {
									if id, isId := ret.Results[0].(*ast.Ident); !isId || id.Name != "nil" {
										okDefault = true
									}
								}
							}
							if !okDefault {
								unrec = append(unrec, where(cc)+" (default of the style switch does not return an error)")
							}
							continue
						}
						if len(cc.Body) != 0 {
							unrec = append(unrec, where(cc)+" (supported-style case with a body)")
							continue
						}
						for _, e := range cc.List {
							var r hrow
							okAll, haveStyle, haveExpl := true, false, false
							var conj func(y ast.Expr)
							conj = func(y ast.Expr) {
								switch b := y.(type) {
								case *ast.ParenExpr:
									conj(b.X)
								case *ast.BinaryExpr:
									if b.Op == token.LAND {
										conj(b.X)
										conj(b.Y)
										return
									}
									if b.Op == token.EQL {
										if sel, ok := b.X.(*ast.SelectorExpr); ok && sel.Sel.Name == "Style" {
											if v, ok := strConst(b.Y); ok {
												r.style, haveStyle = v, true
												return
											}
										}
									}
									okAll = false
								case *ast.UnaryExpr:
									if sel, ok := b.X.(*ast.SelectorExpr); ok && b.Op == token.NOT && sel.Sel.Name == "Explode" {
										r.explode, haveExpl = false, true
										return
									}
									okAll = false
								case *ast.SelectorExpr:
									if b.Sel.Name == "Explode" {
										r.explode, haveExpl = true, true
										return
									}
									okAll = false
								default:
									okAll = false
								}
							}
							conj(e)
							if okAll && haveStyle && haveExpl {
								erows = append(erows, r)
							} else {
								unrec = append(unrec, where(e))
							}
						}
					}
					if !sawDefault {
						unrec = append(unrec, where(sw)+" (style switch without default)")
					}
					return true
				})
			case "SerializationMethod":
				efound++
				ast.Inspect(fd.Body, func(m ast.Node) bool {
					cl, ok := m.(*ast.CompositeLit)
					if !ok || haveEncDefault {
						return true
					}
					st, ex, hs, he := "", false, false, false
					for _, el := range cl.Elts {
						kv, ok := el.(*ast.KeyValueExpr)
						if !ok {
							continue
						}
						k, _ := kv.Key.(*ast.Ident)
						if k == nil {
							continue
						}
						if k.Name == "Style" {
							if v, ok := strConst(kv.Value); ok {
								st, hs = v, true
							}
						}
						if k.Name == "Explode" {
							if b, ok := kv.Value.(*ast.Ident); ok && (b.Name == "true" || b.Name == "false") {
								ex, he = b.Name == "true", true
							}
						}
					}
					if hs && he {
						encDefaultStyle, encDefaultExplode, haveEncDefault = st, ex, true
					}
					return true
				})
			}
		}
	}
	if efound != 2 || !haveEncDefault {
		unrec = append(unrec, fmt.Sprintf("encoding.go: expected the style switch of Validate and SerializationMethod with a default literal, found %d", efound))
	}
	for _, f := range pkg.Syntax {
		fn := pkg.Fset.Position(f.Pos()).Filename
		if !strings.HasSuffix(fn, "/parameter.go") {
			continue
		}
		where := func(n ast.Node) string { return fmt.Sprintf("parameter.go:%d", pkg.Fset.Position(n.Pos()).Line) }
		for _, d := range f.Decls {
			fd, ok := d.(*ast.FuncDecl)
			if !ok || fd.Recv == nil || fd.Body == nil {
				continue
			}
			recv := descTypeName(info.TypeOf(fd.Recv.List[0].Type))
			if recv != "Parameter" {
				continue
			}
			switch fd.Name.Name {
			case "Validate":
				ast.Inspect(fd.Body, func(n ast.Node) bool {
					sw, ok := n.(*ast.SwitchStmt)
					if !ok || sw.Tag != nil {
						return true
					}
					// the tagless switch whose body assigns smSupported
					assigns := false
					ast.Inspect(sw.Body, func(m ast.Node) bool {
						if as, ok := m.(*ast.AssignStmt); ok && len(as.Lhs) == 1 {
							if id, ok := as.Lhs[0].(*ast.Ident); ok && id.Name == "smSupported" {
								assigns = true
							}
						}
						return true
					})
					if !assigns {
						return true
					}
					found++
					for _, cl := range sw.Body.List {
						cc := cl.(*ast.CaseClause)
						for _, e := range cc.List {
							var r row
							okAll, haveIn, haveStyle, haveExpl := true, false, false, false
							var conj func(x ast.Expr)
							conj = func(x ast.Expr) {
								switch b := x.(type) {
								case *ast.ParenExpr:
									conj(b.X)
								case *ast.BinaryExpr:
									if b.Op == token.LAND {
										conj(b.X)
										conj(b.Y)
										return
									}
									if b.Op == token.EQL {
										sel, ok := b.X.(*ast.SelectorExpr)
										v, okc := strConst(b.Y)
										if ok && okc && sel.Sel.Name == "In" {
											r.in, haveIn = v, true
											return
										}
										if ok && okc && sel.Sel.Name == "Style" {
											r.style, haveStyle = v, true
											return
										}
									}
									okAll = false
								case *ast.UnaryExpr:
									if sel, ok := b.X.(*ast.SelectorExpr); ok && b.Op == token.NOT && sel.Sel.Name == "Explode" {
										r.explode, haveExpl = false, true
										return
									}
									okAll = false
								case *ast.SelectorExpr:
									if b.Sel.Name == "Explode" {
										r.explode, haveExpl = true, true
										return
									}
									okAll = false
								default:
									okAll = false
								}
							}
							conj(e)
							if okAll && haveIn && haveStyle && haveExpl {
								rows = append(rows, r)
							} else {
								unrec = append(unrec, where(e))
							}
						}
					}
					return true
				})
			case "SerializationMethod":
				ast.Inspect(fd.Body, func(n ast.Node) bool {
					sw, ok := n.(*ast.SwitchStmt)
					if !ok || sw.Tag == nil {
						return true
					}
					found++
					for _, cl := range sw.Body.List {
						cc := cl.(*ast.CaseClause)
						if cc.List == nil {
							continue // default: error
						}
						style, explode, haveS, haveE := "", false, false, false
						for _, st := range cc.Body {
							ast.Inspect(st, func(m ast.Node) bool {
								as, ok := m.(*ast.AssignStmt)
								if !ok || len(as.Lhs) != 1 || len(as.Rhs) != 1 {
									return true
								}
								id, ok := as.Lhs[0].(*ast.Ident)
								if !ok {
									return true
								}
								if id.Name == "style" && as.Tok == token.ASSIGN {
									if v, ok := strConst(as.Rhs[0]); ok {
										style, haveS = v, true
									}
								}
								if id.Name == "explode" && as.Tok == token.DEFINE {
									if b, ok := as.Rhs[0].(*ast.Ident); ok && (b.Name == "true" || b.Name == "false") {
										explode, haveE = b.Name == "true", true
									}
								}
								return true
							})
						}
						for _, e := range cc.List {
							v, ok := strConst(e)
							if ok && haveS && haveE {
								dfls = append(dfls, dfl{v, style, explode})
							} else {
								unrec = append(unrec, where(e))
							}
						}
					}
					return false
				})
			}
		}
	}
	if found != 2 {
		unrec = append(unrec, fmt.Sprintf("parameter.go: expected the smSupported switch and the SerializationMethod switch, found %d", found))
	}
	sort.SliceStable(dfls, func(i, j int) bool { return dfls[i].in < dfls[j].in })
	var b strings.Builder
	b.WriteString("-- GENERATED by go/cmd/extract (table ParamStyles) from the repository under test. Do not edit.\n")
	fmt.Fprintf(&b, "-- rows: %d\n", len(rows)+len(dfls)+len(hrows)+1+len(erows)+1+len(unrec))
	b.WriteString("namespace KinModel.Gen\n\n/-- (in, style, explode) accepted by Parameter.Validate -/\ndef paramStyles : List (String × String × Bool) := [\n")
	for i, r := range rows {
		sep := ","
		if i == len(rows)-1 {
			sep = ""
		}
		fmt.Fprintf(&b, "  (%q, %q, %v)%s\n", r.in, r.style, r.explode, sep)
	}
	b.WriteString("]\n\n/-- Parameter.SerializationMethod: (in, default style, default explode) -/\ndef paramStyleDefaults : List (String × String × Bool) := [\n")
	for i, r := range dfls {
		sep := ","
		if i == len(dfls)-1 {
			sep = ""
		}
		fmt.Fprintf(&b, "  (%q, %q, %v)%s\n", r.in, r.style, r.explode, sep)
	}
	b.WriteString("]\n\n/-- (style, explode) accepted by Header.Validate -/\ndef headerStyles : List (String × Bool) := [")
	for i, r := range hrows {
		if i > 0 {
			b.WriteString(", ")
		}
		fmt.Fprintf(&b, "(%q, %v)", r.style, r.explode)
	}
	fmt.Fprintf(&b, "]\n\n/-- Header.SerializationMethod defaults -/\ndef headerStyleDefault : String × Bool := (%q, %v)\n", hdrDefaultStyle, hdrDefaultExplode)
	b.WriteString("\n/-- (style, explode) accepted by Encoding.Validate -/\ndef encodingStyles : List (String × Bool) := [")
	for i, r := range erows {
		if i > 0 {
			b.WriteString(", ")
		}
		fmt.Fprintf(&b, "(%q, %v)", r.style, r.explode)
	}
	fmt.Fprintf(&b, "]\n\n/-- Encoding.SerializationMethod defaults -/\ndef encodingStyleDefault : String × Bool := (%q, %v)\n", encDefaultStyle, encDefaultExplode)
	b.WriteString("\ndef paramStylesUnrecognised : List String := [")
	for i, u := range unrec {
		if i > 0 {
			b.WriteString(", ")
		}
		fmt.Fprintf(&b, "%q", u)
	}
	b.WriteString("]\n\nend KinModel.Gen\n")
	return b.String(), nil
}
