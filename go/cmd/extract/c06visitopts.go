package main

// Table C06VisitOpts: which schema-validation options openapi3filter.ValidateRequestBody passes to Schema.VisitJSON,
// and under which condition on openapi3filter.Options each of them is passed.
//
// Rule (syntactic, go/ast only) over the top-level statements of `func ValidateRequestBody`
// (openapi3filter/validate_request.go) that mention the identifier `opts`:
//   * `opts := make(…)`                                                         → no row (the list starts empty)
//   * `opts = append(opts, openapi3.F(…))`                                      → ⟨.always, "F"⟩
//   * `if C { opts = append(opts, openapi3.F(…)) }` (one statement, no else) with C one of
//         options.X → ⟨.ifOpt "X", "F"⟩      !options.X → ⟨.ifNotOpt "X", "F"⟩      options.X != nil → ⟨.ifSet "X", "F"⟩
//   * `if err := contentType.Schema.Value.VisitJSON(value, opts...); err != nil {…}` — exactly once, after all of the
//     above                                                                      → ⟨.visit, "VisitJSON"⟩
//   * anything else that mentions `opts` (also nested, also in a function literal) → ⟨.unrecognised "<file:line>", ""⟩
// No VisitJSON(value, opts...) statement → unrecognised.

import (
	"bytes"
	"fmt"
	"go/ast"
	"go/parser"
	"go/printer"
	"go/token"
	"path/filepath"
	"regexp"
	"strings"
)

func init() { register("C06VisitOpts", extractC06VisitOpts) }

func extractC06VisitOpts(repo string) (string, error) {
	const rel = "openapi3filter/validate_request.go"
	fset := token.NewFileSet()
	f, err := parser.ParseFile(fset, filepath.Join(repo, rel), nil, 0)
	if err != nil {
		return "", err
	}
	ws := regexp.MustCompile(`\s+`)
	text := func(n ast.Node) string {
		var b bytes.Buffer
		_ = printer.Fprint(&b, fset, n)
		return strings.TrimSpace(ws.ReplaceAllString(b.String(), " "))
	}
	var rows []string
	unrec := func(p token.Pos) {
		rows = append(rows, fmt.Sprintf("⟨.unrecognised %q, \"\"⟩", fmt.Sprintf("%s:%d", rel, fset.Position(p).Line)))
	}
	var fn *ast.FuncDecl
	for _, d := range f.Decls {
		if fd, ok := d.(*ast.FuncDecl); ok && fd.Recv == nil && fd.Name.Name == "ValidateRequestBody" && fd.Body != nil {
			fn = fd
		}
	}
	if fn == nil {
		return c06voEmit([]string{fmt.Sprintf("⟨.unrecognised %q, \"\"⟩", rel+": func ValidateRequestBody not found")}), nil
	}
	mentions := func(n ast.Node) bool {
		found := false
		ast.Inspect(n, func(x ast.Node) bool {
			if id, ok := x.(*ast.Ident); ok && id.Name == "opts" {
				found = true
			}
			return !found
		})
		return found
	}
	// `opts = append(opts, openapi3.F(…))` → F
	appendOf := func(s ast.Stmt) (string, bool) {
		as, ok := s.(*ast.AssignStmt)
		if !ok || as.Tok != token.ASSIGN || len(as.Lhs) != 1 || len(as.Rhs) != 1 || text(as.Lhs[0]) != "opts" {
			return "", false
		}
		call, ok := as.Rhs[0].(*ast.CallExpr)
		if !ok || text(call.Fun) != "append" || len(call.Args) != 2 || text(call.Args[0]) != "opts" || call.Ellipsis.IsValid() {
			return "", false
		}
		inner, ok := call.Args[1].(*ast.CallExpr)
		if !ok {
			return "", false
		}
		sel, ok := inner.Fun.(*ast.SelectorExpr)
		if !ok || text(sel.X) != "openapi3" {
			return "", false
		}
		return sel.Sel.Name, true
	}
	optName := regexp.MustCompile(`^options\.([A-Za-z_][A-Za-z_0-9]*)$`)
	visits := 0
	for _, st := range fn.Body.List {
		if !mentions(st) {
			continue
		}
		if as, ok := st.(*ast.AssignStmt); ok && as.Tok == token.DEFINE && len(as.Lhs) == 1 && text(as.Lhs[0]) == "opts" &&
			strings.HasPrefix(text(as.Rhs[0]), "make([]openapi3.SchemaValidationOption, 0") {
			continue
		}
		if fnName, ok := appendOf(st); ok {
			if visits > 0 {
				unrec(st.Pos())
				continue
			}
			rows = append(rows, fmt.Sprintf("⟨.always, %q⟩", fnName))
			continue
		}
		if ifs, ok := st.(*ast.IfStmt); ok {
			if ifs.Init != nil && text(ifs.Init) == "err := contentType.Schema.Value.VisitJSON(value, opts...)" &&
				text(ifs.Cond) == "err != nil" && ifs.Else == nil && !mentions(ifs.Body) {
				visits++
				if visits == 1 {
					rows = append(rows, "⟨.visit, \"VisitJSON\"⟩")
				} else {
					unrec(st.Pos())
				}
				continue
			}
			if ifs.Init == nil && ifs.Else == nil && len(ifs.Body.List) == 1 && visits == 0 {
				if fnName, ok := appendOf(ifs.Body.List[0]); ok {
					c := text(ifs.Cond)
					switch {
					case optName.MatchString(c):
						rows = append(rows, fmt.Sprintf("⟨.ifOpt %q, %q⟩", optName.FindStringSubmatch(c)[1], fnName))
						continue
					case strings.HasPrefix(c, "!") && optName.MatchString(c[1:]):
						rows = append(rows, fmt.Sprintf("⟨.ifNotOpt %q, %q⟩", optName.FindStringSubmatch(c[1:])[1], fnName))
						continue
					case strings.HasSuffix(c, " != nil") && optName.MatchString(strings.TrimSuffix(c, " != nil")):
						rows = append(rows, fmt.Sprintf("⟨.ifSet %q, %q⟩", optName.FindStringSubmatch(strings.TrimSuffix(c, " != nil"))[1], fnName))
						continue
					}
				}
			}
		}
		unrec(st.Pos())
	}
	if visits == 0 {
		rows = append(rows, fmt.Sprintf("⟨.unrecognised %q, \"\"⟩", rel+": no VisitJSON(value, opts...) in ValidateRequestBody"))
	}
	return c06voEmit(rows), nil
}

func c06voEmit(rows []string) string {
	var b strings.Builder
	b.WriteString("/- GENERATED by go/cmd/extract (table C06VisitOpts) from openapi3filter/validate_request.go — do not edit. -/\n")
	b.WriteString("namespace KinModel.Gen\n\n")
	b.WriteString("inductive C06OptCond\n  | always\n  | ifOpt (o : String)\n  | ifNotOpt (o : String)\n  | ifSet (o : String)\n  | visit\n  | unrecognised (site : String)\n  deriving DecidableEq, Repr\n\n")
	b.WriteString("def c06VisitOpts : List (C06OptCond × String) := [\n")
	for i, r := range rows {
		sep := ","
		if i == len(rows)-1 {
			sep = ""
		}
		b.WriteString("  " + r + sep + "\n")
	}
	b.WriteString("]\n\n")
	b.WriteString(fmt.Sprintf("-- rows: %d\n\nend KinModel.Gen\n", len(rows)))
	return b.String()
}
