package main

// Table SharedWrites (property C15): the footprint of writes to SHARED state made by the code that
// concurrent validations run.
//
// Rule (kept syntactic; go/types is used only to resolve identifiers, callees and the static type of
// the written container):
//
//  1. Entry points: both routers' FindRoute, openapi3filter.ValidateRequest / ValidateResponse, the handler returned
//     by (*openapi3filter.Validator).Middleware (the closure is part of that method's body),
//     (*openapi3.Schema).VisitJSON, openapi3gen.NewSchemaRefForValue (a Generator object is per call:
//     its methods are reached through that function, not entered concurrently on one Generator).
//  2. Reachable functions: static call graph over the library's packages. A reference to a function or
//     method is an edge; a call of an interface method is an edge to every method of that name whose
//     receiver implements the interface; a call of a function VALUE is an edge to every function of the
//     library that is used as a value somewhere and has an identical signature.
//  3. In every reachable function (closures included) each write is examined: assignments (`=`, `op=`),
//     `x++`, `delete(m, k)`, `copy(dst, …)`, in-place sorts (`sort.X(s)`, `slices.SortX(s)`) and the
//     mutating methods of a `sync.Map`, and `append(s, …)` / `slices.Insert|Delete|Compact…(s, …)` — an append
//     to a slice that has SPARE CAPACITY stores the new elements in the backing array the slice shares with
//     whoever else holds it (a document slice decoded by encoding/json with 3, 5-7, 9-15 … elements has
//     cap > len): the elements of `s` count as (potentially) written. Exempt: `append(s[:n:n], …)` /
//     `append(slices.Clip(s), …)` (cap == len: append must reallocate), class `appendClipped`.
//     The written location is walked down to its root identifier;
//     the walk records whether a pointer / map / slice is crossed (a write that never crosses one
//     stays in the variable itself).
//       - root is a package-level variable                         → row, root `global`
//       - the location is reached through a pointer/map/slice and the root is a parameter, a receiver,
//         a call result or a local that is not provably fresh      → row, when the written container
//         is document state: a field of a struct type declared in openapi3 (minus the per-call types
//         listed in perCallTypes), of routers.Route, a router or a path-pattern node; or an element of
//         a map/slice that is itself such a field, or of a local alias of one.
//       - everything else (locals, fresh objects, per-call structs) is not shared and yields no row.
//     "Provably fresh" local: every assignment to it in the function is a composite literal, `&T{}`,
//     `make`, `new`, `nil`, a literal, a conversion of one of these, `append` to a fresh slice, or a
//     call of a library function all of whose returns are fresh (fixpoint). Flow-insensitive.
//  4. Synchronisation class of a row, read off the enclosing code:
//       syncMap   – unconditionally mutating method of a sync.Map (Store, Swap, Delete …: last writer wins);
//                   syncMapLoadOrStore – LoadOrStore (first writer wins); syncMapCasNil – `CompareAndSwap(k, nil, v)` (stores nothing for
//                   an absent key); syncMapLoad – `Load` / `Range` (a READ whose value the caller uses: listed so
//                   that "this cache is read but never filled" is an obligation on the table)
//       mutex     – between `m.Lock()` and `m.Unlock()` (or after `m.Lock(); defer m.Unlock()`) of a
//                   sync.Mutex / sync.RWMutex in the same function: an UNCONDITIONAL store (last writer wins)
//       mutexIfAbsent – the same, and the statement is `M[k] = v` in the "absent" branch of a comma-ok lookup of the
//                   same element: `if p, ok := M[k]; ok { … } else { M[k] = v }` / `if _, ok := M[k]; !ok { M[k] = v }`
//                   (load-or-publish: the first writer wins)
//       once      – inside the function literal handed to (*sync.Once).Do
//       nilGuardInit / nilGuardNoInit – the statement is `X = e` directly inside `if X == nil { … }`
//                   for a package-level X whose declaration has / has not an initialiser
//       nilGuardCtor / nilGuardField – `v := R.f; if v == nil { …; R.f = e }` (lazily created field) where a
//                   constructor `New…` of the package does / does not call the enclosing method
//       appendSpare – `append(s, …)` (or an in-place `slices` edit) on a slice reachable from shared state, not
//                   under a mutex / once: a plain write whenever cap(s) > len(s)
//       appendClipped – the same on `s[:n:n]` / `slices.Clip(s)`: no write
//       none      – anything else
//  5. Shapes the walk cannot read (a write through a type assertion, an index of a call result, a
//     function value with no candidate callee …) become `unrecognised "<file:line>"` rows.

import (
	"fmt"
	"go/ast"
	"go/token"
	"go/types"
	"os"
	"path/filepath"
	"sort"
	"strings"

	"golang.org/x/tools/go/packages"
)

func init() { register("SharedWrites", extractSharedWrites) }

const kinPath = "github.com/getkin/kin-openapi"

// struct types of package openapi3 that are created per call (never part of a loaded document). The list is
// justified by the generated `perCallState` (obligation `per_call_types_are_per_call`): each is declared, no document
// struct reaches it through its fields, and those that are written in reachable code are allocated in reachable code.
var perCallTypes = map[string]bool{
	"schemaValidationSettings": true, "SchemaError": true, "MultiError": true, "ValidationOptions": true,
	"Loader": true,
}

type swRow struct {
	file   string
	line   int
	fn     string
	target string
	root   string // global | param | call | alias
	sync   string
	global string // name of the package-level variable ("" unless root == global / viaGlobal)
	via    string // entry point through whose parameter the written object is reached (root == param)
}

type swFunc struct {
	obj  *types.Func
	decl *ast.FuncDecl
	pkg  *packages.Package
}

func extractSharedWrites(repo string) (string, error) {
	x, err := loadSwx(repo)
	if err != nil {
		return "", err
	}
	x.reach()
	x.scan()
	return x.emit(), nil
}

// loadSwx type-checks the library's packages (module `replace`d onto the repository) and collects functions,
// value uses, initialisers and the freshness fixpoint.
func loadSwx(repo string) (*swx, error) {
	wd, err := os.Getwd()
	if err != nil {
		return nil, err
	}
	// private go.mod whose replace directive points at the repository under test
	modSrc, err := os.ReadFile(filepath.Join(wd, "go.mod"))
	if err != nil {
		return nil, fmt.Errorf("must run in the kinverif module directory: %v", err)
	}
	tmp, err := os.MkdirTemp("", "swx")
	if err != nil {
		return nil, err
	}
	defer os.RemoveAll(tmp)
	abs, _ := filepath.Abs(repo)
	mod := strings.Replace(string(modSrc), "=> /repo", "=> "+abs, 1)
	os.WriteFile(filepath.Join(tmp, "go.mod"), []byte(mod), 0o644)
	sum, _ := os.ReadFile(filepath.Join(abs, "go.sum"))
	extra, _ := os.ReadFile(filepath.Join(wd, "go.sum.extra"))
	os.WriteFile(filepath.Join(tmp, "go.sum"), append(sum, extra...), 0o644)

	cfg := &packages.Config{
		Mode: packages.NeedName | packages.NeedFiles | packages.NeedSyntax | packages.NeedTypes |
			packages.NeedTypesInfo | packages.NeedImports | packages.NeedDeps,
		Dir:        wd,
		BuildFlags: []string{"-modfile=" + filepath.Join(tmp, "go.mod")},
		Env:        append(os.Environ(), "GOFLAGS=-mod=mod", "GOPROXY=off", "GOSUMDB=off", "GOTOOLCHAIN=local"),
	}
	pats := []string{"openapi3", "openapi3filter", "openapi3gen", "routers", "routers/gorillamux", "routers/legacy", "routers/legacy/pathpattern"}
	for i := range pats {
		pats[i] = kinPath + "/" + pats[i]
	}
	pkgs, err := packages.Load(cfg, pats...)
	if err != nil {
		return nil, err
	}
	x := &swx{repo: abs, funcs: map[*types.Func]*swFunc{}, byName: map[string][]*swFunc{}, pkgOf: map[*types.Package]*packages.Package{},
		valueUsed: map[*types.Func]bool{}, declInit: map[*types.Var]bool{}, infos: map[*types.Func]*fnInfo{}}
	for _, p := range pkgs {
		if len(p.Errors) > 0 {
			return nil, fmt.Errorf("package %s: %v", p.PkgPath, p.Errors[0])
		}
		x.pkgOf[p.Types] = p
		x.fset = p.Fset
	}
	x.pkgList = pkgs
	x.collect(pkgs)
	x.freshFixpoint()
	return x, nil
}

type swx struct {
	escapes       []swRow // document payloads stored into caller-owned values (class payloadEscape)
	perCallWrites map[string]int // per-call struct type (perCallTypes) → writes to its fields in reachable functions
	extraRoots []string // further entry points (table ValidateWrites: document validation, router construction)
	pkgList   []*packages.Package
	repo      string
	fset      *token.FileSet
	funcs     map[*types.Func]*swFunc
	byName    map[string][]*swFunc // methods by name
	pkgOf     map[*types.Package]*packages.Package
	valueUsed map[*types.Func]bool // library functions used as values
	declInit  map[*types.Var]bool  // package-level variable → declared with an initialiser
	fresh     map[*types.Func]bool // all returns fresh
	reachable map[*types.Func]bool
	rows      []swRow
	infos     map[*types.Func]*fnInfo
	sites     map[*types.Func][]swCallSite
	unrec     []string
	roots     []*types.Func
}

func (x *swx) pos(p token.Pos) (string, int) {
	ps := x.fset.Position(p)
	rel, err := filepath.Rel(x.repo, ps.Filename)
	if err != nil || strings.HasPrefix(rel, "..") {
		rel = ps.Filename
	}
	return filepath.ToSlash(rel), ps.Line
}

func (x *swx) text(e ast.Node) string {
	p, q := x.fset.Position(e.Pos()), x.fset.Position(e.End())
	data, err := os.ReadFile(p.Filename)
	if err != nil || q.Offset > len(data) {
		return "?"
	}
	s := string(data[p.Offset:q.Offset])
	s = strings.Join(strings.Fields(s), " ")
	if len(s) > 60 {
		s = s[:60]
	}
	return s
}

func funcName(f *types.Func) string {
	sig := f.Type().(*types.Signature)
	pk := ""
	if f.Pkg() != nil {
		pk = strings.TrimPrefix(f.Pkg().Path(), kinPath+"/") + "."
	}
	if r := sig.Recv(); r != nil {
		t := r.Type()
		star := ""
		if p, ok := t.(*types.Pointer); ok {
			t = p.Elem()
			star = "*"
		}
		n := "?"
		if nt, ok := t.(*types.Named); ok {
			n = nt.Obj().Name()
		}
		return pk + "(" + star + n + ")." + f.Name()
	}
	return pk + f.Name()
}

func isTestFile(fn string) bool { return strings.HasSuffix(fn, "_test.go") }

func (x *swx) collect(pkgs []*packages.Package) {
	for _, p := range pkgs {
		for _, f := range p.Syntax {
			if isTestFile(x.fset.Position(f.Pos()).Filename) {
				continue
			}
			for _, d := range f.Decls {
				switch d := d.(type) {
				case *ast.FuncDecl:
					obj, _ := p.TypesInfo.Defs[d.Name].(*types.Func)
					if obj == nil || d.Body == nil {
						continue
					}
					sf := &swFunc{obj: obj, decl: d, pkg: p}
					x.funcs[obj] = sf
					if d.Recv != nil {
						x.byName[obj.Name()] = append(x.byName[obj.Name()], sf)
					}
				case *ast.GenDecl:
					if d.Tok != token.VAR {
						continue
					}
					for _, s := range d.Specs {
						vs := s.(*ast.ValueSpec)
						for i, n := range vs.Names {
							if v, ok := p.TypesInfo.Defs[n].(*types.Var); ok {
								init := len(vs.Values) > i || (len(vs.Values) == 1 && len(vs.Names) > 1)
								if init && len(vs.Values) > i {
									if id, ok := vs.Values[i].(*ast.Ident); ok && id.Name == "nil" {
										init = false
									}
								}
								x.declInit[v] = init
							}
						}
					}
				}
			}
			// functions used as values (anywhere in the file, package-level initialisers included)
			ast.Inspect(f, func(n ast.Node) bool {
				call, ok := n.(*ast.CallExpr)
				if ok {
					// arguments and the like are visited below; the callee position is not a value use
					for _, a := range call.Args {
						x.markValueUses(p, a)
					}
					return true
				}
				switch n := n.(type) {
				case *ast.AssignStmt:
					for _, r := range n.Rhs {
						x.markValueUses(p, r)
					}
				case *ast.ValueSpec:
					for _, r := range n.Values {
						x.markValueUses(p, r)
					}
				case *ast.CompositeLit:
					for _, r := range n.Elts {
						if kv, ok := r.(*ast.KeyValueExpr); ok {
							r = kv.Value
						}
						x.markValueUses(p, r)
					}
				case *ast.ReturnStmt:
					for _, r := range n.Results {
						x.markValueUses(p, r)
					}
				}
				return true
			})
		}
	}
}

func (x *swx) markValueUses(p *packages.Package, e ast.Expr) {
	var id *ast.Ident
	switch e := e.(type) {
	case *ast.Ident:
		id = e
	case *ast.SelectorExpr:
		id = e.Sel
	default:
		return
	}
	if f, ok := p.TypesInfo.Uses[id].(*types.Func); ok {
		x.valueUsed[f] = true
	}
}

// ---------------------------------------------------------------- freshness

func (x *swx) freshFixpoint() {
	x.fresh = map[*types.Func]bool{}
	for changed := true; changed; {
		changed = false
		for obj, sf := range x.funcs {
			if x.fresh[obj] {
				continue
			}
			if x.returnsFresh(sf) {
				x.fresh[obj] = true
				changed = true
			}
		}
	}
}

func (x *swx) returnsFresh(sf *swFunc) bool {
	sig := sf.obj.Type().(*types.Signature)
	if sig.Results().Len() == 0 {
		return false
	}
	lf := x.localFresh(sf.pkg, sf.decl.Body, sf.decl)
	ok, any := true, false
	ast.Inspect(sf.decl.Body, func(n ast.Node) bool {
		if _, isLit := n.(*ast.FuncLit); isLit {
			return false
		}
		if r, isRet := n.(*ast.ReturnStmt); isRet {
			any = true
			if len(r.Results) == 0 {
				ok = false // named results: not analysed
			}
			for _, e := range r.Results {
				if !x.freshExpr(sf.pkg, e, lf) {
					ok = false
				}
			}
		}
		return true
	})
	return ok && any
}

// freshExpr: the value is newly allocated (or not a reference at all).
func (x *swx) freshExpr(p *packages.Package, e ast.Expr, lf map[types.Object]bool) bool {
	switch e := e.(type) {
	case *ast.BasicLit, *ast.FuncLit:
		return true
	case *ast.CompositeLit:
		return true
	case *ast.ParenExpr:
		return x.freshExpr(p, e.X, lf)
	case *ast.UnaryExpr:
		if e.Op == token.AND {
			if _, ok := e.X.(*ast.CompositeLit); ok {
				return true
			}
			if id, ok := e.X.(*ast.Ident); ok { // &local
				if v, ok := p.TypesInfo.Uses[id].(*types.Var); ok && v.Parent() != v.Pkg().Scope() && !v.IsField() {
					return lf == nil || lf[v] || !isRefType(v.Type())
				}
			}
			return false
		}
		return true // arithmetic / logical
	case *ast.BinaryExpr:
		return true
	case *ast.Ident:
		if e.Name == "nil" || e.Name == "true" || e.Name == "false" {
			return true
		}
		obj := p.TypesInfo.Uses[e]
		if _, ok := obj.(*types.Const); ok {
			return true
		}
		if v, ok := obj.(*types.Var); ok {
			if !isRefType(v.Type()) {
				return true
			}
			if v.Parent() == v.Pkg().Scope() {
				return false
			}
			return lf != nil && lf[v]
		}
		return false
	case *ast.CallExpr:
		if tv, ok := p.TypesInfo.Types[e.Fun]; ok && tv.IsType() { // conversion
			return len(e.Args) == 1 && x.freshExpr(p, e.Args[0], lf)
		}
		if id, ok := e.Fun.(*ast.Ident); ok {
			if _, isB := p.TypesInfo.Uses[id].(*types.Builtin); isB {
				switch id.Name {
				case "make", "new", "len", "cap", "min", "max":
					return true
				case "append":
					return len(e.Args) > 0 && x.freshExpr(p, e.Args[0], lf)
				}
				return false
			}
		}
		if f := calleeOf(p, e); f != nil {
			if x.fresh[f] || stdFresh(f) {
				return true
			}
			// result is not a reference → nothing shared can be reached through it
			if tv, ok := p.TypesInfo.Types[e]; ok && tv.Type != nil && !isRefTypeDeep(tv.Type) {
				return true
			}
		}
		return false
	case *ast.SelectorExpr, *ast.IndexExpr, *ast.StarExpr, *ast.TypeAssertExpr, *ast.SliceExpr:
		if tv, ok := p.TypesInfo.Types[e]; ok && tv.Type != nil && !isRefTypeDeep(tv.Type) {
			return true
		}
		return false
	}
	return false
}

// stdFresh: standard-library functions whose (slice / map) result shares no memory with their arguments.
func stdFresh(f *types.Func) bool {
	if f.Pkg() == nil {
		return false
	}
	switch f.Pkg().Path() + "." + f.Name() {
	case "slices.Clone", "maps.Clone", "slices.Collect", "slices.Sorted", "slices.Concat", "slices.Repeat",
		"strings.Split", "strings.SplitN", "strings.Fields", "strings.FieldsFunc", "bytes.Clone",
		"github.com/mohae/deepcopy.Copy":
		return true
	}
	return false
}

func isRefType(t types.Type) bool {
	switch t.Underlying().(type) {
	case *types.Pointer, *types.Map, *types.Slice, *types.Interface, *types.Chan, *types.Signature:
		return true
	case *types.Struct, *types.Array:
		return isRefTypeDeep(t)
	}
	return false
}

// isRefTypeDeep: a value of the type can hold a reference to other memory.
func isRefTypeDeep(t types.Type) bool {
	seen := map[types.Type]bool{}
	var rec func(t types.Type) bool
	rec = func(t types.Type) bool {
		if seen[t] {
			return false
		}
		seen[t] = true
		switch u := t.Underlying().(type) {
		case *types.Basic:
			return u.Kind() == types.UnsafePointer
		case *types.Pointer, *types.Map, *types.Slice, *types.Interface, *types.Chan, *types.Signature:
			return true
		case *types.Struct:
			for i := 0; i < u.NumFields(); i++ {
				if rec(u.Field(i).Type()) {
					return true
				}
			}
			return false
		case *types.Array:
			return rec(u.Elem())
		case *types.Tuple:
			for i := 0; i < u.Len(); i++ {
				if rec(u.At(i).Type()) {
					return true
				}
			}
			return false
		}
		return true
	}
	return rec(t)
}

func calleeOf(p *packages.Package, c *ast.CallExpr) *types.Func {
	var id *ast.Ident
	switch f := c.Fun.(type) {
	case *ast.Ident:
		id = f
	case *ast.SelectorExpr:
		id = f.Sel
	case *ast.IndexExpr: // generic instantiation
		switch g := f.X.(type) {
		case *ast.Ident:
			id = g
		case *ast.SelectorExpr:
			id = g.Sel
		}
	}
	if id == nil {
		return nil
	}
	f, _ := p.TypesInfo.Uses[id].(*types.Func)
	return f
}

// localFresh computes, for the locals of one function body, which are provably fresh (flow-insensitive
// greatest fixpoint: start from "all fresh", remove a variable when one of its assignments is not).
func (x *swx) localFresh(p *packages.Package, body *ast.BlockStmt, decl *ast.FuncDecl) map[types.Object]bool {
	type asg struct {
		v   types.Object
		rhs ast.Expr // nil: not fresh (range variable, multi-value call, …)
	}
	var asgs []asg
	lf := map[types.Object]bool{}
	never := map[types.Object]bool{} // parameters (of the function and of its closures) are never fresh
	addParams := func(ft *ast.FuncType, recv *ast.FieldList) {
		for _, fl := range []*ast.FieldList{recv, ft.Params, ft.Results} {
			if fl == nil {
				continue
			}
			for _, fld := range fl.List {
				for _, n := range fld.Names {
					if o := p.TypesInfo.Defs[n]; o != nil {
						never[o] = true
					}
				}
			}
		}
	}
	if decl != nil {
		addParams(decl.Type, decl.Recv)
	}
	ast.Inspect(body, func(n ast.Node) bool {
		if fl, ok := n.(*ast.FuncLit); ok {
			addParams(fl.Type, nil)
		}
		return true
	})
	objOf := func(id *ast.Ident) types.Object {
		if o := p.TypesInfo.Defs[id]; o != nil {
			return o
		}
		return p.TypesInfo.Uses[id]
	}
	ast.Inspect(body, func(n ast.Node) bool {
		switch n := n.(type) {
		case *ast.AssignStmt:
			for i, l := range n.Lhs {
				id, ok := l.(*ast.Ident)
				if !ok || id.Name == "_" {
					continue
				}
				o := objOf(id)
				if o == nil {
					continue
				}
				var rhs ast.Expr
				if len(n.Rhs) == len(n.Lhs) {
					rhs = n.Rhs[i]
				} else if len(n.Rhs) == 1 {
					// v, ok := m[k] / x.(T) / f()
					if call, isCall := n.Rhs[0].(*ast.CallExpr); isCall {
						if f := calleeOf(p, call); f != nil && x.fresh[f] {
							rhs = &ast.BasicLit{Kind: token.INT, Value: "0"}
						}
					}
					if !isRefTypeDeep(o.Type()) {
						rhs = &ast.BasicLit{Kind: token.INT, Value: "0"}
					}
				}
				asgs = append(asgs, asg{o, rhs})
				lf[o] = true
			}
		case *ast.ValueSpec:
			for i, id := range n.Names {
				o := objOf(id)
				if o == nil {
					continue
				}
				lf[o] = true
				if len(n.Values) == len(n.Names) {
					asgs = append(asgs, asg{o, n.Values[i]})
				} else if len(n.Values) > 0 {
					asgs = append(asgs, asg{o, nil})
				}
			}
		case *ast.RangeStmt:
			for _, e := range []ast.Expr{n.Key, n.Value} {
				if id, ok := e.(*ast.Ident); ok && id.Name != "_" {
					if o := objOf(id); o != nil {
						lf[o] = true
						if isRefTypeDeep(o.Type()) {
							// element of a fresh container is as fresh as the container
							asgs = append(asgs, asg{o, n.X})
						}
					}
				}
			}
		case *ast.TypeSwitchStmt:
			// v := x.(type): the per-clause objects are implicit; treated as not fresh
		}
		return true
	})
	for o := range never {
		lf[o] = false
	}
	for changed := true; changed; {
		changed = false
		for _, a := range asgs {
			if !lf[a.v] {
				continue
			}
			if a.rhs == nil || !x.freshExpr(p, a.rhs, lf) {
				lf[a.v] = false
				changed = true
			}
		}
	}
	return lf
}

// ---------------------------------------------------------------- call graph

func (x *swx) findRoots() {
	want := map[string]bool{
		"routers/gorillamux.(*Router).FindRoute": true, "routers/legacy.(*Router).FindRoute": true,
		"openapi3filter.ValidateRequest": true, "openapi3filter.ValidateResponse": true,
		"openapi3.(*Schema).VisitJSON": true,
		"openapi3gen.NewSchemaRefForValue": true,
		// the middleware's handler: FindRoute + ValidateRequest + ValidateResponse on one shared Validator
		"openapi3filter.(*Validator).Middleware": true,
	}
	for _, r := range x.extraRoots {
		want[r] = true
	}
	for obj := range x.funcs {
		if want[funcName(obj)] {
			x.roots = append(x.roots, obj)
			delete(want, funcName(obj))
		}
	}
	for w := range want {
		x.unrec = append(x.unrec, "entry point not found: "+w)
	}
	sort.Slice(x.roots, func(i, j int) bool { return funcName(x.roots[i]) < funcName(x.roots[j]) })
}

func (x *swx) edges(sf *swFunc) []*types.Func {
	var out []*types.Func
	info := sf.pkg.TypesInfo
	ast.Inspect(sf.decl.Body, func(n ast.Node) bool {
		switch n := n.(type) {
		case *ast.Ident:
			if f, ok := info.Uses[n].(*types.Func); ok {
				out = append(out, x.resolve(f)...)
			}
		case *ast.CallExpr:
			// call of a function value?
			if calleeOf(sf.pkg, n) != nil {
				return true
			}
			tv, ok := info.Types[n.Fun]
			if !ok || tv.IsType() || tv.IsBuiltin() {
				return true
			}
			if _, isLit := ast.Unparen(n.Fun).(*ast.FuncLit); isLit {
				return true
			}
			sig, ok := tv.Type.Underlying().(*types.Signature)
			if !ok {
				return true
			}
			for f := range x.valueUsed {
				if _, lib := x.funcs[f]; !lib {
					continue
				}
				fs := f.Type().(*types.Signature)
				if types.Identical(types.NewSignatureType(nil, nil, nil, fs.Params(), fs.Results(), fs.Variadic()),
					types.NewSignatureType(nil, nil, nil, sig.Params(), sig.Results(), sig.Variadic())) {
					out = append(out, f)
				}
			}
		}
		return true
	})
	return out
}

// resolve maps a referenced function to library functions with bodies (interface methods → implementations).
func (x *swx) resolve(f *types.Func) []*types.Func {
	f = f.Origin()
	if _, ok := x.funcs[f]; ok {
		return []*types.Func{f}
	}
	sig, _ := f.Type().(*types.Signature)
	if sig == nil || sig.Recv() == nil {
		return nil
	}
	iface, ok := sig.Recv().Type().Underlying().(*types.Interface)
	if !ok {
		return nil
	}
	var out []*types.Func
	for _, m := range x.byName[f.Name()] {
		rt := m.obj.Type().(*types.Signature).Recv().Type()
		if types.Implements(rt, iface) || types.Implements(types.NewPointer(rt), iface) {
			out = append(out, m.obj)
		}
	}
	return out
}

func (x *swx) reach() {
	x.findRoots()
	x.reachable = map[*types.Func]bool{}
	work := append([]*types.Func{}, x.roots...)
	for len(work) > 0 {
		f := work[len(work)-1]
		work = work[:len(work)-1]
		if x.reachable[f] {
			continue
		}
		x.reachable[f] = true
		if sf := x.funcs[f]; sf != nil {
			work = append(work, x.edges(sf)...)
		}
	}
}

// ---------------------------------------------------------------- write scan

func (x *swx) isDocStruct(t types.Type) bool {
	if p, ok := t.Underlying().(*types.Pointer); ok {
		t = p.Elem()
	}
	nt, ok := t.(*types.Named)
	if !ok {
		if a, ok := t.(*types.Alias); ok {
			return x.isDocStruct(types.Unalias(a))
		}
		return false
	}
	if _, isStruct := nt.Underlying().(*types.Struct); !isStruct {
		return false
	}
	pk := nt.Obj().Pkg()
	if pk == nil {
		return false
	}
	switch strings.TrimPrefix(pk.Path(), kinPath+"/") {
	case "openapi3":
		return !perCallTypes[nt.Obj().Name()]
	case "routers":
		return nt.Obj().Name() == "Route"
	case "routers/gorillamux", "routers/legacy":
		return nt.Obj().Name() == "Router"
	case "openapi3filter":
		// one Validator (and its Options, handed to every request as &v.options) serves all requests of the middleware
		return nt.Obj().Name() == "Validator" || nt.Obj().Name() == "Options"
	case "routers/legacy/pathpattern":
		return nt.Obj().Name() == "Node" || nt.Obj().Name() == "Suffix"
	}
	return false
}

// isDocNamed: named non-struct types of the document (openapi3.Paths is a struct, but Callbacks, Schemas,
// Types, SchemaRefs … are named maps/slices).
func (x *swx) isDocNamed(t types.Type) bool {
	nt, ok := t.(*types.Named)
	if !ok || nt.Obj().Pkg() == nil {
		return false
	}
	return nt.Obj().Pkg().Path() == kinPath+"/openapi3" && !perCallTypes[nt.Obj().Name()]
}

type walk struct {
	root     ast.Expr
	deref    bool // a pointer / map / slice is crossed between the root and the written location
	docField bool // some selector on the way is a field of a document struct, or the container is a document-typed map/slice
	unread   bool
}

func (x *swx) walkLHS(p *packages.Package, e ast.Expr) walk {
	w := walk{}
	info := p.TypesInfo
	typeOf := func(e ast.Expr) types.Type {
		if tv, ok := info.Types[e]; ok {
			return tv.Type
		}
		return nil
	}
	for {
		switch n := e.(type) {
		case *ast.ParenExpr:
			e = n.X
			continue
		case *ast.StarExpr:
			w.deref = true
			if t := typeOf(n.X); t != nil && x.isDocStruct(t) {
				w.docField = true
			}
			e = n.X
			continue
		case *ast.SliceExpr:
			e = n.X
			continue
		case *ast.TypeAssertExpr:
			if n.Type == nil {
				w.unread = true
				return w
			}
			w.deref = true
			e = n.X
			continue
		case *ast.IndexExpr:
			if t := typeOf(n.X); t != nil {
				switch t.Underlying().(type) {
				case *types.Map, *types.Slice:
					w.deref = true
					if x.isDocNamed(t) {
						w.docField = true
					}
				case *types.Pointer: // pointer to array
					w.deref = true
				}
			}
			e = n.X
			continue
		case *ast.SelectorExpr:
			if sel, ok := info.Selections[n]; ok && sel.Kind() == types.FieldVal {
				if sel.Indirect() {
					w.deref = true
				}
				if t := typeOf(n.X); t != nil {
					if _, isPtr := t.Underlying().(*types.Pointer); isPtr {
						w.deref = true
					}
					if x.isDocStruct(t) {
						w.docField = true
					}
				}
				e = n.X
				continue
			}
			// package-qualified identifier
			if _, ok := info.Uses[n.Sel].(*types.Var); ok {
				w.root = n.Sel
				return w
			}
			w.unread = true
			return w
		case *ast.Ident:
			w.root = n
			return w
		case *ast.CallExpr:
			// a conversion T(x) and append(x, …) alias x (append: unless it had to reallocate)
			if tv, ok := info.Types[n.Fun]; ok && tv.IsType() && len(n.Args) == 1 {
				e = n.Args[0]
				continue
			}
			if id, ok := n.Fun.(*ast.Ident); ok && id.Name == "append" && len(n.Args) > 0 {
				if _, isB := info.Uses[id].(*types.Builtin); isB {
					e = n.Args[0]
					continue
				}
			}
			w.root = n
			return w
		case *ast.BasicLit, *ast.CompositeLit:
			w.root = n // a literal: nothing shared behind it
			return w
		default:
			w.unread = true
			return w
		}
	}
}

// origin of a reference held by an expression, relative to the enclosing function
type swOrigin struct {
	kind   string // "param" | "global" | "call"
	param  int    // index into fnInfo.params (0 = receiver) when kind == "param"
	global *types.Var
}

type swCand struct {
	row     swRow
	fi      *fnInfo
	origins []swOrigin
}

type fnInfo struct {
	sf       *swFunc
	params   []types.Object // 0 = receiver (nil for plain functions), then the parameters in order
	lf       map[types.Object]bool
	orig     map[types.Object][]swOrigin
	docAlias map[types.Object]bool
}

type swCallSite struct {
	caller *fnInfo
	call   *ast.CallExpr
}

func (fi *fnInfo) paramIndex(o types.Object) int {
	for i, p := range fi.params {
		if p != nil && p == o {
			return i
		}
	}
	return -1
}

func addOrigin(l []swOrigin, o swOrigin) ([]swOrigin, bool) {
	for _, e := range l {
		if e == o {
			return l, false
		}
	}
	return append(l, o), true
}

func (x *swx) info(sf *swFunc) *fnInfo {
	if fi, ok := x.infos[sf.obj]; ok {
		return fi
	}
	p := sf.pkg
	info := p.TypesInfo
	fi := &fnInfo{sf: sf, orig: map[types.Object][]swOrigin{}, docAlias: map[types.Object]bool{}}
	x.infos[sf.obj] = fi
	fi.params = append(fi.params, nil)
	if sf.decl.Recv != nil && len(sf.decl.Recv.List) == 1 && len(sf.decl.Recv.List[0].Names) == 1 {
		fi.params[0] = info.Defs[sf.decl.Recv.List[0].Names[0]]
	}
	for _, fld := range sf.decl.Type.Params.List {
		if len(fld.Names) == 0 {
			fi.params = append(fi.params, nil)
		}
		for _, n := range fld.Names {
			fi.params = append(fi.params, info.Defs[n])
		}
	}
	fi.lf = x.localFresh(p, sf.decl.Body, sf.decl)
	// origins and document aliases of the non-fresh locals (flow-insensitive fixpoint)
	type asg struct {
		v   types.Object
		rhs ast.Expr
	}
	var asgs []asg
	objOf := func(id *ast.Ident) types.Object {
		if o := info.Defs[id]; o != nil {
			return o
		}
		return info.Uses[id]
	}
	ast.Inspect(sf.decl.Body, func(n ast.Node) bool {
		switch n := n.(type) {
		case *ast.AssignStmt:
			for i, l := range n.Lhs {
				id, ok := l.(*ast.Ident)
				if !ok || id.Name == "_" {
					continue
				}
				o := objOf(id)
				if o == nil || !isRefTypeDeep(o.Type()) {
					continue
				}
				if len(n.Rhs) == len(n.Lhs) {
					asgs = append(asgs, asg{o, n.Rhs[i]})
				} else if len(n.Rhs) == 1 && i == 0 {
					asgs = append(asgs, asg{o, n.Rhs[0]}) // v, ok := m[k] / x.(T) / f()
				} else {
					asgs = append(asgs, asg{o, nil})
				}
			}
		case *ast.ValueSpec:
			for i, id := range n.Names {
				if o := objOf(id); o != nil && isRefTypeDeep(o.Type()) && len(n.Values) == len(n.Names) {
					asgs = append(asgs, asg{o, n.Values[i]})
				}
			}
		case *ast.RangeStmt:
			for _, e := range []ast.Expr{n.Key, n.Value} {
				if id, ok := e.(*ast.Ident); ok && id.Name != "_" {
					if o := objOf(id); o != nil && isRefTypeDeep(o.Type()) {
						// an element of the container: same origin; reached through the container
						asgs = append(asgs, asg{o, &ast.IndexExpr{X: n.X, Index: &ast.BasicLit{Kind: token.INT, Value: "0"}}})
					}
				}
			}
		}
		return true
	})
	for changed := true; changed; {
		changed = false
		for _, a := range asgs {
			if fi.lf[a.v] {
				continue
			}
			var os []swOrigin
			doc := false
			if a.rhs == nil {
				os = []swOrigin{{kind: "call"}}
			} else {
				os, doc = x.originsOf(fi, a.rhs)
			}
			for _, o := range os {
				var ch bool
				if fi.orig[a.v], ch = addOrigin(fi.orig[a.v], o); ch {
					changed = true
				}
			}
			if (doc || x.isDocNamed(a.v.Type()) || x.isDocStruct(a.v.Type())) && !fi.docAlias[a.v] {
				fi.docAlias[a.v] = true
				changed = true
			}
		}
	}
	return fi
}

// originsOf: where can the reference held by e come from; doc = the expression passes through document state.
func (x *swx) originsOf(fi *fnInfo, e ast.Expr) ([]swOrigin, bool) {
	p := fi.sf.pkg
	if x.freshExpr(p, e, fi.lf) {
		return nil, false
	}
	if u, ok := e.(*ast.UnaryExpr); ok && u.Op == token.AND {
		e = u.X
	}
	w := x.walkLHS(p, e)
	if w.unread {
		return []swOrigin{{kind: "call"}}, false
	}
	switch r := w.root.(type) {
	case *ast.Ident:
		obj := p.TypesInfo.Uses[r]
		if obj == nil {
			obj = p.TypesInfo.Defs[r]
		}
		v, _ := obj.(*types.Var)
		if v == nil {
			return nil, false
		}
		if v.Pkg() != nil && v.Parent() == v.Pkg().Scope() {
			return []swOrigin{{kind: "global", global: v}}, w.docField
		}
		if i := fi.paramIndex(v); i >= 0 {
			return []swOrigin{{kind: "param", param: i}}, w.docField
		}
		if fi.lf[v] {
			return nil, false
		}
		if os := fi.orig[v]; len(os) > 0 {
			return os, w.docField || fi.docAlias[v]
		}
		return []swOrigin{{kind: "call"}}, w.docField || fi.docAlias[v]
	case *ast.CallExpr:
		if f := calleeOf(p, r); f != nil && x.fresh[f] {
			return nil, false
		}
		return []swOrigin{{kind: "call"}}, w.docField
	}
	return []swOrigin{{kind: "call"}}, false
}

func (x *swx) scan() {
	var fs []*swFunc
	for f := range x.reachable {
		if sf := x.funcs[f]; sf != nil {
			fs = append(fs, sf)
		}
	}
	sort.Slice(fs, func(i, j int) bool { return fs[i].decl.Pos() < fs[j].decl.Pos() })
	// call sites of every library function inside reachable functions
	x.sites = map[*types.Func][]swCallSite{}
	for _, sf := range fs {
		fi := x.info(sf)
		ast.Inspect(sf.decl.Body, func(n ast.Node) bool {
			call, ok := n.(*ast.CallExpr)
			if !ok {
				return true
			}
			for _, t := range x.callTargets(sf, call) {
				x.sites[t] = append(x.sites[t], swCallSite{fi, call})
			}
			return true
		})
	}
	var cands []swCand
	for _, sf := range fs {
		cands = append(cands, x.scanFunc(x.info(sf))...)
	}
	// propagate writes made through a parameter to the callers, up to the entry points
	isRoot := map[*types.Func]bool{}
	for _, r := range x.roots {
		isRoot[r] = true
	}
	type item struct {
		f   *types.Func
		idx int
		key string
	}
	seen := map[item]bool{}
	emitted := map[string]bool{}
	emit := func(row swRow) {
		k := fmt.Sprintf("%s:%d:%s:%s:%s", row.file, row.line, row.target, row.root, row.sync)
		if !emitted[k] {
			emitted[k] = true
			x.rows = append(x.rows, row)
		}
	}
	var prop func(fi *fnInfo, o swOrigin, row swRow)
	prop = func(fi *fnInfo, o swOrigin, row swRow) {
		switch o.kind {
		case "global":
			row.root, row.global = "viaGlobal", o.global.Name()
			emit(row)
			return
		case "call":
			row.root = "call"
			emit(row)
			return
		}
		it := item{fi.sf.obj, o.param, fmt.Sprintf("%s:%d:%s", row.file, row.line, row.target)}
		if seen[it] {
			return
		}
		seen[it] = true
		if isRoot[fi.sf.obj] {
			r := row
			r.root = "param"
			r.via = funcName(fi.sf.obj)
			emit(r)
		}
		sites := x.sites[fi.sf.obj]
		if len(sites) == 0 && !isRoot[fi.sf.obj] {
			r := row
			r.root = "call" // reachable only as a function value: the argument is unknown
			emit(r)
		}
		for _, s := range sites {
			var arg ast.Expr
			if o.param == 0 {
				if sel, ok := s.call.Fun.(*ast.SelectorExpr); ok {
					if _, isMethod := s.caller.sf.pkg.TypesInfo.Selections[sel]; isMethod {
						arg = sel.X
					}
				}
			} else if o.param-1 < len(s.call.Args) {
				arg = s.call.Args[o.param-1]
			}
			if arg == nil {
				r := row
				r.root = "call"
				emit(r)
				continue
			}
			os, _ := x.originsOf(s.caller, arg)
			for _, o2 := range os {
				prop(s.caller, o2, row)
			}
		}
	}
	for _, c := range cands {
		if c.row.root == "global" {
			emit(c.row)
			continue
		}
		for _, o := range c.origins {
			prop(c.fi, o, c.row)
		}
	}
}

// callTargets: library functions a call expression may invoke (static callee, implementations of an
// interface method, or every value-used function with the signature of a called function value).
func (x *swx) callTargets(sf *swFunc, n *ast.CallExpr) []*types.Func {
	info := sf.pkg.TypesInfo
	if f := calleeOf(sf.pkg, n); f != nil {
		return x.resolve(f)
	}
	tv, ok := info.Types[n.Fun]
	if !ok || tv.IsType() || tv.IsBuiltin() {
		return nil
	}
	if _, isLit := ast.Unparen(n.Fun).(*ast.FuncLit); isLit {
		return nil
	}
	sig, ok := tv.Type.Underlying().(*types.Signature)
	if !ok {
		return nil
	}
	var out []*types.Func
	for f := range x.valueUsed {
		if _, lib := x.funcs[f]; !lib {
			continue
		}
		fs := f.Type().(*types.Signature)
		if fs.Recv() != nil {
			continue // method values: receiver unknown at the call
		}
		if types.Identical(types.NewSignatureType(nil, nil, nil, fs.Params(), fs.Results(), fs.Variadic()),
			types.NewSignatureType(nil, nil, nil, sig.Params(), sig.Results(), sig.Variadic())) {
			out = append(out, f)
		}
	}
	sort.Slice(out, func(i, j int) bool { return funcName(out[i]) < funcName(out[j]) })
	return out
}

func (x *swx) scanFunc(fi *fnInfo) []swCand {
	sf := fi.sf
	p := sf.pkg
	info := p.TypesInfo
	var cands []swCand
	// mutex regions: positions of Lock / Unlock / defer Unlock calls on sync mutexes
	type lockEv struct {
		pos    token.Pos
		lock   bool
		defer_ bool
		name   string
	}
	var locks []lockEv
	var onceLits []*ast.FuncLit
	ast.Inspect(sf.decl.Body, func(n ast.Node) bool {
		isDefer := false
		var call *ast.CallExpr
		switch n := n.(type) {
		case *ast.DeferStmt:
			call, isDefer = n.Call, true
		case *ast.ExprStmt:
			call, _ = n.X.(*ast.CallExpr)
		}
		if call == nil {
			return true
		}
		sel, ok := call.Fun.(*ast.SelectorExpr)
		if !ok {
			return true
		}
		f, _ := info.Uses[sel.Sel].(*types.Func)
		if f == nil || f.Pkg() == nil || f.Pkg().Path() != "sync" {
			return true
		}
		switch f.Name() {
		case "Lock":
			locks = append(locks, lockEv{call.Pos(), true, false, x.text(sel.X)})
		case "Unlock":
			locks = append(locks, lockEv{call.Pos(), false, isDefer, x.text(sel.X)})
		case "Do":
			if len(call.Args) == 1 {
				if lit, ok := call.Args[0].(*ast.FuncLit); ok {
					onceLits = append(onceLits, lit)
				}
			}
		}
		return true
	})
	sort.Slice(locks, func(i, j int) bool { return locks[i].pos < locks[j].pos })
	underMutex := func(pos token.Pos) bool {
		held := map[string]bool{}
		deferred := map[string]bool{}
		for _, l := range locks {
			if l.pos > pos {
				break
			}
			if l.lock {
				held[l.name] = true
			} else if l.defer_ {
				deferred[l.name] = true
			} else {
				held[l.name] = false
			}
		}
		for n, h := range held {
			if !h {
				continue
			}
			if deferred[n] {
				return true
			}
			for _, l := range locks { // an Unlock must follow
				if l.pos > pos && !l.lock && l.name == n {
					return true
				}
			}
		}
		return false
	}
	inOnce := func(pos token.Pos) bool {
		for _, l := range onceLits {
			if l.Pos() <= pos && pos < l.End() {
				return true
			}
		}
		return false
	}
	// nil guards: if X == nil { X = e }
	guard := map[ast.Stmt]*types.Var{}
	ast.Inspect(sf.decl.Body, func(n ast.Node) bool {
		ifs, ok := n.(*ast.IfStmt)
		if !ok || ifs.Init != nil {
			return true
		}
		be, ok := ifs.Cond.(*ast.BinaryExpr)
		if !ok || be.Op != token.EQL {
			return true
		}
		id, ok := be.X.(*ast.Ident)
		nl, ok2 := be.Y.(*ast.Ident)
		if !ok || !ok2 || nl.Name != "nil" {
			return true
		}
		v, _ := info.Uses[id].(*types.Var)
		if v == nil || v.Pkg() == nil || v.Parent() != v.Pkg().Scope() {
			return true
		}
		for _, st := range ifs.Body.List {
			guard[st] = v
		}
		return true
	})

	// field guards: `v := R.f; if v == nil { …; R.f = e }` — lazily created field. When a constructor of the
	// package (New…) calls the enclosing method, the field is set before the object is handed out.
	fieldGuard := map[ast.Stmt]string{} // statement → text of the guarded field expression
	localInit := map[types.Object]ast.Expr{}
	ast.Inspect(sf.decl.Body, func(n ast.Node) bool {
		if as, ok := n.(*ast.AssignStmt); ok && as.Tok == token.DEFINE && len(as.Lhs) == 1 && len(as.Rhs) == 1 {
			if id, ok := as.Lhs[0].(*ast.Ident); ok {
				if _, isSel := as.Rhs[0].(*ast.SelectorExpr); isSel {
					localInit[info.Defs[id]] = as.Rhs[0]
				}
			}
		}
		ifs, ok := n.(*ast.IfStmt)
		if !ok || ifs.Init != nil {
			return true
		}
		be, ok := ifs.Cond.(*ast.BinaryExpr)
		if !ok || be.Op != token.EQL {
			return true
		}
		id, ok := be.X.(*ast.Ident)
		nl, ok2 := be.Y.(*ast.Ident)
		if !ok || !ok2 || nl.Name != "nil" {
			return true
		}
		if init, ok := localInit[info.Uses[id]]; ok {
			for _, st := range ifs.Body.List {
				fieldGuard[st] = x.text(init)
			}
		}
		return true
	})
	ctorCalls := func() bool {
		for _, g := range x.funcs {
			if g.pkg != p || g.decl.Recv != nil || !strings.HasPrefix(g.obj.Name(), "New") {
				continue
			}
			found := false
			ast.Inspect(g.decl.Body, func(n ast.Node) bool {
				if c, ok := n.(*ast.CallExpr); ok && calleeOf(p, c) == sf.obj {
					found = true
				}
				return true
			})
			if found {
				return true
			}
		}
		return false
	}

	record := func(at ast.Node, lhs ast.Expr, stmt ast.Stmt, forceSync string) {
		if forceSync == "" {
			if g, ok := fieldGuard[stmt]; ok && g == x.text(lhs) {
				if ctorCalls() {
					forceSync = "nilGuardCtor"
				} else {
					forceSync = "nilGuardField"
				}
			}
		}
		w := x.walkLHS(p, lhs)
		file, line := x.pos(at.Pos())
		if w.unread {
			x.unrec = append(x.unrec, fmt.Sprintf("%s:%d write through an unread shape: %s", file, line, x.text(lhs)))
			return
		}
		row := swRow{file: file, line: line, fn: funcName(sf.obj), target: x.text(lhs), sync: "none"}
		var origins []swOrigin
		switch r := w.root.(type) {
		case *ast.Ident:
			if r.Name == "_" {
				return
			}
			obj := info.Uses[r]
			if obj == nil {
				obj = info.Defs[r]
			}
			v, _ := obj.(*types.Var)
			if v == nil {
				return
			}
			if v.Pkg() != nil && v.Parent() == v.Pkg().Scope() {
				row.root = "global"
				row.global = v.Name()
				if gv, ok := guard[stmt]; ok && gv == v && !w.deref {
					if x.declInit[v] {
						row.sync = "nilGuardInit"
					} else {
						row.sync = "nilGuardNoInit"
					}
				}
			} else {
				if !w.deref {
					return // the variable itself: local storage
				}
				if fi.lf[v] {
					return // freshly allocated in this function
				}
				if !w.docField && !fi.docAlias[v] {
					x.notePerCall(p, lhs) // per-call structure (not a document type): counted, see perCallState
					return
				}
				if i := fi.paramIndex(v); i >= 0 {
					origins = []swOrigin{{kind: "param", param: i}}
				} else if os := fi.orig[v]; len(os) > 0 {
					origins = os
				} else {
					origins = []swOrigin{{kind: "call"}}
				}
			}
		case *ast.CallExpr:
			if !w.deref || !w.docField {
				return
			}
			if x.freshExpr(p, r, fi.lf) {
				return
			}
			origins = []swOrigin{{kind: "call"}}
		default:
			return // literal root
		}
		if forceSync == "appendSpare" && (underMutex(at.Pos()) || inOnce(at.Pos())) {
			forceSync = "" // a synchronised append is an ordinary synchronised write
		}
		if strings.HasPrefix(forceSync, "append") {
			row.target = x.text(at) // the whole call
		}
		if forceSync != "" {
			row.sync = forceSync
		} else if row.sync == "none" {
			if underMutex(at.Pos()) {
				row.sync = "mutex"
				if x.storeIfAbsent(sf, lhs, at.Pos()) {
					row.sync = "mutexIfAbsent"
				}
			} else if inOnce(at.Pos()) {
				row.sync = "once"
			}
		}
		cands = append(cands, swCand{row: row, fi: fi, origins: origins})
	}

	var curStmt ast.Stmt
	ast.Inspect(sf.decl.Body, func(n ast.Node) bool {
		if st, ok := n.(ast.Stmt); ok {
			switch st.(type) {
			case *ast.AssignStmt, *ast.IncDecStmt, *ast.ExprStmt:
				curStmt = st
			}
		}
		elemOf := func(c ast.Expr) ast.Expr {
			return &ast.IndexExpr{X: c, Index: &ast.BasicLit{Kind: token.INT, Value: "0"}, Lbrack: c.End(), Rbrack: c.End()}
		}
		switch n := n.(type) {
		case *ast.AssignStmt:
			for _, l := range n.Lhs {
				if _, ok := l.(*ast.Ident); ok && n.Tok == token.DEFINE {
					continue
				}
				record(n, l, n, "")
			}
			if len(n.Lhs) == len(n.Rhs) {
				for i, l := range n.Lhs {
					x.noteEscape(fi, n, l, n.Rhs[i])
				}
			}
		case *ast.IncDecStmt:
			record(n, n.X, n, "")
		case *ast.CallExpr:
			if id, ok := n.Fun.(*ast.Ident); ok {
				if _, isB := info.Uses[id].(*types.Builtin); isB && len(n.Args) > 0 {
					switch id.Name {
					case "delete", "copy", "clear":
						record(n, elemOf(n.Args[0]), curStmt, "") // the container's elements are written
					case "append":
						// spare capacity: the appended elements land in the backing array of Args[0]
						if len(n.Args) > 1 || n.Ellipsis.IsValid() {
							x.recordAppend(p, n, n.Args[0], curStmt, record)
						}
					}
				}
				return true
			}
			sel, ok := n.Fun.(*ast.SelectorExpr)
			if !ok {
				return true
			}
			f, _ := info.Uses[sel.Sel].(*types.Func)
			if f == nil || f.Pkg() == nil {
				return true
			}
			switch f.Pkg().Path() {
			case "sort", "slices":
				nm := f.Name()
				if f.Pkg().Path() == "slices" && len(n.Args) > 0 {
					switch nm {
					case "Insert", "Delete", "DeleteFunc", "Compact", "CompactFunc", "Replace", "Grow":
						// edit the argument's backing array in place (Grow: only when it must not reallocate — same hazard)
						x.recordAppend(p, n, n.Args[0], curStmt, record)
					}
				}
				if (strings.HasPrefix(nm, "Sort") || nm == "Strings" || nm == "Ints" || nm == "Float64s" ||
					nm == "Slice" || nm == "SliceStable" || nm == "Stable" || nm == "Reverse") && len(n.Args) > 0 {
					arg := n.Args[0]
					if c, ok := arg.(*ast.CallExpr); ok && len(c.Args) == 1 { // sort.Sort(byX(s))
						if tv, ok := info.Types[c.Fun]; ok && tv.IsType() {
							arg = c.Args[0]
						}
					}
					if t, ok := info.Types[arg]; ok && t.Type != nil {
						if _, isSlice := t.Type.Underlying().(*types.Slice); isSlice {
							record(n, elemOf(arg), curStmt, "")
						}
					}
				}
			case "sync":
				sig := f.Type().(*types.Signature)
				if sig.Recv() == nil {
					return true
				}
				if strings.HasSuffix(sig.Recv().Type().String(), "sync.Map") {
					switch f.Name() {
					case "LoadOrStore":
						record(n, sel.X, curStmt, "syncMapLoadOrStore") // publishes only when absent: the first writer wins
					case "Store", "LoadAndDelete", "Delete", "Swap", "CompareAndDelete", "Clear":
						record(n, sel.X, curStmt, "syncMap") // unconditional: the last writer wins
					case "CompareAndSwap":
						// CompareAndSwap(k, nil, v) never stores for an ABSENT key (and no value is ever nil): inert
						if id, ok := n.Args[1].(*ast.Ident); ok && len(n.Args) == 3 && id.Name == "nil" {
							record(n, sel.X, curStmt, "syncMapCasNil")
						} else {
							record(n, sel.X, curStmt, "syncMap")
						}
					case "Load", "Range":
						// not a write: the caller goes on to USE what the cache holds, so the cache is transparent
						// only if nothing reachable fills it with values that depend on per-call inputs
						record(n, sel.X, curStmt, "syncMapLoad")
					}
				}
			}
		}
		return true
	})
	return cands
}


// notePerCall: a write that was NOT taken for a write to shared state because the struct written is one of the
// per-call types. Counted per type, so that the classification is visible in the table (`perCallState`) and its
// justification — no document struct can reach such an object, it is allocated inside the call — is an obligation.
func (x *swx) notePerCall(p *packages.Package, lhs ast.Expr) {
	for e := ast.Unparen(lhs); ; {
		switch n := e.(type) {
		case *ast.SelectorExpr:
			if tv, ok := p.TypesInfo.Types[n.X]; ok && tv.Type != nil {
				t := tv.Type
				if pt, ok := t.Underlying().(*types.Pointer); ok {
					t = pt.Elem()
				}
				if nt, ok := t.(*types.Named); ok && nt.Obj().Pkg() != nil && x.pkgOf[nt.Obj().Pkg()] != nil {
					if _, isStruct := nt.Underlying().(*types.Struct); isStruct {
						if x.perCallWrites == nil {
							x.perCallWrites = map[string]int{}
						}
						x.perCallWrites[swTypeName(nt)]++
						return
					}
				}
			}
			e = n.X
		case *ast.IndexExpr:
			e = n.X
		case *ast.StarExpr:
			e = n.X
		case *ast.ParenExpr:
			e = n.X
		default:
			return
		}
	}
}

func swTypeName(nt *types.Named) string {
	return strings.TrimPrefix(nt.Obj().Pkg().Path(), kinPath+"/") + "." + nt.Obj().Name()
}

// perCallRows: for every struct type of the library that reachable code writes without the write being taken for a
// write to shared state (and for every type of perCallTypes) — is it reachable through the fields of a document struct (then it
// would be shared with the document), where is it allocated (composite literal / new), how many writes to it were
// set aside in reachable functions.
func (x *swx) perCallRows() []string {
	// struct types reachable from the shared structs (document, routers, Validator/Options) through fields
	inDoc := map[string]bool{}
	seen := map[types.Type]bool{}
	var walk func(t types.Type, top bool)
	walk = func(t types.Type, top bool) {
		if t == nil || seen[t] {
			return
		}
		seen[t] = true
		if nt, ok := t.(*types.Named); ok && nt.Obj().Pkg() != nil && x.pkgOf[nt.Obj().Pkg()] != nil && !top {
			if _, isStruct := nt.Underlying().(*types.Struct); isStruct && !x.isDocStruct(nt) {
				inDoc[swTypeName(nt)] = true
			}
		}
		switch u := t.Underlying().(type) {
		case *types.Pointer:
			walk(u.Elem(), false)
		case *types.Slice:
			walk(u.Elem(), false)
		case *types.Array:
			walk(u.Elem(), false)
		case *types.Map:
			walk(u.Key(), false)
			walk(u.Elem(), false)
		case *types.Struct:
			for i := 0; i < u.NumFields(); i++ {
				walk(u.Field(i).Type(), false)
			}
		}
	}
	declared := map[string]bool{}
	// … and from the package-level variables (a cache of descriptors makes the descriptor type process-wide state)
	inGlobal := map[string]bool{}
	for _, p := range x.pkgList {
		scope := p.Types.Scope()
		for _, nm := range scope.Names() {
			if v, ok := scope.Lookup(nm).(*types.Var); ok {
				saveDoc, saveSeen := inDoc, seen
				inDoc, seen = inGlobal, map[types.Type]bool{}
				walk(v.Type(), false)
				inDoc, seen = saveDoc, saveSeen
			}
		}
	}
	for _, p := range x.pkgList {
		scope := p.Types.Scope()
		for _, nm := range scope.Names() {
			if tn, ok := scope.Lookup(nm).(*types.TypeName); ok && !tn.IsAlias() {
				if nt, ok := tn.Type().(*types.Named); ok {
					declared[swTypeName(nt)] = true
					if x.isDocStruct(nt) {
						walk(nt, true)
					}
				}
			}
		}
	}
	// allocation sites
	alloc := map[string]map[string]bool{}
	allocReach := map[string]bool{}
	for _, sf := range x.funcs {
		info := sf.pkg.TypesInfo
		ast.Inspect(sf.decl.Body, func(n ast.Node) bool {
			var t types.Type
			switch n := n.(type) {
			case *ast.CompositeLit:
				if tv, ok := info.Types[n]; ok {
					t = tv.Type
				}
			case *ast.CallExpr:
				if id, ok := n.Fun.(*ast.Ident); ok && id.Name == "new" && len(n.Args) == 1 {
					if tv, ok := info.Types[n.Args[0]]; ok {
						t = tv.Type
					}
				}
			}
			if nt, ok := t.(*types.Named); ok && nt.Obj().Pkg() != nil && x.pkgOf[nt.Obj().Pkg()] != nil {
				k := swTypeName(nt)
				if alloc[k] == nil {
					alloc[k] = map[string]bool{}
				}
				alloc[k][funcName(sf.obj)] = true
				if x.reachable[sf.obj] {
					allocReach[k] = true
				}
			}
			return true
		})
	}
	names := map[string]bool{}
	for n := range perCallTypes {
		names["openapi3."+n] = true
	}
	for n := range x.perCallWrites {
		names[n] = true
	}
	var sorted []string
	for n := range names {
		sorted = append(sorted, n)
	}
	sort.Strings(sorted)
	var rows []string
	for _, n := range sorted {
		var sites []string
		for f := range alloc[n] {
			sites = append(sites, f)
		}
		sort.Strings(sites)
		if len(sites) > 4 {
			sites = append(sites[:4], fmt.Sprintf("… %d more", len(sites)-4))
		}
		var q []string
		for _, s := range sites {
			q = append(q, shar_leanStr(s))
		}
		rows = append(rows, fmt.Sprintf("⟨%s, %v, %v, %v, %d, %v, [%s]⟩", shar_leanStr(n), declared[n], inDoc[n], inGlobal[n], x.perCallWrites[n], allocReach[n], strings.Join(q, ", ")))
	}
	return rows
}

// isPayload: `any`, or a map / slice of it — the static type of default / example / enum / extension values.
func isPayload(t types.Type) bool {
	switch u := t.Underlying().(type) {
	case *types.Interface:
		return u.NumMethods() == 0
	case *types.Map:
		return isPayload(u.Elem())
	case *types.Slice:
		return isPayload(u.Elem())
	}
	return false
}

// noteEscape: `C[k] = e` / `C.f = e` where e is an `any`-typed payload that comes out of the shared document (not a
// copy) and C is NOT document state and not a container allocated in this function: the document's own value becomes
// part of a caller's value (the request body being validated), and whatever the call later writes into that value
// — nested defaults — is written into the document (finding F-C15-1: `value[propName] = dflt`). Row class
// `payloadEscape`.
func (x *swx) noteEscape(fi *fnInfo, at ast.Node, lhs, rhs ast.Expr) {
	p := fi.sf.pkg
	switch ast.Unparen(lhs).(type) {
	case *ast.IndexExpr, *ast.SelectorExpr:
	default:
		return
	}
	tv, ok := p.TypesInfo.Types[rhs]
	if !ok || tv.Type == nil || !isPayload(tv.Type) || x.freshExpr(p, rhs, fi.lf) {
		return
	}
	os, doc := x.originsOf(fi, rhs)
	if !doc || len(os) == 0 {
		return
	}
	w := x.walkLHS(p, lhs)
	if w.unread || w.docField {
		return // a write to the document itself: an ordinary row
	}
	id, ok := w.root.(*ast.Ident)
	if !ok {
		return
	}
	obj := p.TypesInfo.Uses[id]
	if obj == nil {
		obj = p.TypesInfo.Defs[id]
	}
	v, _ := obj.(*types.Var)
	if v == nil || fi.lf[v] || fi.docAlias[v] {
		return
	}
	file, line := x.pos(at.Pos())
	x.escapes = append(x.escapes, swRow{file: file, line: line, fn: funcName(fi.sf.obj), target: x.text(at), root: "alias", sync: "payloadEscape"})
}

// storeIfAbsent: the write `M[k] = …` at pos sits in the absent-branch of a comma-ok lookup of M[k].
func (x *swx) storeIfAbsent(sf *swFunc, lhs ast.Expr, pos token.Pos) bool {
	ix, ok := ast.Unparen(lhs).(*ast.IndexExpr)
	if !ok {
		return false
	}
	want := x.text(ix)
	found := false
	ast.Inspect(sf.decl.Body, func(n ast.Node) bool {
		ifs, ok := n.(*ast.IfStmt)
		if !ok || ifs.Init == nil || found {
			return true
		}
		as, ok := ifs.Init.(*ast.AssignStmt)
		if !ok || len(as.Lhs) != 2 || len(as.Rhs) != 1 {
			return true
		}
		rix, ok := ast.Unparen(as.Rhs[0]).(*ast.IndexExpr)
		okVar, ok2 := as.Lhs[1].(*ast.Ident)
		if !ok || !ok2 || x.text(rix) != want {
			return true
		}
		in := func(b ast.Node) bool { return b != nil && b.Pos() <= pos && pos < b.End() }
		switch c := ast.Unparen(ifs.Cond).(type) {
		case *ast.Ident: // if p, ok := M[k]; ok { … } else { M[k] = v }
			if c.Name == okVar.Name && ifs.Else != nil && in(ifs.Else) {
				found = true
			}
		case *ast.UnaryExpr: // if _, ok := M[k]; !ok { M[k] = v }
			if id, isId := ast.Unparen(c.X).(*ast.Ident); isId && c.Op == token.NOT && id.Name == okVar.Name && in(ifs.Body) {
				found = true
			}
		}
		return true
	})
	return found
}

// recordAppend: `append(s, …)`. With cap(s) == len(s) guaranteed by the expression itself (full slice expression whose
// max equals its high bound, or slices.Clip) nothing is written; otherwise the elements of s are (potentially) written.
func (x *swx) recordAppend(p *packages.Package, at ast.Node, s ast.Expr, stmt ast.Stmt, record func(ast.Node, ast.Expr, ast.Stmt, string)) {
	s = ast.Unparen(s)
	class := "appendSpare"
	switch e := s.(type) {
	case *ast.SliceExpr:
		if e.Slice3 && e.High != nil && e.Max != nil && x.text(e.High) == x.text(e.Max) {
			class = "appendClipped"
		}
	case *ast.CallExpr:
		if f := calleeOf(p, e); f != nil && f.Pkg() != nil && f.Pkg().Path() == "slices" && f.Name() == "Clip" && len(e.Args) == 1 {
			class = "appendClipped"
			s = e.Args[0]
		}
	}
	record(at, &ast.IndexExpr{X: s, Index: &ast.BasicLit{Kind: token.INT, Value: "0"}, Lbrack: s.End(), Rbrack: s.End()}, stmt, class)
}

// ---------------------------------------------------------------- output

func shar_leanStr(s string) string {
	s = strings.ReplaceAll(s, `\`, `\\`)
	s = strings.ReplaceAll(s, `"`, `\"`)
	return `"` + s + `"`
}

func (x *swx) emit() string {
	seenEsc := map[string]bool{}
	for _, r := range x.escapes {
		k := fmt.Sprintf("%s:%d", r.file, r.line)
		if !seenEsc[k] {
			seenEsc[k] = true
			x.rows = append(x.rows, r)
		}
	}
	sort.Slice(x.rows, func(i, j int) bool {
		a, b := x.rows[i], x.rows[j]
		if a.file != b.file {
			return a.file < b.file
		}
		if a.line != b.line {
			return a.line < b.line
		}
		return a.target < b.target
	})
	sort.Strings(x.unrec)
	var sb strings.Builder
	sb.WriteString("/- GENERATED by go/cmd/extract (table SharedWrites) from the repository's current source. Do not edit. -/\n")
	sb.WriteString("import KinModel.Conc\nnamespace KinModel.Gen\nopen KinModel.Conc\n\n")
	n := len(x.rows) + len(x.unrec)
	fmt.Fprintf(&sb, "-- rows: %d\n", n)
	fmt.Fprintf(&sb, "-- reachable functions: %d of %d; entry points: %d\n", len(x.reachable), len(x.funcs), len(x.roots))
	sb.WriteString("def sharedWrites : List SharedWrite := [\n")
	first := true
	sep := func() {
		if first {
			sb.WriteString("  ")
			first = false
		} else {
			sb.WriteString(", ")
		}
	}
	for _, r := range x.rows {
		sep()
		fmt.Fprintf(&sb, ".write %s %d %s %s .%s .%s %s %s\n", shar_leanStr(r.file), r.line, shar_leanStr(r.fn), shar_leanStr(r.target), r.root, r.sync, shar_leanStr(r.global), shar_leanStr(r.via))
	}
	for _, u := range x.unrec {
		sep()
		fmt.Fprintf(&sb, ".unrecognised %s\n", shar_leanStr(u))
	}
	sb.WriteString("]\n\n")
	// the per-call struct types whose writes were set aside
	sb.WriteString("def perCallState : List PerCallRow := [\n  " + strings.Join(x.perCallRows(), ",\n  ") + "\n]\n\n")
	// reachable function names, for inspection (comment only)
	var names []string
	for f := range x.reachable {
		if _, ok := x.funcs[f]; ok {
			names = append(names, funcName(f))
		}
	}
	sort.Strings(names)
	sb.WriteString("/- reachable:\n")
	for _, nme := range names {
		sb.WriteString("  " + nme + "\n")
	}
	sb.WriteString("-/\nend KinModel.Gen\n")
	return sb.String()
}
