package main

// Table DecoderFmt (property C05): the string constants of the styled-parameter decoders, read syntactically from
// openapi3filter/req_resp_decoder.go, so that the prefixes and delimiters the model uses are the code's:
//   * pathParamDecoder.DecodePrimitive: `switch sm.Style { case "<style>": prefix = <e> … }`;
//   * pathParamDecoder.DecodeArray / DecodeObject: the tag-less switch whose cases are `sm.Style == "<style>"` optionally
//     `&& [!]sm.Explode`, with assignments to prefix, delim / propsDelim, valueDelim;
//   * urlValuesDecoder.DecodeArray: `switch sm.Style { case "<style>": delim = "<d>" }`;
//   * the first guard of every Decode* method of the query / header / cookie decoders:
//     `sm.Style != "<style>"`, `sm.Style == "<style>"`, optionally `|| sm.Explode`;
//   * the literal arguments of strings.Split and propsFromString in the header, cookie and query decoders.
// A string expression is a literal or `";" + param + "="`; anything else becomes `.unrecognised "<file:line>"`.

import (
	"fmt"
	"go/ast"
	"go/parser"
	"go/token"
	"path/filepath"
	"strconv"
	"strings"
)

func init() { register("DecoderFmt", extractDecoderFmt) }

func dfStr(e ast.Expr) (string, bool) {
	if bl, ok := e.(*ast.BasicLit); ok && bl.Kind == token.STRING {
		s, err := strconv.Unquote(bl.Value)
		if err == nil {
			return s, true
		}
	}
	return "", false
}

// dfExpr renders a string expression as a Lean StrE term.
func dfExpr(e ast.Expr, at func(token.Pos) string) string {
	if s, ok := dfStr(e); ok {
		return fmt.Sprintf("(.lit %q)", s)
	}
	if b, ok := e.(*ast.BinaryExpr); ok && b.Op == token.ADD {
		if b2, ok := b.X.(*ast.BinaryExpr); ok && b2.Op == token.ADD {
			l, ok1 := dfStr(b2.X)
			r, ok2 := dfStr(b.Y)
			if ok1 && ok2 && l == ";" && r == "=" && scIdent(b2.Y) == "param" {
				return ".semiName"
			}
		}
	}
	if id := scIdent(e); id != "" {
		return fmt.Sprintf("(.ident %q)", id)
	}
	return fmt.Sprintf("(.unrecognised %q)", at(e.Pos()))
}

// dfCond reads `sm.Style == "x"` or `sm.Style == "x" && [!]sm.Explode`; explode: "none", "(some true)", "(some false)".
func dfCond(e ast.Expr) (style, explode string, ok bool) {
	explode = "none"
	if b, isB := e.(*ast.BinaryExpr); isB && b.Op == token.LAND {
		ex := b.Y
		explode = "(some true)"
		if u, isU := ex.(*ast.UnaryExpr); isU && u.Op == token.NOT {
			explode = "(some false)"
			ex = u.X
		}
		if scIdent(ex) != "sm.Explode" {
			return "", "", false
		}
		e = b.X
	}
	b, isB := e.(*ast.BinaryExpr)
	if !isB || b.Op != token.EQL || scIdent(b.X) != "sm.Style" {
		return "", "", false
	}
	s, isS := dfStr(b.Y)
	return s, explode, isS
}

func dfRecv(fd *ast.FuncDecl) string {
	if fd.Recv == nil || len(fd.Recv.List) != 1 {
		return ""
	}
	if st, ok := fd.Recv.List[0].Type.(*ast.StarExpr); ok {
		return scIdent(st.X)
	}
	return ""
}

func extractDecoderFmt(repo string) (string, error) {
	rel := "openapi3filter/req_resp_decoder.go"
	fset := token.NewFileSet()
	f, err := parser.ParseFile(fset, filepath.Join(repo, rel), nil, 0)
	if err != nil {
		return "", err
	}
	at := func(p token.Pos) string { return fmt.Sprintf("%s:%d", rel, fset.Position(p).Line) }
	var rows []string
	seen := map[string]bool{}
	for _, d := range f.Decls {
		fd, ok := d.(*ast.FuncDecl)
		if !ok || fd.Body == nil {
			continue
		}
		recv, name := dfRecv(fd), fd.Name.Name
		if recv == "" || !strings.HasPrefix(name, "Decode") {
			continue
		}
		site := recv + "." + name
		assigns := func(body []ast.Stmt) map[string]string {
			m := map[string]string{}
			for _, b := range body {
				if as, ok := b.(*ast.AssignStmt); ok && len(as.Lhs) == 1 && len(as.Rhs) == 1 {
					m[scIdent(as.Lhs[0])] = dfExpr(as.Rhs[0], at)
				}
			}
			return m
		}
		get := func(m map[string]string, k string) string {
			if v, ok := m[k]; ok {
				return v
			}
			return `(.lit "")` // Go's zero value of the declared string variable
		}
		if recv == "pathParamDecoder" {
			seen[site] = true
			found := false
			for _, st := range fd.Body.List {
				sw, ok := st.(*ast.SwitchStmt)
				if !ok {
					continue
				}
				found = true
				for _, cs := range sw.Body.List {
					cc := cs.(*ast.CaseClause)
					if len(cc.List) == 0 {
						continue // default: invalidSerializationMethodErr
					}
					m := assigns(cc.Body)
					for _, e := range cc.List {
						switch {
						case name == "DecodePrimitive" && scIdent(sw.Tag) == "sm.Style":
							if s, ok := dfStr(e); ok {
								rows = append(rows, fmt.Sprintf(".pathPrim %q %s", s, get(m, "prefix")))
							} else {
								rows = append(rows, fmt.Sprintf(".unrecognised %q", at(e.Pos())))
							}
						case name == "DecodeArray" && sw.Tag == nil:
							if s, ex, ok := dfCond(e); ok {
								rows = append(rows, fmt.Sprintf(".pathArr %q %s %s %s", s, ex, get(m, "prefix"), get(m, "delim")))
							} else {
								rows = append(rows, fmt.Sprintf(".unrecognised %q", at(e.Pos())))
							}
						case name == "DecodeObject" && sw.Tag == nil:
							if s, ex, ok := dfCond(e); ok {
								rows = append(rows, fmt.Sprintf(".pathObj %q %s %s %s %s", s, ex, get(m, "prefix"), get(m, "propsDelim"), get(m, "valueDelim")))
							} else {
								rows = append(rows, fmt.Sprintf(".unrecognised %q", at(e.Pos())))
							}
						default:
							rows = append(rows, fmt.Sprintf(".unrecognised %q", at(e.Pos())))
						}
					}
				}
				break
			}
			if !found {
				rows = append(rows, fmt.Sprintf(".unrecognised %q", at(fd.Pos())))
			}
			continue
		}
		if recv != "urlValuesDecoder" && recv != "headerParamDecoder" && recv != "cookieParamDecoder" {
			continue
		}
		seen[site] = true
		// the first guard
		if len(fd.Body.List) > 0 {
			if ifs, ok := fd.Body.List[0].(*ast.IfStmt); ok {
				cond := ifs.Cond
				explodeRefused := "false"
				if b, ok := cond.(*ast.BinaryExpr); ok && b.Op == token.LOR && scIdent(b.Y) == "sm.Explode" {
					explodeRefused = "true"
					cond = b.X
				}
				if b, ok := cond.(*ast.BinaryExpr); ok && scIdent(b.X) == "sm.Style" && (b.Op == token.NEQ || b.Op == token.EQL) {
					if s, ok := dfStr(b.Y); ok {
						only := "true" // != : only this style passes; == : this style is refused
						if b.Op == token.EQL {
							only = "false"
						}
						rows = append(rows, fmt.Sprintf(".guard %q %q %s %s", site, s, only, explodeRefused))
					} else {
						rows = append(rows, fmt.Sprintf(".unrecognised %q", at(cond.Pos())))
					}
				}
			}
		}
		ast.Inspect(fd.Body, func(n ast.Node) bool {
			switch x := n.(type) {
			case *ast.SwitchStmt:
				if recv == "urlValuesDecoder" && name == "DecodeArray" && scIdent(x.Tag) == "sm.Style" {
					for _, cs := range x.Body.List {
						cc := cs.(*ast.CaseClause)
						m := assigns(cc.Body)
						for _, e := range cc.List {
							if s, ok := dfStr(e); ok {
								rows = append(rows, fmt.Sprintf(".queryArrDelim %q %s", s, get(m, "delim")))
							} else {
								rows = append(rows, fmt.Sprintf(".unrecognised %q", at(e.Pos())))
							}
						}
					}
				}
			case *ast.AssignStmt:
				// valueDelim := "," and valueDelim = "=" (headerParamDecoder.DecodeObject)
				if len(x.Lhs) == 1 && len(x.Rhs) == 1 && scIdent(x.Lhs[0]) == "valueDelim" {
					rows = append(rows, fmt.Sprintf(".assign %q %q %s", site, "valueDelim", dfExpr(x.Rhs[0], at)))
				}
			case *ast.CallExpr:
				callee := scIdent(x.Fun)
				if callee == "strings.Split" && len(x.Args) == 2 {
					rows = append(rows, fmt.Sprintf(".call %q %q [%s]", site, callee, dfExpr(x.Args[1], at)))
				}
				if callee == "propsFromString" && len(x.Args) == 3 {
					rows = append(rows, fmt.Sprintf(".call %q %q [%s, %s]", site, callee, dfExpr(x.Args[1], at), dfExpr(x.Args[2], at)))
				}
			}
			return true
		})
	}
	for _, want := range []string{"pathParamDecoder.DecodePrimitive", "pathParamDecoder.DecodeArray", "pathParamDecoder.DecodeObject",
		"urlValuesDecoder.DecodePrimitive", "urlValuesDecoder.DecodeArray", "urlValuesDecoder.DecodeObject",
		"headerParamDecoder.DecodePrimitive", "headerParamDecoder.DecodeArray", "headerParamDecoder.DecodeObject",
		"cookieParamDecoder.DecodePrimitive", "cookieParamDecoder.DecodeArray", "cookieParamDecoder.DecodeObject"} {
		if !seen[want] {
			rows = append(rows, fmt.Sprintf(".unrecognised %q", rel+": no method "+want))
		}
	}
	var sb strings.Builder
	sb.WriteString("-- generated by go/cmd/extract (table DecoderFmt) from openapi3filter/req_resp_decoder.go; do not edit\n")
	sb.WriteString("import KinModel.Lemmas.C05Fmt\nnamespace KinModel.Gen\nopen KinModel.Style\n\n")
	fmt.Fprintf(&sb, "-- rows: %d\n", len(rows))
	sb.WriteString("/-- prefixes, delimiters, guards and split arguments of the styled-parameter decoders, in source order -/\ndef decoderFmt : List FmtRow := [\n")
	for i, c := range rows {
		sep := ","
		if i == len(rows)-1 {
			sep = ""
		}
		fmt.Fprintf(&sb, "  %s%s\n", c, sep)
	}
	sb.WriteString("]\n\nend KinModel.Gen\n")
	return sb.String(), nil
}
