package main

// Table `Internalized` (C16): the descent of (*T).InternalizeRefs as written in openapi3/internalize_refs.go.
// One row per call `doc.add…ToSpec(x, …, flag)`, `doc.deref…(x, …, flag)`, `doc.isVisited…(x)` inside
// InternalizeRefs and the deref* methods, in source order: (enclosing function, callee, first argument, flag
// expression); and one row per nil guard of these functions: `if <cond mentioning nil> { continue | return }` as
// (function, "skipIf", cond, "") and `if <cond mentioning nil> { … }` as (function, "onlyIf", cond, ""), at its source
// position among the calls. A call of one of these methods with an unexpected number of arguments, and a nil test
// with an else branch, become `unrecognised`.
// Second list `internalizedAdd`: for each of the nine add…ToSpec methods, in source order, every use of a member of
// doc.Components — (function, "lookup" | "niltest" | "init" | "store", member, "") — and every "#/components/<kind>/" literal —
// (function, "prefix", text, ""), and the condition of the early return the method starts with — (function, "guard", cond, "").
// An indexed Components expression of another shape becomes `unrecognised`.

import (
	"bytes"
	"fmt"
	"go/ast"
	"go/parser"
	"go/printer"
	"go/token"
	"path/filepath"
	"sort"
	"strings"
)

func init() { register("Internalized", extractInternalized) }

func extractInternalized(repo string) (string, error) {
	fset := token.NewFileSet()
	fn := filepath.Join(repo, "openapi3", "internalize_refs.go")
	f, err := parser.ParseFile(fset, fn, nil, 0)
	if err != nil {
		return "", err
	}
	src := func(n ast.Node) string {
		var b bytes.Buffer
		printer.Fprint(&b, fset, n)
		return strings.Join(strings.Fields(b.String()), " ")
	}
	var rows []string
	q := func(s string) string { return fmt.Sprintf("%q", s) }
	for _, d := range f.Decls {
		fd, ok := d.(*ast.FuncDecl)
		if !ok || fd.Recv == nil || fd.Body == nil {
			continue
		}
		name := fd.Name.Name
		if name != "InternalizeRefs" && !strings.HasPrefix(name, "deref") {
			continue
		}
		ast.Inspect(fd.Body, func(n ast.Node) bool {
			if is, ok := n.(*ast.IfStmt); ok && strings.Contains(src(is.Cond), "nil") {
				// nil guards: `if x == nil … { continue | return }` (skipIf) and `if x != nil … { … }` (onlyIf)
				kind := "onlyIf"
				if len(is.Body.List) == 1 {
					switch st := is.Body.List[0].(type) {
					case *ast.BranchStmt:
						if st.Tok == token.CONTINUE {
							kind = "skipIf"
						}
					case *ast.ReturnStmt:
						kind = "skipIf"
					}
				}
				if is.Else != nil {
					rows = append(rows, fmt.Sprintf("IRow.unrecognised %q", fset.Position(is.Pos()).String()))
				} else {
					cond := src(is.Cond)
					if is.Init != nil {
						cond = src(is.Init) + "; " + cond
					}
					rows = append(rows, fmt.Sprintf("IRow.call %s %s %s %s", q(name), q(kind), q(cond), q("")))
				}
				return true
			}
			ce, ok := n.(*ast.CallExpr)
			if !ok {
				return true
			}
			se, ok := ce.Fun.(*ast.SelectorExpr)
			if !ok {
				return true
			}
			if id, ok := se.X.(*ast.Ident); !ok || id.Name != "doc" {
				return true
			}
			m := se.Sel.Name
			switch {
			case m == "resetVisited":
				// `doc.resetVisited()`: every call starts with empty visited sets (model: initSt / rerunSt)
				if len(ce.Args) != 0 {
					rows = append(rows, fmt.Sprintf("IRow.unrecognised %q", fset.Position(ce.Pos()).String()))
				} else {
					rows = append(rows, fmt.Sprintf("IRow.call %s %s %s %s", q(name), q(m), q(""), q("")))
				}
			case strings.HasPrefix(m, "isVisited"):
				if len(ce.Args) != 1 {
					rows = append(rows, fmt.Sprintf("IRow.unrecognised %q", fset.Position(ce.Pos()).String()))
				} else {
					rows = append(rows, fmt.Sprintf("IRow.call %s %s %s %s", q(name), q(m), q(src(ce.Args[0])), q("")))
				}
			case strings.HasPrefix(m, "add") && strings.HasSuffix(m, "ToSpec"), strings.HasPrefix(m, "deref"):
				if len(ce.Args) != 3 {
					rows = append(rows, fmt.Sprintf("IRow.unrecognised %q", fset.Position(ce.Pos()).String()))
				} else {
					rows = append(rows, fmt.Sprintf("IRow.call %s %s %s %s", q(name), q(m), q(src(ce.Args[0])), q(src(ce.Args[2]))))
				}
			}
			return true
		})
	}
	// the nine add…ToSpec methods: which member of doc.Components each one looks the name up in, initialises and
	// stores into, and which "#/components/<kind>/" texts it writes — in source order
	var addRows []string
	for _, d := range f.Decls {
		fd, ok := d.(*ast.FuncDecl)
		if !ok || fd.Recv == nil || fd.Body == nil {
			continue
		}
		name := fd.Name.Name
		if !strings.HasPrefix(name, "add") || !strings.HasSuffix(name, "ToSpec") {
			continue
		}
		compMember := func(e ast.Expr) (string, bool) { // doc.Components.<F>
			se, ok := e.(*ast.SelectorExpr)
			if !ok {
				return "", false
			}
			inner, ok := se.X.(*ast.SelectorExpr)
			if !ok || inner.Sel.Name != "Components" {
				return "", false
			}
			if id, ok := inner.X.(*ast.Ident); !ok || id.Name != "doc" {
				return "", false
			}
			return se.Sel.Name, true
		}
		stores := map[ast.Node]bool{}
		type ev struct {
			pos  token.Pos
			kind string
			arg  string
		}
		var evs []ev
		ast.Inspect(fd.Body, func(n ast.Node) bool {
			switch x := n.(type) {
			case *ast.AssignStmt:
				for _, l := range x.Lhs {
					if ie, ok := l.(*ast.IndexExpr); ok {
						if m, ok := compMember(ie.X); ok {
							stores[ie] = true
							evs = append(evs, ev{ie.Pos(), "store", m})
						}
					} else if m, ok := compMember(l); ok {
						evs = append(evs, ev{l.Pos(), "init", m})
					}
				}
			case *ast.IndexExpr:
				if m, ok := compMember(x.X); ok && !stores[x] {
					evs = append(evs, ev{x.Pos(), "lookup", m})
				} else if !ok {
					if _, isSel := x.X.(*ast.SelectorExpr); isSel && strings.Contains(src(x.X), "Components") {
						evs = append(evs, ev{x.Pos(), "unrecognised", ""})
					}
				}
			case *ast.BinaryExpr:
				if m, ok := compMember(x.X); ok {
					evs = append(evs, ev{x.Pos(), "niltest", m})
				}
			case *ast.BasicLit:
				if x.Kind == token.STRING && strings.HasPrefix(x.Value, "\"#/components/") {
					evs = append(evs, ev{x.Pos(), "prefix", strings.Trim(x.Value, "\"")})
				}
			}
			return true
		})
		// the early return: `if x == nil || x.Value == nil || !isExternalRef(x.Ref, parentIsExternal) { return … }`
		if len(fd.Body.List) > 0 {
			if is, ok := fd.Body.List[0].(*ast.IfStmt); ok && is.Init == nil && is.Else == nil && len(is.Body.List) == 1 {
				if _, isRet := is.Body.List[0].(*ast.ReturnStmt); isRet {
					evs = append(evs, ev{is.Pos(), "guard", src(is.Cond)})
				}
			}
		}
		sort.SliceStable(evs, func(i, j int) bool { return evs[i].pos < evs[j].pos })
		for _, e := range evs {
			if e.kind == "unrecognised" {
				addRows = append(addRows, fmt.Sprintf("IRow.unrecognised %q", fset.Position(e.pos).String()))
			} else {
				addRows = append(addRows, fmt.Sprintf("IRow.call %s %s %s %s", q(name), q(e.kind), q(e.arg), q("")))
			}
		}
	}
	var b strings.Builder
	b.WriteString("-- generated by go/cmd/extract (table Internalized) from openapi3/internalize_refs.go; do not edit\n")
	b.WriteString("namespace KinModel.Gen\n\ninductive IRow\n  | call (fn callee arg flag : String)\n  | unrecognised (pos : String)\n  deriving DecidableEq, Repr\n\n")
	fmt.Fprintf(&b, "-- rows: %d\ndef internalized : List IRow := [\n", len(rows))
	for i, r := range rows {
		sep := ","
		if i == len(rows)-1 {
			sep = ""
		}
		fmt.Fprintf(&b, "  %s%s\n", r, sep)
	}
	fmt.Fprintf(&b, "]\n\n-- rows: %d\ndef internalizedAdd : List IRow := [\n", len(addRows))
	for i, r := range addRows {
		sep := ","
		if i == len(addRows)-1 {
			sep = ""
		}
		fmt.Fprintf(&b, "  %s%s\n", r, sep)
	}
	b.WriteString("]\n\nend KinModel.Gen\n")
	return b.String(), nil
}
