package main

// Table PanicSites (C10): every potentially panicking operation in the functions that are statically
// reachable from the traffic entry points (both routers' NewRouter/FindRoute, ValidateRequest,
// ValidateResponse, ConvertErrors, ValidationErrorEncoder.Encode, Validator.Middleware), grouped by
// (file, function, kind, syntactic guard).
//
// Kinds: derefOptScalar (*x, x pointer to a basic type), derefRefValue (y.Value.f through a *…Ref),
// derefOptStruct (y.g.f through a pointer field g of a repository struct), typeAssert (x.(T) without
// comma-ok), index (x[i] / x[i:j] on slice, string, array), explicitPanic, bigFloat (big.NewFloat),
// intDiv (integer / or % by a non-constant), nilMapWrite (m[k] = v where m is a field, a parameter or a result — not a
// map made in the same function), nilFuncCall (a call through a func-typed struct field or package variable).
// Guards read syntactically: nilCheck (an enclosing condition, a left operand of &&, `== nil ||`, or an
// earlier `if x == nil { return/continue/break/panic }` in an enclosing block mentions the same
// expression), lenCheck (same, with len(x) / a range index / a checked strings.Index result),
// apiInput (the pointer is a field of one of the API's input structs: caller contract), none.
// Rows with guard none must be discharged by the hand-written expectations table in
// KinModel/PanicSites.lean; `all_sites_discharged` is decided over the whole regenerated table.

import (
	"fmt"
	"go/ast"
	"go/constant"
	"go/token"
	"go/types"
	"os"
	"sort"
	"strings"

	"golang.org/x/tools/go/packages"
)

func init() { register("PanicSites", panicSites) }

type psKey struct{ file, fn, kind, guard string }

type psFunc struct {
	pkg  *packages.Package
	decl *ast.FuncDecl
	obj  *types.Func
}

type psWorld struct {
	funcs map[*types.Func]*psFunc
	reach map[*types.Func]bool
	own   map[string]bool
	unrec []string
}

// psLoad loads the traffic packages and computes the functions statically reachable from the roots
func psLoad(repo string) (*psWorld, error) {
	cfg := &packages.Config{
		Mode: packages.NeedName | packages.NeedFiles | packages.NeedSyntax | packages.NeedTypes |
			packages.NeedTypesInfo | packages.NeedImports | packages.NeedDeps,
		Dir: repo, BuildFlags: []string{"-tags=verif"},
		Env: append(os.Environ(), "GOFLAGS=-mod=mod", "GOPROXY=off", "GOSUMDB=off", "GOTOOLCHAIN=local"),
	}
	pkgs, err := packages.Load(cfg, "./openapi3", "./openapi3filter", "./routers", "./routers/legacy", "./routers/legacy/pathpattern", "./routers/gorillamux")
	if err != nil {
		return nil, err
	}
	var unrec []string
	funcs := map[*types.Func]*psFunc{}
	byName := map[string][]*types.Func{} // method name -> methods (for interface calls)
	own := map[string]bool{}
	for _, pkg := range pkgs {
		own[pkg.PkgPath] = true
		for _, e := range pkg.Errors {
			unrec = append(unrec, "load:"+pkg.PkgPath+":"+e.Msg)
		}
		for _, f := range pkg.Syntax {
			fn := pkg.Fset.Position(f.Pos()).Filename
			if strings.HasSuffix(fn, "_test.go") {
				continue
			}
			for _, d := range f.Decls {
				fd, ok := d.(*ast.FuncDecl)
				if !ok || fd.Body == nil {
					continue
				}
				obj, _ := pkg.TypesInfo.Defs[fd.Name].(*types.Func)
				if obj == nil {
					continue
				}
				funcs[obj] = &psFunc{pkg, fd, obj}
				if fd.Recv != nil {
					byName[fd.Name.Name] = append(byName[fd.Name.Name], obj)
				}
			}
		}
	}
	// ---- reachability
	// roots: the whole exported surface of the traffic packages (both routers with pathpattern, openapi3filter) —
	// every exported function and every exported method of an exported type, plus openapi3filter's init (the body
	// decoders are registered there and reached through the registry map). The check's own test hooks (Verif…,
	// build tag verif) are not part of the library.
	isRoot := func(f *psFunc) bool {
		p := f.pkg.PkgPath
		n := f.decl.Name.Name
		if strings.HasSuffix(p, "/openapi3") || strings.HasSuffix(p, "/routers") {
			return false
		}
		if n == "init" {
			return strings.HasSuffix(p, "openapi3filter")
		}
		if !ast.IsExported(n) || strings.HasPrefix(n, "Verif") {
			return false
		}
		if f.decl.Recv != nil && len(f.decl.Recv.List) > 0 && !ast.IsExported(psRecvName(f.decl.Recv.List[0].Type)) {
			return false
		}
		return true
	}
	// the document gate itself (Validate methods, the loader) is not traffic: C04/C20 own it
	cut := func(o *types.Func) bool {
		if o.Pkg() == nil || !strings.HasSuffix(o.Pkg().Path(), "/openapi3") {
			return false
		}
		n := o.Name()
		if n == "Validate" || n == "NewLoader" {
			return true
		}
		// the loader (reached from ValidationHandler.Load, set-up time) is C20's
		if sig, ok := o.Type().(*types.Signature); ok && sig.Recv() != nil && ownerName(sig.Recv().Type()) == "Loader" {
			return true
		}
		return false
	}
	reach := map[*types.Func]bool{}
	var work []*types.Func
	add := func(o *types.Func) {
		if o == nil || reach[o] || cut(o) {
			return
		}
		if _, ok := funcs[o]; !ok {
			return
		}
		reach[o] = true
		work = append(work, o)
	}
	for o, f := range funcs {
		if isRoot(f) {
			add(o)
		}
	}
	for len(work) > 0 {
		o := work[len(work)-1]
		work = work[:len(work)-1]
		f := funcs[o]
		ast.Inspect(f.decl.Body, func(n ast.Node) bool {
			id, ok := n.(*ast.Ident)
			if !ok {
				return true
			}
			if callee, ok := f.pkg.TypesInfo.Uses[id].(*types.Func); ok {
				if _, mine := funcs[callee]; mine {
					add(callee)
				} else if sig, ok := callee.Type().(*types.Signature); ok && sig.Recv() != nil {
					if _, isIface := sig.Recv().Type().Underlying().(*types.Interface); isIface {
						for _, m := range byName[callee.Name()] {
							add(m)
						}
					}
				}
			}
			return true
		})
	}
	return &psWorld{funcs: funcs, reach: reach, own: own, unrec: unrec}, nil
}

func panicSites(repo string) (string, error) {
	w, err := psLoad(repo)
	if err != nil {
		return "", err
	}
	funcs, reach, own, unrec := w.funcs, w.reach, w.own, w.unrec
	// ---- sites
	groups := map[psKey][]string{}
	apiInput := map[string]bool{"RequestValidationInput": true, "ResponseValidationInput": true, "AuthenticationInput": true,
		"Route": true, "Request": true, "URL": true, "Response": true}
	var names []*types.Func
	for o := range reach {
		names = append(names, o)
	}
	sort.Slice(names, func(i, j int) bool { return names[i].FullName() < names[j].FullName() })
	for _, o := range names {
		f := funcs[o]
		pkg := f.pkg
		info := pkg.TypesInfo
		fileName := pkg.Fset.Position(f.decl.Pos()).Filename
		short := fileName[strings.LastIndex(fileName, "/")+1:]
		dir := fileName[:strings.LastIndex(fileName, "/")]
		short = dir[strings.LastIndex(dir, "/")+1:] + "/" + short
		fname := f.decl.Name.Name
		if f.decl.Recv != nil && len(f.decl.Recv.List) > 0 {
			fname = psRecvName(f.decl.Recv.List[0].Type) + "." + fname
		}
		src, _ := os.ReadFile(fileName)
		text := func(e ast.Node) string {
			p, q := pkg.Fset.Position(e.Pos()), pkg.Fset.Position(e.End())
			if p.Offset < 0 || q.Offset > len(src) || p.Offset > q.Offset {
				return "?"
			}
			return strings.Join(strings.Fields(string(src[p.Offset:q.Offset])), " ")
		}
		var stack []ast.Node
		rangeIdx := map[string]string{} // index identifier -> ranged expression text
		checkedIdx := map[string]bool{} // identifiers compared with 0 / -1 / len somewhere in the function
		madeHere := map[string]bool{}   // identifiers assigned from make(…) or a composite literal in this function
		ast.Inspect(f.decl.Body, func(n ast.Node) bool {
			switch x := n.(type) {
			case *ast.AssignStmt:
				for i, lhs := range x.Lhs {
					id, ok := lhs.(*ast.Ident)
					if !ok || i >= len(x.Rhs) {
						continue
					}
					switch r := x.Rhs[i].(type) {
					case *ast.CompositeLit:
						madeHere[id.Name] = true
					case *ast.CallExpr:
						if f, ok := r.Fun.(*ast.Ident); ok && f.Name == "make" {
							madeHere[id.Name] = true
						}
					}
				}
			case *ast.ValueSpec:
				for i, id := range x.Names {
					if i < len(x.Values) {
						switch r := x.Values[i].(type) {
						case *ast.CompositeLit:
							madeHere[id.Name] = true
						case *ast.CallExpr:
							if f, ok := r.Fun.(*ast.Ident); ok && f.Name == "make" {
								madeHere[id.Name] = true
							}
						}
					}
				}
			case *ast.RangeStmt:
				if id, ok := x.Key.(*ast.Ident); ok && id.Name != "_" {
					rangeIdx[id.Name] = text(x.X)
				}
			case *ast.BinaryExpr:
				switch x.Op {
				case token.LSS, token.GEQ, token.GTR, token.LEQ, token.EQL, token.NEQ:
					for _, side := range []ast.Expr{x.X, x.Y} {
						if id, ok := side.(*ast.Ident); ok {
							checkedIdx[id.Name] = true
						}
					}
				}
			case *ast.ForStmt:
				if x.Cond != nil {
					ast.Inspect(x.Cond, func(m ast.Node) bool {
						if id, ok := m.(*ast.Ident); ok {
							checkedIdx[id.Name] = true
						}
						return true
					})
				}
			}
			return true
		})
		// guard search for an expression text: conditions that dominate the node on top of the stack
		guardOf := func(target string, wantLen bool) string {
			mentionsNil := func(c string) bool {
				return strings.Contains(c, target+" != nil") || strings.Contains(c, target+" == nil")
			}
			mentionsLen := func(c string) bool {
				return strings.Contains(c, "len("+target+")")
			}
			hit := func(c string) bool {
				if wantLen {
					return mentionsLen(c)
				}
				return mentionsNil(c)
			}
			for i := len(stack) - 2; i >= 0; i-- {
				switch e := stack[i].(type) {
				case *ast.IfStmt:
					// only when we are inside the body/else (or the condition's right operands, handled below)
					if e.Cond != nil && stack[i+1] != e.Cond && hit(text(e.Cond)) {
						return "y"
					}
					if e.Init != nil && stack[i+1] != e.Init && hit(text(e.Init)) {
						return "y"
					}
				case *ast.BinaryExpr:
					if (e.Op == token.LAND || e.Op == token.LOR) && stack[i+1] == e.Y && hit(text(e.X)) {
						return "y"
					}
				case *ast.ForStmt:
					if e.Cond != nil && stack[i+1] != e.Cond && hit(text(e.Cond)) {
						return "y"
					}
				case *ast.SwitchStmt:
					// `switch len(x) { case 1: x[0] }` / `switch { … }`: the tag dominates every clause
					if e.Tag != nil && stack[i+1] != e.Tag && hit(text(e.Tag)) {
						return "y"
					}
				case *ast.CaseClause:
					for _, ce := range e.List {
						if hit(text(ce)) {
							return "y"
						}
					}
				case *ast.BlockStmt:
					// earlier statement `if <cond mentioning target> { …; return|continue|break|panic }`
					var cur ast.Node = stack[i+1]
					for _, st := range e.List {
						if st == cur {
							break
						}
						if is, ok := st.(*ast.IfStmt); ok && is.Cond != nil && hit(text(is.Cond)) && terminates(is.Body) {
							return "y"
						}
					}
				case *ast.FuncLit:
					return ""
				}
			}
			return ""
		}
		addSite := func(kind, guard, expr string) {
			k := psKey{short, fname, kind, guard}
			groups[k] = append(groups[k], expr)
		}
		ast.Inspect(f.decl.Body, func(n ast.Node) bool {
			if n == nil {
				stack = stack[:len(stack)-1]
				return true
			}
			stack = append(stack, n)
			switch x := n.(type) {
			case *ast.StarExpr:
				tv, ok := info.Types[x.X]
				if !ok || !tv.IsValue() {
					break
				}
				pt, ok := tv.Type.Underlying().(*types.Pointer)
				if !ok {
					break
				}
				if _, basic := pt.Elem().Underlying().(*types.Basic); !basic {
					break
				}
				g := "none"
				if guardOf(text(x.X), false) != "" {
					g = "nilCheck"
				}
				addSite("derefOptScalar", g, text(x))
			case *ast.SelectorExpr:
				// x.X is itself a field selection of pointer-to-struct type: x dereferences that field
				inner, ok := x.X.(*ast.SelectorExpr)
				if !ok {
					break
				}
				sel, ok := info.Selections[inner]
				if !ok || sel.Kind() != types.FieldVal {
					break
				}
				pt, ok := sel.Type().Underlying().(*types.Pointer)
				if !ok {
					break
				}
				if _, isStruct := pt.Elem().Underlying().(*types.Struct); !isStruct {
					break
				}
				// a method value with a nil-safe pointer receiver still counts: we do not look inside
				owner := ownerName(sel.Recv())
				fieldPkg := ""
				if sel.Obj().Pkg() != nil {
					fieldPkg = sel.Obj().Pkg().Path()
				}
				kind := "derefOptStruct"
				if inner.Sel.Name == "Value" && strings.HasSuffix(owner, "Ref") {
					kind = "derefRefValue"
				}
				g := "none"
				if guardOf(text(inner), false) != "" {
					g = "nilCheck"
				} else if apiInput[owner] || !own[fieldPkg] {
					g = "apiInput"
				}
				// method calls on the pointer whose receiver is a pointer do not dereference here
				if s2, ok := info.Selections[x]; ok && s2.Kind() == types.MethodVal {
					if sig, ok := s2.Obj().Type().(*types.Signature); ok && sig.Recv() != nil {
						if _, ptrRecv := sig.Recv().Type().(*types.Pointer); ptrRecv {
							break
						}
					}
				}
				addSite(kind, g, text(x))
			case *ast.TypeAssertExpr:
				if x.Type == nil {
					break
				}
				okForm := false
				if len(stack) >= 2 {
					switch p := stack[len(stack)-2].(type) {
					case *ast.AssignStmt:
						okForm = len(p.Lhs) == 2 && len(p.Rhs) == 1
					case *ast.ValueSpec:
						okForm = len(p.Names) == 2
					}
				}
				if !okForm {
					addSite("typeAssert", "none", text(x))
				} else {
					addSite("typeAssert", "commaOk", text(x))
				}
			case *ast.AssignStmt:
				for _, lhs := range x.Lhs {
					ie, ok := lhs.(*ast.IndexExpr)
					if !ok {
						continue
					}
					tv, ok := info.Types[ie.X]
					if !ok {
						continue
					}
					if _, isMap := tv.Type.Underlying().(*types.Map); !isMap {
						continue
					}
					if id, ok := ie.X.(*ast.Ident); ok && madeHere[id.Name] {
						continue // a map made in this function
					}
					g := "none"
					if guardOf(text(ie.X), false) != "" {
						g = "nilCheck"
					}
					addSite("nilMapWrite", g, text(lhs))
				}
			case *ast.CallExpr:
				// a call through a func-typed struct field or package-level variable
				if fv := funcValueCallee(info, x.Fun); fv != "" {
					g := "none"
					if guardOf(text(x.Fun), false) != "" {
						g = "nilCheck"
					}
					addSite("nilFuncCall", g, text(x.Fun))
				}
				if id, ok := x.Fun.(*ast.Ident); ok && id.Name == "panic" {
					if _, isBuiltin := info.Uses[id].(*types.Builtin); isBuiltin {
						addSite("explicitPanic", "none", text(x))
					}
				}
				if se, ok := x.Fun.(*ast.SelectorExpr); ok && se.Sel.Name == "NewFloat" {
					if id, ok := se.X.(*ast.Ident); ok && id.Name == "big" {
						addSite("bigFloat", "none", text(x))
					}
				}
			case *ast.BinaryExpr:
				if x.Op == token.QUO || x.Op == token.REM {
					tv, ok := info.Types[x.Y]
					if !ok {
						break
					}
					if b, ok := tv.Type.Underlying().(*types.Basic); ok && b.Info()&types.IsInteger != 0 {
						if tv.Value == nil || constant.Sign(tv.Value) == 0 {
							addSite("intDiv", "none", text(x))
						}
					}
				}
			case *ast.IndexExpr, *ast.SliceExpr:
				var base ast.Expr
				var idxs []ast.Expr
				if ie, ok := x.(*ast.IndexExpr); ok {
					base, idxs = ie.X, []ast.Expr{ie.Index}
				} else {
					se := x.(*ast.SliceExpr)
					base, idxs = se.X, []ast.Expr{se.Low, se.High, se.Max}
				}
				tv, ok := info.Types[base]
				if !ok || !tv.IsValue() {
					break // generic instantiation etc.
				}
				switch t := tv.Type.Underlying().(type) {
				case *types.Slice, *types.Array:
				case *types.Basic:
					if t.Info()&types.IsString == 0 {
						break
					}
				case *types.Pointer:
					if _, arr := t.Elem().Underlying().(*types.Array); !arr {
						return true
					}
				default:
					return true // maps never panic on read
				}
				bt := text(base)
				g := "none"
				all := true
				any := false
				for _, ix := range idxs {
					if ix == nil {
						continue
					}
					any = true
					okIx := false
					switch v := ix.(type) {
					case *ast.Ident:
						if r, ok := rangeIdx[v.Name]; ok && r == bt {
							okIx = true
						} else if checkedIdx[v.Name] {
							okIx = true
						}
					case *ast.BasicLit:
						if v.Value == "0" {
							if _, isSlice := x.(*ast.SliceExpr); isSlice {
								okIx = true
							}
						}
					}
					if !okIx {
						// any expression built only from len(base), checked identifiers and literals, under a len(base) guard
						if guardOf(bt, true) != "" {
							okIx = true
						} else {
							okIx = onlyChecked(ix, checkedIdx, bt, text)
						}
					}
					if !okIx {
						all = false
					}
				}
				if !any || all {
					g = "lenCheck"
				}
				addSite("index", g, text(x))
			}
			return true
		})
	}
	// ---- emit
	var keys []psKey
	for k := range groups {
		keys = append(keys, k)
	}
	sort.Slice(keys, func(i, j int) bool {
		a, b := keys[i], keys[j]
		if a.file != b.file {
			return a.file < b.file
		}
		if a.fn != b.fn {
			return a.fn < b.fn
		}
		if a.kind != b.kind {
			return a.kind < b.kind
		}
		return a.guard < b.guard
	})
	var sb strings.Builder
	sb.WriteString("/- GENERATED by go/cmd/extract (table PanicSites) from the repository's current source. Do not edit. -/\n")
	sb.WriteString("import KinModel.PanicSites\nnamespace KinModel.Gen\nopen KinModel.PanicSites\n\n")
	n := len(keys) + len(unrec)
	total := 0
	fmt.Fprintf(&sb, "-- rows: %d\n", n)
	fmt.Fprintf(&sb, "-- reachable functions: %d\n", len(reach))
	// transparency: the exported API of the traffic packages that the roots do NOT reach (registration, options,
	// accessors); a function that moves into this list silently loses its rows
	var notReached []string
	for o, f := range funcs {
		p := f.pkg.PkgPath
		if reach[o] || !ast.IsExported(f.decl.Name.Name) || strings.HasSuffix(p, "/openapi3") {
			continue
		}
		n := f.decl.Name.Name
		if f.decl.Recv != nil && len(f.decl.Recv.List) > 0 {
			rn := psRecvName(f.decl.Recv.List[0].Type)
			if !ast.IsExported(rn) {
				continue
			}
			n = rn + "." + n
		}
		notReached = append(notReached, p[strings.LastIndex(p, "/")+1:]+"."+n)
	}
	sort.Strings(notReached)
	fmt.Fprintf(&sb, "-- exported functions of openapi3filter/routers not reachable from the roots (%d): %s\n", len(notReached), strings.Join(notReached, " "))
	sb.WriteString("def panicSites : List Row := [\n")
	first := true
	sep := func() {
		if !first {
			sb.WriteString(",\n")
		}
		first = false
	}
	for _, u := range unrec {
		sep()
		fmt.Fprintf(&sb, "  .unrecognised %s", pani_leanStr(u))
	}
	for _, k := range keys {
		sep()
		ex := groups[k]
		total += len(ex)
		sort.Strings(ex)
		uniq := ex[:0:0]
		for i, e := range ex {
			if i == 0 || e != ex[i-1] {
				uniq = append(uniq, e)
			}
		}
		if len(uniq) > 6 {
			uniq = append(uniq[:6], "…")
		}
		var qs []string
		for _, e := range uniq {
			if len(e) > 70 {
				e = e[:70] + "…"
			}
			qs = append(qs, pani_leanStr(e))
		}
		fmt.Fprintf(&sb, "  .site %s %s .%s .%s %d [%s]", pani_leanStr(k.file), pani_leanStr(k.fn), k.kind, k.guard, len(ex), strings.Join(qs, ", "))
	}
	sb.WriteString("]\n\n")
	fmt.Fprintf(&sb, "-- individual sites: %d\n", total)
	sb.WriteString("end KinModel.Gen\n")
	return sb.String(), nil
}

// funcValueCallee: "field" / "pkgvar" when the callee expression is a func-typed struct field or package-level
// variable (a value that can be nil), "" for functions, methods, locals and parameters
func funcValueCallee(info *types.Info, fun ast.Expr) string {
	switch f := fun.(type) {
	case *ast.SelectorExpr:
		if sel, ok := info.Selections[f]; ok && sel.Kind() == types.FieldVal {
			if _, isFunc := sel.Type().Underlying().(*types.Signature); isFunc {
				return "field"
			}
		}
		if v, ok := info.Uses[f.Sel].(*types.Var); ok && !v.IsField() && v.Parent() == v.Pkg().Scope() {
			if _, isFunc := v.Type().Underlying().(*types.Signature); isFunc {
				return "pkgvar"
			}
		}
	case *ast.Ident:
		if v, ok := info.Uses[f].(*types.Var); ok && v.Pkg() != nil && v.Parent() == v.Pkg().Scope() {
			if _, isFunc := v.Type().Underlying().(*types.Signature); isFunc {
				return "pkgvar"
			}
		}
	}
	return ""
}

func onlyChecked(e ast.Expr, checked map[string]bool, base string, text func(ast.Node) string) bool {
	ok := true
	seenIdent := false
	ast.Inspect(e, func(n ast.Node) bool {
		switch v := n.(type) {
		case *ast.CallExpr:
			if id, isId := v.Fun.(*ast.Ident); isId && id.Name == "len" && len(v.Args) == 1 && text(v.Args[0]) == base {
				seenIdent = true
				return false
			}
			ok = false
			return false
		case *ast.Ident:
			seenIdent = true
			if !checked[v.Name] {
				ok = false
			}
		}
		return true
	})
	return ok && seenIdent
}

func terminates(b *ast.BlockStmt) bool {
	if b == nil || len(b.List) == 0 {
		return false
	}
	switch s := b.List[len(b.List)-1].(type) {
	case *ast.ReturnStmt:
		return true
	case *ast.BranchStmt:
		return s.Tok == token.CONTINUE || s.Tok == token.BREAK || s.Tok == token.GOTO
	case *ast.ExprStmt:
		if c, ok := s.X.(*ast.CallExpr); ok {
			if id, ok := c.Fun.(*ast.Ident); ok && id.Name == "panic" {
				return true
			}
		}
	}
	return false
}

func psRecvName(e ast.Expr) string {
	switch t := e.(type) {
	case *ast.StarExpr:
		return psRecvName(t.X)
	case *ast.Ident:
		return t.Name
	case *ast.IndexExpr:
		return psRecvName(t.X)
	}
	return "?"
}

func ownerName(t types.Type) string {
	for {
		if p, ok := t.(*types.Pointer); ok {
			t = p.Elem()
			continue
		}
		break
	}
	if n, ok := t.(*types.Named); ok {
		return n.Obj().Name()
	}
	return ""
}

func pani_leanStr(s string) string {
	var sb strings.Builder
	sb.WriteByte('"')
	for _, r := range s {
		switch r {
		case '"':
			sb.WriteString("\\\"")
		case '\\':
			sb.WriteString("\\\\")
		case '\n':
			sb.WriteString("\\n")
		case '\t':
			sb.WriteString("\\t")
		default:
			sb.WriteRune(r)
		}
	}
	sb.WriteByte('"')
	return sb.String()
}
