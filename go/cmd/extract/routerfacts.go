package main

// Table `RouterFacts` (C09): the facts that the router models of KinModel/Router.lean copy by hand from the source, read
// back from the source so that a change of one of them breaks an obligation:
//   - the order of the SuffixKind constants (routers/legacy/pathpattern/node.go) = the numbers of `sufKind`;
//   - the body of SuffixList.Less (kind first, then larger pattern first) = `sufLess`;
//   - the trailing-slash loops of CreateNode and Match = `stripSlashes` on both sides;
//   - Paths.InMatchingOrder: what is counted, the loop over the counts, the sort of one group = `pathBefore`;
//   - gorillamux: the router is created with UseEncodedPath, newSrv's trim of one trailing slash of the base path,
//     the statements that write the loop's `servers` variable (`servers := servers` per iteration, then the path item's own),
//     NewRouter stores one fresh &routers.Route per (path, server) with Server: s.server, FindRoute returns a copy;
//   - legacy: NewRouter's route literal has no Server field, FindRoute stores the matched server into the copy it returns
//     (the whole `if server != nil { r := *route; r.Server = server; route = &r }` branch is a row); every statement of either
//     FindRoute that writes through a field, index or pointer (`*.findRoute.fieldWrites`: only the copy and the parameter map),
//     the server is taken from doc.Servers only (F-C09-9);
//   - which representation of the URL path is matched: gorillamux the escaped one (UseEncodedPath), legacy url.Path without
//     servers and url.String() (Servers.MatchURL) with servers;
//   - the two route error reasons of routers/types.go.
// Each fact is a (key, value) row; a fact whose code shape is not found becomes an `unrecognised` row.

import (
	"bytes"
	"fmt"
	"go/ast"
	"go/parser"
	"go/printer"
	"go/token"
	"path/filepath"
	"sort"
	"strings"
)

func init() { register("RouterFacts", extractRouterFacts) }

func extractRouterFacts(repo string) (string, error) {
	fset := token.NewFileSet()
	parse := func(rel string) (*ast.File, error) {
		return parser.ParseFile(fset, filepath.Join(repo, filepath.FromSlash(rel)), nil, 0)
	}
	src := func(n ast.Node) string {
		var b bytes.Buffer
		printer.Fprint(&b, fset, n)
		return strings.Join(strings.Fields(b.String()), " ")
	}
	type row struct{ k, v string }
	var rows []row
	var bad []string
	fact := func(k, v string) { rows = append(rows, row{k, v}) }
	miss := func(what string) { bad = append(bad, what) }
	funcOf := func(f *ast.File, recv, name string) *ast.FuncDecl {
		for _, d := range f.Decls {
			fd, ok := d.(*ast.FuncDecl)
			if !ok || fd.Name.Name != name || fd.Body == nil {
				continue
			}
			r := ""
			if fd.Recv != nil && len(fd.Recv.List) == 1 {
				r = strings.TrimPrefix(src(fd.Recv.List[0].Type), "*")
			}
			if r == recv {
				return fd
			}
		}
		return nil
	}

	// every assignment of a function body that writes through something (field, index, pointer) rather than to a local name
	fieldWrites := func(fd *ast.FuncDecl) string {
		var ws []string
		ast.Inspect(fd.Body, func(n ast.Node) bool {
			switch x := n.(type) {
			case *ast.AssignStmt:
				for _, l := range x.Lhs {
					switch l.(type) {
					case *ast.SelectorExpr, *ast.IndexExpr, *ast.StarExpr:
						ws = append(ws, src(x))
						return true
					}
				}
			case *ast.IncDecStmt:
				if _, ok := x.X.(*ast.Ident); !ok {
					ws = append(ws, src(x))
				}
			}
			return true
		})
		return strings.Join(ws, " | ")
	}

	// ---- routers/legacy/pathpattern/node.go
	node, err := parse("routers/legacy/pathpattern/node.go")
	if err != nil {
		return "", err
	}
	foundKinds := false
	for _, d := range node.Decls {
		gd, ok := d.(*ast.GenDecl)
		if !ok || gd.Tok != token.CONST || len(gd.Specs) == 0 {
			continue
		}
		vs0, ok := gd.Specs[0].(*ast.ValueSpec)
		if !ok || len(vs0.Values) != 1 || src(vs0.Values[0]) != "SuffixKind(iota)" {
			continue
		}
		foundKinds = true
		for i, sp := range gd.Specs {
			vs, ok := sp.(*ast.ValueSpec)
			if !ok || len(vs.Names) != 1 || (i > 0 && len(vs.Values) != 0) {
				miss(fmt.Sprintf("suffixKind: const spec %d at %s", i, fset.Position(sp.Pos())))
				continue
			}
			fact("suffixKind."+vs.Names[0].Name, fmt.Sprint(i))
		}
	}
	if !foundKinds {
		miss("suffixKind: no const block starting with SuffixKind(iota)")
	}
	if fd := funcOf(node, "SuffixList", "Less"); fd != nil {
		fact("less.body", src(fd.Body))
	} else {
		miss("SuffixList.Less")
	}
	for _, fn := range []string{"CreateNode", "Match"} {
		fd := funcOf(node, "Node", fn)
		if fd == nil {
			miss("Node." + fn)
			continue
		}
		loop := ""
		ast.Inspect(fd.Body, func(n ast.Node) bool {
			fs, ok := n.(*ast.ForStmt)
			if ok && fs.Init == nil && fs.Post == nil && fs.Cond != nil && strings.Contains(src(fs.Cond), "HasSuffix") && loop == "" {
				loop = "for " + src(fs.Cond) + " " + src(fs.Body)
			}
			return true
		})
		if loop == "" {
			miss("Node." + fn + ": trailing-slash loop")
		} else {
			fact("stripLoop."+fn, loop)
		}
	}

	// ---- openapi3/paths.go InMatchingOrder
	paths, err := parse("openapi3/paths.go")
	if err != nil {
		return "", err
	}
	if fd := funcOf(paths, "Paths", "InMatchingOrder"); fd != nil {
		var counts, sorts, loops []string
		ast.Inspect(fd.Body, func(n ast.Node) bool {
			switch x := n.(type) {
			case *ast.CallExpr:
				switch src(x.Fun) {
				case "strings.Count":
					counts = append(counts, src(x))
				case "sort.Sort", "sort.Strings", "sort.Slice", "sort.SliceStable", "sort.Stable":
					sorts = append(sorts, src(x))
				}
			case *ast.ForStmt:
				h := ""
				if x.Init != nil {
					h = src(x.Init)
				}
				h += "; "
				if x.Cond != nil {
					h += src(x.Cond)
				}
				h += "; "
				if x.Post != nil {
					h += src(x.Post)
				}
				loops = append(loops, h)
			}
			return true
		})
		fact("inMatchingOrder.count", strings.Join(counts, " | "))
		fact("inMatchingOrder.sort", strings.Join(sorts, " | "))
		fact("inMatchingOrder.loop", strings.Join(loops, " | "))
	} else {
		miss("Paths.InMatchingOrder")
	}

	// ---- routers/gorillamux/router.go
	gm, err := parse("routers/gorillamux/router.go")
	if err != nil {
		return "", err
	}
	if fd := funcOf(gm, "", "NewRouter"); fd != nil {
		mux, assign, lit := "", "", ""
		nlit := 0
		ast.Inspect(fd.Body, func(n ast.Node) bool {
			switch x := n.(type) {
			case *ast.AssignStmt:
				if len(x.Rhs) == 1 {
					r := src(x.Rhs[0])
					if strings.HasPrefix(r, "mux.NewRouter()") {
						mux = src(x)
					}
					// every statement that writes the loop's `servers` variable: the per-iteration redeclaration and the
					// assignment of the path item's own servers
					if r == "makeServers(pathItem.Servers)" || (len(x.Lhs) == 1 && src(x.Lhs[0]) == "servers" && r == "servers") {
						if assign != "" {
							assign += " | "
						}
						assign += src(x)
					}
				}
			case *ast.CompositeLit:
				if src(x.Type) == "routers.Route" {
					nlit++
					var fs []string
					for _, e := range x.Elts {
						fs = append(fs, src(e))
					}
					lit = strings.Join(fs, ", ")
				}
			}
			return true
		})
		fact("gorilla.newRouter.mux", mux)
		fact("gorilla.newRouter.pathServers", assign)
		fact("gorilla.newRouter.routeLiterals", fmt.Sprint(nlit))
		fact("gorilla.newRouter.route", lit)
		// the route literal is built inside the loop over servers
		inLoop := false
		ast.Inspect(fd.Body, func(n ast.Node) bool {
			rs, ok := n.(*ast.RangeStmt)
			if ok && src(rs.X) == "servers" {
				ast.Inspect(rs.Body, func(m ast.Node) bool {
					if cl, ok := m.(*ast.CompositeLit); ok && src(cl.Type) == "routers.Route" {
						inLoop = true
					}
					return true
				})
			}
			return true
		})
		fact("gorilla.newRouter.routePerServer", fmt.Sprint(inLoop))
	} else {
		miss("gorillamux.NewRouter")
	}
	if fd := funcOf(gm, "Router", "FindRoute"); fd != nil {
		cp, ret := "", []string{}
		ast.Inspect(fd.Body, func(n ast.Node) bool {
			switch x := n.(type) {
			case *ast.AssignStmt:
				if len(x.Lhs) == 1 && src(x.Lhs[0]) == "route" {
					cp = src(x)
				}
			case *ast.ReturnStmt:
				ret = append(ret, src(x))
			}
			return true
		})
		fact("gorilla.findRoute.copy", cp)
		fact("gorilla.findRoute.fieldWrites", fieldWrites(fd))
		fact("gorilla.findRoute.returns", strings.Join(ret, " | "))
	} else {
		miss("gorillamux.Router.FindRoute")
	}
	if fd := funcOf(gm, "", "newSrv"); fd != nil {
		trim := ""
		ast.Inspect(fd.Body, func(n ast.Node) bool {
			is, ok := n.(*ast.IfStmt)
			if ok && strings.Contains(src(is.Body), "path = path[:len(path)-1]") {
				trim = src(is.Cond)
			}
			return true
		})
		if trim == "" {
			miss("gorillamux.newSrv: trailing-slash trim")
		} else {
			fact("gorilla.newSrv.trim", trim)
		}
	} else {
		miss("gorillamux.newSrv")
	}

	// ---- routers/legacy/router.go
	lg, err := parse("routers/legacy/router.go")
	if err != nil {
		return "", err
	}
	if fd := funcOf(lg, "", "NewRouter"); fd != nil {
		lit, ranges := "", []string{}
		ast.Inspect(fd.Body, func(n ast.Node) bool {
			switch x := n.(type) {
			case *ast.CompositeLit:
				if src(x.Type) == "routers.Route" {
					var fs []string
					for _, e := range x.Elts {
						if kv, ok := e.(*ast.KeyValueExpr); ok {
							fs = append(fs, src(kv.Key))
						} else {
							fs = append(fs, "?")
						}
					}
					lit = strings.Join(fs, ",")
				}
			case *ast.RangeStmt:
				ranges = append(ranges, src(x.X))
			}
			return true
		})
		fact("legacy.newRouter.routeFields", lit)
		fact("legacy.newRouter.ranges", strings.Join(ranges, " | "))
	} else {
		miss("legacy.NewRouter")
	}
	if fd := funcOf(lg, "Router", "FindRoute"); fd != nil {
		setsServer, serversFrom := "false", ""
		ast.Inspect(fd.Body, func(n ast.Node) bool {
			if as, ok := n.(*ast.AssignStmt); ok {
				for _, l := range as.Lhs {
					if strings.HasSuffix(src(l), ".Server") {
						setsServer = src(as)
					}
				}
				if len(as.Lhs) == 1 && src(as.Lhs[0]) == "servers" && len(as.Rhs) == 1 {
					serversFrom = src(as.Rhs[0])
				}
			}
			if kv, ok := n.(*ast.KeyValueExpr); ok && src(kv.Key) == "Server" {
				setsServer = src(kv)
			}
			return true
		})
		fact("legacy.findRoute.setsRouteServer", setsServer)
		// the value whose Server is written is a copy of the stored route, made inside the `server != nil` branch, and that
		// copy is what `route` points to afterwards (KinModel/RouterHist.lean `stepCopy`)
		cpBranch := ""
		ast.Inspect(fd.Body, func(n ast.Node) bool {
			if is, ok := n.(*ast.IfStmt); ok && is.Init == nil && is.Else == nil {
				body := src(is.Body)
				if strings.Contains(body, ".Server = ") {
					cpBranch = "if " + src(is.Cond) + " " + body
				}
			}
			return true
		})
		fact("legacy.findRoute.copyBranch", cpBranch)
		fact("legacy.findRoute.fieldWrites", fieldWrites(fd))
		fact("legacy.findRoute.serversFrom", serversFrom)
		// which representation of the path is matched: url.Path without servers, what Servers.MatchURL returns with servers
		var rem []string
		ast.Inspect(fd.Body, func(n ast.Node) bool {
			if as, ok := n.(*ast.AssignStmt); ok {
				for _, l := range as.Lhs {
					if src(l) == "remainingPath" {
						rem = append(rem, src(as))
					}
				}
			}
			return true
		})
		fact("legacy.findRoute.remainingPath", strings.Join(rem, " | "))
	} else {
		miss("legacy.Router.FindRoute")
	}

	// ---- openapi3/server.go: Servers.MatchURL works on the escaped URL string
	sv, err := parse("openapi3/server.go")
	if err != nil {
		return "", err
	}
	if fd := funcOf(sv, "Servers", "MatchURL"); fd != nil && len(fd.Body.List) > 0 {
		fact("servers.matchURL.input", src(fd.Body.List[0]))
	} else {
		miss("openapi3.Servers.MatchURL")
	}

	// ---- routers/types.go
	ty, err := parse("routers/types.go")
	if err != nil {
		return "", err
	}
	for _, want := range []string{"ErrPathNotFound", "ErrMethodNotAllowed"} {
		got := ""
		for _, d := range ty.Decls {
			gd, ok := d.(*ast.GenDecl)
			if !ok || gd.Tok != token.VAR {
				continue
			}
			for _, sp := range gd.Specs {
				vs, ok := sp.(*ast.ValueSpec)
				if ok && len(vs.Names) == 1 && vs.Names[0].Name == want && len(vs.Values) == 1 {
					got = src(vs.Values[0])
				}
			}
		}
		if got == "" {
			miss("routers." + want)
		} else {
			fact("errors."+want, got)
		}
	}

	sort.SliceStable(rows, func(i, j int) bool { return rows[i].k < rows[j].k })
	var b strings.Builder
	b.WriteString("-- generated by go/cmd/extract (table RouterFacts) from routers/{legacy,gorillamux,types.go}, openapi3/paths.go; do not edit\n")
	b.WriteString("namespace KinModel.Gen\n\ninductive RFact\n  | fact (key value : String)\n  | unrecognised (what : String)\n  deriving DecidableEq, Repr\n\n")
	fmt.Fprintf(&b, "-- rows: %d\ndef routerFacts : List RFact := [\n", len(rows)+len(bad))
	var lines []string
	for _, r := range rows {
		lines = append(lines, fmt.Sprintf("  RFact.fact %q %q", r.k, r.v))
	}
	for _, w := range bad {
		lines = append(lines, fmt.Sprintf("  RFact.unrecognised %q", w))
	}
	b.WriteString(strings.Join(lines, ",\n"))
	b.WriteString("\n]\n\nend KinModel.Gen\n")
	return b.String(), nil
}
