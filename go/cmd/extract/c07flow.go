package main

// Table C07Flow (property C07): the orchestration code of openapi3filter/validate_request.go — the three functions
// ValidateRequest, ValidateSecurityRequirements, validateSecurityRequirement — and the override lookup
// Parameters.GetByInAndName of openapi3/parameter.go, as four small step programs which the
// model (lean/KinModel/Request.lean) interprets. `Props/C07.lean` proves by `decide` that every row was recognised and
// that the table IS the program the model runs.
//
// Rule (syntactic, go/ast; names are resolved through the plain aliases of the function — `x := a.b.c` makes `x` stand
// for `a.b.c`, `for _, v := range L` makes `v` stand for the current element of L — so that a loop is identified by the
// list it really ranges over and a call by the value it really receives, not by the spelling of a local variable).
//
// HANDLER (what happens to the error of a step):
//     if !options.MultiError { return err }; me = append(me, err)     → .retUnlessMulti
//     return err                                                       → .ret
//     me = append(me, err)                                             → .append
// TRY(call) = `if err := call; err != nil { HANDLER }`,  EXIT = `continue` → .cont | `break` → .brk
//
// func ValidateRequest(ctx, input):
//   var me openapi3.MultiError                                            (the accumulator; no row)
//   options := input.Options ; if options == nil { options = &Options{} }  → .optionsDefault
//   plain aliases (route, operation, operationParameters, pathItemParameters, requestBody, parameter)   (no row)
//   security := <A> ; if security == nil { security = &<B> } ; if security != nil { TRY(ValidateSecurityRequirements(ctx, input, *security)) }
//                         → .security <A> <B> HANDLER      (A, B ∈ operation = input.Route.Operation.Security, document = input.Route.Spec.Security)
//   for _, v := range <L> { guards…; TRY(ValidateParameter(ctx, input, <current element>.Value)) }
//                         → .paramLoop <L> [guards] HANDLER  (L ∈ pathItem = input.Route.PathItem.Parameters, operation = input.Route.Operation.Parameters)
//       guard: if options.ExcludeRequestQueryParams && <cur>.In == openapi3.ParameterInQuery { EXIT }          → .exQuery EXIT
//       guard: [if <L2> != nil {] if override := <L2>.GetByInAndName(<a1>, <a2>); override != nil { EXIT } [}]  → .overridden <L2> <nil-guarded> <a1> <a2> EXIT
//              (a1, a2 ∈ loc = <cur>.In, name = <cur>.Name — the ORDER of the two arguments is part of the row)
//   if <requestBody> != nil && !options.ExcludeRequestBody { TRY(ValidateRequestBody(ctx, input, <requestBody>.Value)) }
//                         → .body [conditions in source order: .declared, .notExcluded] HANDLER
//   if len(me) > 0 { return me }                                          → .retMeIfAny
//   return nil                                                            → .retNil
//
// func ValidateSecurityRequirements(ctx, input, srs):
//   if len(srs) == 0 { return nil }                                       → .emptyOk
//   var errs []error                                                      (the accumulator; no row)
//   for _, sr := range srs { if err := validateSecurityRequirement(ctx, input, sr); err != nil {
//         [if len(errs) == 0 { errs = make([]error, 0, len(srs)) }] errs = append(errs, err); EXIT }; return nil }
//                                                                         → .tryEach EXIT
//   return &SecurityRequirementsError{SecurityRequirements: srs, Errors: errs}   → .failAll
//
// func validateSecurityRequirement(ctx, input, securityRequirement):
//   if len(securityRequirement) == 0 { return nil }                       → .emptyReqOk   (the repair of finding F-C07-1, 1f8c043)
//   names := make([]string, 0, len(securityRequirement)); for name := range securityRequirement { names = append(names, name) };
//   sort.Strings(names)                                                   → .sortedNames
//   options := input.Options ; if options == nil { options = &Options{} }  → .optionsDefault
//   f := options.AuthenticationFunc ; if f == nil { return ErrAuthenticationServiceMissing }   → .needAuthFunc
//   var securitySchemes openapi3.SecuritySchemes ; if components := input.Route.Spec.Components; components != nil {
//         securitySchemes = components.SecuritySchemes }                  → .schemesFromComponents
//   var data []byte ; if … input.Request.Body != http.NoBody && input.Request.Body != nil { … }
//                                                                         → .bodyIO (reads the body into memory and arranges its
//         restoration; the block may contain no continue/break, no call of f, and no return except the one of a failed read;
//         its exact content is the business of property C13's table C13BodyFlow)
//   for _, name := range names { NAME STEPS }                             → .forNames [NAME STEPS]
//       var securityScheme *openapi3.SecurityScheme ; if securitySchemes != nil { if ref := securitySchemes[name]; ref != nil {
//             securityScheme = ref.Value } }                              → .lookupScheme
//       if securityScheme == nil { return &RequestError{…} }              → .undeclaredFails
//       scopes := securityRequirement[name]                               → .scopesOf
//       if data != nil { … }                                              → .bodyIO
//       if err := f(ctx, &AuthenticationInput{RequestValidationInput: input, SecuritySchemeName: name,
//             SecurityScheme: securityScheme, Scopes: scopes}); err != nil { return err | EXIT }   → .callAuth .ret | EXIT
//   return nil                                                            → .retNil
//
// func (parameters Parameters) GetByInAndName(p0 string, p1 string) *Parameter   (openapi3/parameter.go):
//   for _, item := range parameters { if v := item.Value; v != nil { if <v.F == pK> && … { return v } } }
//                         → .findFirst [(F, K), …]   (F ∈ name = .Name, loc = .In; K = position of the parameter compared with)
//   return nil                                                            → .retNil
//
// Any other statement, and any recognised statement in a place where the rule does not expect it, becomes
// `.unrecognised "<file:line>"` (never skipped silently).

import (
	"bytes"
	"fmt"
	"go/ast"
	"go/parser"
	"go/printer"
	"go/token"
	"path/filepath"
	"regexp"
	"strings"
)

func init() { register("C07Flow", extractC07Flow) }

const c07File = "openapi3filter/validate_request.go"

var c07ws = regexp.MustCompile(`\s+`)

type c07x struct {
	fset *token.FileSet
	env  map[string]string // local name → what it stands for
}

func (c *c07x) text(n ast.Node) string {
	var b bytes.Buffer
	_ = printer.Fprint(&b, c.fset, n)
	return strings.TrimSpace(c07ws.ReplaceAllString(b.String(), " "))
}

func (c *c07x) site(p token.Pos) string {
	return fmt.Sprintf("%s:%d", c07File, c.fset.Position(p).Line)
}

func (c *c07x) unrec(p token.Pos) string { return fmt.Sprintf(".unrecognised %q", c.site(p)) }

// pure reports whether e is a path expression (identifiers, field selections, & and *), and what it stands for.
func (c *c07x) resolve(e ast.Expr) (string, bool) {
	switch x := e.(type) {
	case *ast.Ident:
		if v, ok := c.env[x.Name]; ok {
			return v, true
		}
		return x.Name, true
	case *ast.SelectorExpr:
		s, ok := c.resolve(x.X)
		return s + "." + x.Sel.Name, ok
	case *ast.StarExpr:
		s, ok := c.resolve(x.X)
		return "*" + s, ok
	case *ast.UnaryExpr:
		if x.Op == token.AND {
			s, ok := c.resolve(x.X)
			return "&" + s, ok
		}
	case *ast.ParenExpr:
		return c.resolve(x.X)
	}
	return c.text(e), false
}

func (c *c07x) res(e ast.Expr) string { s, _ := c.resolve(e); return s }

// `x := <path>` → alias
func (c *c07x) alias(s ast.Stmt) bool {
	as, ok := s.(*ast.AssignStmt)
	if !ok || as.Tok != token.DEFINE || len(as.Lhs) != 1 || len(as.Rhs) != 1 {
		return false
	}
	id, ok := as.Lhs[0].(*ast.Ident)
	if !ok {
		return false
	}
	v, pure := c.resolve(as.Rhs[0])
	if !pure {
		return false
	}
	c.env[id.Name] = v
	return true
}

// `if <cond> { body }` without init and else
func c07PlainIf(s ast.Stmt) (*ast.IfStmt, bool) {
	x, ok := s.(*ast.IfStmt)
	if !ok || x.Init != nil || x.Else != nil {
		return nil, false
	}
	return x, true
}

func c07IsNil(e ast.Expr) bool { id, ok := e.(*ast.Ident); return ok && id.Name == "nil" }

// `X == nil` / `X != nil` → resolved X
func (c *c07x) nilTest(e ast.Expr, op token.Token) (string, bool) {
	b, ok := e.(*ast.BinaryExpr)
	if !ok || b.Op != op || !c07IsNil(b.Y) {
		return "", false
	}
	return c.res(b.X), true
}

// `options := input.Options ; if options == nil { options = &Options{} }`
func (c *c07x) optionsDefault(list []ast.Stmt) bool {
	if len(list) < 2 {
		return false
	}
	if c.text(list[0]) != "options := input.Options" {
		return false
	}
	return c.text(list[1]) == "if options == nil { options = &Options{} }"
}

// the error handler of a TRY
func (c *c07x) handler(list []ast.Stmt, acc string) (string, bool) {
	txt := make([]string, len(list))
	for i, s := range list {
		txt[i] = c.text(s)
	}
	app := acc + " = append(" + acc + ", err)"
	switch {
	case len(list) == 2 && c.isNotMultiReturn(list[0]) && txt[1] == app:
		return ".retUnlessMulti", true
	case len(list) == 1 && txt[0] == "return err":
		return ".ret", true
	case len(list) == 1 && txt[0] == app:
		return ".append", true
	}
	return "", false
}

func (c *c07x) isNotMultiReturn(s ast.Stmt) bool {
	x, ok := c07PlainIf(s)
	if !ok || len(x.Body.List) != 1 || c.text(x.Body.List[0]) != "return err" {
		return false
	}
	u, ok := x.Cond.(*ast.UnaryExpr)
	return ok && u.Op == token.NOT && c.res(u.X) == "input.Options.MultiError"
}

// `if err := F(args…); err != nil { … }` → call, body
func (c *c07x) try(s ast.Stmt) (*ast.CallExpr, []ast.Stmt, bool) {
	x, ok := s.(*ast.IfStmt)
	if !ok || x.Init == nil || x.Else != nil || c.text(x.Cond) != "err != nil" {
		return nil, nil, false
	}
	as, ok := x.Init.(*ast.AssignStmt)
	if !ok || as.Tok != token.DEFINE || len(as.Lhs) != 1 || len(as.Rhs) != 1 || c.text(as.Lhs[0]) != "err" {
		return nil, nil, false
	}
	call, ok := as.Rhs[0].(*ast.CallExpr)
	if !ok {
		return nil, nil, false
	}
	return call, x.Body.List, true
}

// call of the package function `name` with the arguments ctx, input and one more whose meaning is returned
func (c *c07x) call3(call *ast.CallExpr, name string) (string, bool) {
	id, ok := call.Fun.(*ast.Ident)
	if !ok || id.Name != name || len(call.Args) != 3 || c.text(call.Args[0]) != "ctx" || c.text(call.Args[1]) != "input" {
		return "", false
	}
	return c.res(call.Args[2]), true
}

func c07Exit(s ast.Stmt) (string, bool) {
	b, ok := s.(*ast.BranchStmt)
	if !ok || b.Label != nil {
		return "", false
	}
	switch b.Tok {
	case token.CONTINUE:
		return ".cont", true
	case token.BREAK:
		return ".brk", true
	}
	return "", false
}

var c07Srcs = map[string]string{
	"input.Route.PathItem.Parameters":  ".pathItem",
	"input.Route.Operation.Parameters": ".operation",
}

func c07Src(s string) string {
	if v, ok := c07Srcs[s]; ok {
		return v
	}
	return fmt.Sprintf("(.other %q)", s)
}

func c07SecSrc(s string) string {
	switch s {
	case "input.Route.Operation.Security":
		return ".operation"
	case "&input.Route.Spec.Security", "input.Route.Spec.Security":
		return ".document"
	}
	return fmt.Sprintf("(.other %q)", s)
}

// ---------------------------------------------------------------- ValidateRequest

func (c *c07x) validateRequest(fd *ast.FuncDecl) []string {
	var rows []string
	list := fd.Body.List
	acc := ""
	for i := 0; i < len(list); {
		s := list[i]
		t := c.text(s)
		// the accumulator
		if acc == "" && strings.HasPrefix(t, "var ") && strings.HasSuffix(t, " openapi3.MultiError") {
			acc = strings.TrimSuffix(strings.TrimPrefix(t, "var "), " openapi3.MultiError")
			i++
			continue
		}
		if c.optionsDefault(list[i:]) {
			c.env["options"] = "input.Options"
			rows = append(rows, ".optionsDefault")
			i += 2
			continue
		}
		// security := A ; if security == nil { security = &B } ; if security != nil { TRY }
		if as, ok := s.(*ast.AssignStmt); ok && as.Tok == token.DEFINE && len(as.Lhs) == 1 && c.text(as.Lhs[0]) == "security" && i+2 < len(list) {
			first := c.res(as.Rhs[0])
			ok2 := false
			fallback := ""
			if x, ok := c07PlainIf(list[i+1]); ok && len(x.Body.List) == 1 {
				if v, ok := c.nilTest(x.Cond, token.EQL); ok && v == "security" {
					if a2, ok := x.Body.List[0].(*ast.AssignStmt); ok && a2.Tok == token.ASSIGN && len(a2.Lhs) == 1 && c.text(a2.Lhs[0]) == "security" {
						fallback = c.res(a2.Rhs[0])
						ok2 = true
					}
				}
			}
			if ok2 {
				if x, ok := c07PlainIf(list[i+2]); ok && len(x.Body.List) == 1 {
					if v, ok := c.nilTest(x.Cond, token.NEQ); ok && v == "security" {
						if call, body, ok := c.try(x.Body.List[0]); ok {
							if arg, ok := c.call3(call, "ValidateSecurityRequirements"); ok && arg == "*security" {
								if h, ok := c.handler(body, acc); ok {
									rows = append(rows, fmt.Sprintf(".security %s %s %s", c07SecSrc(first), c07SecSrc(fallback), h))
									i += 3
									continue
								}
							}
						}
					}
				}
			}
			rows = append(rows, c.unrec(s.Pos()))
			i++
			continue
		}
		if c.alias(s) {
			i++
			continue
		}
		if r, ok := s.(*ast.RangeStmt); ok {
			rows = append(rows, c.paramLoop(r, acc))
			i++
			continue
		}
		// body
		if x, ok := c07PlainIf(s); ok {
			if t == "if len("+acc+") > 0 { return "+acc+" }" {
				rows = append(rows, ".retMeIfAny")
				i++
				continue
			}
			if row, ok := c.bodyStep(x, acc); ok {
				rows = append(rows, row)
				i++
				continue
			}
		}
		if t == "return nil" {
			rows = append(rows, ".retNil")
			i++
			continue
		}
		rows = append(rows, c.unrec(s.Pos()))
		i++
	}
	return rows
}

func (c *c07x) conj(e ast.Expr) []ast.Expr {
	if b, ok := e.(*ast.BinaryExpr); ok && b.Op == token.LAND {
		return append(c.conj(b.X), c.conj(b.Y)...)
	}
	if p, ok := e.(*ast.ParenExpr); ok {
		return c.conj(p.X)
	}
	return []ast.Expr{e}
}

func (c *c07x) bodyStep(x *ast.IfStmt, acc string) (string, bool) {
	var conds []string
	for _, e := range c.conj(x.Cond) {
		if v, ok := c.nilTest(e, token.NEQ); ok && v == "input.Route.Operation.RequestBody" {
			conds = append(conds, ".declared")
			continue
		}
		if u, ok := e.(*ast.UnaryExpr); ok && u.Op == token.NOT && c.res(u.X) == "input.Options.ExcludeRequestBody" {
			conds = append(conds, ".notExcluded")
			continue
		}
		return "", false
	}
	if len(x.Body.List) != 1 {
		return "", false
	}
	call, body, ok := c.try(x.Body.List[0])
	if !ok {
		return "", false
	}
	if arg, ok := c.call3(call, "ValidateRequestBody"); !ok || arg != "input.Route.Operation.RequestBody.Value" {
		return "", false
	}
	h, ok := c.handler(body, acc)
	if !ok {
		return "", false
	}
	return fmt.Sprintf(".body [%s] %s", strings.Join(conds, ", "), h), true
}

func (c *c07x) paramLoop(r *ast.RangeStmt, acc string) string {
	if r.Tok != token.DEFINE || r.Key == nil || c.text(r.Key) != "_" || r.Value == nil {
		return c.unrec(r.Pos())
	}
	v, ok := r.Value.(*ast.Ident)
	if !ok {
		return c.unrec(r.Pos())
	}
	src := c.res(r.X)
	saved := map[string]string{}
	for k, x := range c.env {
		saved[k] = x
	}
	defer func() { c.env = saved }()
	c.env[v.Name] = "$cur"
	var guards []string
	list := r.Body.List
	for i, s := range list {
		if c.alias(s) {
			continue
		}
		if g, ok := c.guard(s); ok {
			guards = append(guards, g)
			continue
		}
		if call, body, ok := c.try(s); ok && i == len(list)-1 {
			if arg, ok := c.call3(call, "ValidateParameter"); ok && arg == "$cur.Value" {
				if h, ok := c.handler(body, acc); ok {
					return fmt.Sprintf(".paramLoop %s [%s] %s", c07Src(src), strings.Join(guards, ", "), h)
				}
			}
		}
		return c.unrec(s.Pos())
	}
	return c.unrec(r.Pos())
}

func c07Field(s string) string {
	switch s {
	case "$cur.Value.In":
		return ".loc"
	case "$cur.Value.Name":
		return ".name"
	}
	return fmt.Sprintf("(.other %q)", s)
}

func (c *c07x) guard(s ast.Stmt) (string, bool) {
	x, ok := c07PlainIf(s)
	if !ok {
		// if override := L.GetByInAndName(a1, a2); override != nil { EXIT }
		return c.overrideGuard(s, false)
	}
	// exQuery
	if cs := c.conj(x.Cond); len(cs) == 2 && len(x.Body.List) == 1 {
		if c.res(cs[0]) == "input.Options.ExcludeRequestQueryParams" {
			if b, ok := cs[1].(*ast.BinaryExpr); ok && b.Op == token.EQL && c.res(b.X) == "$cur.Value.In" && c.text(b.Y) == "openapi3.ParameterInQuery" {
				if e, ok := c07Exit(x.Body.List[0]); ok {
					return ".exQuery " + e, true
				}
			}
		}
	}
	// if L != nil { <override guard> }
	if v, ok := c.nilTest(x.Cond, token.NEQ); ok && len(x.Body.List) == 1 {
		if g, ok := c.overrideGuard(x.Body.List[0], true); ok {
			// the list tested must be the list searched
			if strings.Contains(g, ".overridden "+c07Src(v)+" ") {
				return g, true
			}
		}
	}
	return "", false
}

func (c *c07x) overrideGuard(s ast.Stmt, nilGuarded bool) (string, bool) {
	x, ok := s.(*ast.IfStmt)
	if !ok || x.Init == nil || x.Else != nil || len(x.Body.List) != 1 {
		return "", false
	}
	as, ok := x.Init.(*ast.AssignStmt)
	if !ok || as.Tok != token.DEFINE || len(as.Lhs) != 1 || len(as.Rhs) != 1 {
		return "", false
	}
	name := c.text(as.Lhs[0])
	if c.text(x.Cond) != name+" != nil" {
		return "", false
	}
	call, ok := as.Rhs[0].(*ast.CallExpr)
	if !ok || len(call.Args) != 2 {
		return "", false
	}
	sel, ok := call.Fun.(*ast.SelectorExpr)
	if !ok || sel.Sel.Name != "GetByInAndName" {
		return "", false
	}
	e, ok := c07Exit(x.Body.List[0])
	if !ok {
		return "", false
	}
	return fmt.Sprintf(".overridden %s %v %s %s %s", c07Src(c.res(sel.X)), nilGuarded, c07Field(c.res(call.Args[0])), c07Field(c.res(call.Args[1])), e), true
}

// ---------------------------------------------------------------- ValidateSecurityRequirements

func (c *c07x) securityRequirements(fd *ast.FuncDecl) []string {
	var rows []string
	srs := "srs"
	if ps := fd.Type.Params.List; len(ps) == 3 && len(ps[2].Names) == 1 {
		srs = ps[2].Names[0].Name
	}
	for _, s := range fd.Body.List {
		t := c.text(s)
		switch {
		case t == "if len("+srs+") == 0 { return nil }":
			rows = append(rows, ".emptyOk")
		case t == "var errs []error":
		case t == "return &SecurityRequirementsError{ SecurityRequirements: "+srs+", Errors: errs, }":
			rows = append(rows, ".failAll")
		default:
			if r, ok := s.(*ast.RangeStmt); ok {
				rows = append(rows, c.tryEach(r, srs))
				continue
			}
			rows = append(rows, c.unrec(s.Pos()))
		}
	}
	return rows
}

func (c *c07x) tryEach(r *ast.RangeStmt, srs string) string {
	if r.Tok != token.DEFINE || r.Key == nil || c.text(r.Key) != "_" || r.Value == nil || c.text(r.X) != srs || len(r.Body.List) != 2 {
		return c.unrec(r.Pos())
	}
	v := c.text(r.Value)
	call, body, ok := c.try(r.Body.List[0])
	if !ok || c.text(r.Body.List[1]) != "return nil" {
		return c.unrec(r.Pos())
	}
	if arg, ok := c.call3(call, "validateSecurityRequirement"); !ok || arg != v {
		return c.unrec(call.Pos())
	}
	// [if len(errs) == 0 { errs = make([]error, 0, len(srs)) }] errs = append(errs, err); EXIT
	if len(body) > 0 && c.text(body[0]) == "if len(errs) == 0 { errs = make([]error, 0, len("+srs+")) }" {
		body = body[1:]
	}
	if len(body) != 2 || c.text(body[0]) != "errs = append(errs, err)" {
		return c.unrec(call.Pos())
	}
	e, ok := c07Exit(body[1])
	if !ok {
		return c.unrec(body[1].Pos())
	}
	return ".tryEach " + e
}

// ---------------------------------------------------------------- validateSecurityRequirement

var c07BodyPresent = regexp.MustCompile(`^(?:input\.Request != nil && )?input\.Request\.Body != http\.NoBody && input\.Request\.Body != nil$`)

// a block that only moves the request body around: no continue/break, no call of f, no return except that of a failed read
func (c *c07x) bodyIOBlock(b *ast.BlockStmt, f string) bool {
	ok := true
	var walk func(n ast.Node, underErr bool)
	walk = func(n ast.Node, underErr bool) {
		if n == nil || !ok {
			return
		}
		switch x := n.(type) {
		case *ast.FuncLit:
			return
		case *ast.BranchStmt:
			ok = false
			return
		case *ast.ReturnStmt:
			if !underErr {
				ok = false
			}
			return
		case *ast.CallExpr:
			if id, isId := x.Fun.(*ast.Ident); isId && id.Name == f {
				ok = false
				return
			}
		case *ast.IfStmt:
			walk(x.Init, underErr)
			walk(x.Cond, underErr)
			walk(x.Body, underErr || c.text(x.Cond) == "err != nil")
			walk(x.Else, underErr)
			return
		}
		var kids []ast.Node
		ast.Inspect(n, func(k ast.Node) bool {
			if k == nil || k == n {
				return k == n
			}
			kids = append(kids, k)
			return false
		})
		for _, k := range kids {
			walk(k, underErr)
		}
	}
	walk(b, false)
	return ok
}

func (c *c07x) securityRequirement(fd *ast.FuncDecl) []string {
	var rows []string
	sr := "securityRequirement"
	if ps := fd.Type.Params.List; len(ps) == 3 && len(ps[2].Names) == 1 {
		sr = ps[2].Names[0].Name
	}
	list := fd.Body.List
	txt := make([]string, len(list))
	for i, s := range list {
		txt[i] = c.text(s)
	}
	f := ""
	for i := 0; i < len(list); {
		s, t := list[i], txt[i]
		switch {
		case t == "if len("+sr+") == 0 { return nil }":
			rows = append(rows, ".emptyReqOk")
			i++
		case t == "names := make([]string, 0, len("+sr+"))" && i+2 < len(list) &&
			txt[i+1] == "for name := range "+sr+" { names = append(names, name) }" && txt[i+2] == "sort.Strings(names)":
			rows = append(rows, ".sortedNames")
			i += 3
		case c.optionsDefault(list[i:]):
			rows = append(rows, ".optionsDefault")
			i += 2
		case strings.HasSuffix(t, " := options.AuthenticationFunc") && f == "" && i+1 < len(list) &&
			txt[i+1] == "if "+strings.TrimSuffix(t, " := options.AuthenticationFunc")+" == nil { return ErrAuthenticationServiceMissing }":
			f = strings.TrimSuffix(t, " := options.AuthenticationFunc")
			rows = append(rows, ".needAuthFunc")
			i += 2
		case t == "var securitySchemes openapi3.SecuritySchemes" && i+1 < len(list) &&
			txt[i+1] == "if components := input.Route.Spec.Components; components != nil { securitySchemes = components.SecuritySchemes }":
			rows = append(rows, ".schemesFromComponents")
			i += 2
		case t == "var data []byte" && i+1 < len(list):
			x, ok := c07PlainIf(list[i+1])
			if ok && c07BodyPresent.MatchString(c.text(x.Cond)) && c.bodyIOBlock(x.Body, f) {
				rows = append(rows, ".bodyIO")
				i += 2
			} else {
				rows = append(rows, c.unrec(s.Pos()))
				i++
			}
		case t == "return nil":
			rows = append(rows, ".retNil")
			i++
		default:
			if r, ok := s.(*ast.RangeStmt); ok && f != "" {
				rows = append(rows, c.forNames(r, sr, f))
			} else {
				rows = append(rows, c.unrec(s.Pos()))
			}
			i++
		}
	}
	return rows
}

func (c *c07x) forNames(r *ast.RangeStmt, sr, f string) string {
	if r.Tok != token.DEFINE || r.Key == nil || c.text(r.Key) != "_" || r.Value == nil || c.text(r.Value) != "name" || c.text(r.X) != "names" {
		return c.unrec(r.Pos())
	}
	list := r.Body.List
	txt := make([]string, len(list))
	for i, s := range list {
		txt[i] = c.text(s)
	}
	var steps []string
	for i := 0; i < len(list); {
		s, t := list[i], txt[i]
		switch {
		case t == "var securityScheme *openapi3.SecurityScheme" && i+1 < len(list) &&
			txt[i+1] == "if securitySchemes != nil { if ref := securitySchemes[name]; ref != nil { securityScheme = ref.Value } }":
			steps = append(steps, ".lookupScheme")
			i += 2
		case strings.HasPrefix(t, "if securityScheme == nil { return &RequestError{"):
			x, _ := c07PlainIf(s)
			if x != nil && len(x.Body.List) == 1 {
				steps = append(steps, ".undeclaredFails")
			} else {
				steps = append(steps, c.unrec(s.Pos()))
			}
			i++
		case t == "scopes := "+sr+"[name]":
			steps = append(steps, ".scopesOf")
			i++
		default:
			if x, ok := c07PlainIf(s); ok && c.text(x.Cond) == "data != nil" && c.bodyIOBlock(x.Body, f) {
				steps = append(steps, ".bodyIO")
				i++
				continue
			}
			if call, body, ok := c.try(s); ok {
				want := f + "(ctx, &AuthenticationInput{ RequestValidationInput: input, SecuritySchemeName: name, SecurityScheme: securityScheme, Scopes: scopes, })"
				if c.text(call) == want && len(body) == 1 {
					if c.text(body[0]) == "return err" {
						steps = append(steps, ".callAuth .ret")
						i++
						continue
					}
					if e, ok := c07Exit(body[0]); ok {
						steps = append(steps, ".callAuth "+e)
						i++
						continue
					}
				}
			}
			steps = append(steps, c.unrec(s.Pos()))
			i++
		}
	}
	return ".forNames [" + strings.Join(steps, ", ") + "]"
}

// ---------------------------------------------------------------- Parameters.GetByInAndName (openapi3/parameter.go)

func c07GetByInAndName(repo string) []string {
	const rel = "openapi3/parameter.go"
	fset := token.NewFileSet()
	f, err := parser.ParseFile(fset, filepath.Join(repo, filepath.FromSlash(rel)), nil, 0)
	if err != nil {
		return []string{fmt.Sprintf(".unrecognised %q", rel+": "+err.Error())}
	}
	c := &c07x{fset: fset, env: map[string]string{}}
	at := func(p token.Pos) string { return fmt.Sprintf(".unrecognised %q", fmt.Sprintf("%s:%d", rel, fset.Position(p).Line)) }
	for _, d := range f.Decls {
		fd, ok := d.(*ast.FuncDecl)
		if !ok || fd.Name.Name != "GetByInAndName" || fd.Recv == nil || fd.Body == nil || len(fd.Recv.List) != 1 || len(fd.Recv.List[0].Names) != 1 {
			continue
		}
		if c.text(fd.Recv.List[0].Type) != "Parameters" {
			continue
		}
		recv := fd.Recv.List[0].Names[0].Name
		var params []string
		for _, p := range fd.Type.Params.List {
			for _, n := range p.Names {
				params = append(params, n.Name)
			}
		}
		if len(params) != 2 {
			return []string{at(fd.Pos())}
		}
		var rows []string
		for _, s := range fd.Body.List {
			if c.text(s) == "return nil" {
				rows = append(rows, ".retNil")
				continue
			}
			r, ok := s.(*ast.RangeStmt)
			if !ok || r.Tok != token.DEFINE || r.Key == nil || c.text(r.Key) != "_" || r.Value == nil || c.text(r.X) != recv || len(r.Body.List) != 1 {
				rows = append(rows, at(s.Pos()))
				continue
			}
			item := c.text(r.Value)
			// if v := item.Value; v != nil { if CONDS { return v } }
			x, ok := r.Body.List[0].(*ast.IfStmt)
			if !ok || x.Init == nil || x.Else != nil || len(x.Body.List) != 1 {
				rows = append(rows, at(r.Pos()))
				continue
			}
			as, ok := x.Init.(*ast.AssignStmt)
			if !ok || as.Tok != token.DEFINE || len(as.Lhs) != 1 || len(as.Rhs) != 1 || c.text(as.Rhs[0]) != item+".Value" {
				rows = append(rows, at(x.Pos()))
				continue
			}
			v := c.text(as.Lhs[0])
			inner, ok := c07PlainIf(x.Body.List[0])
			if c.text(x.Cond) != v+" != nil" || !ok || len(inner.Body.List) != 1 || c.text(inner.Body.List[0]) != "return "+v {
				rows = append(rows, at(x.Pos()))
				continue
			}
			var conds []string
			good := true
			for _, e := range c.conj(inner.Cond) {
				b, ok := e.(*ast.BinaryExpr)
				if !ok || b.Op != token.EQL {
					good = false
					break
				}
				fld := ""
				switch c.text(b.X) {
				case v + ".Name":
					fld = ".name"
				case v + ".In":
					fld = ".loc"
				}
				k := -1
				for i, p := range params {
					if c.text(b.Y) == p {
						k = i
					}
				}
				if fld == "" || k < 0 {
					good = false
					break
				}
				conds = append(conds, fmt.Sprintf("(%s, %d)", fld, k))
			}
			if !good {
				rows = append(rows, at(inner.Pos()))
				continue
			}
			rows = append(rows, ".findFirst ["+strings.Join(conds, ", ")+"]")
		}
		return rows
	}
	return []string{fmt.Sprintf(".unrecognised %q", rel+": method Parameters.GetByInAndName not found")}
}

// ---------------------------------------------------------------- output

const c07Types = `inductive C07Src | pathItem | operation | other (what : String)
  deriving DecidableEq, Repr
inductive C07SecSrc | operation | document | other (what : String)
  deriving DecidableEq, Repr
inductive C07Field | loc | name | other (what : String)
  deriving DecidableEq, Repr
inductive C07Exit | cont | brk | ret
  deriving DecidableEq, Repr
inductive C07ErrAct | retUnlessMulti | ret | append
  deriving DecidableEq, Repr
inductive C07Guard
  | exQuery (exit : C07Exit)
  | overridden (list : C07Src) (nilGuarded : Bool) (arg1 arg2 : C07Field) (exit : C07Exit)
  deriving DecidableEq, Repr
inductive C07BodyCond | declared | notExcluded
  deriving DecidableEq, Repr
inductive C07NameStep | lookupScheme | undeclaredFails | scopesOf | bodyIO | callAuth (onErr : C07Exit) | unrecognised (site : String)
  deriving DecidableEq, Repr
inductive C07Row
  | optionsDefault
  | security (first fallback : C07SecSrc) (h : C07ErrAct)
  | paramLoop (src : C07Src) (guards : List C07Guard) (h : C07ErrAct)
  | body (conds : List C07BodyCond) (h : C07ErrAct)
  | retMeIfAny
  | retNil
  | emptyOk
  | tryEach (onFail : C07Exit)
  | failAll
  | emptyReqOk
  | sortedNames
  | needAuthFunc
  | schemesFromComponents
  | bodyIO
  | forNames (steps : List C07NameStep)
  | findFirst (conds : List (C07Field × Nat))
  | unrecognised (site : String)
  deriving DecidableEq, Repr
`

func extractC07Flow(repo string) (string, error) {
	fset := token.NewFileSet()
	f, err := parser.ParseFile(fset, filepath.Join(repo, filepath.FromSlash(c07File)), nil, 0)
	if err != nil {
		return "", err
	}
	decls := map[string]*ast.FuncDecl{}
	for _, d := range f.Decls {
		if fd, ok := d.(*ast.FuncDecl); ok && fd.Recv == nil && fd.Body != nil {
			decls[fd.Name.Name] = fd
		}
	}
	type fn struct {
		name, def string
		run       func(*c07x, *ast.FuncDecl) []string
	}
	fns := []fn{
		{"ValidateRequest", "c07ValidateRequest", (*c07x).validateRequest},
		{"ValidateSecurityRequirements", "c07SecurityRequirements", (*c07x).securityRequirements},
		{"validateSecurityRequirement", "c07SecurityRequirement", (*c07x).securityRequirement},
	}
	var b strings.Builder
	b.WriteString("/- GENERATED by go/cmd/extract (table C07Flow) from " + c07File + " — do not edit. -/\n")
	b.WriteString("namespace KinModel.Gen\n\n" + c07Types + "\n")
	total := 0
	for _, x := range fns {
		var rows []string
		fd := decls[x.name]
		if fd == nil || fd.Type.Params == nil || len(fd.Type.Params.List) < 2 {
			rows = []string{fmt.Sprintf(".unrecognised %q", c07File+": func "+x.name+" not found")}
		} else {
			c := &c07x{fset: fset, env: map[string]string{}}
			// the parameters must be called ctx and input (the rule's texts use these names)
			if p := fd.Type.Params.List; c.text(p[0].Names[0]) != "ctx" || c.text(p[1].Names[0]) != "input" {
				rows = []string{fmt.Sprintf(".unrecognised %q", c.site(fd.Pos()))}
			} else {
				rows = x.run(c, fd)
			}
		}
		fmt.Fprintf(&b, "/-- `%s` -/\ndef %s : List C07Row := [\n  %s\n]\n\n", x.name, x.def, strings.Join(rows, ",\n  "))
		total += len(rows)
	}
	look := c07GetByInAndName(repo)
	fmt.Fprintf(&b, "/-- `Parameters.GetByInAndName` (openapi3/parameter.go) -/\ndef c07GetByInAndName : List C07Row := [\n  %s\n]\n\n", strings.Join(look, ",\n  "))
	total += len(look)
	fmt.Fprintf(&b, "-- rows: %d\n\nend KinModel.Gen\n", total)
	return b.String(), nil
}
