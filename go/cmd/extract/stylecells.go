package main

// Table StyleCells (property C05): read, syntactically, from openapi3/parameter.go
//   * the (in, style, explode) combinations that Parameter.Validate accepts: the case list of the tag-less
//     switch that sets `smSupported = true`; every case expression must have the shape
//     `parameter.In == ParameterInX && sm.Style == SerializationY && [!]sm.Explode`;
//   * the defaults of Parameter.SerializationMethod: per `case ParameterInX, …:` clause the style constant
//     assigned inside `if style == "" { style = SerializationY }` and the literal of `explode := <bool>`.
// Anything of another shape becomes an `unrecognised "<file:line>"` row.

import (
	"fmt"
	"go/ast"
	"go/parser"
	"go/token"
	"path/filepath"
	"strings"
)

func init() { register("StyleCells", extractStyleCells) }

func scIdent(e ast.Expr) string {
	switch x := e.(type) {
	case *ast.Ident:
		return x.Name
	case *ast.SelectorExpr:
		return scIdent(x.X) + "." + x.Sel.Name
	}
	return ""
}

var scLoc = map[string]string{"ParameterInPath": ".path", "ParameterInQuery": ".query", "ParameterInHeader": ".header", "ParameterInCookie": ".cookie"}
var scSty = map[string]string{"SerializationSimple": ".simple", "SerializationLabel": ".label", "SerializationMatrix": ".matrix",
	"SerializationForm": ".form", "SerializationSpaceDelimited": ".spaceDelimited", "SerializationPipeDelimited": ".pipeDelimited",
	"SerializationDeepObject": ".deepObject"}

// scCell reads `parameter.In == ParameterInX && sm.Style == SerializationY && [!]sm.Explode`.
func scCell(e ast.Expr) (string, bool) {
	and1, ok := e.(*ast.BinaryExpr)
	if !ok || and1.Op != token.LAND {
		return "", false
	}
	and0, ok := and1.X.(*ast.BinaryExpr)
	if !ok || and0.Op != token.LAND {
		return "", false
	}
	eqIn, ok1 := and0.X.(*ast.BinaryExpr)
	eqSt, ok2 := and0.Y.(*ast.BinaryExpr)
	if !ok1 || !ok2 || eqIn.Op != token.EQL || eqSt.Op != token.EQL {
		return "", false
	}
	if scIdent(eqIn.X) != "parameter.In" || scIdent(eqSt.X) != "sm.Style" {
		return "", false
	}
	loc, okL := scLoc[scIdent(eqIn.Y)]
	sty, okS := scSty[scIdent(eqSt.Y)]
	if !okL || !okS {
		return "", false
	}
	explode := "true"
	ex := and1.Y
	if u, ok := ex.(*ast.UnaryExpr); ok && u.Op == token.NOT {
		explode = "false"
		ex = u.X
	}
	if scIdent(ex) != "sm.Explode" {
		return "", false
	}
	return fmt.Sprintf(".cell ⟨%s, %s, %s⟩", loc, sty, explode), true
}

func extractStyleCells(repo string) (string, error) {
	fn := filepath.Join(repo, "openapi3", "parameter.go")
	fset := token.NewFileSet()
	f, err := parser.ParseFile(fset, fn, nil, 0)
	if err != nil {
		return "", err
	}
	at := func(p token.Pos) string {
		ps := fset.Position(p)
		return fmt.Sprintf("openapi3/parameter.go:%d", ps.Line)
	}
	var cells, defaults []string
	foundValidate, foundSM := false, false
	for _, d := range f.Decls {
		fd, ok := d.(*ast.FuncDecl)
		if !ok || fd.Recv == nil || fd.Body == nil {
			continue
		}
		switch fd.Name.Name {
		case "Validate":
			ast.Inspect(fd.Body, func(n ast.Node) bool {
				sw, ok := n.(*ast.SwitchStmt)
				if !ok || sw.Tag != nil {
					return true
				}
				for _, st := range sw.Body.List {
					cc := st.(*ast.CaseClause)
					sets := false
					for _, b := range cc.Body {
						if as, ok := b.(*ast.AssignStmt); ok && len(as.Lhs) == 1 && scIdent(as.Lhs[0]) == "smSupported" {
							sets = true
						}
					}
					if !sets {
						continue
					}
					foundValidate = true
					for _, e := range cc.List {
						if row, ok := scCell(e); ok {
							cells = append(cells, row)
						} else {
							cells = append(cells, fmt.Sprintf(".unrecognised %q", at(e.Pos())))
						}
					}
				}
				return true
			})
		case "SerializationMethod":
			ast.Inspect(fd.Body, func(n ast.Node) bool {
				sw, ok := n.(*ast.SwitchStmt)
				if !ok || scIdent(sw.Tag) != "parameter.In" {
					return true
				}
				foundSM = true
				for _, st := range sw.Body.List {
					cc := st.(*ast.CaseClause)
					if len(cc.List) == 0 {
						continue // default: error return
					}
					style, explode := "", ""
					for _, b := range cc.Body {
						switch s := b.(type) {
						case *ast.IfStmt:
							if c, ok := s.Cond.(*ast.BinaryExpr); ok && scIdent(c.X) == "style" && len(s.Body.List) == 1 {
								if as, ok := s.Body.List[0].(*ast.AssignStmt); ok && len(as.Rhs) == 1 && scIdent(as.Lhs[0]) == "style" {
									style = scSty[scIdent(as.Rhs[0])]
								}
							}
						case *ast.AssignStmt:
							if s.Tok == token.DEFINE && len(s.Lhs) == 1 && scIdent(s.Lhs[0]) == "explode" && len(s.Rhs) == 1 {
								if v := scIdent(s.Rhs[0]); v == "true" || v == "false" {
									explode = v
								}
							}
						}
					}
					for _, e := range cc.List {
						loc, ok := scLoc[scIdent(e)]
						if !ok || style == "" || explode == "" {
							defaults = append(defaults, fmt.Sprintf(".unrecognised %q", at(e.Pos())))
							continue
						}
						defaults = append(defaults, fmt.Sprintf(".dflt %s %s %s", loc, style, explode))
					}
				}
				return false
			})
		}
	}
	if !foundValidate {
		cells = append(cells, `.unrecognised "openapi3/parameter.go: no smSupported switch in Validate"`)
	}
	if !foundSM {
		defaults = append(defaults, `.unrecognised "openapi3/parameter.go: no switch on parameter.In in SerializationMethod"`)
	}
	var sb strings.Builder
	sb.WriteString("-- generated by go/cmd/extract (table StyleCells) from openapi3/parameter.go; do not edit\n")
	sb.WriteString("import KinModel.Style\nnamespace KinModel.Gen\nopen KinModel.Style\n\n")
	sb.WriteString("inductive CellRow | cell (c : Cell) | unrecognised (site : String)\n  deriving DecidableEq, Repr\n")
	sb.WriteString("inductive DefaultRow | dflt (loc : Loc) (style : Sty) (explode : Bool) | unrecognised (site : String)\n  deriving DecidableEq, Repr\n\n")
	sb.WriteString("def CellRow.ok : CellRow → Bool | .cell _ => true | .unrecognised _ => false\n")
	sb.WriteString("def DefaultRow.ok : DefaultRow → Bool | .dflt _ _ _ => true | .unrecognised _ => false\n\n")
	fmt.Fprintf(&sb, "-- rows: %d\n", len(cells)+len(defaults))
	sb.WriteString("/-- the cases of Parameter.Validate's `smSupported` switch, in source order -/\ndef styleCells : List CellRow := [\n")
	for i, c := range cells {
		sep := ","
		if i == len(cells)-1 {
			sep = ""
		}
		fmt.Fprintf(&sb, "  %s%s\n", c, sep)
	}
	sb.WriteString("]\n\n/-- the defaults of Parameter.SerializationMethod -/\ndef styleDefaults : List DefaultRow := [\n")
	for i, c := range defaults {
		sep := ","
		if i == len(defaults)-1 {
			sep = ""
		}
		fmt.Fprintf(&sb, "  %s%s\n", c, sep)
	}
	sb.WriteString("]\n\nend KinModel.Gen\n")
	return sb.String(), nil
}
