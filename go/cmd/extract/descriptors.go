package main

// Table "Descriptors" (property C03): for every object kind of openapi3 and openapi2 — every struct that
// carries an `Extensions` map — the facts the generic marshal/unmarshal model needs, read syntactically
// (go/parser, go/ast only) from the current source:
//
//   struct kinds   json tag, Go field name, type class and child shape of every tagged field;
//                  every `m["k"] = …` of the map-building marshaller with the Go field it reads and the
//                  class of its guard; every `delete(x.Extensions, "k")` of the unmarshaller; whether the
//                  extension copy loop, the `$ref` early return, the second decode into Extensions, the
//                  assignment back and the MarshalJSON→MarshalYAML delegation are present;
//   ref wrappers   (`XRef{Ref, Value}`) whether the three methods are instances of the one template;
//   map-like       (`Paths`, `Responses`, `Callback`) whether the three methods are instances of the template;
//   aliases        (`Header{Parameter}`) whether the methods delegate to the embedded kind.
//
// Any statement of those methods that is not of a recognised shape becomes an `unrecognised` entry of the
// kind's row (never skipped); `Props/C03.lean` proves `∀ d ∈ descriptors, d.unrecognised = []`.

import (
	"fmt"
	"go/ast"
	"go/parser"
	"go/token"
	"os"
	"path/filepath"
	"reflect"
	"regexp"
	"sort"
	"strconv"
	"strings"
)

func init() { register("Descriptors", extractDescriptors) }

type dField struct {
	key, goName, tc, shape string
}
type dMarsh struct {
	key, goName, guard string
}
type dKind struct {
	pkg, name string
	template  string // struct | ref | maplike | alias
	fields    []dField
	marsh     []dMarsh
	dels      []string
	valueKind string // ref: kind of Value; maplike: shape of entries; alias: embedded kind
	extCopy, refEarly, nilGuard, unmExt, assignBack, delegates, hasYAML, hasMarsh, hasUnm, uniform bool
	nilSafe   bool // ref wrapper: MarshalYAML of the Value type has a pointer receiver and starts with a nil check
	post      []string
	unrec     []string
	st        *ast.StructType
}

type dPkg struct {
	name    string
	fset    *token.FileSet
	src     map[string][]byte
	structs map[string]*ast.StructType
	named   map[string]ast.Expr // non-struct named types
	methods map[string]map[string]*ast.FuncDecl
	funcs   map[string]*ast.FuncDecl
	file    map[ast.Node]string
}

func (p *dPkg) text(n ast.Node) string {
	pos, end := p.fset.Position(n.Pos()), p.fset.Position(n.End())
	return string(p.src[pos.Filename][pos.Offset:end.Offset])
}

var wsRe = regexp.MustCompile(`\s+`)

func squash(s string) string { return wsRe.ReplaceAllString(s, "") }

func (p *dPkg) loc(n ast.Node) string {
	pos := p.fset.Position(n.Pos())
	return fmt.Sprintf("%s/%s:%d", p.name, filepath.Base(pos.Filename), pos.Line)
}

func loadPkg(repo, name string) (*dPkg, error) {
	p := &dPkg{name: name, fset: token.NewFileSet(), src: map[string][]byte{}, structs: map[string]*ast.StructType{},
		named: map[string]ast.Expr{}, methods: map[string]map[string]*ast.FuncDecl{}, funcs: map[string]*ast.FuncDecl{}}
	files, _ := filepath.Glob(filepath.Join(repo, name, "*.go"))
	sort.Strings(files)
	for _, f := range files {
		if strings.HasSuffix(f, "_test.go") {
			continue
		}
		data, err := os.ReadFile(f)
		if err != nil {
			return nil, err
		}
		af, err := parser.ParseFile(p.fset, f, data, parser.ParseComments)
		if err != nil {
			return nil, err
		}
		if af.Name.Name != name {
			continue // generators with package main
		}
		p.src[f] = data
		for _, decl := range af.Decls {
			switch d := decl.(type) {
			case *ast.GenDecl:
				for _, sp := range d.Specs {
					ts, ok := sp.(*ast.TypeSpec)
					if !ok {
						continue
					}
					if st, ok := ts.Type.(*ast.StructType); ok {
						p.structs[ts.Name.Name] = st
					} else {
						p.named[ts.Name.Name] = ts.Type
					}
				}
			case *ast.FuncDecl:
				if d.Recv == nil && d.Body != nil {
					p.funcs[d.Name.Name] = d
				}
				if d.Recv == nil || len(d.Recv.List) == 0 || d.Body == nil {
					continue
				}
				rt := ""
				switch t := d.Recv.List[0].Type.(type) {
				case *ast.Ident:
					rt = t.Name
				case *ast.StarExpr:
					if id, ok := t.X.(*ast.Ident); ok {
						rt = id.Name
					}
				}
				if p.methods[rt] == nil {
					p.methods[rt] = map[string]*ast.FuncDecl{}
				}
				p.methods[rt][d.Name.Name] = d
			}
		}
	}
	return p, nil
}

func recvName(fd *ast.FuncDecl) string {
	if len(fd.Recv.List[0].Names) == 0 {
		return "_"
	}
	return fd.Recv.List[0].Names[0].Name
}

func hasExtensions(st *ast.StructType) bool {
	for _, f := range st.Fields.List {
		for _, n := range f.Names {
			if n.Name == "Extensions" {
				return true
			}
		}
	}
	return false
}

// classify maps a field type expression to (type class, child shape).
func classify(pkgs map[string]*dPkg, cur string, e ast.Expr, depth int) (string, string) {
	if depth > 6 {
		return "unknown", `.unknown "depth"`
	}
	p := pkgs[cur]
	switch t := e.(type) {
	case *ast.Ident:
		switch t.Name {
		case "string":
			return "str", ".leaf"
		case "bool":
			return "bool", ".leaf"
		case "uint64", "int", "int64", "uint":
			return "uint", ".leaf"
		case "float64":
			return "unknown", `.unknown "float64 by value"`
		case "any":
			return "iface", ".leaf"
		}
		if t.Name == "AdditionalProperties" {
			return "addProps", ".addProps"
		}
		if t.Name == "Types" {
			return "slice", ".types"
		}
		if st, ok := p.structs[t.Name]; ok {
			return "value", kindShape(pkgs, cur, t.Name, st)
		}
		if u, ok := p.named[t.Name]; ok {
			tc, sh := classify(pkgs, cur, u, depth+1)
			if _, isMap := u.(*ast.MapType); isMap {
				// a named map type with its own UnmarshalJSON (unmarshalStringMap / unmarshalStringMapP): JSON null
				// makes an empty non-nil map, and a null entry becomes a pointer to the zero value
				if _, custom := p.methods[t.Name]["UnmarshalJSON"]; custom {
					tc = "nmap"
					if sh == ".leaf" {
						sh = "(.pmap .leaf)"
					} else {
						sh = strings.Replace(sh, ".map ", ".pmap ", 1)
					}
				}
			}
			return tc, sh
		}
		return "unknown", fmt.Sprintf(".unknown %q", t.Name)
	case *ast.SelectorExpr:
		if id, ok := t.X.(*ast.Ident); ok {
			if _, ok := pkgs[id.Name]; ok {
				return classify(pkgs, id.Name, t.Sel, depth+1)
			}
		}
		return "unknown", `.unknown "selector"`
	case *ast.InterfaceType:
		return "iface", ".leaf"
	case *ast.StarExpr:
		itc, sh := classify(pkgs, cur, t.X, depth+1)
		if itc == "slice" && sh == ".types" {
			return "ptypes", sh // *Types: Types.MarshalYAML writes the empty list as nil, so nil and empty both mean "no type"
		}
		if strings.HasPrefix(sh, ".unknown") {
			if id, ok := t.X.(*ast.Ident); ok && id.Name == "float64" {
				return "ptr", ".leaf"
			}
			return "unknown", sh
		}
		return "ptr", sh
	case *ast.ArrayType:
		_, sh := classify(pkgs, cur, t.Elt, depth+1)
		if strings.HasPrefix(sh, ".unknown") {
			return "unknown", sh
		}
		if id, ok := t.Elt.(*ast.Ident); ok && id.Name == "string" {
			return "slice", "(.list .strLeaf)" // a null element becomes the empty string
		}
		if sh == ".leaf" {
			return "slice", ".leaf"
		}
		return "slice", "(.list " + sh + ")"
	case *ast.MapType:
		_, sh := classify(pkgs, cur, t.Value, depth+1)
		if strings.HasPrefix(sh, ".unknown") {
			return "unknown", sh
		}
		if id, ok := t.Value.(*ast.Ident); ok && id.Name == "string" {
			return "map", "(.map .strLeaf)" // a null entry becomes the empty string
		}
		if sh == ".leaf" {
			return "map", ".leaf"
		}
		return "map", "(.map " + sh + ")"
	}
	return "unknown", `.unknown "type expression"`
}

func kindShape(pkgs map[string]*dPkg, pkg, name string, st *ast.StructType) string {
	if !hasExtensions(st) {
		// alias struct (Header{Parameter})
		if len(st.Fields.List) == 1 && len(st.Fields.List[0].Names) == 0 {
			if id, ok := st.Fields.List[0].Type.(*ast.Ident); ok {
				return fmt.Sprintf("(.kind %q)", pkg+"."+id.Name)
			}
		}
		return fmt.Sprintf(".unknown %q", "struct "+name+" without Extensions")
	}
	switch templateOf(st) {
	case "ref":
		return fmt.Sprintf("(.ref %q)", pkg+"."+name)
	case "maplike":
		return fmt.Sprintf("(.maplike %q)", pkg+"."+name)
	}
	return fmt.Sprintf("(.kind %q)", pkg+"."+name)
}

func templateOf(st *ast.StructType) string {
	names := map[string]bool{}
	for _, f := range st.Fields.List {
		for _, n := range f.Names {
			names[n.Name] = true
		}
	}
	if names["Ref"] && names["Value"] {
		return "ref"
	}
	if names["m"] {
		return "maplike"
	}
	return "struct"
}

func guardClass(cond ast.Expr, v string, txt string) string {
	switch squash(txt) {
	case v + `!=""`:
		return ".neEmptyStr"
	case "len(" + v + ")!=0":
		return ".lenNe0"
	case v + "!=nil":
		return ".neNil"
	case v + "!=nil&&len(*" + v + ")!=0":
		return ".neNilLenNe0"
	case v:
		return ".isTrue"
	case v + "!=0":
		return ".neZero"
	case "true":
		return ".always"
	case v + ".Has!=nil||" + v + ".Schema!=nil":
		return ".addProps"
	}
	return fmt.Sprintf("(.unknown %q)", squash(txt))
}

// selField returns F when e is recv.F
func selField(e ast.Expr, recv string) string {
	if se, ok := e.(*ast.SelectorExpr); ok {
		if id, ok := se.X.(*ast.Ident); ok && id.Name == recv {
			return se.Sel.Name
		}
	}
	return ""
}

// mapAssign recognises `m["k"] = rhs` and returns k, rhs
func mapAssign(s ast.Stmt) (string, ast.Expr, bool) {
	as, ok := s.(*ast.AssignStmt)
	if !ok || len(as.Lhs) != 1 || len(as.Rhs) != 1 || as.Tok != token.ASSIGN {
		return "", nil, false
	}
	ix, ok := as.Lhs[0].(*ast.IndexExpr)
	if !ok {
		return "", nil, false
	}
	if id, ok := ix.X.(*ast.Ident); !ok || id.Name != "m" {
		return "", nil, false
	}
	lit, ok := ix.Index.(*ast.BasicLit)
	if !ok || lit.Kind != token.STRING {
		return "", nil, false
	}
	k, _ := strconv.Unquote(lit.Value)
	return k, as.Rhs[0], true
}

func (p *dPkg) scanMarshal(k *dKind, fd *ast.FuncDecl) {
	recv := recvName(fd)
	for _, s := range fd.Body.List {
		txt := squash(p.text(s))
		switch st := s.(type) {
		case *ast.IfStmt:
			if st.Init == nil && txt == "if"+recv+"==nil{returnnil,nil}" {
				k.nilGuard = true
				continue
			}
			if st.Init != nil && st.Else != nil {
				// if x := recv.F; x != nil { m["k"] = x } else { m["k"] = T{} }   with T the declared type of F
				init, ok := st.Init.(*ast.AssignStmt)
				els, isBlock := st.Else.(*ast.BlockStmt)
				if ok && isBlock && len(init.Lhs) == 1 && len(init.Rhs) == 1 && init.Tok == token.DEFINE && len(st.Body.List) == 1 && len(els.List) == 1 {
					v := init.Lhs[0].(*ast.Ident).Name
					f := selField(init.Rhs[0], recv)
					key1, rhs1, ok1 := mapAssign(st.Body.List[0])
					key2, rhs2, ok2 := mapAssign(els.List[0])
					if f != "" && ok1 && ok2 && key1 == key2 && squash(p.text(st.Cond)) == v+"!=nil" && squash(p.text(rhs1)) == v && k.st != nil {
						if ft := fieldType(k.st, f); ft != nil && squash(p.text(rhs2)) == squash(p.text(ft))+"{}" {
							k.marsh = append(k.marsh, dMarsh{key1, f, ".orEmpty"})
							continue
						}
					}
				}
			}
			if st.Init != nil && st.Else == nil {
				init, ok := st.Init.(*ast.AssignStmt)
				if ok && len(init.Lhs) == 1 && len(init.Rhs) == 1 && init.Tok == token.DEFINE {
					v := init.Lhs[0].(*ast.Ident).Name
					f := selField(init.Rhs[0], recv)
					if f == "Ref" && squash(p.text(st.Cond)) == v+`!=""` && len(st.Body.List) == 1 &&
						(squash(p.text(st.Body.List[0])) == "returnRef{Ref:"+v+"},nil" ||
							squash(p.text(st.Body.List[0])) == "returnjson.Marshal(openapi3.Ref{Ref:"+v+"})") {
						k.refEarly = true
						continue
					}
					if f != "" && len(st.Body.List) == 1 {
						if key, rhs, ok := mapAssign(st.Body.List[0]); ok {
							r := squash(p.text(rhs))
							if r == v || r == "&"+v || r == recv+"."+f {
								k.marsh = append(k.marsh, dMarsh{key, f, guardClass(st.Cond, v, p.text(st.Cond))})
								continue
							}
						}
					}
				}
			}
		case *ast.AssignStmt:
			if strings.HasPrefix(txt, "m:=make(map[string]any,") {
				continue
			}
			if key, rhs, ok := mapAssign(s); ok {
				if f := selField(rhs, recv); f != "" {
					k.marsh = append(k.marsh, dMarsh{key, f, ".always"})
					continue
				}
			}
		case *ast.RangeStmt:
			if txt == "fork,v:=range"+recv+".Extensions{m[k]=v}" {
				k.extCopy = true
				continue
			}
		case *ast.ReturnStmt:
			if txt == "returnm,nil" || txt == "returnjson.Marshal(m)" {
				continue
			}
		}
		k.unrec = append(k.unrec, p.loc(s))
	}
}

func (p *dPkg) scanUnmarshal(k *dKind, fd *ast.FuncDecl) {
	recv := recvName(fd)
	n := k.name
	for _, s := range fd.Body.List {
		txt := squash(p.text(s))
		switch {
		case txt == "type"+n+"Bis"+n, txt == "varx"+n+"Bis", txt == "returnnil":
			continue
		case txt == "iferr:=json.Unmarshal(data,&x);err!=nil{returnunmarshalError(err)}":
			continue
		case txt == "_=json.Unmarshal(data,&x.Extensions)":
			k.unmExt = true
			continue
		case txt == "delete(x.Extensions,originKey)":
			continue
		case txt == "iflen(x.Extensions)==0{x.Extensions=nil}":
			continue
		case txt == "*"+recv+"="+n+"(x)":
			k.assignBack = true
			continue
		case txt == squash(`if schema.Format == "date" {
		// This is a fix for: https://github.com/getkin/kin-openapi/issues/697
		if eg, ok := schema.Example.(string); ok {
			schema.Example = strings.TrimSuffix(eg, "T00:00:00Z")
		}
	}`):
			k.post = append(k.post, "dateExampleTrim")
			continue
		}
		if es, ok := s.(*ast.ExprStmt); ok {
			if ce, ok := es.X.(*ast.CallExpr); ok {
				if id, ok := ce.Fun.(*ast.Ident); ok && id.Name == "delete" && len(ce.Args) == 2 && squash(p.text(ce.Args[0])) == "x.Extensions" {
					if lit, ok := ce.Args[1].(*ast.BasicLit); ok && lit.Kind == token.STRING {
						key, _ := strconv.Unquote(lit.Value)
						k.dels = append(k.dels, key)
						continue
					}
				}
			}
		}
		k.unrec = append(k.unrec, p.loc(s))
	}
}

func (p *dPkg) delegatesToYAML(fd *ast.FuncDecl) bool {
	recv := recvName(fd)
	if len(fd.Body.List) != 3 {
		return false
	}
	as, ok := fd.Body.List[0].(*ast.AssignStmt)
	if !ok || len(as.Lhs) != 2 {
		return false
	}
	v := as.Lhs[0].(*ast.Ident).Name
	return squash(p.text(fd.Body.List[0])) == v+",err:="+recv+".MarshalYAML()" &&
		squash(p.text(fd.Body.List[1])) == "iferr!=nil{returnnil,err}" &&
		squash(p.text(fd.Body.List[2])) == "returnjson.Marshal("+v+")"
}

// templates of the generated reference wrappers and of the map-like containers; K = wrapper type, V = value type
const refMarshalYAML = `{ if ref := x.Ref; ref != "" { return &Ref{Ref: ref}, nil } return x.Value.MarshalYAML() }`

// the template after the repair of the nil dereference: a wrapper with neither $ref nor value is written as null
const refMarshalYAMLGuarded = `{ if ref := x.Ref; ref != "" { return &Ref{Ref: ref}, nil } if x.Value == nil { return nil, nil } return x.Value.MarshalYAML() }`
const refUnmarshal = `{
	var refOnly Ref
	if extra, err := marshmallow.Unmarshal(data, &refOnly, marshmallow.WithExcludeKnownFieldsFromMap(true)); err == nil && refOnly.Ref != "" {
		x.Ref = refOnly.Ref
		ORIGIN
		if len(extra) != 0 {
			x.extra = make([]string, 0, len(extra))
			for key := range extra {
				x.extra = append(x.extra, key)
			}
			sort.Strings(x.extra)
			for k := range extra {
				if !strings.HasPrefix(k, "x-") {
					delete(extra, k)
				}
			}
			if len(extra) != 0 {
				x.Extensions = extra
			}
		}
		return nil
	}
	return json.Unmarshal(data, &x.Value)
}`
const mapMarshalYAML = `{
	if r == nil {
		return nil, nil
	}
	m := make(map[string]any, r.Len()+len(r.Extensions))
	for k, v := range r.Extensions {
		m[k] = v
	}
	for k, v := range r.Map() {
		m[k] = v
	}
	return m, nil
}`
const mapUnmarshal = `{
	var m map[string]any
	if err = json.Unmarshal(data, &m); err != nil {
		return
	}
	ks := make([]string, 0, len(m))
	for k := range m {
		ks = append(ks, k)
	}
	sort.Strings(ks)
	x := K{
		Extensions: make(map[string]any),
		m:          make(map[string]*V, len(m)),
	}
	for _, k := range ks {
		v := m[k]
		if strings.HasPrefix(k, "x-") {
			x.Extensions[k] = v
			continue
		}
		if k == originKey {
			var data []byte
			if data, err = json.Marshal(v); err != nil {
				return
			}
			if err = json.Unmarshal(data, &x.Origin); err != nil {
				return
			}
			continue
		}
		var data []byte
		if data, err = json.Marshal(v); err != nil {
			return
		}
		var vv V
		if err = vv.UnmarshalJSON(data); err != nil {
			return
		}
		x.m[k] = &vv
	}
	*r = x
	return
}`

// hand-modelled pieces of the round trip (model: rtTypes, stepAddProps, entryStep / nullFix in Marshal.lean): their
// bodies are compared with the text the model was written from; any change makes the row non-uniform
const typesMarshalYAML = `{
	if pTypes == nil {
		return nil, nil
	}
	types := *pTypes
	switch len(types) {
	case 0:
		return nil, nil
	case 1:
		return types[0], nil
	default:
		return []string(types), nil
	}
}`
const typesMarshalJSON = `{
	x, err := pTypes.MarshalYAML()
	if err != nil {
		return nil, err
	}
	return json.Marshal(x)
}`
const typesUnmarshal = `{
	var strings []string
	if err := json.Unmarshal(data, &strings); err != nil {
		var s string
		if err := json.Unmarshal(data, &s); err != nil {
			return unmarshalError(err)
		}
		strings = []string{s}
	}
	*types = strings
	return nil
}`
const addPropsMarshalYAML = `{
	if x := addProps.Has; x != nil {
		if *x {
			return true, nil
		}
		return false, nil
	}
	if x := addProps.Schema; x != nil {
		return x.MarshalYAML()
	}
	return nil, nil
}`
const addPropsMarshalJSON = `{
	x, err := addProps.MarshalYAML()
	if err != nil {
		return nil, err
	}
	return json.Marshal(x)
}`
const addPropsUnmarshal = `{
	var x any
	if err := json.Unmarshal(data, &x); err != nil {
		return unmarshalError(err)
	}
	switch y := x.(type) {
	case nil:
	case bool:
		addProps.Has = &y
	case map[string]any:
		if len(y) == 0 {
			addProps.Schema = &SchemaRef{Value: &Schema{}}
		} else {
			buf := new(bytes.Buffer)
			json.NewEncoder(buf).Encode(y)
			if err := json.NewDecoder(buf).Decode(&addProps.Schema); err != nil {
				return err
			}
		}
	default:
		return errors.New("cannot unmarshal additionalProperties: value must be either a schema object or a boolean")
	}
	return nil
}`
const stringMapP = `{
	var m map[string]any
	if err := json.Unmarshal(data, &m); err != nil {
		return nil, nil, err
	}

	origin, err := popOrigin(m, originKey)
	if err != nil {
		return nil, nil, err
	}

	result := make(map[string]*V, len(m))
	for k, v := range m {
		value, err := deepCast[V](v)
		if err != nil {
			return nil, nil, err
		}
		result[k] = value
	}

	return result, origin, nil
}`
const stringMapV = `{
	var m map[string]any
	if err := json.Unmarshal(data, &m); err != nil {
		return nil, nil, err
	}

	origin, err := popOrigin(m, originKey)
	if err != nil {
		return nil, nil, err
	}

	result := make(map[string]V, len(m))
	for k, v := range m {
		value, err := deepCast[V](v)
		if err != nil {
			return nil, nil, err
		}
		result[k] = *value
	}

	return result, origin, nil
}`
const deepCastBody = `{
	data, err := json.Marshal(value)
	if err != nil {
		return nil, err
	}

	var result V
	if err = json.Unmarshal(data, &result); err != nil {
		return nil, err
	}
	return &result, nil
}`

func fieldType(st *ast.StructType, name string) ast.Expr {
	for _, f := range st.Fields.List {
		for _, n := range f.Names {
			if n.Name == name {
				return f.Type
			}
		}
	}
	return nil
}

func (p *dPkg) bodyIs(fd *ast.FuncDecl, tmpl string, repl ...string) bool {
	if fd == nil {
		return false
	}
	got := squash(p.text(fd.Body))
	want := squash(strings.NewReplacer(repl...).Replace(tmpl))
	return got == want
}

func extractDescriptors(repo string) (string, error) {
	pkgs := map[string]*dPkg{}
	for _, n := range []string{"openapi3", "openapi2"} {
		p, err := loadPkg(repo, n)
		if err != nil {
			return "", err
		}
		pkgs[n] = p
	}
	var kinds []*dKind
	for _, pn := range []string{"openapi3", "openapi2"} {
		p := pkgs[pn]
		names := []string{}
		for n := range p.structs {
			names = append(names, n)
		}
		sort.Strings(names)
		for _, n := range names {
			st := p.structs[n]
			ms := p.methods[n]
			if !hasExtensions(st) {
				// alias kinds: a struct that only embeds another kind
				if len(st.Fields.List) == 1 && len(st.Fields.List[0].Names) == 0 && (ms["MarshalJSON"] != nil || ms["UnmarshalJSON"] != nil) {
					emb := p.text(st.Fields.List[0].Type)
					k := &dKind{pkg: pn, name: n, template: "alias", valueKind: pn + "." + emb}
					r := func(m string) string {
						if ms[m] == nil {
							return ""
						}
						return recvName(ms[m])
					}
					k.uniform = p.bodyIs(ms["MarshalJSON"], "{return "+r("MarshalJSON")+"."+emb+".MarshalJSON()}") &&
						p.bodyIs(ms["UnmarshalJSON"], "{return "+r("UnmarshalJSON")+"."+emb+".UnmarshalJSON(data)}") &&
						(ms["MarshalYAML"] == nil || p.bodyIs(ms["MarshalYAML"], "{return "+r("MarshalYAML")+"."+emb+", nil}"))
					kinds = append(kinds, k)
				}
				continue
			}
			k := &dKind{pkg: pn, name: n, template: templateOf(st), st: st}
			k.hasYAML = ms["MarshalYAML"] != nil
			switch k.template {
			case "ref":
				vt := fieldType(st, "Value")
				_, sh := classify(pkgs, pn, vt, 0)
				k.valueKind = sh
				origin := "x.Origin = refOnly.Origin"
				if fieldType(st, "Origin") == nil {
					origin = ""
				}
				k.hasMarsh, k.hasUnm = ms["MarshalYAML"] != nil, ms["UnmarshalJSON"] != nil
				k.delegates = ms["MarshalJSON"] != nil && p.delegatesToYAML(ms["MarshalJSON"])
				if se, ok := vt.(*ast.StarExpr); ok {
					if id, ok := se.X.(*ast.Ident); ok {
						if vm := p.methods[id.Name]["MarshalYAML"]; vm != nil && len(vm.Body.List) > 0 {
							_, ptr := vm.Recv.List[0].Type.(*ast.StarExpr)
							k.nilSafe = ptr && squash(p.text(vm.Body.List[0])) == "if"+recvName(vm)+"==nil{returnnil,nil}"
						}
					}
				}
				if p.bodyIs(ms["MarshalYAML"], refMarshalYAMLGuarded) {
					k.nilSafe = true // the wrapper itself checks Value before calling its marshaller
				}
				k.uniform = (p.bodyIs(ms["MarshalYAML"], refMarshalYAML) || p.bodyIs(ms["MarshalYAML"], refMarshalYAMLGuarded)) && p.bodyIs(ms["UnmarshalJSON"], refUnmarshal, "ORIGIN", origin) &&
					recvName(ms["MarshalYAML"]) == "x" && recvName(ms["MarshalJSON"]) == "x" && recvName(ms["UnmarshalJSON"]) == "x"
			case "maplike":
				vt := fieldType(st, "m")
				_, sh := classify(pkgs, pn, vt, 0)
				k.valueKind = sh
				k.hasMarsh, k.hasUnm = ms["MarshalYAML"] != nil, ms["UnmarshalJSON"] != nil
				k.delegates = ms["MarshalJSON"] != nil && p.delegatesToYAML(ms["MarshalJSON"])
				vname := ""
				if mt, ok := vt.(*ast.MapType); ok {
					if se, ok := mt.Value.(*ast.StarExpr); ok {
						vname = p.text(se.X)
					}
				}
				if k.hasMarsh && k.hasUnm {
					r1, r2 := recvName(ms["MarshalYAML"]), recvName(ms["UnmarshalJSON"])
					k.uniform = p.bodyIs(ms["MarshalYAML"], strings.ReplaceAll(mapMarshalYAML, "r.", r1+"."), "r == nil", r1+" == nil") &&
						p.bodyIs(ms["UnmarshalJSON"], mapUnmarshal, "K{", n+"{", "*V", "*"+vname, "vv V", "vv "+vname, "*r = x", "*"+r2+" = x")
				}
			default:
				k.uniform = true // not applicable to struct kinds
				for _, f := range st.Fields.List {
					if f.Tag == nil || len(f.Names) != 1 {
						continue
					}
					tag := reflect.StructTag(strings.Trim(f.Tag.Value, "`"))
					key := strings.Split(tag.Get("json"), ",")[0]
					if key == "-" || key == "" || key == "__origin__" {
						continue
					}
					if y := strings.Split(tag.Get("yaml"), ",")[0]; y != key {
						k.unrec = append(k.unrec, p.loc(f)+" yaml tag differs from json tag")
					}
					tc, sh := classify(pkgs, pn, f.Type, 0)
					k.fields = append(k.fields, dField{key, f.Names[0].Name, tc, sh})
				}
				mf := ms["MarshalYAML"]
				if mf == nil {
					mf = ms["MarshalJSON"]
					k.delegates = true // nothing to delegate: MarshalJSON builds the map itself
				} else {
					k.delegates = ms["MarshalJSON"] != nil && p.delegatesToYAML(ms["MarshalJSON"])
				}
				if mf != nil {
					k.hasMarsh = true
					p.scanMarshal(k, mf)
				}
				if uf := ms["UnmarshalJSON"]; uf != nil {
					k.hasUnm = true
					p.scanUnmarshal(k, uf)
				}
			}
			kinds = append(kinds, k)
		}
	}
	// named map types with an unmarshaller of their own, and the hand-modelled pieces
	for _, pn := range []string{"openapi3", "openapi2"} {
		p := pkgs[pn]
		names := []string{}
		for n := range p.named {
			names = append(names, n)
		}
		sort.Strings(names)
		for _, n := range names {
			mt, isMap := p.named[n].(*ast.MapType)
			uf := p.methods[n]["UnmarshalJSON"]
			if !isMap || uf == nil {
				continue
			}
			_, sh := classify(pkgs, pn, &ast.Ident{Name: n}, 0)
			k := &dKind{pkg: pn, name: n, template: "namedMap", valueKind: sh, hasUnm: true}
			r := recvName(uf)
			vt := p.text(mt.Value)
			k.uniform = p.bodyIs(uf, "{ *"+r+", _, err = unmarshalStringMap["+vt+"](data)\n return }") ||
				(strings.HasPrefix(vt, "*") && p.bodyIs(uf, "{ *"+r+", _, err = unmarshalStringMapP["+vt[1:]+"](data)\n return }"))
			kinds = append(kinds, k)
		}
	}
	{
		p := pkgs["openapi3"]
		special := func(name string, ok bool) {
			kinds = append(kinds, &dKind{pkg: "openapi3", name: name, template: "special", uniform: ok})
		}
		tm, am := p.methods["Types"], p.methods["AdditionalProperties"]
		special("Types", p.bodyIs(tm["MarshalYAML"], typesMarshalYAML) && p.bodyIs(tm["MarshalJSON"], typesMarshalJSON) && p.bodyIs(tm["UnmarshalJSON"], typesUnmarshal) &&
			squash(p.text(p.named["Types"])) == "[]string")
		special("AdditionalProperties", p.bodyIs(am["MarshalYAML"], addPropsMarshalYAML) && p.bodyIs(am["MarshalJSON"], addPropsMarshalJSON) && p.bodyIs(am["UnmarshalJSON"], addPropsUnmarshal))
		special("unmarshalStringMapP", p.bodyIs(p.funcs["unmarshalStringMapP"], stringMapP))
		special("unmarshalStringMap", p.bodyIs(p.funcs["unmarshalStringMap"], stringMapV))
		special("deepCast", p.bodyIs(p.funcs["deepCast"], deepCastBody))
	}
	// emit
	var b strings.Builder
	b.WriteString("-- GENERATED by go/cmd/extract (table Descriptors) from the repository under test; do not edit.\n")
	b.WriteString("import KinModel.MarshalDesc\nnamespace KinModel.Gen\nopen KinModel.Marshal\n\n")
	fmt.Fprintf(&b, "-- rows: %d\n", len(kinds))
	b.WriteString("def descriptors : List Desc := [\n")
	lb := func(x bool) string {
		if x {
			return "true"
		}
		return "false"
	}
	strs := func(l []string) string {
		q := []string{}
		for _, s := range l {
			q = append(q, strconv.Quote(s))
		}
		return "[" + strings.Join(q, ", ") + "]"
	}
	for i, k := range kinds {
		sort.SliceStable(k.fields, func(a, b int) bool { return k.fields[a].key < k.fields[b].key })
		sort.SliceStable(k.marsh, func(a, b int) bool { return k.marsh[a].key < k.marsh[b].key })
		sort.Strings(k.dels)
		fs := []string{}
		for _, f := range k.fields {
			fs = append(fs, fmt.Sprintf("⟨%q, %q, .%s, %s⟩", f.key, f.goName, f.tc, f.shape))
		}
		mm := []string{}
		for _, m := range k.marsh {
			mm = append(mm, fmt.Sprintf("⟨%q, %q, %s⟩", m.key, m.goName, m.guard))
		}
		vk := k.valueKind
		if vk == "" {
			vk = ".leaf"
		}
		if k.template == "alias" {
			vk = fmt.Sprintf("(.kind %q)", k.valueKind)
		}
		if k.template == "special" {
			vk = ".leaf"
		}
		sep := ","
		if i == len(kinds)-1 {
			sep = ""
		}
		fmt.Fprintf(&b, "  { name := %q, template := .%s, fields := [%s],\n    marsh := [%s],\n    dels := %s, valueShape := %s,\n"+
			"    extCopy := %s, refEarly := %s, unmExt := %s, assignBack := %s, delegates := %s, hasMarsh := %s, hasUnm := %s, uniform := %s, valueNilSafe := %s,\n    post := %s, unrecognised := %s }%s\n",
			k.pkg+"."+k.name, k.template, strings.Join(fs, ", "), strings.Join(mm, ", "), strs(k.dels), vk,
			lb(k.extCopy), lb(k.refEarly), lb(k.unmExt), lb(k.assignBack), lb(k.delegates), lb(k.hasMarsh), lb(k.hasUnm), lb(k.uniform), lb(k.nilSafe),
			strs(k.post), strs(k.unrec), sep)
	}
	b.WriteString("]\n\nend KinModel.Gen\n")
	return b.String(), nil
}
