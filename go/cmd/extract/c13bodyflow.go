package main

// Table C13BodyFlow: the control-flow skeleton of the five functions of openapi3filter/validate_request.go through
// which a request passes (ValidateRequest, ValidateParameter, ValidateRequestBody, ValidateSecurityRequirements,
// validateSecurityRequirement), reduced to what matters for the request body stream: where the body is read, where
// it is put back, where a user callback may consume it, where a function returns — with the branching structure
// (if/else, switch, loops, continue/break) kept, so that "every return is protected" is decided in Lean over ALL
// paths of the skeleton (KinModel/C13Flow.lean), not by this translator.
//
// Rule (syntactic, go/ast only). Statements of a function body are translated in order:
//   * `data, err = io.ReadAll(X.Body)` followed by `if err != nil {…}` (or as the init of that `if`)   → .read line [on-error statements]
//   * the three statements "Put the data back into the input" — exactly, up to the receiver X —
//         X.Body = nil
//         if X.GetBody != nil { if X.Body, err = X.GetBody(); err != nil { X.Body = nil } }
//         if X.Body == nil { X.ContentLength = int64(len(data)); X.GetBody = func() (io.ReadCloser, error) {
//             return io.NopCloser(bytes.NewReader(data)), nil }; X.Body, _ = X.GetBody() }                   → .restore line
//   * the four statements of the default rewrite — exactly —
//         if X.Body != nil { X.Body.Close() }; X.ContentLength = int64(len(encoded));
//         X.GetBody = func() (io.ReadCloser, error) { return io.NopCloser(bytes.NewReader(encoded)), nil };
//         X.Body, _ = X.GetBody()                                                                        → .install line
//   * `defer func() { [var err error;] <the restore statements> }()`                                    → .deferRestore line
//   * `defer X.Body.Close()`                                                                             → .deferClose line
//   * a call of a local function value with an `&AuthenticationInput{…}` argument                        → .callback line
//   * a call of another function of the table                                                            → .call name line
//   * return / continue / break (unlabelled, not directly inside a switch)                               → .ret / .cont / .brk
//   * if / else (the conditions `data != nil` and `X.Body != http.NoBody && X.Body != nil` are kept: .ifData, .ifBody;
//     an `if` whose block reads the body under any OTHER condition is `unrecognised`: the guard of a read is part of the table),
//     switch (a chain of .ifElse), for / range (.loop)
//   * every other statement or expression contributes the events of the calls inside it (function literals are
//     not entered: they are not executed there) and nothing else.
// Anything that could touch the body stream and is not one of the shapes above becomes `.unrecognised "<file:line>"`:
// an assignment to or a method call on X.Body / X.GetBody / X.ContentLength, an `io.ReadAll(….Body)` elsewhere, a
// call of an unknown local function value, a call of a package-level function outside the table whose own body
// (or that of a package-level function it calls by name) mentions Request.Body / req.Body / GetBody, labels, goto,
// select, go statements, defer of anything else.

import (
	"bytes"
	"fmt"
	"go/ast"
	"go/parser"
	"go/printer"
	"go/token"
	"os"
	"path/filepath"
	"regexp"
	"sort"
	"strings"
)

func init() { register("C13BodyFlow", extractC13BodyFlow) }

var c13FlowFuncs = []string{"ValidateRequest", "ValidateParameter", "ValidateRequestBody", "ValidateSecurityRequirements", "validateSecurityRequirement"}

const c13RestoreCanon = `R.Body = nil
if R.GetBody != nil {
	if R.Body, err = R.GetBody(); err != nil {
		R.Body = nil
	}
}
if R.Body == nil {
	R.ContentLength = int64(len(data))
	R.GetBody = func() (io.ReadCloser, error) {
		return io.NopCloser(bytes.NewReader(data)), nil
	}
	R.Body, _ = R.GetBody()
}`

const c13InstallCanon = `if R.Body != nil {
	R.Body.Close()
}
R.ContentLength = int64(len(encoded))
R.GetBody = func() (io.ReadCloser, error) {
	return io.NopCloser(bytes.NewReader(encoded)), nil
}
R.Body, _ = R.GetBody()`

var c13ws = regexp.MustCompile(`\s+`)

// "the request has a body": X.Body != http.NoBody && X.Body != nil (optionally guarded by X != nil)
var c13BodyPresent = regexp.MustCompile(`^(?:([A-Za-z_.]+) != nil && )?([A-Za-z_.]+)\.Body != http\.NoBody && ([A-Za-z_.]+)\.Body != nil$`)

type c13flow struct {
	fset     *token.FileSet
	pkgFuncs map[string]*ast.FuncDecl // package-level functions (no receiver) of openapi3filter
	touchers map[string]bool          // those that may touch a request body stream
	table    map[string]bool
	builtins map[string]bool
	file     string
}

func (c *c13flow) text(n ast.Node) string {
	var b bytes.Buffer
	_ = printer.Fprint(&b, c.fset, n)
	return b.String()
}

func (c *c13flow) norm(s string) string { return strings.TrimSpace(c13ws.ReplaceAllString(s, " ")) }

func (c *c13flow) line(p token.Pos) int { return c.fset.Position(p).Line }

func (c *c13flow) unrec(p token.Pos) string {
	return fmt.Sprintf(".unrecognised %q", fmt.Sprintf("%s:%d", c.file, c.line(p)))
}

// receiver X of `X.Body = nil`
func (c *c13flow) bodyNilReceiver(s ast.Stmt) (string, bool) {
	as, ok := s.(*ast.AssignStmt)
	if !ok || as.Tok != token.ASSIGN || len(as.Lhs) != 1 || len(as.Rhs) != 1 {
		return "", false
	}
	sel, ok := as.Lhs[0].(*ast.SelectorExpr)
	if !ok || sel.Sel.Name != "Body" {
		return "", false
	}
	if id, ok := as.Rhs[0].(*ast.Ident); !ok || id.Name != "nil" {
		return "", false
	}
	return c.text(sel.X), true
}

func (c *c13flow) canonOf(stmts []ast.Stmt, recv string) string {
	parts := []string{}
	for _, s := range stmts {
		parts = append(parts, c.text(s))
	}
	t := strings.Join(parts, "\n")
	t = strings.ReplaceAll(t, recv+".", "R.")
	return c.norm(t)
}

func (c *c13flow) matchRestore(list []ast.Stmt) bool {
	if len(list) < 3 {
		return false
	}
	recv, ok := c.bodyNilReceiver(list[0])
	if !ok {
		return false
	}
	return c.canonOf(list[:3], recv) == c.norm(c13RestoreCanon)
}

func (c *c13flow) matchInstall(list []ast.Stmt) bool {
	if len(list) < 4 {
		return false
	}
	ifs, ok := list[0].(*ast.IfStmt)
	if !ok || ifs.Init != nil || ifs.Else != nil {
		return false
	}
	be, ok := ifs.Cond.(*ast.BinaryExpr)
	if !ok || be.Op != token.NEQ {
		return false
	}
	sel, ok := be.X.(*ast.SelectorExpr)
	if !ok || sel.Sel.Name != "Body" {
		return false
	}
	return c.canonOf(list[:4], c.text(sel.X)) == c.norm(c13InstallCanon)
}

// `data, err = io.ReadAll(X.Body)`
func (c *c13flow) isReadAssign(s ast.Stmt) bool {
	as, ok := s.(*ast.AssignStmt)
	if !ok || len(as.Lhs) != 2 || len(as.Rhs) != 1 {
		return false
	}
	d, ok1 := as.Lhs[0].(*ast.Ident)
	e, ok2 := as.Lhs[1].(*ast.Ident)
	if !ok1 || !ok2 || d.Name != "data" || e.Name != "err" {
		return false
	}
	call, ok := as.Rhs[0].(*ast.CallExpr)
	return ok && c.isReadAllBody(call)
}

func (c *c13flow) isReadAllBody(call *ast.CallExpr) bool {
	sel, ok := call.Fun.(*ast.SelectorExpr)
	if !ok || sel.Sel.Name != "ReadAll" || len(call.Args) != 1 {
		return false
	}
	if p, ok := sel.X.(*ast.Ident); !ok || p.Name != "io" {
		return false
	}
	a, ok := call.Args[0].(*ast.SelectorExpr)
	return ok && a.Sel.Name == "Body"
}

func (c *c13flow) isErrNotNil(e ast.Expr) bool { return c.norm(c.text(e)) == "err != nil" }

func isStreamField(name string) bool { return name == "Body" || name == "GetBody" || name == "ContentLength" }

// events of the calls inside an expression or simple statement (function literals are not entered)
func (c *c13flow) events(n ast.Node) []string {
	if n == nil {
		return nil
	}
	var out []string
	var walk func(n ast.Node)
	walk = func(n ast.Node) {
		if n == nil {
			return
		}
		switch x := n.(type) {
		case *ast.FuncLit:
			return
		case *ast.CallExpr:
			for _, a := range x.Args {
				walk(a)
			}
			walk(x.Fun)
			out = append(out, c.callEvent(x)...)
			return
		}
		// generic descent, children in source order
		var kids []ast.Node
		ast.Inspect(n, func(k ast.Node) bool {
			if k == nil || k == n {
				return k == n
			}
			kids = append(kids, k)
			return false
		})
		for _, k := range kids {
			walk(k)
		}
	}
	walk(n)
	return out
}

func (c *c13flow) callEvent(call *ast.CallExpr) []string {
	if c.isReadAllBody(call) {
		return []string{c.unrec(call.Pos())} // a read that is not paired with its error check
	}
	switch f := call.Fun.(type) {
	case *ast.Ident:
		if c.table[f.Name] {
			return []string{fmt.Sprintf(".call %q %d", f.Name, c.line(call.Pos()))}
		}
		if c.builtins[f.Name] {
			return nil
		}
		if _, isPkg := c.pkgFuncs[f.Name]; isPkg {
			if c.touchers[f.Name] {
				return []string{c.unrec(call.Pos())}
			}
			return nil
		}
		// a local function value
		for _, a := range call.Args {
			if u, ok := a.(*ast.UnaryExpr); ok && u.Op == token.AND {
				if cl, ok := u.X.(*ast.CompositeLit); ok {
					if id, ok := cl.Type.(*ast.Ident); ok && id.Name == "AuthenticationInput" {
						return []string{fmt.Sprintf(".callback %d", c.line(call.Pos()))}
					}
				}
			}
		}
		return []string{c.unrec(call.Pos())}
	case *ast.SelectorExpr:
		// a method call on X.Body / X.GetBody(): only inside the recognised blocks
		if f.Sel.Name == "GetBody" {
			return []string{c.unrec(call.Pos())}
		}
		if inner, ok := f.X.(*ast.SelectorExpr); ok && isStreamField(inner.Sel.Name) {
			return []string{c.unrec(call.Pos())}
		}
	}
	return nil
}

func (c *c13flow) assignsStreamField(s ast.Stmt) bool {
	as, ok := s.(*ast.AssignStmt)
	if !ok {
		return false
	}
	for _, l := range as.Lhs {
		if sel, ok := l.(*ast.SelectorExpr); ok && isStreamField(sel.Sel.Name) {
			t := c.text(sel.X)
			if t == "req" || strings.HasSuffix(t, "Request") {
				return true
			}
		}
	}
	return false
}

// a statement list that reads the body itself (not inside a nested block)
func (c *c13flow) readsDirectly(list []ast.Stmt) bool {
	for _, s := range list {
		if c.isReadAssign(s) {
			return true
		}
		if ifs, ok := s.(*ast.IfStmt); ok && ifs.Init != nil && c.isReadAssign(ifs.Init) {
			return true
		}
	}
	return false
}

func lst(items []string) string { return "[" + strings.Join(items, ", ") + "]" }

func (c *c13flow) stmts(list []ast.Stmt, inSwitch bool) []string {
	var out []string
	for i := 0; i < len(list); {
		s := list[i]
		switch {
		case c.matchRestore(list[i:]):
			out = append(out, fmt.Sprintf(".restore %d", c.line(s.Pos())))
			i += 3
			continue
		case c.matchInstall(list[i:]):
			out = append(out, fmt.Sprintf(".install %d", c.line(s.Pos())))
			i += 4
			continue
		case c.isReadAssign(s):
			// the error check must follow immediately
			if i+1 < len(list) {
				if ifs, ok := list[i+1].(*ast.IfStmt); ok && ifs.Init == nil && ifs.Else == nil && c.isErrNotNil(ifs.Cond) {
					out = append(out, fmt.Sprintf(".read %d %s", c.line(s.Pos()), lst(c.stmts(ifs.Body.List, false))))
					i += 2
					continue
				}
			}
			out = append(out, c.unrec(s.Pos()))
			i++
			continue
		}
		out = append(out, c.stmt(s, inSwitch)...)
		i++
	}
	return out
}

func (c *c13flow) stmt(s ast.Stmt, inSwitch bool) []string {
	switch x := s.(type) {
	case nil:
		return nil
	case *ast.BlockStmt:
		return c.stmts(x.List, inSwitch)
	case *ast.ReturnStmt:
		var out []string
		for _, r := range x.Results {
			out = append(out, c.events(r)...)
		}
		return append(out, fmt.Sprintf(".ret %d", c.line(x.Pos())))
	case *ast.BranchStmt:
		if x.Label != nil || inSwitch {
			return []string{c.unrec(x.Pos())}
		}
		switch x.Tok {
		case token.CONTINUE:
			return []string{fmt.Sprintf(".cont %d", c.line(x.Pos()))}
		case token.BREAK:
			return []string{fmt.Sprintf(".brk %d", c.line(x.Pos()))}
		}
		return []string{c.unrec(x.Pos())}
	case *ast.IfStmt:
		var out []string
		if x.Init != nil && c.isReadAssign(x.Init) && c.isErrNotNil(x.Cond) && x.Else == nil {
			return []string{fmt.Sprintf(".read %d %s", c.line(x.Pos()), lst(c.stmts(x.Body.List, false)))}
		}
		out = append(out, c.stmt(x.Init, inSwitch)...)
		out = append(out, c.events(x.Cond)...)
		var els []string
		switch e := x.Else.(type) {
		case *ast.BlockStmt:
			els = c.stmts(e.List, inSwitch)
		case *ast.IfStmt:
			els = c.stmt(e, inSwitch)
		}
		kind := ".ifElse"
		if ct := c.norm(c.text(x.Cond)); ct == "data != nil" {
			kind = ".ifData"
		} else if c13BodyPresent.MatchString(ct) {
			kind = ".ifBody"
		} else if c.readsDirectly(x.Body.List) {
			// the guard of a read must be exactly "the request has a body": anything else (a further conjunct, a test of
			// ContentLength, …) decides differently which bodies are read at all
			return append(out, c.unrec(x.Pos()))
		}
		return append(out, fmt.Sprintf("%s %d %s %s", kind, c.line(x.Pos()), lst(c.stmts(x.Body.List, inSwitch)), lst(els)))
	case *ast.ForStmt:
		var out []string
		out = append(out, c.stmt(x.Init, false)...)
		out = append(out, c.events(x.Cond)...)
		body := c.stmts(x.Body.List, false)
		body = append(body, c.stmt(x.Post, false)...)
		return append(out, fmt.Sprintf(".loop %d %s", c.line(x.Pos()), lst(body)))
	case *ast.RangeStmt:
		out := c.events(x.X)
		return append(out, fmt.Sprintf(".loop %d %s", c.line(x.Pos()), lst(c.stmts(x.Body.List, false))))
	case *ast.SwitchStmt:
		var out []string
		out = append(out, c.stmt(x.Init, inSwitch)...)
		out = append(out, c.events(x.Tag)...)
		return append(out, c.clauses(x.Body.List)...)
	case *ast.TypeSwitchStmt:
		var out []string
		out = append(out, c.stmt(x.Init, inSwitch)...)
		out = append(out, c.stmt(x.Assign, inSwitch)...)
		return append(out, c.clauses(x.Body.List)...)
	case *ast.DeferStmt:
		call := x.Call
		if sel, ok := call.Fun.(*ast.SelectorExpr); ok && sel.Sel.Name == "Close" && len(call.Args) == 0 {
			if inner, ok := sel.X.(*ast.SelectorExpr); ok && inner.Sel.Name == "Body" {
				return []string{fmt.Sprintf(".deferClose %d", c.line(x.Pos()))}
			}
		}
		if fl, ok := call.Fun.(*ast.FuncLit); ok && len(call.Args) == 0 {
			body := fl.Body.List
			if len(body) > 0 {
				if ds, ok := body[0].(*ast.DeclStmt); ok && c.norm(c.text(ds)) == "var err error" {
					body = body[1:]
				}
			}
			if len(body) == 3 && c.matchRestore(body) {
				return []string{fmt.Sprintf(".deferRestore %d", c.line(x.Pos()))}
			}
		}
		return []string{c.unrec(x.Pos())}
	case *ast.AssignStmt:
		if c.assignsStreamField(x) {
			return []string{c.unrec(x.Pos())}
		}
		var out []string
		for _, r := range x.Rhs {
			out = append(out, c.events(r)...)
		}
		for _, l := range x.Lhs {
			out = append(out, c.events(l)...)
		}
		return out
	case *ast.ExprStmt:
		return c.events(x.X)
	case *ast.DeclStmt:
		return c.events(x.Decl)
	case *ast.IncDecStmt:
		return c.events(x.X)
	case *ast.EmptyStmt:
		return nil
	}
	return []string{c.unrec(s.Pos())}
}

// the clauses of a switch as a chain of if / else
func (c *c13flow) clauses(list []ast.Stmt) []string {
	type cl struct {
		isDefault bool
		pre, body []string
		line      int
	}
	var cls []cl
	for _, s := range list {
		cc, ok := s.(*ast.CaseClause)
		if !ok {
			return []string{c.unrec(s.Pos())}
		}
		var pre []string
		for _, e := range cc.List {
			pre = append(pre, c.events(e)...)
		}
		cls = append(cls, cl{isDefault: cc.List == nil, pre: pre, body: c.stmts(cc.Body, true), line: c.line(cc.Pos())})
	}
	// the default clause (if any) is the final else
	var tail []string
	for _, k := range cls {
		if k.isDefault {
			tail = k.body
		}
	}
	for i := len(cls) - 1; i >= 0; i-- {
		k := cls[i]
		if k.isDefault {
			continue
		}
		tail = append(append([]string{}, k.pre...), fmt.Sprintf(".ifElse %d %s %s", k.line, lst(k.body), lst(tail)))
	}
	return tail
}

func extractC13BodyFlow(repo string) (string, error) {
	dir := filepath.Join(repo, "openapi3filter")
	ents, err := os.ReadDir(dir)
	if err != nil {
		return "", err
	}
	var files []string
	for _, e := range ents {
		n := e.Name()
		if strings.HasSuffix(n, ".go") && !strings.HasSuffix(n, "_test.go") {
			files = append(files, n)
		}
	}
	sort.Strings(files)
	c := &c13flow{fset: token.NewFileSet(), pkgFuncs: map[string]*ast.FuncDecl{}, touchers: map[string]bool{}, table: map[string]bool{},
		builtins: map[string]bool{}, file: "openapi3filter/validate_request.go"}
	for _, n := range c13FlowFuncs {
		c.table[n] = true
	}
	for _, b := range []string{"len", "cap", "make", "new", "append", "copy", "delete", "panic", "recover", "print", "println", "min", "max", "clear",
		"int", "int8", "int16", "int32", "int64", "uint", "uint8", "uint16", "uint32", "uint64", "float32", "float64", "string", "bool", "byte", "rune", "error", "any"} {
		c.builtins[b] = true
	}
	var target *ast.File
	for _, fn := range files {
		f, err := parser.ParseFile(c.fset, filepath.Join(dir, fn), nil, 0)
		if err != nil {
			return "", err
		}
		if fn == "validate_request.go" {
			target = f
		}
		for _, d := range f.Decls {
			if fd, ok := d.(*ast.FuncDecl); ok && fd.Recv == nil && fd.Body != nil {
				c.pkgFuncs[fd.Name.Name] = fd
			}
		}
		// named function types / type conversions used as calls count as harmless
		for _, d := range f.Decls {
			if gd, ok := d.(*ast.GenDecl); ok && gd.Tok == token.TYPE {
				for _, sp := range gd.Specs {
					c.builtins[sp.(*ast.TypeSpec).Name.Name] = true
				}
			}
		}
	}
	// package-level functions that may touch a request body stream: direct mention, then closure over calls by name
	mentions := func(fd *ast.FuncDecl) bool {
		found := false
		ast.Inspect(fd.Body, func(n ast.Node) bool {
			if sel, ok := n.(*ast.SelectorExpr); ok && (sel.Sel.Name == "Body" || sel.Sel.Name == "GetBody") {
				t := c.text(sel.X)
				if t == "req" || t == "r" || t == "request" || strings.HasSuffix(t, "Request") {
					found = true
				}
			}
			return !found
		})
		return found
	}
	for n, fd := range c.pkgFuncs {
		if mentions(fd) {
			c.touchers[n] = true
		}
	}
	for changed := true; changed; {
		changed = false
		for n, fd := range c.pkgFuncs {
			if c.touchers[n] {
				continue
			}
			ast.Inspect(fd.Body, func(x ast.Node) bool {
				if call, ok := x.(*ast.CallExpr); ok {
					if id, ok := call.Fun.(*ast.Ident); ok && c.touchers[id.Name] {
						c.touchers[n] = true
						changed = true
					}
				}
				return true
			})
		}
	}
	var b strings.Builder
	b.WriteString("/- GENERATED by go/cmd/extract (table C13BodyFlow) from openapi3filter/validate_request.go — do not edit. -/\n")
	b.WriteString("namespace KinModel.Gen\n\n")
	b.WriteString(`inductive FlowStmt
  | read (line : Nat) (onError : List FlowStmt)
  | restore (line : Nat)
  | install (line : Nat)
  | callback (line : Nat)
  | deferRestore (line : Nat)
  | deferClose (line : Nat)
  | call (fn : String) (line : Nat)
  | ret (line : Nat)
  | cont (line : Nat)
  | brk (line : Nat)
  | ifElse (line : Nat) (thn els : List FlowStmt)
  | ifData (line : Nat) (thn els : List FlowStmt)
  | ifBody (line : Nat) (thn els : List FlowStmt)
  | loop (line : Nat) (body : List FlowStmt)
  | unrecognised (site : String)
  deriving Repr

`)
	b.WriteString("def c13BodyFlow : List (String × List FlowStmt) := [\n")
	rows := 0
	if target == nil {
		b.WriteString("  (\"?\", [.unrecognised \"openapi3filter/validate_request.go not found\"])\n")
		rows = 1
	} else {
		found := map[string]*ast.FuncDecl{}
		for _, d := range target.Decls {
			if fd, ok := d.(*ast.FuncDecl); ok && fd.Recv == nil && fd.Body != nil && c.table[fd.Name.Name] {
				found[fd.Name.Name] = fd
			}
		}
		for i, n := range c13FlowFuncs {
			sep := ","
			if i == len(c13FlowFuncs)-1 {
				sep = ""
			}
			fd := found[n]
			if fd == nil {
				fmt.Fprintf(&b, "  (%q, [.unrecognised %q])%s\n", n, "openapi3filter/validate_request.go: func "+n+" not found", sep)
				rows++
				continue
			}
			items := c.stmts(fd.Body.List, false)
			fmt.Fprintf(&b, "  (%q, [\n    %s])%s\n", n, strings.Join(items, ",\n    "), sep)
			rows++
		}
	}
	b.WriteString("]\n")
	fmt.Fprintf(&b, "-- rows: %d\n\nend KinModel.Gen\n", rows)
	return b.String(), nil
}
