package main

// Table `GenFlow` (C18): the statement skeleton of the functions of openapi3gen that the model `KinModel/Gen3.lean`
// transcribes by hand outside the kind switch's keyword assignments (which table `GenKinds` reads):
//
//   NewSchemaRefForValue, NewGenerator, Generator.GenerateSchemaRef, Generator.NewSchemaRefForValue (the export loop),
//   Generator.generateSchemaRefFor, getStructField, Generator.generateWithoutSaving, Generator.generateTypeName,
//   Generator.generateCycleSchemaRef (openapi3gen.go).
//
// One row per statement, in source order: (function, head) where head is
//   `if <init;> <cond>` / `else` / `switch <tag>` / `case <exprs>` / `default` / `for <cond>` / `range <k, v := x>` /
//   `return <results>` / the printed text of an assignment, expression statement, declaration or branch statement.
// Expressions are printed by go/printer (comments dropped, white space collapsed), so the table is insensitive to
// layout and comments and sensitive to every condition, every order of checks, every name a reference is built from.
// A statement kind the walker does not know becomes an entry of `genFlowUnrecognised`.

import (
	"bytes"
	"fmt"
	"go/ast"
	"go/parser"
	"go/printer"
	"go/token"
	"path/filepath"
	"strconv"
	"strings"
)

func init() { register("GenFlow", extractGenFlow) }

var c18FlowOrder = []string{"NewSchemaRefForValue", "NewGenerator", "Generator.GenerateSchemaRef", "Generator.NewSchemaRefForValue",
	"Generator.generateSchemaRefFor", "getStructField", "Generator.generateWithoutSaving", "Generator.generateTypeName",
	"Generator.generateCycleSchemaRef"}

var c18FlowFuncs = map[string]bool{
	"NewSchemaRefForValue": true, "NewGenerator": true, "Generator.GenerateSchemaRef": true,
	"Generator.NewSchemaRefForValue": true, "Generator.generateSchemaRefFor": true,
	"Generator.generateWithoutSaving": true, "Generator.generateTypeName": true,
	"Generator.generateCycleSchemaRef": true, "getStructField": true,
}

func extractGenFlow(repo string) (string, error) {
	fset := token.NewFileSet()
	file := filepath.Join(repo, "openapi3gen", "openapi3gen.go")
	f, err := parser.ParseFile(fset, file, nil, 0)
	if err != nil {
		return "", err
	}
	type row struct{ fn, head string }
	var rows []row
	var unrec []string
	text := func(n ast.Node) string {
		if n == nil {
			return ""
		}
		var b bytes.Buffer
		if err := printer.Fprint(&b, token.NewFileSet(), n); err != nil {
			unrec = append(unrec, fmt.Sprintf("print: %v", err))
		}
		return strings.Join(strings.Fields(b.String()), " ")
	}
	texts := func(es []ast.Expr) string {
		var xs []string
		for _, e := range es {
			xs = append(xs, text(e))
		}
		return strings.Join(xs, ", ")
	}
	pos := func(n ast.Node) string {
		p := fset.Position(n.Pos())
		return fmt.Sprintf("openapi3gen.go:%d", p.Line)
	}
	var walk func(fn string, s ast.Stmt)
	block := func(fn string, b *ast.BlockStmt) {
		if b == nil {
			return
		}
		for _, s := range b.List {
			walk(fn, s)
		}
	}
	walk = func(fn string, s ast.Stmt) {
		emit := func(h string) { rows = append(rows, row{fn, h}) }
		switch x := s.(type) {
		case *ast.BlockStmt:
			block(fn, x)
		case *ast.IfStmt:
			h := "if "
			if x.Init != nil {
				h += text(x.Init) + "; "
			}
			emit(h + text(x.Cond))
			block(fn, x.Body)
			if x.Else != nil {
				emit("else")
				walk(fn, x.Else)
			}
			emit("end")
		case *ast.SwitchStmt:
			h := "switch "
			if x.Init != nil {
				h += text(x.Init) + "; "
			}
			emit(h + text(x.Tag))
			for _, c := range x.Body.List {
				cc := c.(*ast.CaseClause)
				if cc.List == nil {
					emit("default")
				} else {
					emit("case " + texts(cc.List))
				}
				for _, st := range cc.Body {
					walk(fn, st)
				}
			}
			emit("end")
		case *ast.ForStmt:
			emit("for " + text(x.Init) + "; " + text(x.Cond) + "; " + text(x.Post))
			block(fn, x.Body)
			emit("end")
		case *ast.RangeStmt:
			h := "range "
			if x.Key != nil {
				h += text(x.Key)
				if x.Value != nil {
					h += ", " + text(x.Value)
				}
				h += " " + x.Tok.String() + " "
			}
			emit(h + text(x.X))
			block(fn, x.Body)
			emit("end")
		case *ast.ReturnStmt:
			emit(strings.TrimSpace("return " + texts(x.Results)))
		case *ast.AssignStmt, *ast.ExprStmt, *ast.IncDecStmt, *ast.DeclStmt, *ast.BranchStmt:
			emit(text(x))
		default:
			unrec = append(unrec, pos(s))
		}
	}
	found := map[string]bool{}
	for _, d := range f.Decls {
		fd, ok := d.(*ast.FuncDecl)
		if !ok || fd.Body == nil {
			continue
		}
		name := fd.Name.Name
		if fd.Recv != nil && len(fd.Recv.List) == 1 { // method: `Recv.name` (pointer receivers without the star)
			name = strings.TrimPrefix(text(fd.Recv.List[0].Type), "*") + "." + name
		}
		if !c18FlowFuncs[name] {
			continue
		}
		if found[name] {
			unrec = append(unrec, "declared twice: "+name)
		}
		found[name] = true
		rows = append(rows, row{name, "func " + text(fd.Type)})
		block(name, fd.Body)
	}
	for n := range c18FlowFuncs {
		if !found[n] {
			unrec = append(unrec, "function not found: "+n)
		}
	}
	var b strings.Builder
	b.WriteString("-- GENERATED by go/cmd/extract (table GenFlow) from the repository under test. Do not edit.\n")
	fmt.Fprintf(&b, "-- rows: %d\n", len(rows))
	b.WriteString("namespace KinModel.Gen\n\n")
	// one definition per function (in the fixed order below; empty when the function is missing), and their concatenation
	var defs []string
	for _, fn := range c18FlowOrder {
		def := "genFlow_" + strings.ReplaceAll(fn, ".", "_")
		defs = append(defs, def)
		fmt.Fprintf(&b, "/-- %s: (function, statement head), in source order -/\ndef %s : List (String × String) := [\n", fn, def)
		first := true
		for _, r := range rows {
			if r.fn != fn {
				continue
			}
			if !first {
				b.WriteString(",\n")
			}
			first = false
			fmt.Fprintf(&b, "  (%s, %s)", strconv.Quote(r.fn), strconv.Quote(r.head))
		}
		b.WriteString("\n]\n\n")
	}
	b.WriteString("/-- statement skeleton of the generator functions -/\ndef genFlow : List (String × String) :=\n  " + strings.Join(defs, " ++\n  ") + "\n\n")
	b.WriteString("/-- statements the walker could not read -/\ndef genFlowUnrecognised : List String := [")
	for i, x := range unrec {
		if i > 0 {
			b.WriteString(", ")
		}
		b.WriteString(strconv.Quote(x))
	}
	b.WriteString("]\n\nend KinModel.Gen\n")
	return b.String(), nil
}
