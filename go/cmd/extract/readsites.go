package main

// Table ReadSites (property C11): every call site, in package openapi3 (non-test files), of the functions through
// which the loader reaches the reader — readURL, loadFromURIInternal, loadSingleElementFromURI, resolveRefPath,
// resolveRef, resolveRefAndDocument, resolveComponent, resolvePathWithRef, allowsExternalRefs — plus every mention of
// Loader.ReadFromURIFunc / DefaultReadFromURI inside a function and every direct file/network primitive
// (os.ReadFile, os.Open, ioutil.ReadFile, http.Get).
//
// Per row: enclosing function, callee, the text of the location argument, whether that argument is a parameter of
// the enclosing function that is never assigned in it, the variable receiving the returned location, and the guards
// that dominate the call syntactically: the call must sit in the top-level statement list of the function body
// (as a statement, an assignment, a return value or the init of a top-level `if`); the guard string lists, in
// order, the preceding top-level statements of the three shapes
//   if err := loader.allowsExternalRefs(ref); err != nil { …return }         → "allowsExternalRefs"
//   if ref != "" && ref[0] == '#' { …return }                                 → "hash-return"
//   …, err := loader.resolveRef(…)  followed by  if err != nil { …return }    → "resolveRef"
// A call that is not at top level has guard "nested". A tracked name used other than as a callee is `unrecognised`.
//
// argAssigns: how many assignment statements of the enclosing function assign the identifier given as location
// argument (0 for a parameter that is never assigned; 1 for a variable set once).
//
// Rows with callee "return": every return statement of the functions that hand a location back
// (resolveRefAndDocument, resolveRef, resolveRefPath, loadSingleElementFromURI); arg = text of the location result;
// guard = the dominating guards for a top-level return, "in-hash-return" for a return inside the top-level
// `if ref != "" && ref[0] == '#'` block, "in-err" inside a top-level `if …err != nil` block, else "nested".

import (
	"bytes"
	"fmt"
	"go/ast"
	"go/parser"
	"go/printer"
	"go/token"
	"os"
	"path/filepath"
	"sort"
	"strings"
)

func init() { register("ReadSites", extractReadSites) }

type readSiteSpec struct{ argIdx, lhsIdx int }

var readSiteTracked = map[string]readSiteSpec{
	"readURL":                  {0, 0},
	"loadFromURIInternal":      {0, 0},
	"loadSingleElementFromURI": {1, 0},
	"resolveRefPath":           {1, 0},
	"resolveRef":               {1, 1},
	"resolveRefAndDocument":    {2, 2},
	"resolveComponent":         {2, 1},
	"resolvePathWithRef":       {1, 0},
	"allowsExternalRefs":       {0, 0},
	// the entry points: how the root location is built before it reaches loadFromURIInternal / ResolveRefsIn
	"LoadFromURI":                  {0, 0},
	"loadFromDataWithPathInternal": {1, 0},
	"ResolveRefsIn":                {1, 0},
}

var readSitePrimitives = map[string]bool{"os.ReadFile": true, "os.Open": true, "os.OpenFile": true, "ioutil.ReadFile": true, "http.Get": true, "http.Post": true}

type readSiteRow struct {
	fn, callee, guard, arg, lhs, pos string
	argIsParam                       bool
	argAssigns                       int
}

// index of the location among the results of the functions whose returns are recorded
var readSiteReturns = map[string]int{"resolveRefAndDocument": 2, "resolveRef": 1, "resolveRefPath": 0, "loadSingleElementFromURI": 0}

func read_exprText(fset *token.FileSet, e ast.Expr) string {
	var b bytes.Buffer
	printer.Fprint(&b, fset, e)
	return b.String()
}

func calleeName(c *ast.CallExpr) string {
	switch f := c.Fun.(type) {
	case *ast.SelectorExpr:
		if x, ok := f.X.(*ast.Ident); ok && (x.Name == "os" || x.Name == "ioutil" || x.Name == "http") {
			return x.Name + "." + f.Sel.Name
		}
		return f.Sel.Name
	case *ast.Ident:
		return f.Name
	}
	return ""
}

func endsWithReturn(b *ast.BlockStmt) bool {
	if b == nil || len(b.List) == 0 {
		return false
	}
	_, ok := b.List[len(b.List)-1].(*ast.ReturnStmt)
	return ok
}

func isErrNotNil(e ast.Expr) bool {
	b, ok := e.(*ast.BinaryExpr)
	if !ok || b.Op != token.NEQ {
		return false
	}
	x, ok1 := b.X.(*ast.Ident)
	y, ok2 := b.Y.(*ast.Ident)
	return ok1 && ok2 && x.Name == "err" && y.Name == "nil"
}

// containsHashTest: the condition mentions ref[0] == '#'
func containsHashTest(e ast.Expr) bool {
	found := false
	ast.Inspect(e, func(n ast.Node) bool {
		if b, ok := n.(*ast.BinaryExpr); ok && b.Op == token.EQL {
			if ix, ok := b.X.(*ast.IndexExpr); ok {
				if id, ok := ix.X.(*ast.Ident); ok && id.Name == "ref" {
					if lit, ok := b.Y.(*ast.BasicLit); ok && lit.Value == "'#'" {
						found = true
					}
				}
			}
		}
		return true
	})
	return found
}

// guardToken classifies a top-level statement (next is the statement after it, or nil).
func guardToken(s ast.Stmt, next ast.Stmt) string {
	switch st := s.(type) {
	case *ast.IfStmt:
		if st.Else != nil || !endsWithReturn(st.Body) {
			return ""
		}
		if st.Init == nil && containsHashTest(st.Cond) {
			// only the conjunction `ref != "" && ref[0] == '#'` counts
			if b, ok := st.Cond.(*ast.BinaryExpr); ok && b.Op == token.LAND {
				return "hash-return"
			}
			return ""
		}
		if as, ok := st.Init.(*ast.AssignStmt); ok && len(as.Rhs) == 1 && isErrNotNil(st.Cond) {
			if c, ok := as.Rhs[0].(*ast.CallExpr); ok && calleeName(c) == "allowsExternalRefs" {
				return "allowsExternalRefs"
			}
		}
	case *ast.AssignStmt:
		if len(st.Rhs) == 1 {
			if c, ok := st.Rhs[0].(*ast.CallExpr); ok && calleeName(c) == "resolveRef" {
				if nx, ok := next.(*ast.IfStmt); ok && nx.Init == nil && nx.Else == nil && isErrNotNil(nx.Cond) && endsWithReturn(nx.Body) {
					return "resolveRef"
				}
			}
		}
	}
	return ""
}

func extractReadSites(repo string) (string, error) {
	dir := filepath.Join(repo, "openapi3")
	ents, err := os.ReadDir(dir)
	if err != nil {
		return "", err
	}
	fset := token.NewFileSet()
	var rows []readSiteRow
	names := []string{}
	for _, e := range ents {
		if e.IsDir() || !strings.HasSuffix(e.Name(), ".go") || strings.HasSuffix(e.Name(), "_test.go") {
			continue
		}
		names = append(names, e.Name())
	}
	sort.Strings(names)
	for _, name := range names {
		file, err := parser.ParseFile(fset, filepath.Join(dir, name), nil, 0)
		if err != nil {
			return "", err
		}
		for _, decl := range file.Decls {
			fd, ok := decl.(*ast.FuncDecl)
			if !ok || fd.Body == nil {
				continue
			}
			params := map[string]bool{}
			if fd.Type.Params != nil {
				for _, f := range fd.Type.Params.List {
					for _, n := range f.Names {
						params[n.Name] = true
					}
				}
			}
			assigned := map[string]bool{}
			assignCount := map[string]int{}
			ast.Inspect(fd.Body, func(n ast.Node) bool {
				if as, ok := n.(*ast.AssignStmt); ok {
					for _, l := range as.Lhs {
						if id, ok := l.(*ast.Ident); ok {
							assigned[id.Name] = true
							assignCount[id.Name]++
						}
					}
				}
				return true
			})
			// top-level calls: call → (guards, lhs)
			type topInfo struct {
				guard string
				lhs   []ast.Expr
			}
			top := map[*ast.CallExpr]topInfo{}
			var guards []string
			for i, s := range fd.Body.List {
				var next ast.Stmt
				if i+1 < len(fd.Body.List) {
					next = fd.Body.List[i+1]
				}
				g := strings.Join(guards, ";")
				reg := func(e ast.Expr, lhs []ast.Expr) {
					if c, ok := e.(*ast.CallExpr); ok {
						top[c] = topInfo{g, lhs}
					}
				}
				switch st := s.(type) {
				case *ast.ExprStmt:
					reg(st.X, nil)
				case *ast.AssignStmt:
					if len(st.Rhs) == 1 {
						reg(st.Rhs[0], st.Lhs)
					}
				case *ast.ReturnStmt:
					for _, r := range st.Results {
						reg(r, nil)
					}
				case *ast.IfStmt:
					if as, ok := st.Init.(*ast.AssignStmt); ok && len(as.Rhs) == 1 {
						reg(as.Rhs[0], as.Lhs)
					}
				}
				if t := guardToken(s, next); t != "" {
					guards = append(guards, t)
				}
			}
			// lhs of nested assignments
			nestedLhs := map[*ast.CallExpr][]ast.Expr{}
			ast.Inspect(fd.Body, func(n ast.Node) bool {
				if as, ok := n.(*ast.AssignStmt); ok && len(as.Rhs) == 1 {
					if c, ok := as.Rhs[0].(*ast.CallExpr); ok {
						nestedLhs[c] = as.Lhs
					}
				}
				return true
			})
			callFuns := map[ast.Expr]bool{}
			ast.Inspect(fd.Body, func(n ast.Node) bool {
				c, ok := n.(*ast.CallExpr)
				if !ok {
					return true
				}
				callFuns[c.Fun] = true
				cn := calleeName(c)
				pos := fmt.Sprintf("%s:%d", name, fset.Position(c.Pos()).Line)
				if readSitePrimitives[cn] {
					rows = append(rows, readSiteRow{fn: fd.Name.Name, callee: cn, guard: "nested", pos: pos})
					return true
				}
				spec, ok := readSiteTracked[cn]
				if !ok {
					return true
				}
				row := readSiteRow{fn: fd.Name.Name, callee: cn, guard: "nested", pos: pos}
				if spec.argIdx < len(c.Args) {
					row.arg = read_exprText(fset, c.Args[spec.argIdx])
					if id, ok := c.Args[spec.argIdx].(*ast.Ident); ok {
						row.argAssigns = assignCount[id.Name]
						if params[id.Name] && !assigned[id.Name] {
							row.argIsParam = true
						}
					}
				} else {
					row.callee = "unrecognised"
				}
				lhs := nestedLhs[c]
				if ti, ok := top[c]; ok {
					row.guard = ti.guard
					if ti.lhs != nil {
						lhs = ti.lhs
					}
				}
				if spec.lhsIdx < len(lhs) {
					row.lhs = read_exprText(fset, lhs[spec.lhsIdx])
				}
				rows = append(rows, row)
				return true
			})
			// return statements of the functions that hand a location back
			if locIdx, ok := readSiteReturns[fd.Name.Name]; ok {
				var guardsSoFar []string
				for i, st := range fd.Body.List {
					var next ast.Stmt
					if i+1 < len(fd.Body.List) {
						next = fd.Body.List[i+1]
					}
					ctx := "nested"
					if rs, ok := st.(*ast.ReturnStmt); ok {
						_ = rs
						ctx = strings.Join(guardsSoFar, ";")
					} else if ifs, ok := st.(*ast.IfStmt); ok && ifs.Else == nil {
						if ifs.Init == nil && containsHashTest(ifs.Cond) {
							if b, ok := ifs.Cond.(*ast.BinaryExpr); ok && b.Op == token.LAND {
								ctx = "in-hash-return"
							}
						} else if isErrNotNil(ifs.Cond) {
							ctx = "in-err"
						}
					}
					ast.Inspect(st, func(n ast.Node) bool {
						if _, isLit := n.(*ast.FuncLit); isLit {
							return false
						}
						rs, ok := n.(*ast.ReturnStmt)
						if !ok {
							return true
						}
						row := readSiteRow{fn: fd.Name.Name, callee: "return", guard: ctx, pos: fmt.Sprintf("%s:%d", name, fset.Position(rs.Pos()).Line)}
						if locIdx < len(rs.Results) {
							row.arg = read_exprText(fset, rs.Results[locIdx])
							if id, ok := rs.Results[locIdx].(*ast.Ident); ok {
								row.argAssigns = assignCount[id.Name]
								row.argIsParam = params[id.Name] && !assigned[id.Name]
							}
						} else {
							row.callee = "unrecognised"
						}
						rows = append(rows, row)
						return true
					})
					if t := guardToken(st, next); t != "" {
						guardsSoFar = append(guardsSoFar, t)
					}
				}
			}
			// mentions of the overridable reader / the default reader, and tracked names used as values
			ast.Inspect(fd.Body, func(n ast.Node) bool {
				switch x := n.(type) {
				case *ast.SelectorExpr:
					pos := fmt.Sprintf("%s:%d", name, fset.Position(x.Pos()).Line)
					if x.Sel.Name == "ReadFromURIFunc" {
						rows = append(rows, readSiteRow{fn: fd.Name.Name, callee: "ReadFromURIFunc", guard: "nested", pos: pos})
					} else if _, ok := readSiteTracked[x.Sel.Name]; ok && !callFuns[x] {
						rows = append(rows, readSiteRow{fn: fd.Name.Name, callee: "unrecognised", guard: "nested", arg: x.Sel.Name, pos: pos})
					}
				case *ast.Ident:
					if x.Name == "DefaultReadFromURI" {
						pos := fmt.Sprintf("%s:%d", name, fset.Position(x.Pos()).Line)
						rows = append(rows, readSiteRow{fn: fd.Name.Name, callee: "DefaultReadFromURI", guard: "nested", pos: pos})
					}
				}
				return true
			})
		}
	}
	var b strings.Builder
	b.WriteString("-- GENERATED by go/cmd/extract (table ReadSites) from openapi3/*.go — do not edit\n")
	b.WriteString("namespace KinModel.Gen\n\n")
	b.WriteString("structure ReadSite where\n  fn : String\n  callee : String\n  guard : String\n  arg : String\n  argIsParam : Bool\n  lhs : String\n  pos : String\n  argAssigns : Nat\n  deriving DecidableEq, Repr\n\n")
	fmt.Fprintf(&b, "-- rows: %d\n", len(rows))
	b.WriteString("def readSites : List ReadSite := [\n")
	for i, r := range rows {
		sep := ","
		if i == len(rows)-1 {
			sep = ""
		}
		fmt.Fprintf(&b, "  ⟨%q, %q, %q, %q, %v, %q, %q, %d⟩%s\n", r.fn, r.callee, r.guard, r.arg, r.argIsParam, r.lhs, r.pos, r.argAssigns, sep)
	}
	b.WriteString("]\n\nend KinModel.Gen\n")
	return b.String(), nil
}
