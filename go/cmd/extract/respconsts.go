package main

// Table RespConsts: the constants that decide which responses ValidateResponse skips and how
// Responses.Status forms the status-class key, as the source spells them.
// Rule (syntactic):
//   openapi3filter/validate_response.go, func ValidateResponse — every `switch` statement of the body (any depth) must be
//     `switch req.Method { case <string literals>: return nil }`            -> one `.skipMethod` row per literal, or
//     `switch status { case http.Status<Name>, ...: return nil }`           -> one `.skipStatus` row per name
//     (the numeric value comes from the net/http constants the extractor is compiled with);
//   openapi3/response.go, func (*Responses) Status — exactly one `if <int> < status && status < <int> { ... }`
//     -> `.classRange lo hi`; inside it exactly one `st = string(st[0]) + <string literal>` -> `.classSuffix`, and exactly
//     one `switch st { case <string literals>: return responses.Value(st) }` -> one `.classKey` row per literal.
// Anything else in those positions is an `unrecognised` row.

import (
	"fmt"
	"go/ast"
	"go/parser"
	"go/token"
	"net/http"
	"path/filepath"
	"strconv"
	"strings"
)

func init() { register("RespConsts", extractRespConsts) }

var respHTTPStatus = map[string]int{
	"StatusContinue": http.StatusContinue, "StatusSwitchingProtocols": http.StatusSwitchingProtocols,
	"StatusOK": http.StatusOK, "StatusCreated": http.StatusCreated, "StatusAccepted": http.StatusAccepted,
	"StatusNoContent": http.StatusNoContent, "StatusResetContent": http.StatusResetContent, "StatusPartialContent": http.StatusPartialContent,
	"StatusMultipleChoices": http.StatusMultipleChoices, "StatusMovedPermanently": http.StatusMovedPermanently,
	"StatusFound": http.StatusFound, "StatusSeeOther": http.StatusSeeOther, "StatusNotModified": http.StatusNotModified,
	"StatusUseProxy": http.StatusUseProxy, "StatusTemporaryRedirect": http.StatusTemporaryRedirect,
	"StatusPermanentRedirect": http.StatusPermanentRedirect,
	"StatusBadRequest":        http.StatusBadRequest, "StatusNotFound": http.StatusNotFound,
	"StatusInternalServerError": http.StatusInternalServerError,
}

func extractRespConsts(repo string) (string, error) {
	fset := token.NewFileSet()
	var rows []string
	unrec := func(file string, pos token.Pos, why string) {
		rows = append(rows, fmt.Sprintf(".unrecognised %q", fmt.Sprintf("%s:%d %s", file, fset.Position(pos).Line, why)))
	}
	returnsNil := func(body []ast.Stmt) bool {
		if len(body) != 1 {
			return false
		}
		r, ok := body[0].(*ast.ReturnStmt)
		if !ok || len(r.Results) != 1 {
			return false
		}
		id, ok := r.Results[0].(*ast.Ident)
		return ok && id.Name == "nil"
	}
	exprText := func(e ast.Expr) string {
		switch x := e.(type) {
		case *ast.Ident:
			return x.Name
		case *ast.SelectorExpr:
			if id, ok := x.X.(*ast.Ident); ok {
				return id.Name + "." + x.Sel.Name
			}
		}
		return "?"
	}
	strLit := func(e ast.Expr) (string, bool) {
		l, ok := e.(*ast.BasicLit)
		if !ok || l.Kind != token.STRING {
			return "", false
		}
		s, err := strconv.Unquote(l.Value)
		return s, err == nil
	}
	intLit := func(e ast.Expr) (int, bool) {
		l, ok := e.(*ast.BasicLit)
		if !ok || l.Kind != token.INT {
			return 0, false
		}
		n, err := strconv.Atoi(l.Value)
		return n, err == nil
	}

	// ---- ValidateResponse
	vrFile := "openapi3filter/validate_response.go"
	f, err := parser.ParseFile(fset, filepath.Join(repo, vrFile), nil, 0)
	if err != nil {
		return "", err
	}
	seenVR := false
	for _, d := range f.Decls {
		fd, ok := d.(*ast.FuncDecl)
		if !ok || fd.Name.Name != "ValidateResponse" || fd.Recv != nil || fd.Body == nil {
			continue
		}
		seenVR = true
		ast.Inspect(fd.Body, func(n ast.Node) bool {
			switch sw := n.(type) {
			case *ast.TypeSwitchStmt:
				unrec(vrFile, sw.Pos(), "type switch")
			case *ast.SwitchStmt:
				tag := "?"
				if sw.Tag != nil {
					tag = exprText(sw.Tag)
				}
				if sw.Init != nil || (tag != "req.Method" && tag != "status") {
					unrec(vrFile, sw.Pos(), "switch on "+tag)
					return true
				}
				for _, c := range sw.Body.List {
					cc := c.(*ast.CaseClause)
					if cc.List == nil || !returnsNil(cc.Body) {
						unrec(vrFile, cc.Pos(), "case of switch "+tag)
						continue
					}
					for _, e := range cc.List {
						if tag == "req.Method" {
							if s, ok := strLit(e); ok {
								rows = append(rows, fmt.Sprintf(".skipMethod %q", s))
							} else {
								unrec(vrFile, e.Pos(), "method case")
							}
						} else {
							name := exprText(e)
							if v, ok := respHTTPStatus[strings.TrimPrefix(name, "http.")]; ok && strings.HasPrefix(name, "http.") {
								rows = append(rows, fmt.Sprintf(".skipStatus %d", v))
							} else if v, ok := intLit(e); ok {
								rows = append(rows, fmt.Sprintf(".skipStatus %d", v))
							} else {
								unrec(vrFile, e.Pos(), "status case "+name)
							}
						}
					}
				}
			}
			return true
		})
	}
	if !seenVR {
		rows = append(rows, fmt.Sprintf(".unrecognised %q", vrFile+": func ValidateResponse not found"))
	}

	// ---- Responses.Status
	rsFile := "openapi3/response.go"
	g, err := parser.ParseFile(fset, filepath.Join(repo, rsFile), nil, 0)
	if err != nil {
		return "", err
	}
	seenSt := false
	for _, d := range g.Decls {
		fd, ok := d.(*ast.FuncDecl)
		if !ok || fd.Name.Name != "Status" || fd.Recv == nil || fd.Body == nil {
			continue
		}
		if st, ok := fd.Recv.List[0].Type.(*ast.StarExpr); !ok || exprText(st.X) != "Responses" {
			continue
		}
		seenSt = true
		ranges := 0
		for _, stt := range fd.Body.List {
			ifs, ok := stt.(*ast.IfStmt)
			if !ok {
				continue
			}
			be, ok := ifs.Cond.(*ast.BinaryExpr)
			if !ok || be.Op != token.LAND {
				continue // `if rref := ...; rref != nil` (the exact lookup) has another shape
			}
			l, ok1 := be.X.(*ast.BinaryExpr)
			r, ok2 := be.Y.(*ast.BinaryExpr)
			if !ok1 || !ok2 || l.Op != token.LSS || r.Op != token.LSS || exprText(l.Y) != "status" || exprText(r.X) != "status" || ifs.Else != nil {
				unrec(rsFile, ifs.Pos(), "range condition")
				continue
			}
			lo, okl := intLit(l.X)
			hi, okh := intLit(r.Y)
			if !okl || !okh {
				unrec(rsFile, ifs.Pos(), "range bounds")
				continue
			}
			ranges++
			rows = append(rows, fmt.Sprintf(".classRange %d %d", lo, hi))
			for _, in := range ifs.Body.List {
				switch x := in.(type) {
				case *ast.AssignStmt:
					// st = string(st[0]) + "XX"
					okShape := false
					if len(x.Lhs) == 1 && len(x.Rhs) == 1 && exprText(x.Lhs[0]) == "st" && x.Tok == token.ASSIGN {
						if b, ok := x.Rhs[0].(*ast.BinaryExpr); ok && b.Op == token.ADD {
							if call, ok := b.X.(*ast.CallExpr); ok && exprText(call.Fun) == "string" && len(call.Args) == 1 {
								if ix, ok := call.Args[0].(*ast.IndexExpr); ok && exprText(ix.X) == "st" {
									if n, ok := intLit(ix.Index); ok && n == 0 {
										if s, ok := strLit(b.Y); ok {
											rows = append(rows, fmt.Sprintf(".classSuffix %q", s))
											okShape = true
										}
									}
								}
							}
						}
					}
					if !okShape {
						unrec(rsFile, x.Pos(), "class key assignment")
					}
				case *ast.SwitchStmt:
					if x.Init != nil || x.Tag == nil || exprText(x.Tag) != "st" {
						unrec(rsFile, x.Pos(), "switch in range branch")
						continue
					}
					for _, c := range x.Body.List {
						cc := c.(*ast.CaseClause)
						okBody := false
						if len(cc.Body) == 1 {
							if rs, ok := cc.Body[0].(*ast.ReturnStmt); ok && len(rs.Results) == 1 {
								if call, ok := rs.Results[0].(*ast.CallExpr); ok && exprText(call.Fun) == "responses.Value" && len(call.Args) == 1 && exprText(call.Args[0]) == "st" {
									okBody = true
								}
							}
						}
						if cc.List == nil || !okBody {
							unrec(rsFile, cc.Pos(), "class case")
							continue
						}
						for _, e := range cc.List {
							if s, ok := strLit(e); ok {
								rows = append(rows, fmt.Sprintf(".classKey %q", s))
							} else {
								unrec(rsFile, e.Pos(), "class key")
							}
						}
					}
				default:
					unrec(rsFile, in.Pos(), "statement in range branch")
				}
			}
		}
		if ranges != 1 {
			rows = append(rows, fmt.Sprintf(".unrecognised %q", fmt.Sprintf("%s: %d range conditions in Responses.Status", rsFile, ranges)))
		}
	}
	if !seenSt {
		rows = append(rows, fmt.Sprintf(".unrecognised %q", rsFile+": func (*Responses) Status not found"))
	}

	var b strings.Builder
	b.WriteString("/- GENERATED by go/cmd/extract (table RespConsts) from openapi3filter/validate_response.go and openapi3/response.go — do not edit. -/\n")
	b.WriteString("namespace KinModel.Gen\n\n")
	b.WriteString("inductive RespConstRow\n  | skipMethod (m : String)\n  | skipStatus (code : Int)\n  | classRange (lo hi : Int)\n  | classSuffix (s : String)\n  | classKey (k : String)\n  | unrecognised (site : String)\n  deriving DecidableEq, Repr\n\n")
	b.WriteString("def respConsts : List RespConstRow := [\n")
	for i, r := range rows {
		sep := ","
		if i == len(rows)-1 {
			sep = ""
		}
		b.WriteString("  " + r + sep + "\n")
	}
	b.WriteString("]\n")
	fmt.Fprintf(&b, "-- rows: %d\n\nend KinModel.Gen\n", len(rows))
	return b.String(), nil
}
