package main

// Table C06BodyRead: under which condition openapi3filter.ValidateRequestBody reads the request's body stream, and
// what decides "there is no body" afterwards.
//
// Rule (syntactic, go/ast only) over the body of `func ValidateRequestBody` in openapi3filter/validate_request.go
// (function literals are not entered):
//   * every `if` statement whose block (directly or nested) contains a call `io.ReadAll(<X>.Body)` is a READ SITE.
//     Its condition is split at `&&` (parentheses removed); every conjunct becomes one row, in source order:
//         <X>.Body != http.NoBody                    → .bodyNotNoBody
//         <X>.Body != nil                            → .bodyNotNil
//         <X>.ContentLength <op> <integer literal>   → .contentLength "<op>" n      (op one of != == > >= < <=, also -n)
//         anything else (||, !, calls, other fields) → .unrecognised "<file:line>"
//     an `if` with an `else`, or an enclosing `if`/`for`/`switch` around the read site → .unrecognised (the guard
//     would not be the whole condition of the read).
//   * an `io.ReadAll(….Body)` that is not inside such an `if` (an unguarded read)     → .unguardedRead
//   * the variable that receives the bytes (`data, err = io.ReadAll(…)` / `data, err := …`) is noted; every OTHER
//     assignment to it anywhere in the function (`data = …`, `data, x = …`, `data := …`)  → .unrecognised
//   * the first top-level `if` after the read site must be exactly `if len(<data>) == 0 {` whose block starts with
//     `if requestBody.Required { return … ErrInvalidRequired … }` and ends with `return nil`   → .emptyMeansMissing
//     (anything else there → .unrecognised)
// No read site at all → .unrecognised.

import (
	"bytes"
	"fmt"
	"go/ast"
	"go/parser"
	"go/printer"
	"go/token"
	"path/filepath"
	"regexp"
	"strings"
)

func init() { register("C06BodyRead", extractC06BodyRead) }

var (
	c06rdNoBody = regexp.MustCompile(`^([A-Za-z_][A-Za-z_0-9.]*)\.Body != http\.NoBody$`)
	c06rdNil    = regexp.MustCompile(`^([A-Za-z_][A-Za-z_0-9.]*)\.Body != nil$`)
	c06rdCL     = regexp.MustCompile(`^([A-Za-z_][A-Za-z_0-9.]*)\.ContentLength (!=|==|>=|<=|>|<) (-?[0-9]+)$`)
	c06rdWS     = regexp.MustCompile(`\s+`)
)

func extractC06BodyRead(repo string) (string, error) {
	const rel = "openapi3filter/validate_request.go"
	fset := token.NewFileSet()
	f, err := parser.ParseFile(fset, filepath.Join(repo, rel), nil, 0)
	if err != nil {
		return "", err
	}
	text := func(n ast.Node) string {
		var b bytes.Buffer
		_ = printer.Fprint(&b, fset, n)
		return strings.TrimSpace(c06rdWS.ReplaceAllString(b.String(), " "))
	}
	var rows []string
	unrec := func(p token.Pos) {
		rows = append(rows, fmt.Sprintf(".unrecognised %q", fmt.Sprintf("%s:%d", rel, fset.Position(p).Line)))
	}
	var fn *ast.FuncDecl
	for _, d := range f.Decls {
		if fd, ok := d.(*ast.FuncDecl); ok && fd.Recv == nil && fd.Name.Name == "ValidateRequestBody" && fd.Body != nil {
			fn = fd
		}
	}
	if fn == nil {
		rows = append(rows, fmt.Sprintf(".unrecognised %q", rel+": func ValidateRequestBody not found"))
		return c06rdEmit(rows), nil
	}
	// is `call` io.ReadAll(<X>.Body)?
	isBodyRead := func(n ast.Node) bool {
		call, ok := n.(*ast.CallExpr)
		if !ok || len(call.Args) != 1 {
			return false
		}
		sel, ok := call.Fun.(*ast.SelectorExpr)
		if !ok || sel.Sel.Name != "ReadAll" {
			return false
		}
		if id, ok := sel.X.(*ast.Ident); !ok || (id.Name != "io" && id.Name != "ioutil") {
			return false
		}
		arg, ok := call.Args[0].(*ast.SelectorExpr)
		return ok && arg.Sel.Name == "Body"
	}
	containsRead := func(n ast.Node) bool {
		found := false
		ast.Inspect(n, func(x ast.Node) bool {
			if _, lit := x.(*ast.FuncLit); lit {
				return false
			}
			if x != nil && isBodyRead(x) {
				found = true
			}
			return !found
		})
		return found
	}
	// the variable receiving the bytes
	dataVar := ""
	var readAssign ast.Node
	ast.Inspect(fn.Body, func(x ast.Node) bool {
		if _, lit := x.(*ast.FuncLit); lit {
			return false
		}
		if as, ok := x.(*ast.AssignStmt); ok && len(as.Rhs) == 1 && isBodyRead(as.Rhs[0]) && len(as.Lhs) == 2 {
			if id, ok := as.Lhs[0].(*ast.Ident); ok && dataVar == "" {
				dataVar = id.Name
				readAssign = as
			}
		}
		return true
	})
	sites := 0
	emptySeen := false
	afterSite := false
	for _, st := range fn.Body.List {
		ifs, isIf := st.(*ast.IfStmt)
		if isIf && containsRead(ifs.Body) && !containsRead(ifs.Cond) {
			sites++
			afterSite = true
			if ifs.Else != nil || ifs.Init != nil {
				unrec(ifs.Pos())
			}
			// nested guards around the read inside the block are not part of the table's condition
			for _, inner := range ifs.Body.List {
				switch in := inner.(type) {
				case *ast.IfStmt:
					// allowed: `if data, err = io.ReadAll(X.Body); err != nil {…}` (read in Init) — the read itself is unconditional
					if containsRead(in.Body) || (in.Else != nil && containsRead(in.Else)) {
						unrec(in.Pos())
					}
				case *ast.ForStmt, *ast.RangeStmt, *ast.SwitchStmt, *ast.TypeSwitchStmt, *ast.SelectStmt:
					if containsRead(in) {
						unrec(in.Pos())
					}
				}
			}
			var conj func(e ast.Expr)
			conj = func(e ast.Expr) {
				switch x := e.(type) {
				case *ast.ParenExpr:
					conj(x.X)
					return
				case *ast.BinaryExpr:
					if x.Op == token.LAND {
						conj(x.X)
						conj(x.Y)
						return
					}
				}
				t := text(e)
				switch {
				case c06rdNoBody.MatchString(t):
					rows = append(rows, ".bodyNotNoBody")
				case c06rdNil.MatchString(t):
					rows = append(rows, ".bodyNotNil")
				case c06rdCL.MatchString(t):
					m := c06rdCL.FindStringSubmatch(t)
					n := m[3]
					if strings.HasPrefix(n, "-") {
						n = "(" + n + ")"
					}
					rows = append(rows, fmt.Sprintf(".contentLength %q %s", m[2], n))
				default:
					unrec(e.Pos())
				}
			}
			conj(ifs.Cond)
			continue
		}
		if containsRead(st) {
			// a read that is not under a top-level `if` of the recognised shape
			if isIf {
				unrec(st.Pos())
			} else {
				rows = append(rows, ".unguardedRead")
			}
			sites++
			afterSite = true
			continue
		}
		if afterSite && isIf && !emptySeen {
			emptySeen = true
			ok := dataVar != "" && text(ifs.Cond) == "len("+dataVar+") == 0" && ifs.Else == nil && ifs.Init == nil && len(ifs.Body.List) == 2
			if ok {
				first, isIf2 := ifs.Body.List[0].(*ast.IfStmt)
				ret, isRet := ifs.Body.List[1].(*ast.ReturnStmt)
				ok = isIf2 && isRet && text(first.Cond) == "requestBody.Required" && first.Else == nil &&
					len(first.Body.List) == 1 && strings.HasPrefix(text(first.Body.List[0]), "return ") &&
					strings.Contains(text(first.Body.List[0]), "Err: ErrInvalidRequired") &&
					len(ret.Results) == 1 && text(ret.Results[0]) == "nil"
			}
			if ok {
				rows = append(rows, ".emptyMeansMissing")
			} else {
				unrec(ifs.Pos())
			}
		}
	}
	if sites == 0 {
		rows = append(rows, fmt.Sprintf(".unrecognised %q", rel+": no io.ReadAll(….Body) in ValidateRequestBody"))
	}
	if !emptySeen {
		rows = append(rows, fmt.Sprintf(".unrecognised %q", rel+": no `if len(data) == 0` after the read"))
	}
	// other assignments to the data variable
	if dataVar != "" {
		ast.Inspect(fn.Body, func(x ast.Node) bool {
			if _, lit := x.(*ast.FuncLit); lit {
				return false
			}
			if as, ok := x.(*ast.AssignStmt); ok && ast.Node(as) != readAssign {
				for _, l := range as.Lhs {
					if id, ok := l.(*ast.Ident); ok && id.Name == dataVar {
						unrec(as.Pos())
					}
				}
			}
			return true
		})
	}
	return c06rdEmit(rows), nil
}

func c06rdEmit(rows []string) string {
	var b strings.Builder
	b.WriteString("/- GENERATED by go/cmd/extract (table C06BodyRead) from openapi3filter/validate_request.go — do not edit. -/\n")
	b.WriteString("namespace KinModel.Gen\n\n")
	b.WriteString("inductive C06ReadRow\n  | bodyNotNoBody\n  | bodyNotNil\n  | contentLength (op : String) (n : Int)\n  | unguardedRead\n  | emptyMeansMissing\n  | unrecognised (site : String)\n  deriving DecidableEq, Repr\n\n")
	b.WriteString("def c06BodyRead : List C06ReadRow := [\n")
	for i, r := range rows {
		sep := ","
		if i == len(rows)-1 {
			sep = ""
		}
		b.WriteString("  " + r + sep + "\n")
	}
	b.WriteString("]\n\n")
	b.WriteString(fmt.Sprintf("-- rows: %d\n\nend KinModel.Gen\n", len(rows)))
	return b.String()
}
