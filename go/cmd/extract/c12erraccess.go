package main

// Table C12ErrAccess (C12): what the code does to the path recorded in a *SchemaError (`reversePath`), function by
// function. A row per function of openapi3 / openapi3filter (non-test) that mentions the selector `.reversePath`, and per
// method of SchemaError (the observers a caller can invoke on a returned error: JSONPointer, Error, Unwrap), with the list
// of its EFFECTS on the recorded path / the receiver, in source order:
//
//	fieldAppend        x.reversePath = append(x.reversePath, …)          (the unwinding marker)
//	fieldAssign        any other assignment to x.reversePath
//	elemWrite          an element of x.reversePath, or of a local slice that may share its backing array, is assigned
//	                   (p[i] = …, p[i], p[j] = p[j], p[i], p[i]++)
//	aliasPassed:<f>    such a slice is handed to a function other than len / cap / append-as-spread-source / strings.Join /
//	                   copy-as-source (the callee could write through it: sort.Strings, slices.Reverse, copy-as-destination …)
//	aliasReturned      such a slice is returned to the caller
//	recvWrite:<field>  a method of SchemaError assigns a field of its receiver
//
// A local becomes an alias when it is assigned x.reversePath, another alias, a slice expression of one, or
// append(alias, …); `append([]string(nil), alias...)`, `append([]string{}, alias...)` and make+copy are fresh.
// A function with no effect is an observer that leaves the error as it found it. A function the rule cannot classify
// (reversePath reached through an expression that is neither a plain selector read nor one of the shapes above, e.g. its
// address taken) is an `unrecognised` row.

import (
	"fmt"
	"go/ast"
	"go/parser"
	"go/token"
	"os"
	"path/filepath"
	"sort"
	"strings"
)

func init() { register("C12ErrAccess", extractC12ErrAccess) }

func c12IsRevSel(e ast.Expr) bool {
	s, ok := e.(*ast.SelectorExpr)
	return ok && s.Sel.Name == "reversePath"
}

func c12CalleeName(e ast.Expr) string {
	switch x := e.(type) {
	case *ast.Ident:
		return x.Name
	case *ast.SelectorExpr:
		if id, ok := x.X.(*ast.Ident); ok {
			return id.Name + "." + x.Sel.Name
		}
		return "?." + x.Sel.Name
	}
	return "?"
}

func c12IsFreshSeed(e ast.Expr) bool { // []string(nil) | []string{} | nil
	switch x := e.(type) {
	case *ast.CallExpr:
		if _, ok := x.Fun.(*ast.ArrayType); ok && len(x.Args) == 1 {
			if id, ok := x.Args[0].(*ast.Ident); ok && id.Name == "nil" {
				return true
			}
		}
	case *ast.CompositeLit:
		if _, ok := x.Type.(*ast.ArrayType); ok && len(x.Elts) == 0 {
			return true
		}
	}
	return false
}

func extractC12ErrAccess(repo string) (string, error) {
	type row struct {
		fn      string
		effects []string
	}
	var rows []row
	fset := token.NewFileSet()
	for _, pkg := range []string{"openapi3", "openapi3filter"} {
		ents, err := os.ReadDir(filepath.Join(repo, pkg))
		if err != nil {
			return "", err
		}
		var names []string
		for _, e := range ents {
			if !e.IsDir() && strings.HasSuffix(e.Name(), ".go") && !strings.HasSuffix(e.Name(), "_test.go") {
				names = append(names, e.Name())
			}
		}
		sort.Strings(names)
		for _, name := range names {
			f, err := parser.ParseFile(fset, filepath.Join(repo, pkg, name), nil, 0)
			if err != nil {
				return "", err
			}
			for _, d := range f.Decls {
				fd, ok := d.(*ast.FuncDecl)
				if !ok || fd.Body == nil {
					continue
				}
				recvName, isSEMethod := "", false
				fn := fd.Name.Name
				if fd.Recv != nil && len(fd.Recv.List) == 1 {
					t := fd.Recv.List[0].Type
					if st, ok := t.(*ast.StarExpr); ok {
						t = st.X
					}
					if id, ok := t.(*ast.Ident); ok {
						fn = id.Name + "." + fn
						if id.Name == "SchemaError" {
							isSEMethod = true
							if len(fd.Recv.List[0].Names) == 1 {
								recvName = fd.Recv.List[0].Names[0].Name
							}
						}
					}
				}
				mentions := false
				ast.Inspect(fd.Body, func(n ast.Node) bool {
					if e, ok := n.(ast.Expr); ok && c12IsRevSel(e) {
						mentions = true
					}
					return true
				})
				if !mentions && !isSEMethod {
					continue
				}
				r := row{fn: pkg + "." + fn}
				alias := map[string]bool{}
				var isAlias func(e ast.Expr) bool
				isAlias = func(e ast.Expr) bool {
					switch x := e.(type) {
					case *ast.ParenExpr:
						return isAlias(x.X)
					case *ast.Ident:
						return alias[x.Name]
					case *ast.SelectorExpr:
						return c12IsRevSel(x)
					case *ast.SliceExpr:
						return isAlias(x.X)
					case *ast.CallExpr:
						if id, ok := x.Fun.(*ast.Ident); ok && id.Name == "append" && len(x.Args) > 0 {
							return isAlias(x.Args[0])
						}
					}
					return false
				}
				add := func(s string) { r.effects = append(r.effects, s) }
				accounted := map[ast.Expr]bool{} // occurrences of an alias expression the rule has classified
				rootIsRecv := func(e ast.Expr) (string, bool) {
					for {
						switch x := e.(type) {
						case *ast.SelectorExpr:
							if id, ok := x.X.(*ast.Ident); ok && id.Name == recvName && recvName != "" {
								return x.Sel.Name, true
							}
							e = x.X
						case *ast.IndexExpr:
							e = x.X
						case *ast.StarExpr:
							e = x.X
						case *ast.ParenExpr:
							e = x.X
						default:
							return "", false
						}
					}
				}
				ast.Inspect(fd.Body, func(n ast.Node) bool {
					switch x := n.(type) {
					case *ast.AssignStmt:
						for i, l := range x.Lhs {
							if c12IsRevSel(l) {
								accounted[l] = true
								if i < len(x.Rhs) && len(x.Lhs) == len(x.Rhs) {
									if c, ok := x.Rhs[i].(*ast.CallExpr); ok {
										if id, ok := c.Fun.(*ast.Ident); ok && id.Name == "append" && len(c.Args) > 0 && c12IsRevSel(c.Args[0]) {
											add("fieldAppend")
											continue
										}
									}
								}
								add("fieldAssign")
								continue
							}
							if ix, ok := l.(*ast.IndexExpr); ok && isAlias(ix.X) {
								add("elemWrite")
								continue
							}
							if fld, ok := rootIsRecv(l); ok && isSEMethod {
								add("recvWrite:" + fld)
							}
							if id, ok := l.(*ast.Ident); ok && len(x.Lhs) == len(x.Rhs) {
								alias[id.Name] = alias[id.Name] || isAlias(x.Rhs[i])
							}
						}
					case *ast.IncDecStmt:
						if ix, ok := x.X.(*ast.IndexExpr); ok && isAlias(ix.X) {
							add("elemWrite")
						} else if fld, ok := rootIsRecv(x.X); ok && isSEMethod {
							add("recvWrite:" + fld)
						}
					case *ast.ValueSpec:
						for i, id := range x.Names {
							if i < len(x.Values) && len(x.Names) == len(x.Values) && isAlias(x.Values[i]) {
								alias[id.Name] = true
							}
						}
					case *ast.RangeStmt:
						// `for i, v := range alias` copies elements (strings): a read
					case *ast.UnaryExpr:
						if x.Op == token.AND && isAlias(x.X) {
							add("unrecognised")
						}
					case *ast.ReturnStmt:
						for _, res := range x.Results {
							if isAlias(res) {
								add("aliasReturned")
							}
						}
					case *ast.CallExpr:
						name := c12CalleeName(x.Fun)
						for i, a := range x.Args {
							if !isAlias(a) {
								continue
							}
							switch {
							case name == "len" || name == "cap" || name == "strings.Join":
							case name == "append" && i == 0:
								// append(alias, …) may write into spare capacity but never into the recorded elements; its result is tracked as an alias
							case name == "append" && i > 0 && x.Ellipsis.IsValid():
								if !(c12IsFreshSeed(x.Args[0]) || !isAlias(x.Args[0])) {
									add("aliasPassed:append")
								}
							case name == "copy" && i == 1:
							default:
								add("aliasPassed:" + name)
							}
						}
					}
					return true
				})
				rows = append(rows, r)
			}
		}
	}
	sort.SliceStable(rows, func(i, j int) bool { return rows[i].fn < rows[j].fn })
	var b strings.Builder
	b.WriteString("/- GENERATED by go/cmd/extract (table C12ErrAccess) from openapi3/*.go, openapi3filter/*.go — do not edit -/\n")
	b.WriteString("namespace KinModel.Gen\n\nstructure C12ErrAccessRow where\n  fn : String\n  effects : List String\n  deriving DecidableEq, Repr\n\n")
	fmt.Fprintf(&b, "-- rows: %d\n", len(rows))
	b.WriteString("def c12ErrAccess : List C12ErrAccessRow := [\n")
	for i, r := range rows {
		var es []string
		for _, e := range r.effects {
			es = append(es, rsLeanStr(e))
		}
		sep := ","
		if i == len(rows)-1 {
			sep = ""
		}
		fmt.Fprintf(&b, "  ⟨%s, [%s]⟩%s\n", rsLeanStr(r.fn), strings.Join(es, ", "), sep)
	}
	b.WriteString("]\n\nend KinModel.Gen\n")
	return b.String(), nil
}
