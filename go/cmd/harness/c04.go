package main

// C04 — document validation accepts conforming documents, rejects each violation.
// Real code exercised: openapi3.Loader.LoadFromData (to obtain a resolved document exactly as a user
// would) and (*openapi3.T).Validate with option combinations. A case is
//   {"doc": <OpenAPI document>, "detach": [<$ref strings un-resolved after loading>],
//    "optlist": [[<ValidationOption constructor>, <argument>…], …]  — the option list, in order, repeats allowed,
//    "before": [{"doc","detach","optlist"}, …]                       — Validate calls made earlier in the same process}
// (replay files of earlier rounds carry "opts": {...} and "explicit" instead of "optlist")
// and is at the same time the request to the Lean driver, which parses the same document into the
// model tree.

import (
	"context"
	"encoding/json"
	"fmt"
	"os"
	"reflect"
	"regexp"
	"sort"
	"strings"

	"github.com/getkin/kin-openapi/openapi3"

	"kinverif/internal/hx"
)

func init() {
	hx.Register(&hx.Prop{
		ID: "C04",
		Rule: "conforming base document (every container kind: components of 9 sections incl. callbacks, 4 paths, operations, path-level and operation-level " +
			"parameters by value and by $ref, servers at root / path item / operation, request bodies with encoding objects and their headers, responses with headers/links/two media types, nested schemas with " +
			"oneOf/anyOf/allOf/not/items/properties/additionalProperties, items without type) × every injected violation or benign twin applicable " +
			"to the class of the site × every site of that class found by a typed walk of the document × option sets (default, each single option, " +
			"allow-list, all; thorough: all 64); plus a seeded stream of 1–3 simultaneous injections with random option sets. " +
			"A case is non-trivial when the model sees at least one rule violation (in force or switched off) or a non-default option.",
		Exhaustive:  true,
		Gen:         genC04,
		Run:         runC04,
		Compare:     cmpC04,
		Shrink:      shrinkC04,
		Workers:     16,
		Assumptions: []string{
			"default/example values are scalars checked against schemas that constrain them by type/nullable only (VisitJSON proper is C01's subject)",
			"patterns come from a fixed family of compilable / uncompilable expressions; URLs are parseable",
			"documents are acyclic; unresolved references are produced by detaching a loaded reference (the loader itself refuses them)",
			"error messages and the choice of the first error are not compared (observable: error / nil)",
			"the custom regular-expression engine given to SetRegexCompiler compiles every pattern; it only meets pattern strings unique to its case",
		},
	})
}

// ---------------------------------------------------------------- run

// c04OptList is the option list of a case: "optlist" if present, else rebuilt from the "opts" record of earlier rounds
func c04OptList(c map[string]any) [][]string {
	if l, ok := c["optlist"]; ok {
		var out [][]string
		for _, e := range jlist(l) {
			out = append(out, toStrs(e))
		}
		return out
	}
	o, _ := c["opts"].(map[string]any)
	explicit := jbool(c, "explicit")
	var out [][]string
	set := func(k, on, off string) {
		if jbool(o, k) {
			out = append(out, []string{on})
		} else if explicit {
			out = append(out, []string{off})
		}
	}
	set("exDisabled", "DisableExamplesValidation", "EnableExamplesValidation")
	set("defDisabled", "DisableSchemaDefaultsValidation", "EnableSchemaDefaultsValidation")
	set("fmtEnabled", "EnableSchemaFormatValidation", "DisableSchemaFormatValidation")
	set("patDisabled", "DisableSchemaPatternValidation", "EnableSchemaPatternValidation")
	set("extProhibited", "ProhibitExtensionsWithRef", "AllowExtensionsWithRef")
	if al := toStrs(o["allowed"]); len(al) > 0 {
		out = append(out, append([]string{"AllowExtraSiblingFields"}, al...))
	}
	return out
}

// a regular-expression engine that compiles every pattern (stand-in for an ECMA-262 engine)
type c04AnyMatcher struct{ re *regexp.Regexp }

func (m c04AnyMatcher) MatchString(s string) bool { return m.re == nil || m.re.MatchString(s) }

func c04PermissiveCompiler(expr string) (openapi3.RegexMatcher, error) {
	re, err := regexp.Compile(expr)
	if err != nil {
		return c04AnyMatcher{}, nil
	}
	return c04AnyMatcher{re}, nil
}

// every constructor of validation_options.go by name (the Lean side reads the same names from table OptionCtors)
func c04Options(list [][]string) ([]openapi3.ValidationOption, error) {
	var opts []openapi3.ValidationOption
	for _, e := range list {
		if len(e) == 0 {
			return nil, fmt.Errorf("empty option")
		}
		switch e[0] {
		case "DisableExamplesValidation":
			opts = append(opts, openapi3.DisableExamplesValidation())
		case "EnableExamplesValidation":
			opts = append(opts, openapi3.EnableExamplesValidation())
		case "DisableSchemaDefaultsValidation":
			opts = append(opts, openapi3.DisableSchemaDefaultsValidation())
		case "EnableSchemaDefaultsValidation":
			opts = append(opts, openapi3.EnableSchemaDefaultsValidation())
		case "EnableSchemaFormatValidation":
			opts = append(opts, openapi3.EnableSchemaFormatValidation())
		case "DisableSchemaFormatValidation":
			opts = append(opts, openapi3.DisableSchemaFormatValidation())
		case "DisableSchemaPatternValidation":
			opts = append(opts, openapi3.DisableSchemaPatternValidation())
		case "EnableSchemaPatternValidation":
			opts = append(opts, openapi3.EnableSchemaPatternValidation())
		case "ProhibitExtensionsWithRef":
			opts = append(opts, openapi3.ProhibitExtensionsWithRef())
		case "AllowExtensionsWithRef":
			opts = append(opts, openapi3.AllowExtensionsWithRef())
		case "AllowExtraSiblingFields":
			opts = append(opts, openapi3.AllowExtraSiblingFields(e[1:]...))
		case "SetRegexCompiler":
			if len(e) == 2 && e[1] == "permissive" {
				opts = append(opts, openapi3.SetRegexCompiler(c04PermissiveCompiler))
			} else {
				opts = append(opts, openapi3.SetRegexCompiler(nil))
			}
		default:
			return nil, fmt.Errorf("unknown option constructor %q", e[0])
		}
	}
	return opts, nil
}

// detachRefs sets Value = nil on every reference wrapper (*XxxRef) whose Ref is in the set.
func detachRefs(v reflect.Value, refs map[string]bool, seen map[uintptr]bool) {
	switch v.Kind() {
	case reflect.Ptr:
		if v.IsNil() {
			return
		}
		if seen[v.Pointer()] {
			return
		}
		seen[v.Pointer()] = true
		detachRefs(v.Elem(), refs, seen)
	case reflect.Interface:
		if !v.IsNil() {
			detachRefs(v.Elem(), refs, seen)
		}
	case reflect.Struct:
		t := v.Type()
		if strings.HasSuffix(t.Name(), "Ref") && t.PkgPath() == "github.com/getkin/kin-openapi/openapi3" {
			rf, vf := v.FieldByName("Ref"), v.FieldByName("Value")
			if rf.IsValid() && vf.IsValid() && rf.Kind() == reflect.String && refs[rf.String()] && vf.CanSet() {
				vf.Set(reflect.Zero(vf.Type()))
				return
			}
		}
		for i := 0; i < v.NumField(); i++ {
			if t.Field(i).PkgPath != "" { // unexported
				continue
			}
			detachRefs(v.Field(i), refs, seen)
		}
		// Paths, Responses, Callback keep their entries in an unexported map: go through Map()
		if v.CanAddr() {
			if m := v.Addr().MethodByName("Map"); m.IsValid() && m.Type().NumIn() == 0 && m.Type().NumOut() == 1 {
				detachRefs(m.Call(nil)[0], refs, seen)
			}
		}
	case reflect.Map:
		if v.Type().Elem().Kind() == reflect.String || v.Type().Elem().Kind() == reflect.Bool {
			return
		}
		for _, k := range v.MapKeys() {
			detachRefs(v.MapIndex(k), refs, seen)
		}
	case reflect.Slice:
		for i := 0; i < v.Len(); i++ {
			detachRefs(v.Index(i), refs, seen)
		}
	}
}

// c04Call loads the document of one call, detaches, validates with the call's option list
func c04Call(c map[string]any) map[string]any {
	data, err := json.Marshal(c["doc"])
	if err != nil {
		return map[string]any{"loaderr": err.Error()}
	}
	loader := openapi3.NewLoader()
	doc, err := loader.LoadFromData(data)
	if err != nil {
		return map[string]any{"loaderr": err.Error()}
	}
	if det := toStrs(c["detach"]); len(det) > 0 {
		refs := map[string]bool{}
		for _, r := range det {
			refs[r] = true
		}
		detachRefs(reflect.ValueOf(doc), refs, map[uintptr]bool{})
	}
	opts, err := c04Options(c04OptList(c))
	if err != nil {
		return map[string]any{"loaderr": err.Error()}
	}
	err = doc.Validate(context.Background(), opts...)
	res := map[string]any{"ok": err == nil}
	if err != nil {
		msg := err.Error()
		if len(msg) > 160 {
			msg = msg[:160]
		}
		res["err"] = msg
	}
	return res
}

func runC04(c hx.Case) any {
	// the calls made earlier in the process (their verdicts are not the observation of this case)
	for _, b := range jlist(c["before"]) {
		if bm := asMap(b); bm != nil {
			if r := c04Call(bm); r["loaderr"] != nil {
				return map[string]any{"loaderr": "before: " + fmt.Sprint(r["loaderr"])}
			}
		}
	}
	return c04Call(c)
}

func cmpC04(c hx.Case, impl any, reply map[string]any) hx.Verdict {
	v := cmpC04x(c, impl, reply)
	if (!v.IM || !v.IS) && os.Getenv("VERIF_C04_DEBUG") != "" {
		fmt.Fprintf(os.Stderr, "DBG IM=%v IS=%v tag=%v optlist=%v excl=%v spec=%v :: %s\n", v.IM, v.IS, c["tag"], c04OptList(c), reply["excl"], reply["spec"], v.Detail)
	}
	return v
}

func cmpC04x(c hx.Case, impl any, reply map[string]any) hx.Verdict {
	im, _ := impl.(map[string]any)
	model, _ := reply["model"].(map[string]any)
	spec, _ := reply["spec"].(string)
	if im == nil || model == nil {
		return hx.Verdict{IM: false, IS: im != nil && im["panic"] == nil, Detail: "missing observation"}
	}
	if p, bad := im["panic"]; bad {
		return hx.Verdict{IM: false, IS: false, Detail: "implementation panicked: " + fmt.Sprint(p)}
	}
	if le, bad := im["loaderr"]; bad {
		if strings.HasPrefix(jstr(c, "tag"), "shrunk") { // a shrinking step left the loader's domain: not a candidate
			return hx.Verdict{IM: true, IS: true, Detail: "shrunk variant refused by the loader"}
		}
		return hx.Verdict{IM: false, IS: true, Detail: "generator: the loader refused the document: " + fmt.Sprint(le)}
	}
	if jbool(model, "unmodelled") {
		return hx.Verdict{IM: false, IS: true, Detail: "generator: a default/example value outside the modelled fragment"}
	}
	v := hx.Verdict{IM: true, IS: true}
	iok := jbool(im, "ok")
	if iok != jbool(model, "ok") {
		v.IM = false
		v.Detail = fmt.Sprintf("impl ok=%v (%v) vs model ok=%v", iok, im["err"], jbool(model, "ok"))
	}
	switch spec {
	case "accept":
		if !iok {
			v.IS = false
			v.Detail = fmt.Sprintf("conforming document rejected: %v", im["err"])
		}
	case "reject":
		if iok {
			v.IS = false
			v.Detail = "document with a rule violation at a reachable place accepted"
		}
	}
	return v
}

// ---------------------------------------------------------------- base document

const c04Base = `{
 "openapi": "3.0.3",
 "info": {"title": "t", "version": "1", "license": {"name": "MIT"}, "contact": {"name": "n"}},
 "servers": [{"url": "https://{env}.example.com/v1", "variables": {"env": {"default": "prod"}}}],
 "tags": [{"name": "a", "externalDocs": {"url": "https://example.com/t"}}],
 "externalDocs": {"url": "https://example.com/d"},
 "security": [{"basic": []}],
 "components": {
  "schemas": {
   "Obj": {"type": "object", "properties": {"a": {"type": "integer"}, "b": {"$ref": "#/components/schemas/Str"}},
           "additionalProperties": {"type": "string"}},
   "Str": {"type": "string"},
   "Arr": {"type": "array", "items": {"type": "integer"}},
   "Comp": {"oneOf": [{"type": "string"}, {"type": "integer"}], "anyOf": [{"type": "number"}, {"$ref": "#/components/schemas/Str"}],
            "allOf": [{"type": "object", "properties": {"p": {"type": "boolean"}}}], "not": {"type": "boolean"}},
   "Loose": {"items": {"type": "integer"}, "properties": {"q": {"type": "string"}}},
   "Detached": {"type": "string"}
  },
  "parameters": {
   "Limit": {"name": "limit", "in": "query", "schema": {"type": "integer"}},
   "PathId": {"name": "pid", "in": "path", "required": true, "schema": {"type": "string"}},
   "Detached": {"name": "det", "in": "query", "schema": {"type": "integer"}}
  },
  "requestBodies": {
   "Body": {"content": {"application/json": {"schema": {"$ref": "#/components/schemas/Obj"}}}},
   "Form": {"content": {"multipart/form-data": {"schema": {"type": "object", "properties": {"f": {"type": "string"}}},
            "encoding": {"f": {"contentType": "text/plain", "headers": {"X-E": {"schema": {"type": "string"}}}}}}}},
   "Detached": {"content": {"application/json": {"schema": {"type": "string"}}}}
  },
  "responses": {
   "Ok": {"description": "ok", "headers": {"X-Rate": {"schema": {"type": "integer"}}, "X-Ref": {"$ref": "#/components/headers/Hdr"}},
          "content": {"application/json": {"schema": {"type": "string"}, "example": "s"}},
          "links": {"next": {"$ref": "#/components/links/Next"}}},
   "Detached": {"description": "d"}
  },
  "headers": {
   "Hdr": {"schema": {"type": "string"}},
   "HdrC": {"content": {"application/json": {"schema": {"type": "integer"}}}},
   "Detached": {"schema": {"type": "string"}}
  },
  "securitySchemes": {
   "basic": {"type": "http", "scheme": "basic"},
   "key": {"type": "apiKey", "in": "header", "name": "X-Key"},
   "alias": {"$ref": "#/components/securitySchemes/basic"},
   "Detached": {"type": "http", "scheme": "digest"},
   "oauth": {"type": "oauth2", "flows": {"implicit": {"authorizationUrl": "https://example.com/a", "scopes": {}}}}
  },
  "examples": {"One": {"value": 1}, "Str": {"value": "t"}, "Detached": {"value": "d"}},
  "links": {"Next": {"operationId": "getX"}, "Detached": {"operationId": "getX"}},
  "callbacks": {"Cb": {"{$request.body#/url}": {"post": {"requestBody": {"content": {"application/json": {"schema": {"type": "string"}}}},
                                                         "responses": {"200": {"description": "ok"}}}}},
                "Detached": {"{$request.body#/d}": {"get": {"responses": {"204": {"description": "n"}}}}}}
 },
 "paths": {
  "/x/{id}": {
   "parameters": [{"name": "id", "in": "path", "required": true, "schema": {"type": "string"}}],
   "get": {
    "operationId": "getX",
    "parameters": [{"$ref": "#/components/parameters/Limit"},
                   {"name": "q", "in": "query", "content": {"application/json": {"schema": {"type": "string"}}}},
                   {"name": "e", "in": "query", "schema": {"type": "integer"}, "examples": {"one": {"value": 1}, "two": {"value": 2}}}],
    "responses": {"200": {"$ref": "#/components/responses/Ok"},
                  "default": {"description": "d", "content": {"application/json": {"schema": {"$ref": "#/components/schemas/Arr"}},
                                                              "text/plain": {"schema": {"type": "string"}, "examples": {"a": {"value": "s"}, "b": {"$ref": "#/components/examples/Str"}}}}}}
   },
   "post": {
    "operationId": "postX",
    "requestBody": {"content": {"application/json": {"schema": {"$ref": "#/components/schemas/Comp"}},
                                "application/xml": {"schema": {"type": "object", "properties": {"n": {"type": "integer", "default": 1}}}}}},
    "responses": {"201": {"description": "c", "headers": {"X-A": {"schema": {"$ref": "#/components/schemas/Loose"}},
                                                         "X-C": {"content": {"text/plain": {"schema": {"type": "string"}}}}}}},
    "externalDocs": {"url": "https://example.com/o"}
   }
  },
  "/y": {
   "servers": [{"url": "https://y.example.com"}],
   "put": {"requestBody": {"$ref": "#/components/requestBodies/Body"},
           "servers": [{"url": "https://{v}.example.com/y", "variables": {"v": {"default": "a"}}}],
           "parameters": [{"name": "h", "in": "header", "schema": {"type": "array", "items": {"type": "string"}}},
                          {"name": "c", "in": "cookie", "schema": {"type": "string", "example": "s"}}],
           "responses": {"204": {"description": "n"}}}
  },
  "/w/{pid}": {
   "delete": {"parameters": [{"$ref": "#/components/parameters/PathId"}], "responses": {"204": {"description": "n"}}},
   "get": {"parameters": [{"$ref": "#/components/parameters/PathId"}], "responses": {"200": {"description": "d"}}},
   "put": {"parameters": [{"name": "pid", "in": "path", "required": true, "schema": {"type": "integer"}}],
           "requestBody": {"$ref": "#/components/requestBodies/Form"}, "responses": {"200": {"description": "d"}}}
  },
  "/z/{a}/{b}": {
   "get": {"parameters": [{"name": "a", "in": "path", "required": true, "schema": {"type": "string"}},
                          {"name": "b", "in": "path", "required": true, "style": "label", "explode": true, "schema": {"type": "integer"}}],
           "responses": {"200": {"description": "d"}}}
  }
 }
}`

func c04BaseDoc() map[string]any {
	var m map[string]any
	if err := json.Unmarshal([]byte(c04Base), &m); err != nil {
		panic(err)
	}
	return m
}

func deepCopy(v any) any {
	switch x := v.(type) {
	case map[string]any:
		m := make(map[string]any, len(x))
		for k, e := range x {
			m[k] = deepCopy(e)
		}
		return m
	case []any:
		l := make([]any, len(x))
		for i, e := range x {
			l[i] = deepCopy(e)
		}
		return l
	}
	return v
}

// ---------------------------------------------------------------- typed walk: sites

type c04Site struct {
	class string
	path  []any // keys (string) and indices (int) from the root
	noref bool  // a position whose $ref the loader does not resolve: none since cbb0d05 (kept for the replay format)
}

func sortedKeys(m map[string]any) []string {
	ks := make([]string, 0, len(m))
	for k := range m {
		ks = append(ks, k)
	}
	sort.Strings(ks)
	return ks
}

func asMap(v any) map[string]any { m, _ := v.(map[string]any); return m }

type c04Walker struct {
	sites []c04Site
	noref bool
}

func (w *c04Walker) add(class string, path []any) {
	w.sites = append(w.sites, c04Site{class, append([]any{}, path...), w.noref})
}

// refOr visits a position that holds either a $ref wrapper or a value object
func (w *c04Walker) refOr(kind string, path []any, v any, f func(path []any, m map[string]any)) {
	m := asMap(v)
	if m == nil {
		return
	}
	if _, ok := m["$ref"]; ok {
		w.add("ref:"+kind, path)
		return
	}
	f(path, m)
}

func (w *c04Walker) schema(path []any, m map[string]any) {
	w.add("schema", path)
	for _, k := range []string{"oneOf", "anyOf", "allOf"} {
		for i, e := range jlist(m[k]) {
			w.refOr("innerSchema", append(path, k, i), e, w.schema)
		}
	}
	for _, k := range []string{"not", "items", "additionalProperties"} {
		w.refOr("innerSchema", append(path, k), m[k], w.schema)
	}
	if ps := asMap(m["properties"]); ps != nil {
		for _, k := range sortedKeys(ps) {
			w.refOr("innerSchema", append(path, "properties", k), ps[k], w.schema)
		}
	}
	if e := asMap(m["externalDocs"]); e != nil {
		w.add("externalDocs", append(path, "externalDocs"))
	}
}

func (w *c04Walker) content(path []any, v any) {
	c := asMap(v)
	for _, k := range sortedKeys(c) {
		mt := asMap(c[k])
		if mt == nil {
			continue
		}
		p := append(path, k)
		w.add("mediaType", p)
		w.refOr("schema", append(p, "schema"), mt["schema"], w.schema)
		if ex := asMap(mt["examples"]); ex != nil {
			for _, n := range sortedKeys(ex) {
				w.refOr("example", append(p, "examples", n), ex[n], func(pp []any, m map[string]any) { w.add("example", pp) })
			}
		}
		if encs := asMap(mt["encoding"]); encs != nil {
			for _, n := range sortedKeys(encs) {
				enc := asMap(encs[n])
				if enc == nil {
					continue
				}
				w.add("encoding", append(p, "encoding", n))
				if hs := asMap(enc["headers"]); hs != nil {
					// (references under encoding.headers are resolved by the loader since cbb0d05)
					for _, hn := range sortedKeys(hs) {
						w.refOr("header", append(p, "encoding", n, "headers", hn), hs[hn], w.paramLike("header"))
					}
				}
			}
		}
	}
}

func (w *c04Walker) paramLike(class string) func(path []any, m map[string]any) {
	return func(path []any, m map[string]any) {
		w.add(class, path)
		w.refOr("schema", append(path, "schema"), m["schema"], w.schema)
		if m["content"] != nil {
			w.content(append(path, "content"), m["content"])
		}
		if ex := asMap(m["examples"]); ex != nil {
			// (references under parameter / header examples are resolved by the loader since cbb0d05)
			for _, n := range sortedKeys(ex) {
				w.refOr("example", append(path, "examples", n), ex[n], func(pp []any, m map[string]any) { w.add("example", pp) })
			}
		}
	}
}

func (w *c04Walker) response(path []any, m map[string]any) {
	w.add("response", path)
	if m["content"] != nil {
		w.content(append(path, "content"), m["content"])
	}
	if hs := asMap(m["headers"]); hs != nil {
		for _, k := range sortedKeys(hs) {
			w.refOr("header", append(path, "headers", k), hs[k], w.paramLike("header"))
		}
	}
	if ls := asMap(m["links"]); ls != nil {
		for _, k := range sortedKeys(ls) {
			w.refOr("link", append(path, "links", k), ls[k], func(pp []any, m map[string]any) { w.add("link", pp) })
		}
	}
}

func (w *c04Walker) requestBody(path []any, m map[string]any) {
	w.add("requestBody", path)
	if m["content"] != nil {
		w.content(append(path, "content"), m["content"])
	}
}

func (w *c04Walker) params(path []any, v any) {
	l := jlist(v)
	if v != nil {
		w.add("parameters", path)
	}
	for i, p := range l {
		w.refOr("parameter", append(path, i), p, w.paramLike("parameter"))
	}
}

var c04Methods = []string{"connect", "delete", "get", "head", "options", "patch", "post", "put", "trace"}

func (w *c04Walker) doc(d map[string]any) {
	w.add("root", nil)
	if i := asMap(d["info"]); i != nil {
		w.add("info", []any{"info"})
		if asMap(i["license"]) != nil {
			w.add("license", []any{"info", "license"})
		}
		if asMap(i["contact"]) != nil {
			w.add("contact", []any{"info", "contact"})
		}
	}
	w.servers([]any{"servers"}, d["servers"])
	for i, t := range jlist(d["tags"]) {
		w.add("tag", []any{"tags", i})
		if asMap(asMap(t)["externalDocs"]) != nil {
			w.add("externalDocs", []any{"tags", i, "externalDocs"})
		}
	}
	if asMap(d["externalDocs"]) != nil {
		w.add("externalDocs", []any{"externalDocs"})
	}
	if c := asMap(d["components"]); c != nil {
		w.add("components", []any{"components"})
		sect := func(name, kind string, f func(path []any, m map[string]any)) {
			s := asMap(c[name])
			if s != nil {
				w.add("section:"+name, []any{"components", name})
			}
			for _, k := range sortedKeys(s) {
				w.refOr(kind, []any{"components", name, k}, s[k], f)
			}
		}
		sect("schemas", "schema", w.schema)
		sect("parameters", "parameter", w.paramLike("parameter"))
		sect("requestBodies", "requestBody", w.requestBody)
		sect("responses", "response", w.response)
		sect("headers", "header", w.paramLike("header"))
		sect("securitySchemes", "securityScheme", func(p []any, m map[string]any) {
			w.add("securityScheme", p)
			if fl := asMap(m["flows"]); fl != nil {
				w.add("oauthFlows", append(p, "flows"))
				for _, k := range sortedKeys(fl) {
					if asMap(fl[k]) != nil && !strings.HasPrefix(k, "x-") {
						w.add("oauthFlow", append(p, "flows", k))
					}
				}
			}
		})
		sect("examples", "example", func(p []any, m map[string]any) { w.add("example", p) })
		// (references under components.links are resolved by the loader since cbb0d05)
		sect("links", "link", func(p []any, m map[string]any) { w.add("link", p) })
		// callbacks: every key that is not an extension is a path item (the template rules of `paths` do not apply)
		sect("callbacks", "callback", func(p []any, m map[string]any) {
			w.add("callback", p)
			for _, k := range sortedKeys(m) {
				if pi := asMap(m[k]); pi != nil && !strings.HasPrefix(k, "x-") {
					w.pathItem(append(p, k), pi)
				}
			}
		})
	}
	if ps := asMap(d["paths"]); ps != nil {
		w.add("paths", []any{"paths"})
		for _, k := range sortedKeys(ps) {
			pi := asMap(ps[k])
			if pi == nil || strings.HasPrefix(k, "x-") {
				continue
			}
			w.pathItem([]any{"paths", k}, pi)
		}
	}
}

func (w *c04Walker) servers(path []any, v any) {
	for i, s := range jlist(v) {
		if asMap(s) == nil {
			continue
		}
		w.add("server", append(path, i))
		if vs := asMap(asMap(s)["variables"]); vs != nil {
			for _, k := range sortedKeys(vs) {
				if asMap(vs[k]) != nil {
					w.add("serverVar", append(path, i, "variables", k))
				}
			}
		}
	}
}

func (w *c04Walker) pathItem(p []any, pi map[string]any) {
	w.add("pathItem", p)
	if pi["parameters"] != nil {
		w.params(append(p, "parameters"), pi["parameters"])
	}
	w.servers(append(p, "servers"), pi["servers"]) // never validated by the code (F-C04-7)
	for _, m := range c04Methods {
		op := asMap(pi[m])
		if op == nil {
			continue
		}
		q := append(p, m)
		w.add("operation", q)
		if op["parameters"] != nil {
			w.params(append(q, "parameters"), op["parameters"])
		}
		w.servers(append(q, "servers"), op["servers"]) // never validated by the code (F-C04-7)
		w.refOr("requestBody", append(q, "requestBody"), op["requestBody"], w.requestBody)
		if rs := asMap(op["responses"]); rs != nil {
			w.add("responses", append(q, "responses"))
			for _, code := range sortedKeys(rs) {
				if !strings.HasPrefix(code, "x-") {
					w.refOr("response", append(q, "responses", code), rs[code], w.response)
				}
			}
		}
		if asMap(op["externalDocs"]) != nil {
			w.add("externalDocs", append(q, "externalDocs"))
		}
	}
}

func c04Sites(d map[string]any) []c04Site {
	w := &c04Walker{}
	w.doc(d)
	return w.sites
}

func at(d any, path []any) any {
	cur := d
	for _, s := range path {
		switch k := s.(type) {
		case string:
			cur = asMap(cur)[k]
		case int:
			l := jlist(cur)
			if k >= len(l) {
				return nil
			}
			cur = l[k]
		}
	}
	return cur
}

// setAt replaces the value at path (parent must exist)
func setAt(d any, path []any, v any) {
	parent := at(d, path[:len(path)-1])
	switch k := path[len(path)-1].(type) {
	case string:
		asMap(parent)[k] = v
	case int:
		jlist(parent)[k] = v
	}
}

// ---------------------------------------------------------------- injections

// an injection edits the object at a site in place; it may add to the detach list
type c04Inj struct {
	name  string
	class string
	// applies reports whether the injection makes sense on this object
	applies func(m map[string]any) bool
	apply   func(b *c04Builder, site c04Site, m map[string]any)
}

type c04Builder struct {
	doc    map[string]any
	detach []any
}

func always(map[string]any) bool { return true }
func hasKey(k string) func(map[string]any) bool {
	return func(m map[string]any) bool { _, ok := m[k]; return ok }
}
func setKey(k string, v any) func(*c04Builder, c04Site, map[string]any) {
	return func(_ *c04Builder, _ c04Site, m map[string]any) { m[k] = deepCopy(v) }
}
func delKey(k string) func(*c04Builder, c04Site, map[string]any) {
	return func(_ *c04Builder, _ c04Site, m map[string]any) { delete(m, k) }
}
func schemaTypeIs(ts ...string) func(map[string]any) bool {
	return func(m map[string]any) bool {
		t, _ := m["type"].(string)
		for _, x := range ts {
			if x == t {
				return true
			}
		}
		return false
	}
}

// simple: the schema constrains values by type / nullable only (the modelled fragment of VisitJSON)
func schemaSimple(m map[string]any) bool {
	for k := range m {
		switch k {
		case "oneOf", "anyOf", "allOf", "not", "enum", "format", "pattern", "minimum", "maximum", "exclusiveMinimum", "exclusiveMaximum",
			"multipleOf", "minLength", "maxLength":
			return false
		}
	}
	return true
}

// ---- the modelled fragment of VisitJSON (mirrors `accepts` of the Lean model): scalar values; a type
// mismatch always rejects; otherwise the schema must not constrain scalars by anything but type/nullable

func c04ValKind(v any) string {
	switch x := v.(type) {
	case nil:
		return "null"
	case bool:
		return "bool"
	case string:
		return "str"
	case float64:
		if x == float64(int64(x)) {
			return "int"
		}
		return "num"
	case int:
		return "int"
	case json.Number:
		if strings.ContainsAny(string(x), ".eE") {
			return "num"
		}
		return "int"
	}
	return "other"
}

func c04Types(s map[string]any) []string {
	switch t := s["type"].(type) {
	case string:
		return []string{t}
	case []any:
		return toStrs(t)
	}
	return nil
}

func c04FragOK(s map[string]any, v any) bool {
	kind := c04ValKind(v)
	if kind == "other" {
		return false
	}
	if kind == "null" {
		return s["nullable"] == true || schemaSimple(s)
	}
	ts := c04Types(s)
	if len(ts) == 0 {
		return schemaSimple(s)
	}
	has := func(t string) bool {
		for _, x := range ts {
			if x == t {
				return true
			}
		}
		return false
	}
	tyOK := map[string]bool{"bool": has("boolean"), "int": has("integer") || has("number"), "num": has("number"), "str": has("string")}[kind]
	return !tyOK || schemaSimple(s)
}

// c04InFragment: every default / example of the document stays inside the modelled fragment
func c04InFragment(doc map[string]any) bool {
	for _, st := range c04Sites(doc) {
		m := asMap(at(doc, st.path))
		if m == nil {
			continue
		}
		switch st.class {
		case "schema":
			for _, k := range []string{"default", "example"} {
				if v, ok := m[k]; ok && v != nil && !c04FragOK(m, v) {
					return false
				}
			}
		case "parameter", "mediaType", "header":
			if m["schema"] == nil {
				continue
			}
			s := resolveSchema(doc, m["schema"])
			if s == nil {
				continue
			}
			if v, ok := m["example"]; ok && v != nil && !c04FragOK(s, v) {
				return false
			}
			if ex := asMap(m["examples"]); ex != nil {
				for _, n := range sortedKeys(ex) {
					e := asMap(ex[n])
					if r, ok := e["$ref"].(string); ok {
						parts := strings.Split(r, "/")
						if len(parts) == 4 {
							e = asMap(asMap(asMap(doc["components"])[parts[2]])[parts[3]])
						}
					}
					if !c04FragOK(s, e["value"]) {
						return false
					}
				}
			}
		}
	}
	return true
}

func scalarOfType(t string, ok bool) any {
	good := map[string]any{"integer": 1, "number": 1.5, "string": "s", "boolean": true}
	bad := map[string]any{"integer": "x", "number": "x", "string": 1, "boolean": "x", "array": 1, "object": "x"}
	if ok {
		return good[t]
	}
	return bad[t]
}

func resolveSchema(doc map[string]any, v any) map[string]any {
	m := asMap(v)
	for i := 0; m != nil && i < 5; i++ {
		r, ok := m["$ref"].(string)
		if !ok {
			return m
		}
		parts := strings.Split(r, "/")
		if len(parts) != 4 {
			return nil
		}
		m = asMap(asMap(asMap(doc["components"])[parts[2]])[parts[3]])
	}
	return m
}

// example value for a parameter / media type whose schema resolves to a simple typed schema
func exampleFor(doc map[string]any, m map[string]any, ok bool) (any, bool) {
	s := resolveSchema(doc, m["schema"])
	if s == nil || !schemaSimple(s) {
		if s != nil && !ok { // a type mismatch rejects whatever else the schema says
			if t, _ := s["type"].(string); t != "" {
				return scalarOfType(t, false), scalarOfType(t, false) != nil
			}
		}
		return nil, false
	}
	t, _ := s["type"].(string)
	if t == "" {
		return nil, false
	}
	v := scalarOfType(t, ok)
	return v, v != nil
}

var c04DetachTargets = map[string]string{
	"schema": "#/components/schemas/Detached", "innerSchema": "#/components/schemas/Detached",
	"parameter": "#/components/parameters/Detached", "requestBody": "#/components/requestBodies/Detached",
	"response": "#/components/responses/Detached", "header": "#/components/headers/Detached",
	"example": "#/components/examples/Detached", "link": "#/components/links/Detached",
	"securityScheme": "#/components/securitySchemes/Detached", "callback": "#/components/callbacks/Detached",
}

func replaceByRef(kind string, detach bool, extra map[string]any) func(*c04Builder, c04Site, map[string]any) {
	return func(b *c04Builder, _ c04Site, m map[string]any) {
		for k := range m {
			delete(m, k)
		}
		m["$ref"] = c04DetachTargets[kind]
		for k, v := range extra {
			m[k] = v
		}
		if detach {
			b.detach = append(b.detach, c04DetachTargets[kind])
		}
	}
}

func c04Injections() []c04Inj {
	var out []c04Inj
	add := func(name, class string, applies func(map[string]any) bool, apply func(*c04Builder, c04Site, map[string]any)) {
		out = append(out, c04Inj{name, class, applies, apply})
	}
	// every object kind with an Extensions map: a non-extension extra field, and its benign twin
	for _, cl := range []string{"root", "info", "license", "contact", "server", "serverVar", "tag", "externalDocs", "components",
		"schema", "parameter", "header", "mediaType", "requestBody", "response", "operation", "pathItem", "securityScheme",
		"oauthFlows", "oauthFlow", "example", "link", "encoding"} {
		add("extra:bogus", cl, always, setKey("bogus", 1))
		add("extra:x-ok", cl, always, setKey("x-ok", 1))
		add("extra:summary2", cl, always, setKey("summary2", "s"))
	}
	// reference wrappers: siblings and unresolved
	for _, k := range []string{"schema", "innerSchema", "parameter", "requestBody", "response", "header", "example", "link", "securityScheme", "callback"} {
		add("ref:sibling-bogus", "ref:"+k, always, setKey("bogus", 1))
		add("ref:sibling-description", "ref:"+k, always, setKey("description", "d"))
		add("ref:sibling-x", "ref:"+k, always, setKey("x-ext", 1))
		add("ref:unresolved", "ref:"+k, always, replaceByRef(k, true, nil))
	}
	// value objects replaced by references (resolved / unresolved / with sibling)
	for cl, k := range map[string]string{"schema": "schema", "parameter": "parameter", "requestBody": "requestBody", "response": "response",
		"header": "header", "example": "example", "link": "link", "securityScheme": "securityScheme", "callback": "callback"} {
		kind := k
		notComponent := func(m map[string]any) bool { return true }
		add("toref:resolved", cl, notComponent, replaceByRef(kind, false, nil))
		add("toref:unresolved", cl, notComponent, replaceByRef(kind, true, nil))
		add("toref:sibling", cl, notComponent, replaceByRef(kind, false, map[string]any{"bogus": 1}))
	}
	// root, info, …
	add("root:no-openapi", "root", always, delKey("openapi"))
	add("root:no-info", "root", always, delKey("info"))
	add("root:no-paths", "root", always, delKey("paths"))
	add("info:no-title", "info", always, delKey("title"))
	add("info:no-version", "info", always, delKey("version"))
	add("license:no-name", "license", always, delKey("name"))
	add("externalDocs:no-url", "externalDocs", always, delKey("url"))
	add("server:no-url", "server", always, delKey("url"))
	add("server:brace", "server", always, setKey("url", "https://{env.example.com"))
	add("server:undeclared", "server", always, setKey("url", "https://{env}.{zone}.example.com"))
	add("server:unused-var", "server", always, func(_ *c04Builder, _ c04Site, m map[string]any) {
		m["url"] = "https://{env}.{zone}.example.com"
		m["variables"] = map[string]any{"env": map[string]any{"default": "p"}, "other": map[string]any{"default": "o"}}
	})
	add("serverVar:no-default", "serverVar", always, delKey("default"))
	for _, cl := range []string{"pathItem", "operation"} {
		add("servers:add-no-url(F-C04-7)", cl, always, setKey("servers", []any{map[string]any{"description": "no url"}}))
		add("servers:add-undeclared-variable(F-C04-7)", cl, always, setKey("servers", []any{map[string]any{"url": "https://{zone}.example.com"}}))
		add("servers:add-extra-field(F-C04-7)", cl, always, setKey("servers", []any{map[string]any{"url": "https://example.com", "bogus": 1}}))
		add("servers:add-ok", cl, always, setKey("servers", []any{map[string]any{"url": "https://{zone}.example.com", "variables": map[string]any{"zone": map[string]any{"default": "a"}}, "x-s": 1}}))
	}
	add("callback:x-ext-ok", "callback", always, setKey("x-cb", 1))
	add("callback:second-expression-bad-operation", "callback", always, setKey("{$request.query.u}", map[string]any{"get": map[string]any{"description": "no responses"}}))
	add("callback:second-expression-ok", "callback", always, setKey("{$request.query.u}", map[string]any{"get": map[string]any{"responses": map[string]any{"204": map[string]any{"description": "n"}}}}))
	// null entries: reported as invalid since 6bd2b91 (they used to make Validate panic)
	add("root:servers-null-entry", "root", hasKey("servers"), func(_ *c04Builder, _ c04Site, m map[string]any) {
		m["servers"] = append(append([]any{}, jlist(m["servers"])...), nil)
	})
	add("root:tags-null-entry", "root", always, func(_ *c04Builder, _ c04Site, m map[string]any) {
		m["tags"] = append(append([]any{}, jlist(m["tags"])...), nil)
	})
	add("server:null-variable", "server", always, func(_ *c04Builder, _ c04Site, m map[string]any) {
		m["url"] = "https://{env}.example.com"
		m["variables"] = map[string]any{"env": nil}
	})
	// security schemes
	add("sec:bad-type", "securityScheme", always, setKey("type", "magic"))
	add("sec:http-bad-scheme", "securityScheme", func(m map[string]any) bool { return m["type"] == "http" }, setKey("scheme", "nope"))
	add("sec:http-bearer", "securityScheme", func(m map[string]any) bool { return m["type"] == "http" }, func(_ *c04Builder, _ c04Site, m map[string]any) {
		m["scheme"] = "bearer"
		m["bearerFormat"] = "JWT"
	})
	add("sec:bearerFormat-misplaced", "securityScheme", func(m map[string]any) bool { return m["scheme"] == "basic" }, setKey("bearerFormat", "JWT"))
	add("sec:http-with-in", "securityScheme", func(m map[string]any) bool { return m["type"] == "http" }, setKey("in", "header"))
	add("sec:http-with-name", "securityScheme", func(m map[string]any) bool { return m["type"] == "http" }, setKey("name", "n"))
	add("sec:apikey-bad-in", "securityScheme", func(m map[string]any) bool { return m["type"] == "apiKey" }, setKey("in", "body"))
	add("sec:apikey-no-name", "securityScheme", func(m map[string]any) bool { return m["type"] == "apiKey" }, delKey("name"))
	add("sec:oauth-no-flows", "securityScheme", func(m map[string]any) bool { return m["type"] == "oauth2" }, delKey("flows"))
	add("sec:flows-misplaced", "securityScheme", func(m map[string]any) bool { return m["type"] == "http" },
		setKey("flows", map[string]any{"implicit": map[string]any{"authorizationUrl": "https://e.com", "scopes": map[string]any{}}}))
	add("sec:oidc-no-url", "securityScheme", always, func(_ *c04Builder, _ c04Site, m map[string]any) {
		for k := range m {
			delete(m, k)
		}
		m["type"] = "openIdConnect"
	})
	add("sec:oidc-ok", "securityScheme", always, func(_ *c04Builder, _ c04Site, m map[string]any) {
		for k := range m {
			delete(m, k)
		}
		m["type"] = "openIdConnect"
		m["openIdConnectUrl"] = "https://example.com/.well-known"
	})
	add("flow:no-auth-url", "oauthFlow", always, delKey("authorizationUrl"))
	add("flow:token-url-misplaced", "oauthFlow", always, setKey("tokenUrl", "https://example.com/t"))
	add("flow:no-scopes", "oauthFlow", always, delKey("scopes"))
	// examples, links
	add("example:both", "example", always, setKey("externalValue", "https://example.com/e"))
	add("example:none", "example", always, delKey("value"))
	add("link:none", "link", always, delKey("operationId"))
	add("link:both", "link", always, setKey("operationRef", "#/paths/~1y/put"))
	// components: malformed names
	for _, s := range []string{"schemas", "parameters", "requestBodies", "responses", "headers", "securitySchemes", "examples", "links", "callbacks"} {
		add("name:malformed", "section:"+s, always, func(_ *c04Builder, _ c04Site, m map[string]any) {
			ks := sortedKeys(m)
			m["bad name!"] = deepCopy(m[ks[len(ks)-1]])
		})
		add("name:dotted-ok", "section:"+s, always, func(_ *c04Builder, _ c04Site, m map[string]any) {
			ks := sortedKeys(m)
			m["ok.Name_1-x"] = deepCopy(m[ks[len(ks)-1]])
		})
		// names with unusual characters, for every section: outside and inside [a-zA-Z0-9._-]+
		for _, nm := range []string{"", "a/b", "a b", "caf\u00e9", "a#b", "{x}", "A", "9", "-", "_.", "x-ext"} {
			nm := nm
			add(fmt.Sprintf("name:%q", nm), "section:"+s, always, func(_ *c04Builder, _ c04Site, m map[string]any) {
				ks := sortedKeys(m)
				m[nm] = deepCopy(m[ks[len(ks)-1]])
			})
		}
	}
	// paths
	add("paths:no-slash", "paths", always, func(_ *c04Builder, _ c04Site, m map[string]any) {
		m["noslash"] = map[string]any{"get": map[string]any{"responses": map[string]any{"200": map[string]any{"description": "d"}}}}
	})
	add("paths:conflict", "paths", always, func(_ *c04Builder, _ c04Site, m map[string]any) {
		m["/x/{other}"] = map[string]any{"get": map[string]any{
			"parameters": []any{map[string]any{"name": "other", "in": "path", "required": true, "schema": map[string]any{"type": "string"}}},
			"responses":  map[string]any{"200": map[string]any{"description": "d"}}}}
	})
	add("paths:dup-opid", "paths", always, func(_ *c04Builder, _ c04Site, m map[string]any) {
		m["/dup"] = map[string]any{"get": map[string]any{"operationId": "getX", "responses": map[string]any{"200": map[string]any{"description": "d"}}}}
	})
	add("paths:new-ok", "paths", always, func(_ *c04Builder, _ c04Site, m map[string]any) {
		m["/new/{n}"] = map[string]any{"get": map[string]any{"operationId": "newOp",
			"parameters": []any{map[string]any{"name": "n", "in": "path", "required": true, "schema": map[string]any{"type": "string"}}},
			"responses":  map[string]any{"200": map[string]any{"description": "d"}}}}
	})
	add("paths:var-undeclared", "paths", always, func(_ *c04Builder, _ c04Site, m map[string]any) {
		m["/u/{n}"] = map[string]any{"get": map[string]any{"responses": map[string]any{"200": map[string]any{"description": "d"}}}}
	})
	add("paths:param-not-in-template", "paths", always, func(_ *c04Builder, _ c04Site, m map[string]any) {
		m["/plain"] = map[string]any{"get": map[string]any{
			"parameters": []any{map[string]any{"name": "n", "in": "path", "required": true, "schema": map[string]any{"type": "string"}}},
			"responses":  map[string]any{"200": map[string]any{"description": "d"}}}}
	})
	add("paths:var-renamed(#7)", "paths", always, func(_ *c04Builder, _ c04Site, m map[string]any) {
		m["/r/{n}"] = map[string]any{"get": map[string]any{
			"parameters": []any{map[string]any{"name": "m", "in": "path", "required": true, "schema": map[string]any{"type": "string"}}},
			"responses":  map[string]any{"200": map[string]any{"description": "d"}}}}
	})
	add("paths:two-wrong-names", "paths", always, func(_ *c04Builder, _ c04Site, m map[string]any) {
		m["/r/{n}/{k}"] = map[string]any{
			"parameters": []any{map[string]any{"name": "n", "in": "path", "required": true, "schema": map[string]any{"type": "string"}}},
			"get": map[string]any{
				"parameters": []any{map[string]any{"name": "zz", "in": "path", "required": true, "schema": map[string]any{"type": "string"}},
					map[string]any{"name": "n", "in": "path", "required": true, "schema": map[string]any{"type": "string"}}},
				"responses": map[string]any{"200": map[string]any{"description": "d"}}}}
	})
	// every subset of the operations of one path item declares the template variable (sorted order: delete, get, put)
	pathParam := func(name string) map[string]any {
		return map[string]any{"name": name, "in": "path", "required": true, "schema": map[string]any{"type": "string"}}
	}
	okResp := func() map[string]any { return map[string]any{"200": map[string]any{"description": "d"}} }
	for mask := 0; mask < 8; mask++ {
		mask := mask
		add(fmt.Sprintf("paths:multi-op-declared=%03b", mask), "paths", always, func(_ *c04Builder, _ c04Site, m map[string]any) {
			pi := map[string]any{}
			for i, meth := range []string{"delete", "get", "put"} {
				op := map[string]any{"responses": okResp()}
				if mask&(1<<i) != 0 {
					op["parameters"] = []any{pathParam("v")}
				}
				pi[meth] = op
			}
			m["/m/{v}"] = pi
		})
		add(fmt.Sprintf("paths:multi-op-two-vars-declared=%03b", mask), "paths", always, func(_ *c04Builder, _ c04Site, m map[string]any) {
			pi := map[string]any{"parameters": []any{pathParam("a")}}
			for i, meth := range []string{"get", "patch", "post"} {
				op := map[string]any{"responses": okResp()}
				if mask&(1<<i) != 0 {
					op["parameters"] = []any{map[string]any{"$ref": "#/components/parameters/PathId"}}
				} else {
					op["parameters"] = []any{}
				}
				pi[meth] = op
			}
			m["/m2/{a}/{pid}"] = pi
		})
	}
	for _, meth := range []string{"connect", "head", "trace"} {
		meth := meth
		add("pathItem:add-op-without-parameters:"+meth, "pathItem", func(m map[string]any) bool { return m[meth] == nil }, func(_ *c04Builder, _ c04Site, m map[string]any) {
			m[meth] = map[string]any{"responses": okResp()}
		})
	}
	add("pathItem:drop-path-level-parameters", "pathItem", hasKey("parameters"), delKey("parameters"))
	add("pathItem:path-level-parameters-to-first-op", "pathItem", hasKey("parameters"), func(_ *c04Builder, _ c04Site, m map[string]any) {
		for _, meth := range c04Methods {
			if op := asMap(m[meth]); op != nil {
				op["parameters"] = append(append([]any{}, jlist(op["parameters"])...), jlist(deepCopy(m["parameters"]))...)
				break
			}
		}
		delete(m, "parameters")
	})
	add("pathItem:path-level-parameters-to-all-ops", "pathItem", hasKey("parameters"), func(_ *c04Builder, _ c04Site, m map[string]any) {
		for _, meth := range c04Methods {
			if op := asMap(m[meth]); op != nil {
				op["parameters"] = append(append([]any{}, jlist(op["parameters"])...), jlist(deepCopy(m["parameters"]))...)
			}
		}
		delete(m, "parameters")
	})
	add("op:drop-parameters", "operation", hasKey("parameters"), delKey("parameters"))
	add("op:empty-parameters", "operation", hasKey("parameters"), setKey("parameters", []any{}))
	// the path-template algebra on unusual templates (normalizeTemplatedPath): repeated variable, `*` suffix,
	// unclosed brace, variable with unusual characters, empty variable
	for _, t := range []struct {
		tpl    string
		params []string
	}{
		{"/d/{v}/{v}", []string{"v"}}, {"/d/{v}/{v}", []string{"v", "w"}}, {"/d/{v}/{v}", nil},
		{"/s/{v*}", []string{"v"}}, {"/s/{v*}", []string{"v*"}}, {"/s/{v*}", nil},
		{"/u/{v", []string{"v"}}, {"/u/{v", nil},
		{"/c/{a.b-c}", []string{"a.b-c"}}, {"/c/{a.b-c}", []string{"a.b"}}, {"/c/{a b}", []string{"a b"}},
		{"/e/{}", nil}, {"/e/{}", []string{"x"}},
		{"/n/{a}{b}", []string{"a", "b"}}, {"/n/{a}{b}", []string{"a"}},
		{"/q/{a}/x/{b}/y", []string{"b", "a"}}, {"/q/{a}/x/{b}/y", []string{"a", "c", "b"}},
	} {
		t := t
		add(fmt.Sprintf("paths:template=%s,params=%v", t.tpl, t.params), "paths", always, func(_ *c04Builder, _ c04Site, m map[string]any) {
			ps := []any{}
			for _, n := range t.params {
				ps = append(ps, pathParam(n))
			}
			m[t.tpl] = map[string]any{"get": map[string]any{"parameters": ps, "responses": okResp()}}
		})
	}
	add("paths:override-ok", "paths", always, func(_ *c04Builder, _ c04Site, m map[string]any) {
		m["/o/{n}"] = map[string]any{
			"parameters": []any{map[string]any{"name": "n", "in": "path", "required": true, "schema": map[string]any{"type": "string"}}},
			"get": map[string]any{
				"parameters": []any{map[string]any{"name": "n", "in": "path", "required": true, "schema": map[string]any{"type": "integer"}}},
				"responses":  map[string]any{"200": map[string]any{"description": "d"}}}}
	})
	// operations, responses, request bodies
	add("op:no-responses", "operation", always, delKey("responses"))
	add("op:dup-id", "operation", always, setKey("operationId", "postX"))
	add("responses:empty", "responses", always, func(_ *c04Builder, _ c04Site, m map[string]any) {
		for k := range m {
			delete(m, k)
		}
	})
	add("response:no-description", "response", always, delKey("description"))
	add("requestBody:no-content", "requestBody", always, delKey("content"))
	add("requestBody:empty-content", "requestBody", always, setKey("content", map[string]any{}))
	// parameter lists
	for i := 0; i < 4; i++ {
		add(fmt.Sprintf("params:duplicate[%d]", i), "parameters", always, nil)
		add(fmt.Sprintf("params:same-name-other-in[%d]", i), "parameters", always, nil)
		add(fmt.Sprintf("params:duplicate-inline-of[%d]", i), "parameters", always, nil)
	}
	// parameters
	isQuery := func(m map[string]any) bool { return m["in"] == "query" }
	add("param:no-name", "parameter", always, delKey("name"))
	add("param:bad-in", "parameter", always, setKey("in", "body"))
	add("param:no-in", "parameter", always, delKey("in"))
	add("param:path-not-required", "parameter", func(m map[string]any) bool { return m["in"] == "path" }, delKey("required"))
	add("param:path-required-false", "parameter", func(m map[string]any) bool { return m["in"] == "path" }, setKey("required", false))
	for _, st := range []string{"form", "simple", "label", "matrix", "spaceDelimited", "pipeDelimited", "deepObject", "weird"} {
		for _, ex := range []any{nil, true, false} {
			st, ex := st, ex
			add(fmt.Sprintf("param:style=%s,explode=%v", st, ex), "parameter", always, func(_ *c04Builder, _ c04Site, m map[string]any) {
				m["style"] = st
				if ex == nil {
					delete(m, "explode")
				} else {
					m["explode"] = ex
				}
			})
		}
	}
	add("param:neither", "parameter", always, func(_ *c04Builder, _ c04Site, m map[string]any) {
		delete(m, "schema")
		delete(m, "content")
		delete(m, "example")
		delete(m, "examples")
	})
	add("param:content-two", "parameter", hasKey("content"), setKey("content", map[string]any{
		"application/json": map[string]any{"schema": map[string]any{"type": "string"}}, "text/plain": map[string]any{"schema": map[string]any{"type": "string"}}}))
	add("param:content-bad-example-no-schema-check", "parameter", hasKey("content"), setKey("example", 12345))
	add("param:content-with-bad-examples-object", "parameter", hasKey("content"), setKey("examples", map[string]any{"e": map[string]any{}}))
	_ = isQuery
	for _, cl := range []string{"parameter", "mediaType", "header"} {
		cl := cl
		add("example:mismatch", cl, hasKey("schema"), nil)
		add("example:match", cl, hasKey("schema"), nil)
		add("examples:mismatch", cl, hasKey("schema"), nil)
		add("examples:match", cl, hasKey("schema"), nil)
		add("examples:bad-object", cl, hasKey("schema"), func(_ *c04Builder, _ c04Site, m map[string]any) {
			delete(m, "example")
			m["examples"] = map[string]any{"e": map[string]any{"value": nil}}
		})
		add("example-and-examples", cl, hasKey("schema"), nil)
		add("example-and-empty-examples", cl, hasKey("schema"), nil)
		add("examples:value-and-external", cl, hasKey("schema"), nil)
		add("examples:external-and-mismatch", cl, hasKey("schema"), nil)
		add("examples:external-and-match", cl, hasKey("schema"), nil)
		add("examples:ref-One", cl, hasKey("schema"), func(_ *c04Builder, _ c04Site, m map[string]any) {
			delete(m, "example")
			m["examples"] = map[string]any{"r": map[string]any{"$ref": "#/components/examples/One"}}
		})
		add("examples:ref-Str", cl, hasKey("schema"), func(_ *c04Builder, _ c04Site, m map[string]any) {
			delete(m, "example")
			m["examples"] = map[string]any{"r": map[string]any{"$ref": "#/components/examples/Str"}}
		})
		add("examples:external-only", cl, hasKey("schema"), func(_ *c04Builder, _ c04Site, m map[string]any) {
			delete(m, "example")
			m["examples"] = map[string]any{"ext": map[string]any{"externalValue": "https://example.com/e.json"}}
		})
	}
	// headers
	add("header:name", "header", always, setKey("name", "X"))
	add("header:in", "header", always, setKey("in", "header"))
	for _, st := range []string{"form", "simple", "label", "matrix", "spaceDelimited", "pipeDelimited", "deepObject", "weird", ""} {
		for _, ex := range []any{nil, true, false} {
			st, ex := st, ex
			add(fmt.Sprintf("header:style=%s,explode=%v", st, ex), "header", always, func(_ *c04Builder, _ c04Site, m map[string]any) {
				if st == "" {
					delete(m, "style")
				} else {
					m["style"] = st
				}
				if ex == nil {
					delete(m, "explode")
				} else {
					m["explode"] = ex
				}
			})
		}
	}
	add("header:required", "header", always, setKey("required", true))
	add("header:schema-and-content", "header", hasKey("schema"), setKey("content", map[string]any{"application/json": map[string]any{"schema": map[string]any{"type": "string"}}}))
	add("header:neither", "header", always, func(_ *c04Builder, _ c04Site, m map[string]any) { delete(m, "schema"); delete(m, "content") })
	add("header:content-two", "header", hasKey("content"), setKey("content", map[string]any{
		"application/json": map[string]any{"schema": map[string]any{"type": "string"}}, "text/plain": map[string]any{"schema": map[string]any{"type": "string"}}}))
	// media types
	add("mediaType:encoding-bogus(#28)", "mediaType", always, setKey("encoding", map[string]any{"p": map[string]any{"contentType": "text/plain", "bogus": 1}}))
	add("mediaType:encoding-header-named", "mediaType", always, setKey("encoding", map[string]any{"p": map[string]any{"contentType": "text/plain",
		"headers": map[string]any{"X-E": map[string]any{"name": "X", "schema": map[string]any{"type": "string"}}}}}))
	add("mediaType:encoding-header-ok", "mediaType", always, setKey("encoding", map[string]any{"p": map[string]any{"contentType": "text/plain",
		"headers": map[string]any{"X-E": map[string]any{"schema": map[string]any{"type": "string"}}}}}))
	add("mediaType:encoding-ok", "mediaType", always, setKey("encoding", map[string]any{"p": map[string]any{"contentType": "text/plain", "x-e": 1}}))
	for _, st := range []string{"form", "simple", "label", "matrix", "spaceDelimited", "pipeDelimited", "deepObject", "weird", ""} {
		for _, ex := range []any{nil, true, false} {
			st, ex := st, ex
			add(fmt.Sprintf("encoding:style=%s,explode=%v", st, ex), "encoding", always, func(_ *c04Builder, _ c04Site, m map[string]any) {
				if st == "" {
					delete(m, "style")
				} else {
					m["style"] = st
				}
				if ex == nil {
					delete(m, "explode")
				} else {
					m["explode"] = ex
				}
			})
		}
	}
	encHeader := func(key string, h map[string]any) func(*c04Builder, c04Site, map[string]any) {
		return func(_ *c04Builder, _ c04Site, m map[string]any) {
			hs := asMap(deepCopy(m["headers"]))
			if hs == nil {
				hs = map[string]any{}
			}
			hs[key] = deepCopy(h)
			m["headers"] = hs
		}
	}
	add("encoding:add-header-ok", "encoding", always, encHeader("X-New", map[string]any{"schema": map[string]any{"type": "string"}}))
	add("encoding:add-header-named(dropped)", "encoding", always, encHeader("X-New", map[string]any{"name": "X", "schema": map[string]any{"type": "string"}}))
	add("encoding:add-header-bad-key(dropped)", "encoding", always, encHeader("bad key!", map[string]any{"schema": map[string]any{"type": "string"}}))
	add("encoding:add-header-ref", "encoding", always, encHeader("X-R", map[string]any{"$ref": "#/components/headers/Hdr"}))
	add("encoding:add-header-ref-sibling(dropped)", "encoding", always, encHeader("X-R", map[string]any{"$ref": "#/components/headers/Hdr", "bogus": 1}))
	add("encoding:bad-style-masked-by-header", "encoding", always, func(_ *c04Builder, _ c04Site, m map[string]any) {
		m["style"] = "matrix"
		m["headers"] = map[string]any{"X-E": map[string]any{"in": "header", "schema": map[string]any{"type": "string"}}}
	})
	add("encoding:allowReserved-contentType-ok", "encoding", always, func(_ *c04Builder, _ c04Site, m map[string]any) {
		m["allowReserved"] = true
		m["contentType"] = "application/json, text/plain"
	})
	add("mediaType:two-encodings-second-bad", "mediaType", always, setKey("encoding", map[string]any{
		"a": map[string]any{"contentType": "text/plain"}, "b": map[string]any{"style": "label"}}))
	add("mediaType:two-encodings-first-dropped-second-bad", "mediaType", always, setKey("encoding", map[string]any{
		"a": map[string]any{"headers": map[string]any{"X-E": map[string]any{"name": "X", "schema": map[string]any{"type": "string"}}}},
		"b": map[string]any{"bogus": 1}}))
	add("mediaType:no-schema-with-example", "mediaType", always, func(_ *c04Builder, _ c04Site, m map[string]any) {
		delete(m, "schema")
		delete(m, "examples")
		m["example"] = 1
	})
	// schemas
	add("schema:default-mismatch", "schema", func(m map[string]any) bool { return schemaTypeIs("integer", "number", "string", "boolean", "array", "object")(m) },
		func(_ *c04Builder, _ c04Site, m map[string]any) { t, _ := m["type"].(string); m["default"] = scalarOfType(t, false) })
	add("schema:default-match", "schema", func(m map[string]any) bool { return schemaSimple(m) && schemaTypeIs("integer", "number", "string", "boolean")(m) },
		func(_ *c04Builder, _ c04Site, m map[string]any) { t, _ := m["type"].(string); m["default"] = scalarOfType(t, true) })
	add("schema:example-mismatch", "schema", func(m map[string]any) bool { return schemaTypeIs("integer", "number", "string", "boolean", "array", "object")(m) },
		func(_ *c04Builder, _ c04Site, m map[string]any) { t, _ := m["type"].(string); m["example"] = scalarOfType(t, false) })
	add("schema:example-match", "schema", func(m map[string]any) bool { return schemaSimple(m) && schemaTypeIs("integer", "number", "string", "boolean")(m) },
		func(_ *c04Builder, _ c04Site, m map[string]any) { t, _ := m["type"].(string); m["example"] = scalarOfType(t, true) })
	add("schema:default-null-on-typed", "schema", func(m map[string]any) bool { return schemaSimple(m) && schemaTypeIs("integer", "string")(m) }, setKey("default", nil))
	add("schema:unknown-type", "schema", always, setKey("type", "strange"))
	add("schema:array-no-items", "schema", func(m map[string]any) bool { return m["items"] == nil && m["default"] == nil && m["example"] == nil }, setKey("type", "array"))
	add("schema:drop-type", "schema", func(m map[string]any) bool { return m["default"] == nil && m["example"] == nil }, delKey("type"))
	add("schema:read-write-only", "schema", func(m map[string]any) bool { return m["default"] == nil && m["example"] == nil }, func(_ *c04Builder, _ c04Site, m map[string]any) { m["readOnly"] = true; m["writeOnly"] = true })
	add("schema:read-only", "schema", func(m map[string]any) bool { return m["default"] == nil && m["example"] == nil }, setKey("readOnly", true))
	add("schema:format-unknown", "schema", func(m map[string]any) bool {
		return schemaTypeIs("integer", "number", "string")(m) && m["default"] == nil && m["example"] == nil
	}, setKey("format", "bogusfmt"))
	add("schema:format-known", "schema", func(m map[string]any) bool { return m["default"] == nil && m["example"] == nil }, func(_ *c04Builder, _ c04Site, m map[string]any) {
		switch m["type"] {
		case "integer":
			m["format"] = "int64"
		case "number":
			m["format"] = "double"
		case "string":
			m["format"] = "uuid"
		default:
			m["format"] = "whatever"
		}
	})
	add("schema:format-of-other-type", "schema", func(m map[string]any) bool {
		return schemaTypeIs("integer", "number", "string")(m) && m["default"] == nil && m["example"] == nil
	}, func(_ *c04Builder, _ c04Site, m map[string]any) {
		if m["type"] == "string" {
			m["format"] = "int32"
		} else {
			m["format"] = "date"
		}
	})
	for _, p := range []string{"(", "[a", "a{2,1}", "(?!a)", "*a", "^a+$", "[0-9]*"} {
		p := p
		add("schema:pattern="+p, "schema", func(m map[string]any) bool { return m["default"] == nil && m["example"] == nil }, setKey("pattern", p))
	}
	add("schema:xml-bogus(#28)", "schema", always, setKey("xml", map[string]any{"name": "n", "bogus": 1}))
	add("schema:xml-ok", "schema", always, setKey("xml", map[string]any{"name": "n", "x-k": 1}))
	add("schema:discriminator-bogus(#28)", "schema", func(m map[string]any) bool { return m["default"] == nil && m["example"] == nil }, setKey("discriminator", map[string]any{"propertyName": "t", "bogus": 1}))
	add("schema:externalDocs-no-url", "schema", always, setKey("externalDocs", map[string]any{"description": "d"}))
	add("schema:externalDocs-ok", "schema", always, setKey("externalDocs", map[string]any{"url": "https://example.com/s"}))
	// nested: a fresh sub-schema with a violation below each keyword
	badSub := func() map[string]any { return map[string]any{"type": "integer", "default": "x"} }
	goodSub := func() map[string]any { return map[string]any{"type": "integer", "default": 3} }
	noNewKeywordIfValue := func(m map[string]any) bool { return m["default"] == nil && m["example"] == nil }
	for _, kw := range []string{"oneOf", "anyOf", "allOf"} {
		kw := kw
		add("schema:nested-bad@"+kw, "schema", noNewKeywordIfValue, func(_ *c04Builder, _ c04Site, m map[string]any) {
			m[kw] = append(append([]any{}, jlist(m[kw])...), badSub())
		})
		add("schema:nested-good@"+kw, "schema", noNewKeywordIfValue, func(_ *c04Builder, _ c04Site, m map[string]any) {
			m[kw] = append(append([]any{}, jlist(m[kw])...), goodSub())
		})
	}
	for _, kw := range []string{"not", "items", "additionalProperties"} {
		kw := kw
		add("schema:nested-bad@"+kw, "schema", noNewKeywordIfValue, func(_ *c04Builder, _ c04Site, m map[string]any) { m[kw] = badSub() })
		add("schema:nested-good@"+kw, "schema", noNewKeywordIfValue, func(_ *c04Builder, _ c04Site, m map[string]any) { m[kw] = goodSub() })
	}
	add("schema:nested-bad@properties", "schema", noNewKeywordIfValue, func(_ *c04Builder, _ c04Site, m map[string]any) {
		ps := asMap(m["properties"])
		if ps == nil {
			ps = map[string]any{}
		}
		ps["zz"] = badSub()
		m["properties"] = ps
	})
	add("schema:nested-unknown-type@items-no-type", "schema", noNewKeywordIfValue, func(_ *c04Builder, _ c04Site, m map[string]any) {
		delete(m, "type")
		m["items"] = map[string]any{"type": "strange"}
	})
	add("schema:nested-bad@items-of-object", "schema", noNewKeywordIfValue, func(_ *c04Builder, _ c04Site, m map[string]any) {
		m["type"] = "object"
		m["items"] = badSub()
	})
	add("schema:additionalProperties-true", "schema", noNewKeywordIfValue, setKey("additionalProperties", true))
	return out
}

// special injections that need the document (examples against the resolved schema, duplicates)
func applyInjection(b *c04Builder, inj c04Inj, site c04Site) bool {
	m := asMap(at(b.doc, site.path))
	if site.class == "parameters" {
		l := jlist(at(b.doc, site.path))
		var i int
		var kind string
		for _, k := range []string{"params:duplicate[%d]", "params:same-name-other-in[%d]", "params:duplicate-inline-of[%d]"} {
			if n, _ := fmt.Sscanf(inj.name, k, &i); n == 1 {
				kind = k
				break
			}
		}
		if kind == "" || i >= len(l) {
			return false
		}
		el := asMap(deepCopy(l[i]))
		switch kind {
		case "params:duplicate[%d]":
			// the same entry again (a reference again when it was one); for a path parameter the template rule applies as well
		case "params:duplicate-inline-of[%d]", "params:same-name-other-in[%d]":
			// an inline twin of the entry (the resolved parameter when the entry is a reference)
			if r, ok := el["$ref"].(string); ok {
				parts := strings.Split(r, "/")
				if len(parts) != 4 {
					return false
				}
				el = asMap(deepCopy(asMap(asMap(asMap(b.doc["components"])[parts[2]])[parts[3]])))
				if el == nil {
					return false
				}
			} else if kind == "params:duplicate-inline-of[%d]" {
				el["description"] = "twin"
			}
			if kind == "params:same-name-other-in[%d]" {
				switch el["in"] {
				case "query":
					el["in"] = "cookie"
				case "header", "cookie":
					el["in"] = "query"
				default:
					return false
				}
				delete(el, "style")
				delete(el, "explode")
			}
		}
		setAt(b.doc, site.path, append(append([]any{}, l...), el))
		return true
	}
	if m == nil || !inj.applies(m) {
		return false
	}
	if site.noref && (strings.HasPrefix(inj.name, "toref:") || strings.HasPrefix(inj.name, "ref:")) {
		return false
	}
	switch inj.name {
	case "example:mismatch", "example:match":
		v, ok := exampleFor(b.doc, m, inj.name == "example:match")
		if !ok {
			return false
		}
		delete(m, "examples")
		m["example"] = v
		return true
	case "examples:mismatch", "examples:match":
		v, ok := exampleFor(b.doc, m, inj.name == "examples:match")
		if !ok {
			return false
		}
		good, _ := exampleFor(b.doc, m, true)
		delete(m, "example")
		ex := map[string]any{"bad": map[string]any{"value": v}}
		if good != nil {
			ex["a-good"] = map[string]any{"value": good}
		}
		m["examples"] = ex
		return true
	case "example-and-examples", "example-and-empty-examples":
		v, ok := exampleFor(b.doc, m, true)
		if !ok {
			return false
		}
		m["example"] = v
		if inj.name == "example-and-examples" {
			m["examples"] = map[string]any{"e": map[string]any{"value": v}}
		} else {
			m["examples"] = map[string]any{}
		}
		return true
	case "examples:value-and-external":
		v, ok := exampleFor(b.doc, m, true)
		if !ok {
			return false
		}
		delete(m, "example")
		m["examples"] = map[string]any{"e": map[string]any{"value": v, "externalValue": "https://example.com/e.json"}}
		return true
	case "examples:external-and-mismatch", "examples:external-and-match":
		v, ok := exampleFor(b.doc, m, inj.name == "examples:external-and-match")
		if !ok {
			return false
		}
		delete(m, "example")
		m["examples"] = map[string]any{"a-ext": map[string]any{"externalValue": "https://example.com/e.json"}, "b": map[string]any{"value": v}}
		return true
	}
	inj.apply(b, site, m)
	return true
}

// ---------------------------------------------------------------- generation

var c04OptKeys = []string{"exDisabled", "defDisabled", "fmtEnabled", "patDisabled", "extProhibited"}

func c04OptSet(mask int, allowed []any) map[string]any {
	o := map[string]any{}
	for i, k := range c04OptKeys {
		o[k] = mask&(1<<i) != 0
	}
	o["allowed"] = allowed
	return o
}

func c04Case(doc map[string]any, detach []any, opts map[string]any, tag string, explicit bool) hx.Case {
	// (callers check c04InFragment(doc) first)
	if detach == nil {
		detach = []any{}
	}
	return c04CaseL(doc, detach, c04OptList(map[string]any{"opts": opts, "explicit": explicit}), tag)
}

func c04CaseL(doc map[string]any, detach []any, list [][]string, tag string) hx.Case {
	if detach == nil {
		detach = []any{}
	}
	ol := []any{}
	for _, e := range list {
		x := []any{}
		for _, w := range e {
			x = append(x, w)
		}
		ol = append(ol, x)
	}
	return hx.Case{"doc": doc, "detach": detach, "optlist": ol, "tag": tag}
}

// every option constructor instance the lists are drawn from
var c04Ctors = [][]string{
	{"DisableExamplesValidation"}, {"EnableExamplesValidation"}, {"DisableSchemaDefaultsValidation"}, {"EnableSchemaDefaultsValidation"},
	{"EnableSchemaFormatValidation"}, {"DisableSchemaFormatValidation"}, {"DisableSchemaPatternValidation"}, {"EnableSchemaPatternValidation"},
	{"ProhibitExtensionsWithRef"}, {"AllowExtensionsWithRef"}, {"AllowExtraSiblingFields", "bogus"}, {"AllowExtraSiblingFields", "description", "x-ext"},
	{"AllowExtraSiblingFields"}, {"SetRegexCompiler", "permissive"}, {"SetRegexCompiler", "nil"},
}

// documents with exactly one option-governed violation each (and the conforming base); the pattern one carries a
// pattern string unique to the case (stem of the uncompilable family + suffix), so that nothing a case may leave in a
// process-wide cache can meet another case
func c04OptionDocs(base map[string]any, uniq *int) []struct {
	name string
	doc  map[string]any
} {
	mk := func(edit func(d map[string]any)) map[string]any {
		d := deepCopy(base).(map[string]any)
		edit(d)
		return d
	}
	schemas := func(d map[string]any) map[string]any { return asMap(asMap(d["components"])["schemas"]) }
	*uniq++
	pat := fmt.Sprintf("(?!a)q%d", *uniq)
	return []struct {
		name string
		doc  map[string]any
	}{
		{"conforming", mk(func(d map[string]any) {})},
		{"default-mismatch", mk(func(d map[string]any) { asMap(schemas(d)["Str"])["default"] = 1 })},
		{"example-mismatch", mk(func(d map[string]any) { asMap(schemas(d)["Str"])["example"] = 1 })},
		{"format-unknown", mk(func(d map[string]any) { asMap(schemas(d)["Str"])["format"] = "bogusfmt" })},
		{"pattern-uncompilable", mk(func(d map[string]any) { asMap(schemas(d)["Str"])["pattern"] = pat })},
		{"ref-x-sibling", mk(func(d map[string]any) {
			asMap(asMap(schemas(d)["Obj"])["properties"])["a"] = map[string]any{"$ref": "#/components/schemas/Str"}
			asMap(asMap(asMap(asMap(d["paths"])["/y"])["put"])["requestBody"])["x-ext"] = 1
		})},
		{"ref-description-sibling", mk(func(d map[string]any) {
			asMap(asMap(asMap(asMap(d["paths"])["/y"])["put"])["requestBody"])["description"] = "d"
		})},
		{"extra-field-bogus", mk(func(d map[string]any) { asMap(d["info"])["bogus"] = 1 })},
		{"default-and-pattern", mk(func(d map[string]any) {
			asMap(schemas(d)["Str"])["pattern"] = pat
			asMap(schemas(d)["Arr"])["default"] = 1
		})},
	}
}

// injections whose verdict can depend on a validation option
func c04OptionSensitive(name string) bool {
	for _, p := range []string{"extra:", "ref:", "toref:", "example", "schema:default", "schema:example", "schema:format", "schema:pattern",
		"schema:nested", "schema:xml", "schema:discriminator", "mediaType:encoding-bogus", "mediaType:encoding-ok", "mediaType:no-schema", "param:content-",
		"mediaType:two-encodings", "encoding:add-header", "encoding:bad-style", "servers:add-extra-field", "callback:x-ext"} {
		if strings.HasPrefix(name, p) {
			return true
		}
	}
	return false
}

func genC04(ctx *hx.Ctx, emit func(hx.Case)) {
	base := c04BaseDoc()
	injs := c04Injections()
	byClass := map[string][]c04Inj{}
	for _, i := range injs {
		byClass[i.class] = append(byClass[i.class], i)
	}
	allowSets := [][]any{{}, {"bogus"}, {"description", "x-ext"}, {"bogus", "description", "summary2", "x-ext", "x-ok"}}
	type optSel struct {
		mask    int
		allowed []any
	}
	var optSets []optSel
	if ctx.Thorough() {
		for m := 0; m < 32; m++ {
			optSets = append(optSets, optSel{m, allowSets[0]})
			if m%4 == 0 || m == 31 {
				optSets = append(optSets, optSel{m, allowSets[1+(m/4)%3]})
			}
		}
	} else {
		optSets = []optSel{{0, allowSets[0]}, {1, allowSets[0]}, {2, allowSets[0]}, {4, allowSets[0]}, {8, allowSets[0]}, {16, allowSets[0]},
			{0, allowSets[1]}, {16, allowSets[2]}, {31, allowSets[3]}, {31, allowSets[0]}}
	}
	// 1. the conforming base under every option set
	for m := 0; m < 32; m++ {
		for ai, al := range allowSets {
			emit(c04Case(deepCopy(base).(map[string]any), nil, c04OptSet(m, al), "base", (m+ai)%2 == 1))
		}
	}
	// 2. every injection at every site of its class, under the option sets: all of them for injections whose
	// verdict can depend on an option, three (default, everything on, one rotating single option) for the rest
	sites := c04Sites(base)
	n := 0
	for _, s := range sites {
		for _, inj := range byClass[s.class] {
			b := &c04Builder{doc: deepCopy(base).(map[string]any)}
			if !applyInjection(b, inj, s) || !c04InFragment(b.doc) {
				continue
			}
			sets := optSets
			if !ctx.Thorough() && c04OptionSensitive(inj.name) {
				// quick tier: default, the option(s) that govern this rule, everything on, one rotating other option
				sets = []optSel{{0, allowSets[0]}, {31, allowSets[3]}, {1 << (n % 5), allowSets[0]}}
				switch {
				case strings.HasPrefix(inj.name, "example"):
					sets = append(sets, optSel{1, allowSets[0]}, optSel{30, allowSets[0]})
				case strings.HasPrefix(inj.name, "schema:default"), strings.HasPrefix(inj.name, "schema:nested"):
					sets = append(sets, optSel{2, allowSets[0]}, optSel{29, allowSets[0]})
				case strings.HasPrefix(inj.name, "schema:example"):
					sets = append(sets, optSel{1, allowSets[0]}, optSel{2, allowSets[0]})
				case strings.HasPrefix(inj.name, "schema:format"):
					sets = append(sets, optSel{4, allowSets[0]}, optSel{27, allowSets[0]})
				case strings.HasPrefix(inj.name, "schema:pattern"):
					sets = append(sets, optSel{8, allowSets[0]}, optSel{23, allowSets[0]})
				default: // extra fields, reference siblings
					sets = append(sets, optSel{16, allowSets[0]}, optSel{0, allowSets[1]}, optSel{16, allowSets[2]}, optSel{0, allowSets[3]})
				}
			} else if !c04OptionSensitive(inj.name) {
				if ctx.Thorough() {
					sets = []optSel{{0, allowSets[0]}, {1, allowSets[0]}, {2, allowSets[0]}, {4, allowSets[0]}, {8, allowSets[0]}, {16, allowSets[0]},
						{0, allowSets[3]}, {31, allowSets[3]}}
				} else {
					sets = []optSel{{0, allowSets[0]}, {31, allowSets[3]}, {1 << (n % 5), allowSets[n%3]}}
				}
			}
			for oi, os := range sets {
				emit(c04Case(deepCopy(b.doc).(map[string]any), b.detach, c04OptSet(os.mask, os.allowed), inj.name+"@"+s.class, (n+oi)%3 == 0))
			}
			n++
		}
	}
	// 2b. option LISTS (WithValidationOptions folds them left to right): every list of length 0, 1, 2 over the fifteen
	// constructor instances (repeats included: Disable then Enable, Enable then Disable, the same twice, an Enable of one
	// check after the Disable of another), on the conforming base and on one document per option-governed rule
	uniq := 0
	for i := -1; i < len(c04Ctors); i++ {
		for j := -1; j < len(c04Ctors); j++ {
			if i < 0 && j >= 0 {
				continue // the empty prefix followed by something is the length-1 list, produced with j < 0
			}
			var list [][]string
			if i >= 0 {
				list = append(list, c04Ctors[i])
			}
			if j >= 0 {
				list = append(list, c04Ctors[j])
			}
			for _, od := range c04OptionDocs(base, &uniq) {
				if !ctx.Thorough() && len(list) == 2 {
					// quick tier: pairs only on the documents whose rule one of the two constructors can govern
					names := list[0][0] + " " + list[1][0]
					sib := strings.Contains(names, "AllowExtraSiblingFields")
					switch od.name {
					case "conforming":
						continue
					case "ref-description-sibling", "extra-field-bogus":
						if !sib {
							continue
						}
					case "ref-x-sibling":
						if !sib && !strings.Contains(names, "WithRef") {
							continue
						}
					case "example-mismatch":
						if !strings.Contains(names, "ExamplesValidation") && (i+j)%2 == 1 {
							continue
						}
					case "format-unknown":
						if !strings.Contains(names, "FormatValidation") && (i+j)%2 == 0 {
							continue
						}
					}
				}
				emit(c04CaseL(od.doc, nil, list, "optlist:"+od.name))
			}
		}
	}
	// 2c. history: Validate calls made earlier in the same process must not change the verdict of a later call.
	// Earlier calls: the same or another document carrying the same (unique) pattern string, validated with a custom
	// regular-expression engine, with the pattern check disabled, with the default engine; one or two of them.
	{
		patDoc := func(pat string, where int) map[string]any {
			d := deepCopy(base).(map[string]any)
			sch := asMap(asMap(d["components"])["schemas"])
			if where == 0 {
				asMap(sch["Str"])["pattern"] = pat
			} else {
				asMap(asMap(asMap(sch["Obj"])["properties"])["a"])["type"] = "string"
				asMap(asMap(sch["Obj"])["properties"])["a"].(map[string]any)["pattern"] = pat
			}
			return d
		}
		call := func(doc map[string]any, list [][]string) map[string]any {
			c := c04CaseL(doc, nil, list, "")
			delete(c, "tag")
			return map[string]any(c)
		}
		befores := [][][]string{
			{{"SetRegexCompiler", "permissive"}},
			{{"SetRegexCompiler", "permissive"}, {"EnableSchemaPatternValidation"}},
			{{"DisableSchemaPatternValidation"}},
			{},
			{{"DisableExamplesValidation"}, {"DisableSchemaDefaultsValidation"}},
		}
		afters := [][][]string{{}, {{"EnableSchemaPatternValidation"}}, {{"SetRegexCompiler", "nil"}}, {{"DisableSchemaPatternValidation"}},
			{{"SetRegexCompiler", "permissive"}}, {{"DisableSchemaDefaultsValidation"}, {"EnableSchemaDefaultsValidation"}}}
		stems := []string{"(?!a)", "(", "[a", "*a", "^a+$"}
		k := 0
		for _, stem := range stems {
			for bi, bl := range befores {
				for ai, al := range afters {
					for same := 0; same < 2; same++ {
						if !ctx.Thorough() && (bi+ai+same+k)%2 == 1 && bi > 0 {
							continue
						}
						k++
						pat := fmt.Sprintf("%shist%d", stem, k)
						if stem == "^a+$" {
							pat = fmt.Sprintf("^a+hist%d$", k)
						}
						before := []any{call(patDoc(pat, 0), bl)}
						if (ai+bi)%3 == 0 { // two earlier calls
							before = append(before, call(patDoc(pat, 1), [][]string{{"SetRegexCompiler", "permissive"}}))
						}
						c := c04CaseL(patDoc(pat, same), nil, al, fmt.Sprintf("history:%s", stem))
						c["before"] = before
						emit(c)
					}
				}
			}
		}
	}
	// 2e. the settings record between calls: calls WITHOUT options get their settings from getValidationOptions'
	// fallback; RequestBody.Validate / Response.Validate write the example reading (request / response) into the record
	// they get. Object examples against schemas with writeOnly / readOnly / required properties at the sites whose
	// examples are checked outside a body (component and operation parameters, `example` and `examples`, by value and
	// through a schema $ref; response headers), after zero, one or two earlier calls with and without options.
	{
		secret := func() map[string]any {
			return map[string]any{"type": "object", "required": []any{"id", "pw"}, "properties": map[string]any{
				"id": map[string]any{"type": "string"}, "pw": map[string]any{"type": "string", "writeOnly": true}}}
		}
		readback := func() map[string]any {
			return map[string]any{"type": "object", "required": []any{"id", "ro"}, "properties": map[string]any{
				"id": map[string]any{"type": "string"}, "ro": map[string]any{"type": "string", "readOnly": true}}}
		}
		type objEx struct {
			name string
			val  map[string]any
		}
		reqVals := []objEx{
			{"all", map[string]any{"id": "a", "pw": "b"}}, {"no-writeonly", map[string]any{"id": "a"}},
			{"no-plain", map[string]any{"pw": "b"}}, {"extra", map[string]any{"id": "a", "pw": "b", "more": "c"}}, {"empty", map[string]any{}},
		}
		resVals := []objEx{
			{"all", map[string]any{"id": "a", "ro": "b"}}, {"no-readonly", map[string]any{"id": "a"}}, {"no-plain", map[string]any{"ro": "b"}},
		}
		type site struct {
			name string
			put  func(d map[string]any, v map[string]any)
		}
		firstOp := func(d map[string]any) map[string]any {
			paths := asMap(d["paths"])
			keys := make([]string, 0, len(paths))
			for k := range paths {
				keys = append(keys, k)
			}
			sort.Strings(keys)
			for _, k := range keys {
				for _, m := range []string{"get", "put", "post", "delete", "patch"} {
					if o := asMap(asMap(paths[k])[m]); o != nil {
						return o
					}
				}
			}
			return nil
		}
		addParam := func(o map[string]any, p map[string]any) {
			ps, _ := o["parameters"].([]any)
			o["parameters"] = append(ps, p)
		}
		reqSites := []site{
			{"components.parameter.example", func(d, v map[string]any) {
				asMap(asMap(d["components"])["parameters"])["Cred"] = map[string]any{"name": "cred", "in": "query", "schema": secret(), "example": v}
			}},
			{"components.parameter.examples", func(d, v map[string]any) {
				asMap(asMap(d["components"])["parameters"])["Cred"] = map[string]any{"name": "cred", "in": "query", "schema": secret(),
					"examples": map[string]any{"e1": map[string]any{"value": v}}}
			}},
			{"operation.parameter.example.ref-schema", func(d, v map[string]any) {
				asMap(asMap(d["components"])["schemas"])["Secret"] = secret()
				addParam(firstOp(d), map[string]any{"name": "cred", "in": "query", "schema": map[string]any{"$ref": "#/components/schemas/Secret"}, "example": v})
			}},
			{"operation.parameter.examples", func(d, v map[string]any) {
				addParam(firstOp(d), map[string]any{"name": "cred", "in": "cookie", "schema": secret(),
					"examples": map[string]any{"e1": map[string]any{"value": v}, "e0": map[string]any{"value": map[string]any{"id": "x", "pw": "y"}}}})
			}},
		}
		firstItem := func(d map[string]any) map[string]any {
			paths := asMap(d["paths"])
			keys := make([]string, 0, len(paths))
			for k := range paths {
				keys = append(keys, k)
			}
			sort.Strings(keys)
			if len(keys) == 0 {
				return nil
			}
			return asMap(paths[keys[len(keys)-1]])
		}
		reqSites = append(reqSites,
			site{"pathitem.parameter.example", func(d, v map[string]any) {
				if it := firstItem(d); it != nil {
					addParam(it, map[string]any{"name": "cred", "in": "header", "schema": secret(), "example": v})
				}
			}},
			site{"operation.parameter.ref-component", func(d, v map[string]any) {
				asMap(asMap(d["components"])["parameters"])["Cred"] = map[string]any{"name": "cred", "in": "query", "schema": secret(),
					"examples": map[string]any{"e1": map[string]any{"value": v}}}
				addParam(firstOp(d), map[string]any{"$ref": "#/components/parameters/Cred"})
			}},
		)
		resSites := []site{
			{"components.header.example", func(d, v map[string]any) {
				asMap(asMap(d["components"])["headers"])["Back"] = map[string]any{"schema": readback(), "example": v}
			}},
			{"response.header.examples", func(d, v map[string]any) {
				r := asMap(asMap(asMap(d["components"])["responses"])["Ok"])
				asMap(r["headers"])["X-Back"] = map[string]any{"schema": readback(), "examples": map[string]any{"e1": map[string]any{"value": v}}}
			}},
		}
		call := func(doc map[string]any, list [][]string) map[string]any {
			c := c04CaseL(doc, nil, list, "")
			delete(c, "tag")
			return map[string]any(c)
		}
		baseDoc := func() map[string]any { return deepCopy(base).(map[string]any) }
		emitSite := func(st site, vals []objEx) {
			for _, v := range vals {
				mk := func() map[string]any { d := baseDoc(); st.put(d, deepCopy(v.val).(map[string]any)); return d }
				if firstOp(baseDoc()) == nil {
					continue
				}
				histories := [][]any{
					nil,
					{call(mk(), nil)},
					{call(baseDoc(), nil)},
					{call(baseDoc(), [][]string{{"EnableExamplesValidation"}}), call(mk(), nil)},
					{call(baseDoc(), [][]string{{"DisableExamplesValidation"}})},
				}
				for hi, h := range histories {
					c := c04CaseL(mk(), nil, nil, fmt.Sprintf("record:%s:%s:h%d", st.name, v.name, hi))
					if h != nil {
						c["before"] = h
					}
					emit(c)
				}
			}
		}
		for _, st := range reqSites {
			emitSite(st, reqVals)
		}
		for _, st := range resSites {
			emitSite(st, resVals)
		}
	}
	// 2f. F-C04-8: calls WITH options on documents with object examples, inside the class in which the reading at the
	// example checks is known (no request body anywhere, components.responses not empty, object examples only as the
	// `example` of parameters below paths): small documents x parameter place x example value x option list
	{
		secret := func() map[string]any {
			return map[string]any{"type": "object", "required": []any{"id", "pw"}, "properties": map[string]any{
				"id": map[string]any{"type": "string"}, "pw": map[string]any{"type": "string", "writeOnly": true}}}
		}
		vals := []map[string]any{{"id": "a", "pw": "b"}, {"id": "a"}, {"pw": "b"}, {"id": "a", "pw": "b", "more": "c"}, {}}
		lists := [][][]string{{{"EnableExamplesValidation"}}, {{"DisableSchemaPatternValidation"}}, {{"AllowExtensionsWithRef"}, {"EnableSchemaFormatValidation"}},
			{{"DisableExamplesValidation"}}, {{"DisableExamplesValidation"}, {"EnableExamplesValidation"}}, {{"SetRegexCompiler", "nil"}}}
		for place := 0; place < 3; place++ {
			for vi, v := range vals {
				for li, l := range lists {
					prm := map[string]any{"name": "cred", "in": "query", "schema": secret(), "example": deepCopy(v)}
					get := map[string]any{"responses": map[string]any{"200": map[string]any{"description": "ok"}}}
					item := map[string]any{"get": get}
					paths := map[string]any{"/p": item}
					switch place {
					case 0:
						get["parameters"] = []any{prm}
					case 1:
						item["parameters"] = []any{prm}
					case 2: // an earlier path with a response of its own, and a second operation
						get["parameters"] = []any{prm}
						paths["/a"] = map[string]any{"get": map[string]any{"responses": map[string]any{"default": map[string]any{"$ref": "#/components/responses/R"}}}}
						item["put"] = map[string]any{"responses": map[string]any{"204": map[string]any{"description": "none"}}}
					}
					d := map[string]any{"openapi": "3.0.3", "info": map[string]any{"title": "t", "version": "1"},
						"components": map[string]any{"responses": map[string]any{"R": map[string]any{"description": "ok"}}}, "paths": paths}
					emit(c04CaseL(d, nil, l, fmt.Sprintf("modeleak:place%d:v%d:l%d", place, vi, li)))
				}
			}
		}
	}
	// 2d. headers that contain themselves (4c7d612): components.headers.H.content.<mt>.encoding.f.headers.X = $ref H,
	// the variant through an extension target (#/x-h/H), a cycle of two headers, H used from a response; with
	// violations in the header itself, in its media type, in its encoding object, next to the inner $ref, and under
	// a few option lists
	{
		type edit struct {
			name string
			f    func(h map[string]any)
		}
		enc := func(h map[string]any) map[string]any {
			return asMap(asMap(asMap(asMap(h["content"])["multipart/form-data"])["encoding"])["f"])
		}
		edits := []edit{
			{"none", func(h map[string]any) {}},
			{"header-extra-field", func(h map[string]any) { h["bogus"] = 1 }},
			{"header-x-ext", func(h map[string]any) { h["x-ok"] = 1 }},
			{"header-name", func(h map[string]any) { h["name"] = "X" }},
			{"header-style-matrix", func(h map[string]any) { h["style"] = "matrix" }},
			{"header-schema-too", func(h map[string]any) { h["schema"] = map[string]any{"type": "string"} }},
			{"mediatype-extra-field", func(h map[string]any) { asMap(asMap(h["content"])["multipart/form-data"])["bogus"] = 1 }},
			{"mediatype-schema-bad-default", func(h map[string]any) {
				asMap(asMap(h["content"])["multipart/form-data"])["schema"] = map[string]any{"type": "integer", "default": "x"}
			}},
			{"encoding-style-matrix", func(h map[string]any) { enc(h)["style"] = "matrix" }},
			{"encoding-extra-field", func(h map[string]any) { enc(h)["bogus"] = 1 }},
			{"inner-ref-sibling", func(h map[string]any) { asMap(asMap(enc(h)["headers"])["X"])["bogus"] = 1 }},
			{"inner-header-bad-key", func(h map[string]any) {
				hs := asMap(enc(h)["headers"])
				hs["bad key!"] = hs["X"]
			}},
			{"second-inline-header-named", func(h map[string]any) {
				asMap(enc(h)["headers"])["Y"] = map[string]any{"name": "Y", "schema": map[string]any{"type": "string"}}
			}},
		}
		hdr := func(ref string) map[string]any {
			return map[string]any{"content": map[string]any{"multipart/form-data": map[string]any{
				"schema":   map[string]any{"type": "object"},
				"encoding": map[string]any{"f": map[string]any{"headers": map[string]any{"X": map[string]any{"$ref": ref}}}}}}}
		}
		lists := [][][]string{{}, {{"DisableExamplesValidation"}}, {{"DisableSchemaDefaultsValidation"}}, {{"AllowExtraSiblingFields", "bogus"}},
			{{"ProhibitExtensionsWithRef"}, {"AllowExtraSiblingFields", "bogus"}}}
		usePath := map[string]any{"/c": map[string]any{"get": map[string]any{"responses": map[string]any{"200": map[string]any{
			"description": "d", "headers": map[string]any{"X-Use": map[string]any{"$ref": "#/components/headers/H"}}}}}}}
		for vi, variant := range []string{"self", "extension-target", "two-cycle", "self-used-from-response"} {
			for ei, e := range edits {
				for li, l := range lists {
					if !ctx.Thorough() && li > 0 && (vi+ei+li)%3 != 0 {
						continue
					}
					d := map[string]any{"openapi": "3.0.3", "info": map[string]any{"title": "t", "version": "1"}, "paths": map[string]any{}}
					switch variant {
					case "self", "self-used-from-response":
						h := hdr("#/components/headers/H")
						e.f(h)
						d["components"] = map[string]any{"headers": map[string]any{"H": h}}
						if variant == "self-used-from-response" {
							d["paths"] = deepCopy(usePath)
						}
					case "extension-target":
						h := hdr("#/x-h/H")
						e.f(h)
						d["x-h"] = map[string]any{"H": h}
						d["components"] = map[string]any{"headers": map[string]any{"K": map[string]any{"$ref": "#/x-h/H"}}}
					case "two-cycle":
						a, b := hdr("#/components/headers/B"), hdr("#/components/headers/A")
						e.f(b)
						d["components"] = map[string]any{"headers": map[string]any{"A": a, "B": b}}
					}
					emit(c04CaseL(d, nil, l, "cyclic-header:"+variant+":"+e.name))
				}
			}
		}
	}
	// 3. seeded stream: 1–3 injections at random sites (re-walked after each), random options
	r := ctx.Rng
	count := 1200
	if ctx.Thorough() {
		count = 10000
	}
	for i := 0; i < count; i++ {
		b := &c04Builder{doc: deepCopy(base).(map[string]any)}
		k := 1 + r.Intn(3)
		tag := ""
		for j := 0; j < k; j++ {
			ss := c04Sites(b.doc)
			for try := 0; try < 20; try++ {
				s := ss[r.Intn(len(ss))]
				cands := byClass[s.class]
				if len(cands) == 0 {
					continue
				}
				inj := cands[r.Intn(len(cands))]
				if applyInjection(b, inj, s) {
					tag += inj.name + "@" + s.class + ";"
					break
				}
			}
		}
		mask, al, ex := r.Intn(32), allowSets[r.Intn(len(allowSets))], r.Bool()
		if !c04InFragment(b.doc) {
			continue
		}
		if i%2 == 0 {
			emit(c04Case(b.doc, b.detach, c04OptSet(mask, al), "rnd:"+tag, ex))
		} else {
			var list [][]string
			for n := r.Intn(4); n > 0; n-- {
				e := c04Ctors[r.Intn(len(c04Ctors))]
				if e[0] == "SetRegexCompiler" && e[1] == "permissive" {
					e = []string{"SetRegexCompiler", "nil"} // (the permissive engine only meets patterns unique to a case)
				}
				list = append(list, e)
			}
			emit(c04CaseL(b.doc, b.detach, list, "rndlist:"+tag))
		}
	}
}

// ---------------------------------------------------------------- shrinking

func shrinkC04(c hx.Case) []hx.Case {
	var out []hx.Case
	doc, _ := c["doc"].(map[string]any)
	if doc == nil {
		return nil
	}
	// delete one key / one element anywhere (bounded)
	var paths [][]any
	var walk func(v any, p []any, depth int)
	walk = func(v any, p []any, depth int) {
		if len(paths) > 400 || depth > 9 {
			return
		}
		switch x := v.(type) {
		case map[string]any:
			for _, k := range sortedKeys(x) {
				paths = append(paths, append(append([]any{}, p...), k))
				walk(x[k], append(append([]any{}, p...), k), depth+1)
			}
		case []any:
			for i := range x {
				paths = append(paths, append(append([]any{}, p...), i))
				walk(x[i], append(append([]any{}, p...), i), depth+1)
			}
		}
	}
	walk(doc, nil, 0)
	sort.SliceStable(paths, func(i, j int) bool { return len(paths[i]) < len(paths[j]) })
	for _, p := range paths {
		nd := deepCopy(doc).(map[string]any)
		parent := at(nd, p[:len(p)-1])
		switch k := p[len(p)-1].(type) {
		case string:
			delete(asMap(parent), k)
		case int:
			l := jlist(parent)
			nl := append(append([]any{}, l[:k]...), l[k+1:]...)
			if len(p) == 1 {
				continue
			}
			setAt(nd, p[:len(p)-1], nl)
		}
		x := cloneCase(c)
		x["doc"] = nd
		x["tag"] = "shrunk:" + strings.TrimPrefix(jstr(c, "tag"), "shrunk:")
		out = append(out, x)
	}
	if l := jlist(c["optlist"]); len(l) > 0 {
		for i := range l {
			x := cloneCase(c)
			x["optlist"] = append(append([]any{}, l[:i]...), l[i+1:]...)
			out = append(out, x)
		}
	}
	// (the earlier calls of a sequence are never dropped while shrinking: candidates are evaluated in this process, in
	// which the earlier calls of the original case have already happened — a variant without them could fail here and
	// pass when replayed in a fresh process)
	if len(jlist(c["detach"])) > 0 {
		x := cloneCase(c)
		x["detach"] = []any{}
		out = append(out, x)
	}
	return out
}
